package fakedb

import (
	"encoding/json"
	"fmt"
	"sort"
	"strings"
)

// NodeSpec, EdgeSpec, GraphSpec and Spec are a plain description of a database. Props values are
// stored as given (deep-copied); use Go values of the types the code under test would see from a
// driver (string, bool, int64, float64, nil, []any, map[string]any, typed slices …).
type NodeSpec struct {
	ID    uint64         `json:"id"`
	Kinds []string       `json:"kinds,omitempty"`
	Props map[string]any `json:"props,omitempty"`
}

// EdgeSpec: ID 0 means "assign the next free relationship id" (in slice order, after all explicit ids).
type EdgeSpec struct {
	ID    uint64         `json:"id,omitempty"`
	Start uint64         `json:"start"`
	End   uint64         `json:"end"`
	Kind  string         `json:"kind"`
	Props map[string]any `json:"props,omitempty"`
}

type GraphSpec struct {
	Name  string     `json:"name"`
	Nodes []NodeSpec `json:"nodes,omitempty"`
	Edges []EdgeSpec `json:"edges,omitempty"`
}

type Spec struct {
	Graphs []GraphSpec `json:"graphs"`
}

// FromSpec builds a database from a description. The first graph becomes the default graph.
func FromSpec(spec Spec, opts ...Option) (*DB, error) {
	d := New(opts...)
	if err := d.Seed(spec); err != nil {
		return nil, err
	}
	return d, nil
}

// MustFromSpec is FromSpec for specs that are known to be valid.
func MustFromSpec(spec Spec, opts ...Option) *DB {
	d, err := FromSpec(spec, opts...)
	if err != nil {
		panic(err)
	}
	return d
}

// Seed adds the described graphs. Node ids must be unique database-wide and non-zero, relationship
// ids likewise; endpoints must exist in the same graph; without WithMultiEdges a (start, end, kind)
// triple may occur once per graph. Seeding is not recorded in the mutation log.
func (d *DB) Seed(spec Spec) error {
	d.mu.Lock()
	defer d.mu.Unlock()
	nodeIDs := map[uint64]string{}
	edgeIDs := map[uint64]string{}
	for _, g := range d.graphs {
		for id := range g.nodes {
			nodeIDs[id] = g.name
		}
		for id := range g.edges {
			edgeIDs[id] = g.name
		}
	}
	// validate first, then apply: a failed Seed leaves the database untouched
	for _, gs := range spec.Graphs {
		if gs.Name == "" {
			return fmt.Errorf("fakedb: seed: graph name is empty")
		}
		local := map[uint64]struct{}{}
		if g := d.graphs[gs.Name]; g != nil {
			for id := range g.nodes {
				local[id] = struct{}{}
			}
		}
		for _, n := range gs.Nodes {
			if other, dup := nodeIDs[n.ID]; dup {
				return fmt.Errorf("fakedb: seed: node id %d used twice (graphs %q and %q)", n.ID, other, gs.Name)
			}
			nodeIDs[n.ID] = gs.Name
			local[n.ID] = struct{}{}
		}
		keys := map[edgeKey]struct{}{}
		if g := d.graphs[gs.Name]; g != nil {
			for k := range g.byKey {
				keys[k] = struct{}{}
			}
		}
		for _, e := range gs.Edges {
			if _, ok := local[e.Start]; !ok {
				return fmt.Errorf("fakedb: seed: relationship start %d not in graph %q", e.Start, gs.Name)
			}
			if _, ok := local[e.End]; !ok {
				return fmt.Errorf("fakedb: seed: relationship end %d not in graph %q", e.End, gs.Name)
			}
			if e.Kind == "" {
				return fmt.Errorf("fakedb: seed: relationship without a kind in graph %q", gs.Name)
			}
			if e.ID != 0 {
				if other, dup := edgeIDs[e.ID]; dup {
					return fmt.Errorf("fakedb: seed: relationship id %d used twice (graphs %q and %q)", e.ID, other, gs.Name)
				}
				edgeIDs[e.ID] = gs.Name
			}
			if !d.multiEdges {
				k := edgeKey{e.Start, e.End, e.Kind}
				if _, dup := keys[k]; dup {
					return fmt.Errorf("fakedb: seed: duplicate relationship (%d)-[%s]->(%d) in graph %q", e.Start, e.Kind, e.End, gs.Name)
				}
				keys[k] = struct{}{}
			}
		}
	}
	for id := range nodeIDs {
		if id >= d.nextNode {
			d.nextNode = id + 1
		}
	}
	for id := range edgeIDs {
		if id >= d.nextEdge {
			d.nextEdge = id + 1
		}
	}
	for _, gs := range spec.Graphs {
		g := d.graphLocked(gs.Name, true)
		if d.defaultGraph == "" {
			d.defaultGraph = gs.Name
		}
		for _, n := range gs.Nodes {
			kinds := make([]string, 0, len(n.Kinds))
			seen := map[string]struct{}{}
			for _, k := range n.Kinds {
				if _, dup := seen[k]; !dup {
					seen[k] = struct{}{}
					kinds = append(kinds, k)
				}
			}
			g.nodes[n.ID] = &nodeRec{id: n.ID, kinds: kinds, props: cloneProps(n.Props)}
			d.registerKindsLocked(kinds...)
		}
		for _, e := range gs.Edges {
			id := e.ID
			if id == 0 {
				id = d.nextEdge
				d.nextEdge++
			}
			g.edges[id] = &edgeRec{id: id, start: e.Start, end: e.End, kind: e.Kind, props: cloneProps(e.Props)}
			if !d.multiEdges {
				g.byKey[edgeKey{e.Start, e.End, e.Kind}] = id
			}
			d.registerKindsLocked(e.Kind)
		}
	}
	return nil
}

// ---- snapshots ---------------------------------------------------------------------------------

// NodeSnap / EdgeSnap / GraphSnap are a canonical, comparable picture of one graph: nodes and
// relationships in ascending id order, kinds sorted, property values deep-copied.
type NodeSnap struct {
	ID    uint64
	Kinds []string
	Props map[string]any
}

type EdgeSnap struct {
	ID, Start, End uint64
	Kind           string
	Props          map[string]any
}

type GraphSnap struct {
	Name  string
	Nodes []NodeSnap
	Edges []EdgeSnap
}

// Snapshot returns the canonical picture of one graph (empty when the graph does not exist).
func (d *DB) Snapshot(graphName string) GraphSnap {
	d.mu.RLock()
	defer d.mu.RUnlock()
	return d.snapshotLocked(graphName)
}

func (d *DB) snapshotLocked(graphName string) GraphSnap {
	out := GraphSnap{Name: graphName}
	g := d.graphs[graphName]
	if g == nil {
		return out
	}
	for _, n := range g.nodes {
		kinds := append([]string{}, n.kinds...)
		sort.Strings(kinds)
		out.Nodes = append(out.Nodes, NodeSnap{ID: n.id, Kinds: kinds, Props: cloneProps(n.props)})
	}
	sort.Slice(out.Nodes, func(i, j int) bool { return out.Nodes[i].ID < out.Nodes[j].ID })
	for _, e := range g.edges {
		out.Edges = append(out.Edges, EdgeSnap{ID: e.id, Start: e.start, End: e.end, Kind: e.kind, Props: cloneProps(e.props)})
	}
	sort.Slice(out.Edges, func(i, j int) bool { return out.Edges[i].ID < out.Edges[j].ID })
	return out
}

// SnapshotAll returns every graph, sorted by name, taken atomically.
func (d *DB) SnapshotAll() []GraphSnap {
	d.mu.RLock()
	defer d.mu.RUnlock()
	names := append([]string(nil), d.order...)
	sort.Strings(names)
	out := make([]GraphSnap, 0, len(names))
	for _, n := range names {
		out = append(out, d.snapshotLocked(n))
	}
	return out
}

// Counts returns the number of nodes and relationships of one graph.
func (d *DB) Counts(graphName string) (nodes, edges int) {
	d.mu.RLock()
	defer d.mu.RUnlock()
	if g := d.graphs[graphName]; g != nil {
		return len(g.nodes), len(g.edges)
	}
	return 0, 0
}

// Spec converts the snapshot back into a seed description (ids kept).
func (s GraphSnap) Spec() GraphSpec {
	gs := GraphSpec{Name: s.Name}
	for _, n := range s.Nodes {
		gs.Nodes = append(gs.Nodes, NodeSpec{ID: n.ID, Kinds: n.Kinds, Props: n.Props})
	}
	for _, e := range s.Edges {
		gs.Edges = append(gs.Edges, EdgeSpec{ID: e.ID, Start: e.Start, End: e.End, Kind: e.Kind, Props: e.Props})
	}
	return gs
}

// Fingerprint is an id-independent canonical text of the graph: one line per node
// "kinds|props-json" and per relationship "kind|props-json|start-node-line|end-node-line",
// sorted. Two graphs with equal fingerprints are equal as multisets of described entities (this is
// isomorphism when node lines are unique). Property values are rendered with encoding/json, so it
// is meant for values that survive JSON encoding.
func (s GraphSnap) Fingerprint() string {
	nodeLine := map[uint64]string{}
	var lines []string
	for _, n := range s.Nodes {
		l := "N|" + strings.Join(n.Kinds, ",") + "|" + jsonText(n.Props)
		nodeLine[n.ID] = l
		lines = append(lines, l)
	}
	for _, e := range s.Edges {
		lines = append(lines, "E|"+e.Kind+"|"+jsonText(e.Props)+"|"+nodeLine[e.Start]+"|"+nodeLine[e.End])
	}
	sort.Strings(lines)
	return strings.Join(lines, "\n")
}

func jsonText(v any) string {
	b, err := json.Marshal(v)
	if err != nil {
		return fmt.Sprintf("!%v", err)
	}
	return string(b)
}
