package fakedb

import (
	"context"
	"fmt"
	"reflect"
	"sort"
	"sync"

	"github.com/specterops/dawgs/graph"
	"github.com/specterops/dawgs/util/size"
)

// UnsupportedError marks a request the fake does not model. It is a harness condition, never a
// verdict about DAWGS.
type UnsupportedError struct{ What string }

func (e *UnsupportedError) Error() string { return "fakedb: unsupported " + e.What }

// Op names an operation class for fault injection and for call counting.
type Op string

const (
	OpReadTx       Op = "read_tx"             // ReadTransaction opened
	OpWriteTx      Op = "write_tx"            // WriteTransaction opened
	OpBatch        Op = "batch"               // BatchOperation opened
	OpQuery        Op = "query"               // any query execution (count or fetch)
	OpCount        Op = "count"               // Count()
	OpFetch        Op = "fetch"               // First/Fetch*/Query
	OpRecord       Op = "record"              // one record delivered by a cursor/result (database-wide counter)
	OpCreateNode   Op = "create_node"         // Transaction.CreateNode / Batch.CreateNode call
	OpCreateNodes  Op = "create_nodes"        // Batch.CreateNodes call (bulk)
	OpCreateRel    Op = "create_relationship" // CreateRelationship[ByIDs] call
	OpFlush        Op = "flush"               // a batch buffer flush that has something to write
	OpWrite        Op = "write"               // one entity write about to be applied
	OpCommit       Op = "commit"              // transaction or batch commit
	OpAssertSchema Op = "assert_schema"       // AssertSchema call
)

// Event describes one occurrence of an operation to a fault callback.
type Event struct {
	Op    Op
	N     int    // 1-based occurrence number of Op on this database
	Graph string // target graph when known
}

// Fault is one entry of the fault plan. When the N-th occurrence of Op happens (or every
// occurrence from the N-th on when Repeat is set): Call is invoked (its non-nil error is
// injected), Cancel is invoked, and Err — if non-nil — is returned from the operation.
type Fault struct {
	Op     Op
	N      int
	Repeat bool
	Err    error
	Cancel context.CancelFunc
	Call   func(Event) error
}

// Mutation is one entry of the mutation log.
type Mutation struct {
	Seq      uint64 `json:"seq"`
	Kind     string `json:"kind"` // create_node update_node delete_node create_relationship update_relationship delete_relationship
	Graph    string `json:"graph"`
	ID       uint64 `json:"id"`
	StartID  uint64 `json:"start_id,omitempty"`
	EndID    uint64 `json:"end_id,omitempty"`
	Via      string `json:"via"` // tx | batch
	Rollback bool   `json:"rollback,omitempty"`
}

type nodeRec struct {
	id    uint64
	kinds []string // as given (order kept, duplicates removed)
	props map[string]any
}

type edgeRec struct {
	id         uint64
	start, end uint64
	kind       string
	props      map[string]any
}

type edgeKey struct {
	start, end uint64
	kind       string
}

type graphStore struct {
	name  string
	nodes map[uint64]*nodeRec
	edges map[uint64]*edgeRec
	byKey map[edgeKey]uint64
}

func newGraphStore(name string) *graphStore {
	return &graphStore{name: name, nodes: map[uint64]*nodeRec{}, edges: map[uint64]*edgeRec{}, byKey: map[edgeKey]uint64{}}
}

// Option configures a DB.
type Option func(*DB)

// WithMultiEdges disables the (start, end, kind) uniqueness of relationships.
func WithMultiEdges(on bool) Option { return func(d *DB) { d.multiEdges = on } }

// WithShuffle delivers results of queries without an ORDER BY in a deterministic pseudo-random
// order derived from seed (0 = ascending id order).
func WithShuffle(seed uint64) Option { return func(d *DB) { d.shuffle = seed } }

// WithFirstID sets the id the database hands to the first node and to the first relationship it creates (default 1,
// as a PostgreSQL sequence does; Neo4j numbers from 0).
func WithFirstID(id uint64) Option { return func(d *DB) { d.nextNode, d.nextEdge = id, id } }

// WithPanicOnUnsupported makes every unsupported request panic with the *UnsupportedError.
func WithPanicOnUnsupported(on bool) Option { return func(d *DB) { d.panicUnsupported = on } }

// WithMemoryLimit sets Transaction.GraphQueryMemoryLimit (default 0 = unlimited).
func WithMemoryLimit(limit size.Size) Option { return func(d *DB) { d.memLimit = limit } }

// DB is the in-memory database.
type DB struct {
	mu           sync.RWMutex
	graphs       map[string]*graphStore
	order        []string // creation order of graphs
	defaultGraph string
	nextNode     uint64
	nextEdge     uint64
	kinds        map[string]struct{}
	log          []Mutation
	seq          uint64
	writes       int
	schemaLog    []graph.Schema
	closed       bool

	fmu         sync.Mutex
	faults      []Fault
	counts      map[Op]int
	unsupported []string

	multiEdges       bool
	shuffle          uint64
	panicUnsupported bool
	memLimit         size.Size
	batchWriteSize   int
}

var _ graph.Database = (*DB)(nil)

// New returns an empty database.
func New(opts ...Option) *DB {
	d := &DB{graphs: map[string]*graphStore{}, kinds: map[string]struct{}{}, counts: map[Op]int{}, nextNode: 1, nextEdge: 1, batchWriteSize: 1000}
	for _, o := range opts {
		o(d)
	}
	return d
}

// ---- fault plan ------------------------------------------------------------------------------

// Inject adds entries to the fault plan.
func (d *DB) Inject(faults ...Fault) {
	d.fmu.Lock()
	defer d.fmu.Unlock()
	d.faults = append(d.faults, faults...)
}

// InjectError is shorthand for Inject(Fault{Op: op, N: n, Err: err}).
func (d *DB) InjectError(op Op, n int, err error) { d.Inject(Fault{Op: op, N: n, Err: err}) }

// ClearFaults removes the fault plan (counters are kept).
func (d *DB) ClearFaults() {
	d.fmu.Lock()
	defer d.fmu.Unlock()
	d.faults = nil
}

// ResetCounts zeroes the operation counters.
func (d *DB) ResetCounts() {
	d.fmu.Lock()
	defer d.fmu.Unlock()
	d.counts = map[Op]int{}
}

// OpCount reports how often op has happened so far.
func (d *DB) OpCount(op Op) int {
	d.fmu.Lock()
	defer d.fmu.Unlock()
	return d.counts[op]
}

// OpCounts returns a copy of all operation counters.
func (d *DB) OpCounts() map[Op]int {
	d.fmu.Lock()
	defer d.fmu.Unlock()
	out := make(map[Op]int, len(d.counts))
	for k, v := range d.counts {
		out[k] = v
	}
	return out
}

// hit counts one occurrence of op and applies the fault plan. Must not be called with d.mu held
// (callbacks may use the database).
func (d *DB) hit(op Op, graphName string) error {
	d.fmu.Lock()
	d.counts[op]++
	n := d.counts[op]
	var due []Fault
	for _, f := range d.faults {
		if f.Op == op && (f.N == n || (f.Repeat && n >= f.N)) {
			due = append(due, f)
		}
	}
	d.fmu.Unlock()
	var err error
	for _, f := range due {
		if f.Call != nil {
			if cerr := f.Call(Event{Op: op, N: n, Graph: graphName}); cerr != nil && err == nil {
				err = cerr
			}
		}
		if f.Cancel != nil {
			f.Cancel()
		}
		if f.Err != nil && err == nil {
			err = f.Err
		}
	}
	return err
}

func (d *DB) unsupportedf(format string, args ...any) error {
	e := &UnsupportedError{What: fmt.Sprintf(format, args...)}
	d.fmu.Lock()
	d.unsupported = append(d.unsupported, e.What)
	d.fmu.Unlock()
	if d.panicUnsupported {
		panic(e)
	}
	return e
}

// Unsupported lists every unsupported request seen so far (empty = the fake modelled everything
// it was asked).
func (d *DB) Unsupported() []string {
	d.fmu.Lock()
	defer d.fmu.Unlock()
	return append([]string(nil), d.unsupported...)
}

// ---- mutation log ----------------------------------------------------------------------------

// Mutations returns a copy of the mutation log.
func (d *DB) Mutations() []Mutation {
	d.mu.RLock()
	defer d.mu.RUnlock()
	return append([]Mutation(nil), d.log...)
}

// WriteCount is the number of forward (non-rollback) entity writes applied since creation or the
// last ResetLog. Seeding does not count.
func (d *DB) WriteCount() int {
	d.mu.RLock()
	defer d.mu.RUnlock()
	return d.writes
}

// SchemaLog returns the schemas passed to AssertSchema so far.
func (d *DB) SchemaLog() []graph.Schema {
	d.mu.RLock()
	defer d.mu.RUnlock()
	return append([]graph.Schema(nil), d.schemaLog...)
}

// ResetLog clears the mutation log, the write counter and the schema log.
func (d *DB) ResetLog() {
	d.mu.Lock()
	defer d.mu.Unlock()
	d.log, d.writes, d.schemaLog = nil, 0, nil
}

func (d *DB) logLocked(m Mutation) {
	d.seq++
	m.Seq = d.seq
	d.log = append(d.log, m)
	if !m.Rollback {
		d.writes++
	}
}

// ---- graph bookkeeping -----------------------------------------------------------------------

func (d *DB) graphLocked(name string, create bool) *graphStore {
	g := d.graphs[name]
	if g == nil && create {
		g = newGraphStore(name)
		d.graphs[name] = g
		d.order = append(d.order, name)
	}
	return g
}

// GraphNames lists the graphs in creation order.
func (d *DB) GraphNames() []string {
	d.mu.RLock()
	defer d.mu.RUnlock()
	return append([]string(nil), d.order...)
}

// DefaultGraph returns the default graph name ("" when unset).
func (d *DB) DefaultGraph() string {
	d.mu.RLock()
	defer d.mu.RUnlock()
	return d.defaultGraph
}

func (d *DB) registerKindsLocked(kinds ...string) {
	for _, k := range kinds {
		d.kinds[k] = struct{}{}
	}
}

// ---- graph.Database --------------------------------------------------------------------------

func (d *DB) SetWriteFlushSize(int) {}

func (d *DB) SetBatchWriteSize(interval int) {
	d.mu.Lock()
	defer d.mu.Unlock()
	if interval > 0 {
		d.batchWriteSize = interval
	}
}

func (d *DB) ReadTransaction(ctx context.Context, txDelegate graph.TransactionDelegate, _ ...graph.TransactionOption) error {
	if err := ctx.Err(); err != nil {
		return err
	}
	if err := d.hit(OpReadTx, ""); err != nil {
		return err
	}
	return txDelegate(&tx{db: d, ctx: ctx, via: "tx"})
}

func (d *DB) WriteTransaction(ctx context.Context, txDelegate graph.TransactionDelegate, _ ...graph.TransactionOption) error {
	if err := ctx.Err(); err != nil {
		return err
	}
	if err := d.hit(OpWriteTx, ""); err != nil {
		return err
	}
	t := &tx{db: d, ctx: ctx, via: "tx", writable: true}
	if err := txDelegate(t); err != nil {
		t.rollback()
		return err
	}
	if err := t.Commit(); err != nil {
		t.rollback()
		return err
	}
	return nil
}

func (d *DB) BatchOperation(ctx context.Context, batchDelegate graph.BatchDelegate, options ...graph.BatchOption) error {
	if err := ctx.Err(); err != nil {
		return err
	}
	d.mu.RLock()
	cfg := &graph.BatchConfig{BatchSize: d.batchWriteSize}
	d.mu.RUnlock()
	for _, o := range options {
		o(cfg)
	}
	if err := d.hit(OpBatch, ""); err != nil {
		return err
	}
	b := &batch{inner: &tx{db: d, ctx: ctx, via: "batch", writable: true}, size: cfg.BatchSize}
	if err := batchDelegate(b); err != nil {
		return err // buffered, unflushed writes are dropped
	}
	return b.Commit()
}

func (d *DB) AssertSchema(_ context.Context, dbSchema graph.Schema) error {
	if err := d.hit(OpAssertSchema, dbSchema.DefaultGraph.Name); err != nil {
		return err
	}
	d.mu.Lock()
	defer d.mu.Unlock()
	d.schemaLog = append(d.schemaLog, dbSchema)
	for _, g := range dbSchema.Graphs {
		d.graphLocked(g.Name, true)
		d.registerKindsLocked(g.Nodes.Strings()...)
		d.registerKindsLocked(g.Edges.Strings()...)
	}
	if dbSchema.DefaultGraph.Name != "" {
		d.graphLocked(dbSchema.DefaultGraph.Name, true)
		d.registerKindsLocked(dbSchema.DefaultGraph.Nodes.Strings()...)
		d.registerKindsLocked(dbSchema.DefaultGraph.Edges.Strings()...)
		d.defaultGraph = dbSchema.DefaultGraph.Name
	}
	return nil
}

func (d *DB) SetDefaultGraph(_ context.Context, graphSchema graph.Graph) error {
	d.mu.Lock()
	defer d.mu.Unlock()
	d.graphLocked(graphSchema.Name, true)
	d.defaultGraph = graphSchema.Name
	return nil
}

func (d *DB) Run(context.Context, string, map[string]any) error {
	return d.unsupportedf("Database.Run")
}

func (d *DB) Close(context.Context) error {
	d.mu.Lock()
	defer d.mu.Unlock()
	d.closed = true
	return nil
}

func (d *DB) FetchKinds(context.Context) (graph.Kinds, error) {
	d.mu.RLock()
	defer d.mu.RUnlock()
	names := make([]string, 0, len(d.kinds))
	for k := range d.kinds {
		names = append(names, k)
	}
	sort.Strings(names)
	return graph.StringsToKinds(names), nil
}

func (d *DB) RefreshKinds(context.Context) error    { return nil }
func (d *DB) OptimizeStorage(context.Context) error { return nil }

// ---- value helpers ---------------------------------------------------------------------------

// cloneValue deep-copies maps and slices of any element type; scalars are returned as is.
func cloneValue(v any) any {
	switch t := v.(type) {
	case nil, bool, string, int, int8, int16, int32, int64, uint, uint8, uint16, uint32, uint64, float32, float64, graph.ID:
		return v
	case map[string]any:
		out := make(map[string]any, len(t))
		for k, e := range t {
			out[k] = cloneValue(e)
		}
		return out
	case []any:
		out := make([]any, len(t))
		for i, e := range t {
			out[i] = cloneValue(e)
		}
		return out
	case []string:
		return append([]string{}, t...)
	}
	rv := reflect.ValueOf(v)
	switch rv.Kind() {
	case reflect.Slice:
		if rv.IsNil() {
			return v
		}
		out := reflect.MakeSlice(rv.Type(), rv.Len(), rv.Len())
		for i := 0; i < rv.Len(); i++ {
			c := cloneValue(rv.Index(i).Interface())
			if c == nil {
				continue
			}
			out.Index(i).Set(reflect.ValueOf(c))
		}
		return out.Interface()
	case reflect.Map:
		if rv.IsNil() {
			return v
		}
		out := reflect.MakeMapWithSize(rv.Type(), rv.Len())
		it := rv.MapRange()
		for it.Next() {
			c := cloneValue(it.Value().Interface())
			if c == nil {
				out.SetMapIndex(it.Key(), reflect.Zero(rv.Type().Elem()))
				continue
			}
			out.SetMapIndex(it.Key(), reflect.ValueOf(c))
		}
		return out.Interface()
	}
	return v
}

func cloneProps(p map[string]any) map[string]any {
	out := make(map[string]any, len(p))
	for k, v := range p {
		out[k] = cloneValue(v)
	}
	return out
}

func propsOf(p *graph.Properties) map[string]any {
	if p == nil {
		return map[string]any{}
	}
	return cloneProps(p.Map)
}

func dedupKinds(kinds graph.Kinds) []string {
	out := make([]string, 0, len(kinds))
	seen := map[string]struct{}{}
	for _, k := range kinds {
		if k == nil {
			continue
		}
		s := k.String()
		if _, dup := seen[s]; dup {
			continue
		}
		seen[s] = struct{}{}
		out = append(out, s)
	}
	return out
}

func (n *nodeRec) export() *graph.Node {
	return graph.NewNode(graph.ID(n.id), graph.AsProperties(cloneProps(n.props)), graph.StringsToKinds(n.kinds)...)
}

func (e *edgeRec) export() *graph.Relationship {
	return graph.NewRelationship(graph.ID(e.id), graph.ID(e.start), graph.ID(e.end), graph.AsProperties(cloneProps(e.props)), graph.StringKind(e.kind))
}
