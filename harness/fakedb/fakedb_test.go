package fakedb

import (
	"context"
	"errors"
	"reflect"
	"strings"
	"sync"
	"testing"

	"github.com/specterops/dawgs/graph"
	"github.com/specterops/dawgs/ops"
	"github.com/specterops/dawgs/query"
)

func testSpec() Spec {
	return Spec{Graphs: []GraphSpec{
		{Name: "g1", Nodes: []NodeSpec{
			{ID: 3, Kinds: []string{"A"}, Props: map[string]any{"name": "n3", "v": int64(3)}},
			{ID: 7, Kinds: []string{"A", "B"}, Props: map[string]any{"name": "n7", "v": int64(7), "tags": []any{"x", "y"}}},
			{ID: 20, Props: map[string]any{"name": "n20"}},
			{ID: 21, Kinds: []string{"B"}},
		}, Edges: []EdgeSpec{
			{ID: 5, Start: 3, End: 7, Kind: "R", Props: map[string]any{"w": 1.5}},
			{ID: 9, Start: 3, End: 7, Kind: "S"},
			{ID: 11, Start: 7, End: 20, Kind: "R"},
			{Start: 20, End: 20, Kind: "T"},
		}},
		{Name: "g2", Nodes: []NodeSpec{{ID: 100, Kinds: []string{"C"}}}},
	}}
}

func ids(nodes []*graph.Node) []uint64 {
	out := []uint64{}
	for _, n := range nodes {
		out = append(out, n.ID.Uint64())
	}
	return out
}

func TestQueries(t *testing.T) {
	db := MustFromSpec(testSpec())
	ctx := context.Background()
	err := db.ReadTransaction(ctx, func(tx graph.Transaction) error {
		tx = tx.WithGraph(graph.Graph{Name: "g1"})
		if n, err := tx.Nodes().Count(); err != nil || n != 4 {
			t.Fatalf("count nodes %d %v", n, err)
		}
		if n, err := tx.Relationships().Count(); err != nil || n != 4 {
			t.Fatalf("count rels %d %v", n, err)
		}
		nodes, err := ops.FetchNodes(tx.Nodes().OrderBy(query.NodeID()).Limit(2).Filter(query.GreaterThan(query.NodeID(), graph.ID(3))))
		if err != nil || !reflect.DeepEqual(ids(nodes), []uint64{7, 20}) {
			t.Fatalf("keyset: %v %v", ids(nodes), err)
		}
		nodes, err = ops.FetchNodes(tx.Nodes().Filter(query.And(query.InIDs(query.NodeID(), 3, 7, 21), query.KindIn(query.Node(), graph.StringKind("B")))))
		if err != nil || !reflect.DeepEqual(ids(nodes), []uint64{7, 21}) {
			t.Fatalf("in+kind: %v %v", ids(nodes), err)
		}
		first, err := tx.Nodes().OrderBy(query.Order(query.NodeID(), query.Descending())).Limit(1).First()
		if err != nil || first.ID != 21 {
			t.Fatalf("largest: %v %v", first, err)
		}
		if _, err := tx.Nodes().Filter(query.Equals(query.NodeID(), graph.ID(999))).First(); !graph.IsErrNotFound(err) {
			t.Fatalf("first on empty: %v", err)
		}
		rels, err := ops.FetchRelationships(tx.Relationships().Filter(query.And(query.Equals(query.StartID(), graph.ID(3)), query.KindIn(query.Relationship(), graph.StringKind("S")))))
		if err != nil || len(rels) != 1 || rels[0].ID != 9 {
			t.Fatalf("rels: %v %v", rels, err)
		}
		ends, err := ops.FetchEndNodes(tx.Relationships().Filter(query.InIDs(query.StartID(), 3)))
		if err != nil || ends.Len() != 1 || ends.Get(7) == nil || ends.Get(7).Properties.Get("name").Any() != "n7" {
			t.Fatalf("end nodes: %v %v", ends, err)
		}
		// the projection used by traversal.shallowFetchRelationships
		var got []string
		err = tx.Relationships().Filter(query.Equals(query.StartID(), graph.ID(3))).OrderBy(query.Order(query.Identity(query.Relationship()), query.Ascending())).Query(func(res graph.Result) error {
			var (
				nodeID, edgeID graph.ID
				kinds          graph.Kinds
				kind           graph.Kind
			)
			for res.Next() {
				if err := res.Scan(&nodeID, &kinds, &edgeID, &kind); err != nil {
					return err
				}
				got = append(got, nodeID.String()+":"+strings.Join(kinds.Strings(), "+")+":"+edgeID.String()+":"+kind.String())
			}
			return res.Error()
		}, query.Returning(query.EndID(), query.KindsOf(query.End()), query.RelationshipID(), query.KindsOf(query.Relationship())))
		if err != nil || !reflect.DeepEqual(got, []string{"7:A+B:5:R", "7:A+B:9:S"}) {
			t.Fatalf("shallow projection: %v %v", got, err)
		}
		ps, err := ops.FetchPathSet(tx.Relationships().Filter(query.Equals(query.RelationshipID(), graph.ID(11))))
		if err != nil || len(ps) != 1 || ps[0].Nodes[0].ID != 7 || ps[0].Nodes[1].ID != 20 {
			t.Fatalf("path set: %v %v", ps, err)
		}
		if n, err := tx.Nodes().Filter(query.Equals(query.NodeProperty("v"), 7)).Count(); err != nil || n != 1 {
			t.Fatalf("property equals: %d %v", n, err)
		}
		if n, err := tx.Nodes().Filter(query.Not(query.Exists(query.NodeProperty("v")))).Count(); err != nil || n != 2 {
			t.Fatalf("not exists: %d %v", n, err)
		}
		// writes are refused
		if _, err := tx.CreateNode(graph.NewProperties()); !errors.Is(err, ErrReadOnly) {
			t.Fatalf("read-only: %v", err)
		}
		return nil
	})
	if err != nil {
		t.Fatal(err)
	}
	// isolation of graphs and of returned copies
	_ = db.ReadTransaction(ctx, func(tx graph.Transaction) error {
		nodes, _ := ops.FetchNodes(tx.WithGraph(graph.Graph{Name: "g2"}).Nodes())
		if !reflect.DeepEqual(ids(nodes), []uint64{100}) {
			t.Fatalf("g2: %v", ids(nodes))
		}
		nodes[0].Properties.Set("hacked", true)
		return nil
	})
	if len(db.Snapshot("g2").Nodes[0].Props) != 0 {
		t.Fatal("result mutation reached the store")
	}
	if len(db.Unsupported()) != 0 {
		t.Fatalf("unsupported: %v", db.Unsupported())
	}
}

func TestUnsupportedIsLoud(t *testing.T) {
	db := MustFromSpec(testSpec())
	err := db.ReadTransaction(context.Background(), func(tx graph.Transaction) error {
		_, err := tx.Nodes().Filter(query.HasRelationships(query.Node())).Count()
		return err
	})
	var ue *UnsupportedError
	if !errors.As(err, &ue) || !strings.HasPrefix(err.Error(), "fakedb: unsupported") || len(db.Unsupported()) != 1 {
		t.Fatalf("want unsupported error, got %v / %v", err, db.Unsupported())
	}
}

func TestWritesLogRollbackFaults(t *testing.T) {
	db := MustFromSpec(testSpec())
	ctx := context.Background()
	var newIDs []graph.ID
	err := db.BatchOperation(ctx, func(b graph.Batch) error {
		b = b.WithGraph(graph.Graph{Name: "g2"})
		var err error
		newIDs, err = b.(graph.NodeBatchCreator).CreateNodes([]*graph.Node{
			graph.NewNode(0, graph.AsProperties(map[string]any{"k": "a"}), graph.StringKind("C")),
			graph.NewNode(0, nil),
		})
		if err != nil {
			return err
		}
		if err := b.CreateRelationshipByIDs(newIDs[0], newIDs[1], graph.StringKind("R"), graph.AsProperties(map[string]any{"a": 1})); err != nil {
			return err
		}
		// same (start,end,kind): merged into the first one
		return b.CreateRelationshipByIDs(newIDs[0], newIDs[1], graph.StringKind("R"), graph.AsProperties(map[string]any{"b": 2}))
	}, graph.WithBatchSize(10))
	if err != nil {
		t.Fatal(err)
	}
	if !reflect.DeepEqual(newIDs, []graph.ID{101, 102}) {
		t.Fatalf("ids %v", newIDs)
	}
	snap := db.Snapshot("g2")
	if len(snap.Edges) != 1 || !reflect.DeepEqual(snap.Edges[0].Props, map[string]any{"a": 1, "b": 2}) {
		t.Fatalf("upsert: %+v", snap.Edges)
	}
	if db.WriteCount() != 4 || db.Mutations()[3].Kind != "update_relationship" {
		t.Fatalf("log: %+v", db.Mutations())
	}
	// missing endpoint
	err = db.BatchOperation(ctx, func(b graph.Batch) error {
		return b.WithGraph(graph.Graph{Name: "g2"}).CreateRelationshipByIDs(3, 100, graph.StringKind("R"), nil)
	})
	if err == nil || !strings.Contains(err.Error(), "does not exist") {
		t.Fatalf("cross-graph endpoint: %v", err)
	}
	// rollback
	before := db.Snapshot("g1")
	boom := errors.New("boom")
	err = db.WriteTransaction(ctx, func(tx graph.Transaction) error {
		tx = tx.WithGraph(graph.Graph{Name: "g1"})
		if _, err := tx.CreateNode(graph.AsProperties(map[string]any{"x": 1}), graph.StringKind("Z")); err != nil {
			return err
		}
		if err := tx.Nodes().Filter(query.Equals(query.NodeID(), graph.ID(7))).Delete(); err != nil {
			return err
		}
		return boom
	})
	if !errors.Is(err, boom) || !reflect.DeepEqual(before, db.Snapshot("g1")) {
		t.Fatalf("rollback failed: %v", err)
	}
	// faults: third delivered record fails
	db.ResetCounts()
	inj := errors.New("injected")
	db.InjectError(OpRecord, 3, inj)
	err = db.ReadTransaction(ctx, func(tx graph.Transaction) error {
		_, err := ops.FetchNodes(tx.WithGraph(graph.Graph{Name: "g1"}).Nodes())
		return err
	})
	if !errors.Is(err, inj) {
		t.Fatalf("record fault: %v", err)
	}
	db.ClearFaults()
	db.ResetCounts()
	cctx, cancel := context.WithCancel(ctx)
	called := 0
	db.Inject(Fault{Op: OpFetch, N: 2, Cancel: cancel, Call: func(Event) error { called++; return nil }})
	err = db.ReadTransaction(cctx, func(tx graph.Transaction) error {
		tx = tx.WithGraph(graph.Graph{Name: "g1"})
		if _, err := ops.FetchNodes(tx.Nodes()); err != nil {
			return err
		}
		_, err := ops.FetchNodes(tx.Nodes())
		return err
	})
	if called != 1 || err == nil {
		t.Fatalf("cancel fault: called=%d err=%v", called, err)
	}
}

func TestConcurrentReadersAndWriter(t *testing.T) {
	db := MustFromSpec(testSpec())
	ctx := context.Background()
	var wg sync.WaitGroup
	for w := 0; w < 6; w++ {
		wg.Add(1)
		go func() {
			defer wg.Done()
			for i := 0; i < 50; i++ {
				_ = db.ReadTransaction(ctx, func(tx graph.Transaction) error {
					tx = tx.WithGraph(graph.Graph{Name: "g1"})
					_, err := ops.FetchNodes(tx.Nodes().OrderBy(query.NodeID()))
					if err != nil {
						t.Error(err)
					}
					_, err = ops.FetchStartNodes(tx.Relationships().Filter(query.InIDs(query.EndID(), 7)))
					if err != nil {
						t.Error(err)
					}
					return nil
				})
			}
		}()
	}
	wg.Add(1)
	go func() {
		defer wg.Done()
		for i := 0; i < 50; i++ {
			_ = db.WriteTransaction(ctx, func(tx graph.Transaction) error {
				_, err := tx.WithGraph(graph.Graph{Name: "g1"}).CreateNode(graph.AsProperties(map[string]any{"i": i}))
				return err
			})
		}
	}()
	wg.Wait()
	if n, _ := db.Counts("g1"); n != 54 {
		t.Fatalf("nodes %d", n)
	}
}
