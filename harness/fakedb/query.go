package fakedb

import (
	"fmt"
	"reflect"
	"sort"
	"strings"
	"sync"
	"time"

	"github.com/specterops/dawgs/cypher/models/cypher"
	"github.com/specterops/dawgs/graph"
	"github.com/specterops/dawgs/query"
)

// binding is one candidate row: a node (node queries) or start/relationship/end.
type binding struct {
	n    *nodeRec
	r    *edgeRec
	s, e *nodeRec // may be nil when an endpoint is missing (cannot happen through this API)
}

func (b binding) id() uint64 {
	if b.r != nil {
		return b.r.id
	}
	return b.n.id
}

type evalError struct{ err error }

// queryState is the shared part of node and relationship queries.
type queryState struct {
	tx      *tx
	rel     bool
	filters []cypher.Expression
	order   []*cypher.SortItem
	skip    int
	limit   int // <0: none
	ret     *cypher.Return
	err     error
}

func newQuery(t *tx, rel bool) *queryState { return &queryState{tx: t, rel: rel, limit: -1} }

func (q *queryState) unsupported(format string, args ...any) error {
	err := q.tx.db.unsupportedf(format, args...)
	if q.err == nil {
		q.err = err
	}
	return err
}

func (q *queryState) addFilter(criteria graph.Criteria) {
	switch c := criteria.(type) {
	case nil:
	case *cypher.Where:
		if c != nil {
			for _, e := range c.Expressions {
				q.addFilter(e)
			}
		}
	case []graph.Criteria:
		for _, e := range c {
			q.addFilter(e)
		}
	default:
		q.filters = append(q.filters, c)
	}
}

func (q *queryState) addOrder(criteria ...graph.Criteria) {
	for _, c := range criteria {
		switch t := c.(type) {
		case nil:
		case *cypher.Order:
			if t != nil {
				q.order = append(q.order, t.Items...)
			}
		case *cypher.SortItem:
			q.order = append(q.order, t)
		default:
			q.order = append(q.order, &cypher.SortItem{Ascending: true, Expression: t})
		}
	}
}

func (q *queryState) intLiteral(what string, e cypher.Expression) int {
	switch v := e.(type) {
	case *cypher.Literal:
		if n, ok := toInt(v.Value); ok {
			return n
		}
	case *cypher.Parameter:
		if n, ok := toInt(v.Value); ok {
			return n
		}
	case int:
		return v
	}
	_ = q.unsupported("%s value %T", what, e)
	return 0
}

func toInt(v any) (int, bool) {
	switch n := v.(type) {
	case int:
		return n, true
	case int64:
		return int(n), true
	case int32:
		return int(n), true
	case uint64:
		return int(n), true
	}
	return 0, false
}

// applyFinal folds the trailing criteria of Query/Fetch into the query.
func (q *queryState) applyFinal(final ...graph.Criteria) {
	for _, c := range final {
		switch t := c.(type) {
		case nil:
		case *cypher.Where:
			q.addFilter(t)
		case *cypher.Return:
			q.ret = t
			if t != nil && t.Projection != nil {
				if t.Projection.Order != nil {
					q.addOrder(t.Projection.Order)
				}
				if t.Projection.Limit != nil {
					q.limit = q.intLiteral("limit", t.Projection.Limit.Value)
				}
				if t.Projection.Skip != nil {
					q.skip = q.intLiteral("skip", t.Projection.Skip.Value)
				}
				if t.Projection.Distinct {
					// handled in project()
				}
			}
		case *cypher.Limit:
			q.limit = q.intLiteral("limit", t.Value)
		case *cypher.Skip:
			q.skip = q.intLiteral("skip", t.Value)
		case *cypher.Order, *cypher.SortItem:
			q.addOrder(t)
		default:
			_ = q.unsupported("final criteria %T", c)
		}
	}
}

// ---- evaluation --------------------------------------------------------------------------------

type tri int8

const (
	triFalse tri = iota
	triTrue
	triNull
)

func triOf(b bool) tri {
	if b {
		return triTrue
	}
	return triFalse
}

type entityRef struct {
	node *nodeRec
	edge *edgeRec
}

type evaluator struct {
	q *queryState
	b binding
}

func (ev *evaluator) fail(format string, args ...any) {
	panic(evalError{ev.q.tx.db.unsupportedf(format, args...)})
}

func (ev *evaluator) variable(sym string) entityRef {
	switch sym {
	case query.NodeSymbol:
		if !ev.q.rel {
			return entityRef{node: ev.b.n}
		}
	case query.EdgeSymbol:
		if ev.q.rel {
			return entityRef{edge: ev.b.r}
		}
	case query.EdgeStartSymbol:
		if ev.q.rel {
			return entityRef{node: ev.b.s}
		}
	case query.EdgeEndSymbol:
		if ev.q.rel {
			return entityRef{node: ev.b.e}
		}
	}
	ev.fail("variable %q in a %s query", sym, map[bool]string{false: "node", true: "relationship"}[ev.q.rel])
	return entityRef{}
}

// value evaluates an operand. Entities evaluate to entityRef.
func (ev *evaluator) value(e cypher.Expression) any {
	switch t := e.(type) {
	case nil:
		return nil
	case *cypher.Variable:
		return ev.variable(t.Symbol)
	case *cypher.Parameter:
		return t.Value
	case *cypher.Literal:
		if t.Null {
			return nil
		}
		return t.Value
	case *cypher.Parenthetical:
		return ev.value(t.Expression)
	case *cypher.PropertyLookup:
		ref, ok := ev.value(t.Atom).(entityRef)
		if !ok {
			ev.fail("property lookup on %T", t.Atom)
		}
		switch {
		case ref.node != nil:
			return ref.node.props[t.Symbol]
		case ref.edge != nil:
			return ref.edge.props[t.Symbol]
		}
		return nil
	case *cypher.FunctionInvocation:
		name := strings.ToLower(t.Name)
		if len(t.Namespace) > 0 || t.Distinct || len(t.Arguments) != 1 {
			ev.fail("function %s%v with %d arguments", t.Name, t.Namespace, len(t.Arguments))
		}
		switch name {
		case "id":
			// id(s) / id(e) come from the relationship itself so that they work even for an absent endpoint
			if v, ok := t.Arguments[0].(*cypher.Variable); ok && ev.q.rel {
				switch v.Symbol {
				case query.EdgeStartSymbol:
					return graph.ID(ev.b.r.start)
				case query.EdgeEndSymbol:
					return graph.ID(ev.b.r.end)
				}
			}
			ref, ok := ev.value(t.Arguments[0]).(entityRef)
			if !ok {
				ev.fail("id() of %T", t.Arguments[0])
			}
			switch {
			case ref.node != nil:
				return graph.ID(ref.node.id)
			case ref.edge != nil:
				return graph.ID(ref.edge.id)
			}
			return nil
		case "labels":
			ref, ok := ev.value(t.Arguments[0]).(entityRef)
			if !ok || ref.edge != nil {
				ev.fail("labels() of %T", t.Arguments[0])
			}
			if ref.node == nil {
				return nil
			}
			return graph.StringsToKinds(ref.node.kinds)
		case "type":
			ref, ok := ev.value(t.Arguments[0]).(entityRef)
			if !ok || ref.edge == nil {
				ev.fail("type() of %T", t.Arguments[0])
			}
			return graph.StringKind(ref.edge.kind)
		case "tolower":
			v := ev.value(t.Arguments[0])
			if v == nil {
				return nil
			}
			s, ok := v.(string)
			if !ok {
				ev.fail("toLower() of %T", v)
			}
			return strings.ToLower(s)
		}
		ev.fail("function %q", t.Name)
	}
	// a bare Go value used as an operand
	switch e.(type) {
	case string, bool, int, int8, int16, int32, int64, uint, uint8, uint16, uint32, uint64, float32, float64, graph.ID, time.Time:
		return e
	}
	ev.fail("operand %T", e)
	return nil
}

func (ev *evaluator) pred(e cypher.Expression) tri {
	switch t := e.(type) {
	case nil:
		return triTrue
	case *cypher.Where:
		return ev.and(t.Expressions)
	case *cypher.Conjunction:
		return ev.and(t.Expressions)
	case *cypher.Disjunction:
		res := triFalse
		for _, x := range t.Expressions {
			switch ev.pred(x) {
			case triTrue:
				return triTrue
			case triNull:
				res = triNull
			}
		}
		return res
	case *cypher.ExclusiveDisjunction:
		res := triFalse
		for _, x := range t.Expressions {
			v := ev.pred(x)
			if v == triNull || res == triNull {
				res = triNull
				continue
			}
			res = triOf((res == triTrue) != (v == triTrue))
		}
		return res
	case *cypher.Parenthetical:
		return ev.pred(t.Expression)
	case *cypher.Negation:
		switch ev.pred(t.Expression) {
		case triTrue:
			return triFalse
		case triFalse:
			return triTrue
		}
		return triNull
	case *cypher.KindMatcher:
		return ev.kindMatch(t)
	case *cypher.Comparison:
		if len(t.Partials) != 1 {
			ev.fail("comparison with %d partials", len(t.Partials))
		}
		return ev.compare(ev.value(t.Left), t.Partials[0].Operator, ev.value(t.Partials[0].Right))
	case *cypher.Literal:
		if b, ok := t.Value.(bool); ok && !t.Null {
			return triOf(b)
		}
	case *cypher.Parameter:
		if b, ok := t.Value.(bool); ok {
			return triOf(b)
		}
	}
	ev.fail("criteria %T", e)
	return triNull
}

func (ev *evaluator) and(list []cypher.Expression) tri {
	res := triTrue
	for _, x := range list {
		switch ev.pred(x) {
		case triFalse:
			return triFalse
		case triNull:
			res = triNull
		}
	}
	return res
}

func (ev *evaluator) kindMatch(m *cypher.KindMatcher) tri {
	ref, ok := ev.value(m.Reference).(entityRef)
	if !ok {
		ev.fail("kind matcher on %T", m.Reference)
	}
	want := map[string]struct{}{}
	for _, k := range m.Kinds {
		if k != nil {
			want[k.String()] = struct{}{}
		}
	}
	if ref.edge != nil {
		_, hit := want[ref.edge.kind]
		if m.IsExclusive && len(want) > 1 {
			return triFalse
		}
		return triOf(hit)
	}
	if ref.node == nil {
		return triNull
	}
	have := map[string]struct{}{}
	for _, k := range ref.node.kinds {
		have[k] = struct{}{}
	}
	if m.IsExclusive { // node kinds ⊇ wanted
		for k := range want {
			if _, ok := have[k]; !ok {
				return triFalse
			}
		}
		return triTrue
	}
	for k := range want { // overlap
		if _, ok := have[k]; ok {
			return triTrue
		}
	}
	return triFalse
}

type num struct {
	isFloat bool
	neg     bool   // integer: value is -mag
	mag     uint64 // integer magnitude
	f       float64
}

func asNum(v any) (num, bool) {
	mk := func(i int64) (num, bool) {
		if i < 0 {
			return num{neg: true, mag: uint64(-(i + 1)) + 1}, true
		}
		return num{mag: uint64(i)}, true
	}
	switch t := v.(type) {
	case int:
		return mk(int64(t))
	case int8:
		return mk(int64(t))
	case int16:
		return mk(int64(t))
	case int32:
		return mk(int64(t))
	case int64:
		return mk(t)
	case uint:
		return num{mag: uint64(t)}, true
	case uint8:
		return num{mag: uint64(t)}, true
	case uint16:
		return num{mag: uint64(t)}, true
	case uint32:
		return num{mag: uint64(t)}, true
	case uint64:
		return num{mag: t}, true
	case graph.ID:
		return num{mag: uint64(t)}, true
	case float32:
		return num{isFloat: true, f: float64(t)}, true
	case float64:
		return num{isFloat: true, f: t}, true
	}
	return num{}, false
}

func (n num) float() float64 {
	if n.isFloat {
		return n.f
	}
	if n.neg {
		return -float64(n.mag)
	}
	return float64(n.mag)
}

func cmpNum(a, b num) int {
	if a.isFloat || b.isFloat {
		x, y := a.float(), b.float()
		switch {
		case x < y:
			return -1
		case x > y:
			return 1
		}
		return 0
	}
	if a.neg != b.neg {
		if a.neg {
			return -1
		}
		return 1
	}
	c := 0
	switch {
	case a.mag < b.mag:
		c = -1
	case a.mag > b.mag:
		c = 1
	}
	if a.neg {
		return -c
	}
	return c
}

func asString(v any) (string, bool) {
	switch t := v.(type) {
	case string:
		return t, true
	case graph.Kind:
		if t == nil {
			return "", false
		}
		return t.String(), true
	}
	return "", false
}

// cmpValues orders two non-nil scalars; ok=false when they are not comparable.
func cmpValues(a, b any) (int, bool) {
	if ra, ok := a.(entityRef); ok {
		a = refID(ra)
	}
	if rb, ok := b.(entityRef); ok {
		b = refID(rb)
	}
	if x, ok := asNum(a); ok {
		if y, ok := asNum(b); ok {
			return cmpNum(x, y), true
		}
		return 0, false
	}
	if x, ok := asString(a); ok {
		if y, ok := asString(b); ok {
			return strings.Compare(x, y), true
		}
		return 0, false
	}
	if x, ok := a.(time.Time); ok {
		if y, ok := b.(time.Time); ok {
			return x.Compare(y), true
		}
		return 0, false
	}
	if x, ok := a.(bool); ok {
		if y, ok := b.(bool); ok {
			switch {
			case x == y:
				return 0, true
			case !x:
				return -1, true
			}
			return 1, true
		}
	}
	return 0, false
}

func refID(r entityRef) any {
	switch {
	case r.node != nil:
		return graph.ID(r.node.id)
	case r.edge != nil:
		return graph.ID(r.edge.id)
	}
	return nil
}

func isList(v any) bool {
	if v == nil {
		return false
	}
	k := reflect.ValueOf(v).Kind()
	return k == reflect.Slice || k == reflect.Array
}

func (ev *evaluator) equal(a, b any) tri {
	if a == nil || b == nil {
		return triNull
	}
	if c, ok := cmpValues(a, b); ok {
		return triOf(c == 0)
	}
	if isList(a) && isList(b) {
		ra, rb := reflect.ValueOf(a), reflect.ValueOf(b)
		if ra.Len() != rb.Len() {
			return triFalse
		}
		for i := 0; i < ra.Len(); i++ {
			if ev.equal(ra.Index(i).Interface(), rb.Index(i).Interface()) != triTrue {
				return triFalse
			}
		}
		return triTrue
	}
	if _, isMap := a.(map[string]any); isMap {
		return triOf(reflect.DeepEqual(a, b))
	}
	return triFalse // different scalar types are unequal, not an error
}

func (ev *evaluator) compare(l any, op cypher.Operator, r any) tri {
	switch op {
	case cypher.OperatorIs:
		if r != nil {
			ev.fail("IS with a non-null right operand %T", r)
		}
		return triOf(l == nil)
	case cypher.OperatorIsNot:
		if r != nil {
			ev.fail("IS NOT with a non-null right operand %T", r)
		}
		return triOf(l != nil)
	case cypher.OperatorEquals:
		return ev.equal(l, r)
	case cypher.OperatorNotEquals:
		switch ev.equal(l, r) {
		case triTrue:
			return triFalse
		case triFalse:
			return triTrue
		}
		return triNull
	case cypher.OperatorIn:
		if l == nil || r == nil {
			return triNull
		}
		if !isList(r) {
			ev.fail("IN with right operand %T", r)
		}
		rv := reflect.ValueOf(r)
		res := triFalse
		for i := 0; i < rv.Len(); i++ {
			switch ev.equal(l, rv.Index(i).Interface()) {
			case triTrue:
				return triTrue
			case triNull:
				res = triNull
			}
		}
		return res
	case cypher.OperatorLessThan, cypher.OperatorLessThanOrEqualTo, cypher.OperatorGreaterThan, cypher.OperatorGreaterThanOrEqualTo:
		if l == nil || r == nil {
			return triNull
		}
		c, ok := cmpValues(l, r)
		if !ok {
			ev.fail("ordering comparison between %T and %T", l, r)
		}
		switch op {
		case cypher.OperatorLessThan:
			return triOf(c < 0)
		case cypher.OperatorLessThanOrEqualTo:
			return triOf(c <= 0)
		case cypher.OperatorGreaterThan:
			return triOf(c > 0)
		}
		return triOf(c >= 0)
	case cypher.OperatorContains, cypher.OperatorStartsWith, cypher.OperatorEndsWith:
		if l == nil || r == nil {
			return triNull
		}
		ls, lok := l.(string)
		rs, rok := r.(string)
		if !lok || !rok {
			ev.fail("string operator %q between %T and %T", op, l, r)
		}
		switch op {
		case cypher.OperatorContains:
			return triOf(strings.Contains(ls, rs))
		case cypher.OperatorStartsWith:
			return triOf(strings.HasPrefix(ls, rs))
		}
		return triOf(strings.HasSuffix(ls, rs))
	}
	ev.fail("comparison operator %q", op)
	return triNull
}

// ---- execution ---------------------------------------------------------------------------------

func sortU64(s []uint64) { sort.Slice(s, func(i, j int) bool { return s[i] < s[j] }) }

func mix(x uint64) uint64 {
	x ^= x >> 33
	x *= 0xff51afd7ed558ccd
	x ^= x >> 33
	x *= 0xc4ceb9fe1a85ec53
	x ^= x >> 33
	return x
}

// run evaluates filters, ordering, skip and limit under the read lock and returns the bindings
// (records are immutable, so they may be used after the lock is released).
func (q *queryState) run(applyWindow bool) (rows []binding, err error) {
	if q.err != nil {
		return nil, q.err
	}
	if err := q.tx.ctx.Err(); err != nil {
		return nil, err
	}
	gname, err := q.tx.targetName()
	if err != nil {
		return nil, err
	}
	d := q.tx.db
	defer func() {
		if p := recover(); p != nil {
			if ee, ok := p.(evalError); ok {
				rows, err = nil, ee.err
				return
			}
			panic(p)
		}
	}()
	d.mu.RLock()
	g := d.graphs[gname]
	var cands []binding
	if g != nil {
		if q.rel {
			cands = make([]binding, 0, len(g.edges))
			for _, e := range g.edges {
				cands = append(cands, binding{r: e, s: g.nodes[e.start], e: g.nodes[e.end]})
			}
		} else {
			cands = make([]binding, 0, len(g.nodes))
			for _, n := range g.nodes {
				cands = append(cands, binding{n: n})
			}
		}
	}
	d.mu.RUnlock()
	sort.Slice(cands, func(i, j int) bool { return cands[i].id() < cands[j].id() })

	for _, b := range cands {
		ev := &evaluator{q: q, b: b}
		if ev.and(q.filters) == triTrue {
			rows = append(rows, b)
		}
	}
	if len(q.order) > 0 {
		type keyed struct {
			b    binding
			keys []any
		}
		ks := make([]keyed, len(rows))
		for i, b := range rows {
			ev := &evaluator{q: q, b: b}
			k := keyed{b: b}
			for _, item := range q.order {
				k.keys = append(k.keys, ev.value(item.Expression))
			}
			ks[i] = k
		}
		var sortErr error
		sort.SliceStable(ks, func(i, j int) bool {
			for x, item := range q.order {
				a, b := ks[i].keys[x], ks[j].keys[x]
				var c int
				switch {
				case a == nil && b == nil:
					c = 0
				case a == nil: // nulls sort last in ascending order
					c = 1
				case b == nil:
					c = -1
				default:
					var ok bool
					if c, ok = cmpValues(a, b); !ok && sortErr == nil {
						sortErr = d.unsupportedf("ordering by values of type %T and %T", a, b)
					}
				}
				if c != 0 {
					if item.Ascending {
						return c < 0
					}
					return c > 0
				}
			}
			return false
		})
		if sortErr != nil {
			return nil, sortErr
		}
		for i := range ks {
			rows[i] = ks[i].b
		}
	} else if d.shuffle != 0 {
		sort.SliceStable(rows, func(i, j int) bool {
			return mix(rows[i].id()^d.shuffle) < mix(rows[j].id()^d.shuffle)
		})
	}
	if applyWindow {
		if q.skip > 0 {
			if q.skip >= len(rows) {
				rows = nil
			} else {
				rows = rows[q.skip:]
			}
		}
		if q.limit >= 0 && q.limit < len(rows) {
			rows = rows[:q.limit]
		}
	}
	return rows, nil
}

// project turns bindings into result rows according to the Return clause.
func (q *queryState) project(rows []binding) (keys []string, out [][]any, err error) {
	defer func() {
		if p := recover(); p != nil {
			if ee, ok := p.(evalError); ok {
				keys, out, err = nil, nil, ee.err
				return
			}
			panic(p)
		}
	}()
	if q.ret == nil || q.ret.Projection == nil || len(q.ret.Projection.Items) == 0 {
		return nil, nil, q.tx.db.unsupportedf("query without a projection")
	}
	proj := q.ret.Projection
	if proj.All {
		return nil, nil, q.tx.db.unsupportedf("RETURN *")
	}
	exprs := make([]cypher.Expression, len(proj.Items))
	for i, it := range proj.Items {
		switch t := it.(type) {
		case *cypher.ProjectionItem:
			exprs[i] = t.Expression
			if t.Alias != nil {
				keys = append(keys, t.Alias.Symbol)
			} else {
				keys = append(keys, fmt.Sprintf("col%d", i))
			}
		default:
			exprs[i] = it
			keys = append(keys, fmt.Sprintf("col%d", i))
		}
	}
	// aggregate: count(x) as the only item
	if len(exprs) == 1 {
		if fn, ok := exprs[0].(*cypher.FunctionInvocation); ok && strings.EqualFold(fn.Name, "count") {
			if fn.Distinct || len(fn.Arguments) != 1 {
				// count(distinct entity) over entity rows equals count(entity); anything else is not modelled
				if _, isVar := fn.Arguments[0].(*cypher.Variable); !isVar {
					return nil, nil, q.tx.db.unsupportedf("count(distinct <expression>)")
				}
			}
			n := 0
			for _, b := range rows {
				ev := &evaluator{q: q, b: b}
				if ev.value(fn.Arguments[0]) != nil {
					n++
				}
			}
			return keys, [][]any{{int64(n)}}, nil
		}
	}
	for _, e := range exprs {
		if fn, ok := e.(*cypher.FunctionInvocation); ok && strings.EqualFold(fn.Name, "count") {
			return nil, nil, q.tx.db.unsupportedf("count() mixed with other projection items")
		}
	}
	seen := map[string]struct{}{}
	for _, b := range rows {
		ev := &evaluator{q: q, b: b}
		row := make([]any, len(exprs))
		for i, e := range exprs {
			v := ev.value(e)
			if ref, ok := v.(entityRef); ok {
				switch {
				case ref.node != nil:
					v = ref.node.export()
				case ref.edge != nil:
					v = ref.edge.export()
				default:
					v = nil
				}
			} else {
				v = cloneValue(v)
			}
			row[i] = v
		}
		if proj.Distinct {
			k := fmt.Sprintf("%#v", rowKey(row))
			if _, dup := seen[k]; dup {
				continue
			}
			seen[k] = struct{}{}
		}
		out = append(out, row)
	}
	return keys, out, nil
}

func rowKey(row []any) []any {
	out := make([]any, len(row))
	for i, v := range row {
		switch t := v.(type) {
		case *graph.Node:
			out[i] = [2]any{"n", t.ID}
		case *graph.Relationship:
			out[i] = [2]any{"r", t.ID}
		case graph.Kinds:
			out[i] = t.Strings()
		case graph.Kind:
			out[i] = t.String()
		default:
			out[i] = v
		}
	}
	return out
}

// exec runs the query with a projection and returns a graph.Result.
func (q *queryState) exec(op Op, final ...graph.Criteria) graph.Result {
	q.applyFinal(final...)
	gname := q.tx.target
	if err := q.tx.db.hit(op, gname); err != nil {
		return graph.NewErrorResult(err)
	}
	if err := q.tx.db.hit(OpQuery, gname); err != nil {
		return graph.NewErrorResult(err)
	}
	aggregate := false
	if q.ret != nil && q.ret.Projection != nil && len(q.ret.Projection.Items) == 1 {
		e := q.ret.Projection.Items[0]
		if pi, ok := e.(*cypher.ProjectionItem); ok {
			e = pi.Expression
		}
		if fn, ok := e.(*cypher.FunctionInvocation); ok && strings.EqualFold(fn.Name, "count") {
			aggregate = true
		}
	}
	rows, err := q.run(!aggregate)
	if err != nil {
		return graph.NewErrorResult(err)
	}
	keys, values, err := q.project(rows)
	if err != nil {
		return graph.NewErrorResult(err)
	}
	return &result{db: q.tx.db, graph: gname, keys: keys, rows: values, idx: -1}
}

// ---- graph.Result ------------------------------------------------------------------------------

type result struct {
	db    *DB
	graph string
	keys  []string
	rows  [][]any

	mu     sync.Mutex
	idx    int
	err    error
	closed bool
}

var defaultMapper = graph.NewValueMapper()

func mapValue(raw, target any) bool {
	switch t := target.(type) {
	case *graph.Node:
		if n, ok := raw.(*graph.Node); ok && n != nil {
			*t = *n
			return true
		}
		return false
	case *graph.Relationship:
		if r, ok := raw.(*graph.Relationship); ok && r != nil {
			*t = *r
			return true
		}
		return false
	case *graph.Kinds:
		if k, ok := raw.(graph.Kinds); ok {
			*t = k
			return true
		}
	case *[]graph.Kind:
		if k, ok := raw.(graph.Kinds); ok {
			*t = k
			return true
		}
	case *graph.Kind:
		if k, ok := raw.(graph.Kind); ok {
			*t = k
			return true
		}
	case *any:
		*t = raw
		return true
	}
	if id, ok := raw.(graph.ID); ok {
		return defaultMapper.Map(uint64(id), target)
	}
	return false
}

var valueMapper = graph.NewValueMapper(mapValue)

func (r *result) Next() bool {
	r.mu.Lock()
	if r.closed || r.err != nil || r.idx+1 >= len(r.rows) {
		r.mu.Unlock()
		return false
	}
	r.mu.Unlock()
	// fault plan outside the lock: callbacks may look at the database
	if err := r.db.hit(OpRecord, r.graph); err != nil {
		r.mu.Lock()
		r.err = err
		r.mu.Unlock()
		return false
	}
	r.mu.Lock()
	defer r.mu.Unlock()
	if r.closed {
		return false
	}
	r.idx++
	return true
}

func (r *result) Keys() []string { return r.keys }

func (r *result) Values() []any {
	r.mu.Lock()
	defer r.mu.Unlock()
	if r.idx < 0 || r.idx >= len(r.rows) {
		return nil
	}
	return r.rows[r.idx]
}

func (r *result) Mapper() graph.ValueMapper { return valueMapper }

func (r *result) Scan(targets ...any) error {
	values := r.Values()
	if values == nil {
		return fmt.Errorf("fakedb: Scan without a current row")
	}
	if len(values) != len(targets) {
		return fmt.Errorf("fakedb: Scan of %d values into %d targets", len(values), len(targets))
	}
	for i, v := range values {
		if !valueMapper.Map(v, targets[i]) {
			return fmt.Errorf("unable to marshal next value %T into target %T", v, targets[i])
		}
	}
	return nil
}

func (r *result) Error() error {
	r.mu.Lock()
	defer r.mu.Unlock()
	return r.err
}

func (r *result) Close() {
	r.mu.Lock()
	defer r.mu.Unlock()
	r.closed = true
}

// ---- graph.NodeQuery ---------------------------------------------------------------------------

type nodeQuery struct{ q *queryState }

var _ graph.NodeQuery = (*nodeQuery)(nil)

func (s *nodeQuery) Filter(criteria graph.Criteria) graph.NodeQuery {
	s.q.addFilter(criteria)
	return s
}

func (s *nodeQuery) Filterf(provider graph.CriteriaProvider) graph.NodeQuery {
	return s.Filter(provider())
}

func (s *nodeQuery) OrderBy(criteria ...graph.Criteria) graph.NodeQuery {
	s.q.addOrder(criteria...)
	return s
}

func (s *nodeQuery) Offset(skip int) graph.NodeQuery { s.q.skip = skip; return s }

func (s *nodeQuery) Limit(limit int) graph.NodeQuery { s.q.limit = limit; return s }

func (s *nodeQuery) Query(delegate func(results graph.Result) error, final ...graph.Criteria) error {
	return runQuery(s.q, OpFetch, delegate, final...)
}

func runQuery(q *queryState, op Op, delegate func(results graph.Result) error, final ...graph.Criteria) error {
	res := q.exec(op, final...)
	if err := res.Error(); err != nil {
		return err
	}
	defer res.Close()
	return delegate(res)
}

func (s *nodeQuery) Count() (int64, error) {
	var count int64
	return count, runQuery(s.q, OpCount, func(results graph.Result) error {
		if !results.Next() {
			if err := results.Error(); err != nil {
				return err
			}
			return graph.ErrNoResultsFound
		}
		return results.Scan(&count)
	}, query.Returning(query.Count(query.Node())))
}

func (s *nodeQuery) First() (*graph.Node, error) {
	var node graph.Node
	err := runQuery(s.q, OpFetch, func(results graph.Result) error {
		if !results.Next() {
			if err := results.Error(); err != nil {
				return err
			}
			return graph.ErrNoResultsFound
		}
		return results.Scan(&node)
	}, query.Returning(query.Node()), query.Limit(1))
	return &node, err
}

func fetch[T any](q *queryState, delegate func(cursor graph.Cursor[T]) error, marshal func(graph.Result) (T, error), final ...graph.Criteria) error {
	return runQuery(q, OpFetch, func(res graph.Result) error {
		cursor := graph.NewResultIterator(q.tx.ctx, res, marshal)
		defer cursor.Close()
		return delegate(cursor)
	}, final...)
}

func (s *nodeQuery) Fetch(delegate func(cursor graph.Cursor[*graph.Node]) error, final ...graph.Criteria) error {
	return fetch(s.q, delegate, func(res graph.Result) (*graph.Node, error) {
		var node graph.Node
		return &node, res.Scan(&node)
	}, append([]graph.Criteria{query.Returning(query.Node())}, final...)...)
}

func (s *nodeQuery) FetchIDs(delegate func(cursor graph.Cursor[graph.ID]) error) error {
	return fetch(s.q, delegate, func(res graph.Result) (graph.ID, error) {
		var id graph.ID
		return id, res.Scan(&id)
	}, query.Returning(query.NodeID()))
}

func (s *nodeQuery) FetchKinds(delegate func(cursor graph.Cursor[graph.KindsResult]) error) error {
	return fetch(s.q, delegate, func(res graph.Result) (graph.KindsResult, error) {
		var (
			id    graph.ID
			kinds graph.Kinds
			err   = res.Scan(&id, &kinds)
		)
		return graph.KindsResult{ID: id, Kinds: kinds}, err
	}, query.Returning(query.NodeID(), query.KindsOf(query.Node())))
}

func (s *nodeQuery) Delete() error {
	q := s.q
	gname, err := q.tx.checkWrite()
	if err != nil {
		return err
	}
	rows, err := q.run(true)
	if err != nil {
		return err
	}
	if err := q.tx.db.hit(OpWrite, gname); err != nil {
		return err
	}
	d := q.tx.db
	d.mu.Lock()
	defer d.mu.Unlock()
	if g := d.graphLocked(gname, false); g != nil {
		for _, b := range rows {
			q.tx.deleteNodeLocked(g, b.n.id)
		}
	}
	return nil
}

func (s *nodeQuery) Update(properties *graph.Properties) error {
	q := s.q
	gname, err := q.tx.checkWrite()
	if err != nil {
		return err
	}
	rows, err := q.run(true)
	if err != nil {
		return err
	}
	if err := q.tx.db.hit(OpWrite, gname); err != nil {
		return err
	}
	d := q.tx.db
	d.mu.Lock()
	defer d.mu.Unlock()
	if g := d.graphLocked(gname, false); g != nil {
		for _, b := range rows {
			if old, ok := g.nodes[b.n.id]; ok {
				q.tx.replaceNodeLocked(g, applyNodeUpdate(old, &graph.Node{ID: graph.ID(old.id), Properties: properties}))
			}
		}
	}
	return nil
}

// ---- graph.RelationshipQuery -------------------------------------------------------------------

type relQuery struct{ q *queryState }

var _ graph.RelationshipQuery = (*relQuery)(nil)

func (s *relQuery) Filter(criteria graph.Criteria) graph.RelationshipQuery {
	s.q.addFilter(criteria)
	return s
}

func (s *relQuery) Filterf(provider graph.CriteriaProvider) graph.RelationshipQuery {
	return s.Filter(provider())
}

func (s *relQuery) OrderBy(criteria ...graph.Criteria) graph.RelationshipQuery {
	s.q.addOrder(criteria...)
	return s
}

func (s *relQuery) Offset(skip int) graph.RelationshipQuery { s.q.skip = skip; return s }

func (s *relQuery) Limit(limit int) graph.RelationshipQuery { s.q.limit = limit; return s }

func (s *relQuery) Query(delegate func(results graph.Result) error, final ...graph.Criteria) error {
	return runQuery(s.q, OpFetch, delegate, final...)
}

func (s *relQuery) Count() (int64, error) {
	var count int64
	return count, runQuery(s.q, OpCount, func(results graph.Result) error {
		if !results.Next() {
			if err := results.Error(); err != nil {
				return err
			}
			return graph.ErrNoResultsFound
		}
		return results.Scan(&count)
	}, query.Returning(query.Count(query.Relationship())))
}

func (s *relQuery) First() (*graph.Relationship, error) {
	var rel graph.Relationship
	err := runQuery(s.q, OpFetch, func(results graph.Result) error {
		if !results.Next() {
			if err := results.Error(); err != nil {
				return err
			}
			return graph.ErrNoResultsFound
		}
		return results.Scan(&rel)
	}, query.Returning(query.Relationship()), query.Limit(1))
	return &rel, err
}

func (s *relQuery) Fetch(delegate func(cursor graph.Cursor[*graph.Relationship]) error) error {
	return fetch(s.q, delegate, func(res graph.Result) (*graph.Relationship, error) {
		var rel graph.Relationship
		return &rel, res.Scan(&rel)
	}, query.Returning(query.Relationship()))
}

func (s *relQuery) FetchDirection(direction graph.Direction, delegate func(cursor graph.Cursor[graph.DirectionalResult]) error) error {
	var ret graph.Criteria
	switch direction {
	case graph.DirectionInbound:
		ret = query.Returning(query.Relationship(), query.End())
	case graph.DirectionOutbound:
		ret = query.Returning(query.Relationship(), query.Start())
	default:
		return fmt.Errorf("bad direction: %d", direction)
	}
	return fetch(s.q, delegate, func(res graph.Result) (graph.DirectionalResult, error) {
		var (
			rel  graph.Relationship
			node graph.Node
		)
		if err := res.Scan(&rel, &node); err != nil {
			return graph.DirectionalResult{}, err
		}
		return graph.DirectionalResult{Direction: direction, Relationship: &rel, Node: &node}, nil
	}, ret)
}

func (s *relQuery) FetchIDs(delegate func(cursor graph.Cursor[graph.ID]) error) error {
	return fetch(s.q, delegate, func(res graph.Result) (graph.ID, error) {
		var id graph.ID
		return id, res.Scan(&id)
	}, query.Returning(query.RelationshipID()))
}

func (s *relQuery) FetchTriples(delegate func(cursor graph.Cursor[graph.RelationshipTripleResult]) error) error {
	return fetch(s.q, delegate, func(res graph.Result) (graph.RelationshipTripleResult, error) {
		var (
			start, rel, end graph.ID
			err             = res.Scan(&start, &rel, &end)
		)
		return graph.RelationshipTripleResult{ID: rel, StartID: start, EndID: end}, err
	}, query.ReturningDistinct(query.StartID(), query.RelationshipID(), query.EndID()))
}

func (s *relQuery) FetchKinds(delegate func(cursor graph.Cursor[graph.RelationshipKindsResult]) error) error {
	return fetch(s.q, delegate, func(res graph.Result) (graph.RelationshipKindsResult, error) {
		var (
			start, rel, end graph.ID
			kind            graph.Kind
			err             = res.Scan(&start, &rel, &kind, &end)
		)
		return graph.RelationshipKindsResult{
			RelationshipTripleResult: graph.RelationshipTripleResult{ID: rel, StartID: start, EndID: end},
			Kind:                     kind,
		}, err
	}, query.Returning(query.StartID(), query.RelationshipID(), query.KindsOf(query.Relationship()), query.EndID()))
}

func (s *relQuery) FetchAllShortestPaths(func(cursor graph.Cursor[graph.Path]) error) error {
	return s.q.unsupported("RelationshipQuery.FetchAllShortestPaths")
}

func (s *relQuery) Delete() error {
	q := s.q
	gname, err := q.tx.checkWrite()
	if err != nil {
		return err
	}
	rows, err := q.run(true)
	if err != nil {
		return err
	}
	if err := q.tx.db.hit(OpWrite, gname); err != nil {
		return err
	}
	d := q.tx.db
	d.mu.Lock()
	defer d.mu.Unlock()
	if g := d.graphLocked(gname, false); g != nil {
		for _, b := range rows {
			q.tx.deleteEdgeLocked(g, b.r.id)
		}
	}
	return nil
}

func (s *relQuery) Update(properties *graph.Properties) error {
	q := s.q
	gname, err := q.tx.checkWrite()
	if err != nil {
		return err
	}
	rows, err := q.run(true)
	if err != nil {
		return err
	}
	if err := q.tx.db.hit(OpWrite, gname); err != nil {
		return err
	}
	d := q.tx.db
	d.mu.Lock()
	defer d.mu.Unlock()
	if g := d.graphLocked(gname, false); g != nil {
		for _, b := range rows {
			old, ok := g.edges[b.r.id]
			if !ok {
				continue
			}
			rec := &edgeRec{id: old.id, start: old.start, end: old.end, kind: old.kind, props: cloneProps(old.props)}
			if properties != nil {
				for k, v := range properties.ModifiedProperties() {
					rec.props[k] = cloneValue(v)
				}
				for _, k := range properties.DeletedProperties() {
					delete(rec.props, k)
				}
			}
			q.tx.replaceEdgeLocked(g, rec)
		}
	}
	return nil
}
