package fakedb

import (
	"context"
	"errors"
	"fmt"

	"github.com/specterops/dawgs/graph"
	"github.com/specterops/dawgs/util/size"
)

// ErrReadOnly is returned for writes attempted inside a ReadTransaction.
var ErrReadOnly = errors.New("fakedb: write in a read-only transaction")

// ErrNoGraphTarget mirrors the PostgreSQL driver's refusal to work without a graph target.
var ErrNoGraphTarget = errors.New("driver operation requires a graph target to be set")

type tx struct {
	db       *DB
	ctx      context.Context
	via      string
	writable bool
	target   string
	hasTgt   bool
	undo     []func() // applied in reverse on rollback, under d.mu
	done     bool
}

var _ graph.Transaction = (*tx)(nil)

func (t *tx) WithGraph(g graph.Graph) graph.Transaction {
	t.target, t.hasTgt = g.Name, true
	return t
}

// targetName resolves the graph the transaction works on.
func (t *tx) targetName() (string, error) {
	if t.hasTgt {
		return t.target, nil
	}
	t.db.mu.RLock()
	def := t.db.defaultGraph
	t.db.mu.RUnlock()
	if def == "" {
		return "", ErrNoGraphTarget
	}
	return def, nil
}

func (t *tx) Nodes() graph.NodeQuery { return &nodeQuery{q: newQuery(t, false)} }

func (t *tx) Relationships() graph.RelationshipQuery { return &relQuery{q: newQuery(t, true)} }

func (t *tx) Raw(string, map[string]any) graph.Result {
	return graph.NewErrorResult(t.db.unsupportedf("Transaction.Raw"))
}

func (t *tx) Query(string, map[string]any) graph.Result {
	return graph.NewErrorResult(t.db.unsupportedf("Transaction.Query (Cypher text)"))
}

func (t *tx) GraphQueryMemoryLimit() size.Size { return t.db.memLimit }

func (t *tx) Commit() error {
	if t.done {
		return nil
	}
	if err := t.db.hit(OpCommit, t.target); err != nil {
		return err
	}
	t.done = true
	t.undo = nil
	return nil
}

func (t *tx) rollback() {
	t.db.mu.Lock()
	defer t.db.mu.Unlock()
	for i := len(t.undo) - 1; i >= 0; i-- {
		t.undo[i]()
	}
	t.undo = nil
	t.done = true
}

func (t *tx) checkWrite() (string, error) {
	if !t.writable {
		return "", ErrReadOnly
	}
	if err := t.ctx.Err(); err != nil {
		return "", err
	}
	return t.targetName()
}

// ---- write primitives (each takes d.mu itself) -------------------------------------------------

func (t *tx) createNode(gname string, props map[string]any, kinds []string) (*nodeRec, error) {
	if err := t.db.hit(OpWrite, gname); err != nil {
		return nil, err
	}
	d := t.db
	d.mu.Lock()
	defer d.mu.Unlock()
	g := d.graphLocked(gname, true)
	rec := &nodeRec{id: d.nextNode, kinds: kinds, props: props}
	d.nextNode++
	g.nodes[rec.id] = rec
	d.registerKindsLocked(kinds...)
	d.logLocked(Mutation{Kind: "create_node", Graph: gname, ID: rec.id, Via: t.via})
	if t.via == "tx" {
		t.undo = append(t.undo, func() {
			delete(g.nodes, rec.id)
			d.logLocked(Mutation{Kind: "delete_node", Graph: gname, ID: rec.id, Via: t.via, Rollback: true})
		})
	}
	return rec, nil
}

func (t *tx) createEdge(gname string, start, end uint64, kind string, props map[string]any) (*edgeRec, error) {
	if err := t.db.hit(OpWrite, gname); err != nil {
		return nil, err
	}
	d := t.db
	d.mu.Lock()
	defer d.mu.Unlock()
	g := d.graphLocked(gname, true)
	if _, ok := g.nodes[start]; !ok {
		return nil, fmt.Errorf("fakedb: relationship start node %d does not exist in graph %q", start, gname)
	}
	if _, ok := g.nodes[end]; !ok {
		return nil, fmt.Errorf("fakedb: relationship end node %d does not exist in graph %q", end, gname)
	}
	key := edgeKey{start, end, kind}
	if !d.multiEdges {
		if id, exists := g.byKey[key]; exists {
			old := g.edges[id]
			merged := cloneProps(old.props)
			for k, v := range props {
				merged[k] = v
			}
			rec := &edgeRec{id: id, start: start, end: end, kind: kind, props: merged}
			g.edges[id] = rec
			d.logLocked(Mutation{Kind: "update_relationship", Graph: gname, ID: id, StartID: start, EndID: end, Via: t.via})
			if t.via == "tx" {
				t.undo = append(t.undo, func() {
					g.edges[id] = old
					d.logLocked(Mutation{Kind: "update_relationship", Graph: gname, ID: id, StartID: start, EndID: end, Via: t.via, Rollback: true})
				})
			}
			return rec, nil
		}
	}
	rec := &edgeRec{id: d.nextEdge, start: start, end: end, kind: kind, props: props}
	d.nextEdge++
	g.edges[rec.id] = rec
	if !d.multiEdges {
		g.byKey[key] = rec.id
	}
	d.registerKindsLocked(kind)
	d.logLocked(Mutation{Kind: "create_relationship", Graph: gname, ID: rec.id, StartID: start, EndID: end, Via: t.via})
	if t.via == "tx" {
		t.undo = append(t.undo, func() {
			delete(g.edges, rec.id)
			delete(g.byKey, key)
			d.logLocked(Mutation{Kind: "delete_relationship", Graph: gname, ID: rec.id, StartID: start, EndID: end, Via: t.via, Rollback: true})
		})
	}
	return rec, nil
}

// deleteEdgeLocked removes one relationship; caller holds d.mu.
func (t *tx) deleteEdgeLocked(g *graphStore, id uint64) {
	d := t.db
	old, ok := g.edges[id]
	if !ok {
		return
	}
	delete(g.edges, id)
	key := edgeKey{old.start, old.end, old.kind}
	hadKey := g.byKey[key] == id
	if hadKey {
		delete(g.byKey, key)
	}
	d.logLocked(Mutation{Kind: "delete_relationship", Graph: g.name, ID: id, StartID: old.start, EndID: old.end, Via: t.via})
	if t.via == "tx" {
		t.undo = append(t.undo, func() {
			g.edges[id] = old
			if hadKey {
				g.byKey[key] = id
			}
			d.logLocked(Mutation{Kind: "create_relationship", Graph: g.name, ID: id, StartID: old.start, EndID: old.end, Via: t.via, Rollback: true})
		})
	}
}

// deleteNodeLocked removes a node and (like the PostgreSQL trigger) its relationships.
func (t *tx) deleteNodeLocked(g *graphStore, id uint64) {
	d := t.db
	old, ok := g.nodes[id]
	if !ok {
		return
	}
	var attached []uint64
	for eid, e := range g.edges {
		if e.start == id || e.end == id {
			attached = append(attached, eid)
		}
	}
	sortU64(attached)
	for _, eid := range attached {
		t.deleteEdgeLocked(g, eid)
	}
	delete(g.nodes, id)
	d.logLocked(Mutation{Kind: "delete_node", Graph: g.name, ID: id, Via: t.via})
	if t.via == "tx" {
		t.undo = append(t.undo, func() {
			g.nodes[id] = old
			d.logLocked(Mutation{Kind: "create_node", Graph: g.name, ID: id, Via: t.via, Rollback: true})
		})
	}
}

func (t *tx) replaceNodeLocked(g *graphStore, rec *nodeRec) {
	d := t.db
	old := g.nodes[rec.id]
	g.nodes[rec.id] = rec
	d.registerKindsLocked(rec.kinds...)
	d.logLocked(Mutation{Kind: "update_node", Graph: g.name, ID: rec.id, Via: t.via})
	if t.via == "tx" {
		t.undo = append(t.undo, func() {
			g.nodes[rec.id] = old
			d.logLocked(Mutation{Kind: "update_node", Graph: g.name, ID: rec.id, Via: t.via, Rollback: true})
		})
	}
}

func (t *tx) replaceEdgeLocked(g *graphStore, rec *edgeRec) {
	d := t.db
	old := g.edges[rec.id]
	g.edges[rec.id] = rec
	d.logLocked(Mutation{Kind: "update_relationship", Graph: g.name, ID: rec.id, StartID: rec.start, EndID: rec.end, Via: t.via})
	if t.via == "tx" {
		t.undo = append(t.undo, func() {
			g.edges[rec.id] = old
			d.logLocked(Mutation{Kind: "update_relationship", Graph: g.name, ID: rec.id, StartID: rec.start, EndID: rec.end, Via: t.via, Rollback: true})
		})
	}
}

// applyNodeUpdate applies a graph.Node's pending changes (modified/deleted properties, added and
// deleted kinds) to the stored node.
func applyNodeUpdate(old *nodeRec, node *graph.Node) *nodeRec {
	rec := &nodeRec{id: old.id, props: cloneProps(old.props)}
	if node.Properties != nil {
		for k, v := range node.Properties.ModifiedProperties() {
			rec.props[k] = cloneValue(v)
		}
		for _, k := range node.Properties.DeletedProperties() {
			delete(rec.props, k)
		}
	}
	del := map[string]struct{}{}
	for _, k := range node.DeletedKinds {
		if k != nil {
			del[k.String()] = struct{}{}
		}
	}
	kinds := graph.StringsToKinds(old.kinds)
	kinds = append(kinds, node.AddedKinds...)
	for _, k := range dedupKinds(kinds) {
		if _, gone := del[k]; !gone {
			rec.kinds = append(rec.kinds, k)
		}
	}
	return rec
}

// ---- graph.Transaction writes ------------------------------------------------------------------

func (t *tx) CreateNode(properties *graph.Properties, kinds ...graph.Kind) (*graph.Node, error) {
	gname, err := t.checkWrite()
	if err != nil {
		return nil, err
	}
	if err := t.db.hit(OpCreateNode, gname); err != nil {
		return nil, err
	}
	rec, err := t.createNode(gname, propsOf(properties), dedupKinds(kinds))
	if err != nil {
		return nil, err
	}
	return rec.export(), nil
}

func (t *tx) UpdateNode(node *graph.Node) error {
	gname, err := t.checkWrite()
	if err != nil {
		return err
	}
	if err := t.db.hit(OpWrite, gname); err != nil {
		return err
	}
	d := t.db
	d.mu.Lock()
	defer d.mu.Unlock()
	g := d.graphLocked(gname, true)
	old, ok := g.nodes[node.ID.Uint64()]
	if !ok {
		return nil // UPDATE … WHERE id = … matching nothing is not an error
	}
	t.replaceNodeLocked(g, applyNodeUpdate(old, node))
	return nil
}

func (t *tx) CreateRelationshipByIDs(startNodeID, endNodeID graph.ID, kind graph.Kind, properties *graph.Properties) (*graph.Relationship, error) {
	gname, err := t.checkWrite()
	if err != nil {
		return nil, err
	}
	if kind == nil {
		return nil, fmt.Errorf("fakedb: relationship kind is required")
	}
	if err := t.db.hit(OpCreateRel, gname); err != nil {
		return nil, err
	}
	rec, err := t.createEdge(gname, startNodeID.Uint64(), endNodeID.Uint64(), kind.String(), propsOf(properties))
	if err != nil {
		return nil, err
	}
	return rec.export(), nil
}

func (t *tx) UpdateRelationship(relationship *graph.Relationship) error {
	gname, err := t.checkWrite()
	if err != nil {
		return err
	}
	if err := t.db.hit(OpWrite, gname); err != nil {
		return err
	}
	d := t.db
	d.mu.Lock()
	defer d.mu.Unlock()
	g := d.graphLocked(gname, true)
	old, ok := g.edges[relationship.ID.Uint64()]
	if !ok {
		return nil
	}
	rec := &edgeRec{id: old.id, start: old.start, end: old.end, kind: old.kind, props: cloneProps(old.props)}
	if relationship.Properties != nil {
		for k, v := range relationship.Properties.ModifiedProperties() {
			rec.props[k] = cloneValue(v)
		}
		for _, k := range relationship.Properties.DeletedProperties() {
			delete(rec.props, k)
		}
	}
	t.replaceEdgeLocked(g, rec)
	return nil
}

// ---- batch -------------------------------------------------------------------------------------

type pendingEdge struct {
	graph      string
	start, end uint64
	kind       string
	props      map[string]any
}

type batch struct {
	inner    *tx
	size     int
	edges    []pendingEdge
	nodes    []pendingNode
	delNodes []pendingID
	delEdges []pendingID
}

type pendingNode struct {
	graph string
	props map[string]any
	kinds []string
}

type pendingID struct {
	graph string
	id    uint64
}

var (
	_ graph.Batch            = (*batch)(nil)
	_ graph.NodeBatchCreator = (*batch)(nil)
)

func (b *batch) WithGraph(g graph.Graph) graph.Batch {
	b.inner.WithGraph(g)
	return b
}

func (b *batch) Nodes() graph.NodeQuery { return b.inner.Nodes() }

func (b *batch) Relationships() graph.RelationshipQuery { return b.inner.Relationships() }

func (b *batch) CreateNode(node *graph.Node) error {
	gname, err := b.inner.checkWrite()
	if err != nil {
		return err
	}
	if err := b.inner.db.hit(OpCreateNode, gname); err != nil {
		return err
	}
	b.nodes = append(b.nodes, pendingNode{gname, propsOf(node.Properties), dedupKinds(node.Kinds)})
	return b.tryFlush(b.size)
}

// CreateNodes writes immediately and returns the new ids in input order.
func (b *batch) CreateNodes(nodes []*graph.Node) ([]graph.ID, error) {
	if len(nodes) == 0 {
		return nil, nil
	}
	gname, err := b.inner.checkWrite()
	if err != nil {
		return nil, err
	}
	if err := b.inner.db.hit(OpCreateNodes, gname); err != nil {
		return nil, err
	}
	for i, n := range nodes {
		if n == nil {
			return nil, fmt.Errorf("bulk create node %d is nil", i)
		}
	}
	ids := make([]graph.ID, len(nodes))
	for i, n := range nodes {
		rec, err := b.inner.createNode(gname, propsOf(n.Properties), dedupKinds(n.Kinds))
		if err != nil {
			return nil, err
		}
		ids[i] = graph.ID(rec.id)
	}
	return ids, nil
}

func (b *batch) CreateRelationship(relationship *graph.Relationship) error {
	gname, err := b.inner.checkWrite()
	if err != nil {
		return err
	}
	if relationship.Kind == nil {
		return fmt.Errorf("fakedb: relationship kind is required")
	}
	if err := b.inner.db.hit(OpCreateRel, gname); err != nil {
		return err
	}
	b.edges = append(b.edges, pendingEdge{gname, relationship.StartID.Uint64(), relationship.EndID.Uint64(), relationship.Kind.String(), propsOf(relationship.Properties)})
	return b.tryFlush(b.size)
}

func (b *batch) CreateRelationshipByIDs(startNodeID, endNodeID graph.ID, kind graph.Kind, properties *graph.Properties) error {
	return b.CreateRelationship(&graph.Relationship{StartID: startNodeID, EndID: endNodeID, Kind: kind, Properties: properties})
}

func (b *batch) DeleteNode(id graph.ID) error {
	gname, err := b.inner.checkWrite()
	if err != nil {
		return err
	}
	b.delNodes = append(b.delNodes, pendingID{gname, id.Uint64()})
	return b.tryFlush(b.size)
}

func (b *batch) DeleteRelationship(id graph.ID) error {
	gname, err := b.inner.checkWrite()
	if err != nil {
		return err
	}
	b.delEdges = append(b.delEdges, pendingID{gname, id.Uint64()})
	return b.tryFlush(b.size)
}

func (b *batch) UpdateNodes(nodes []*graph.Node) error {
	for _, n := range nodes {
		if err := b.inner.UpdateNode(n); err != nil {
			return err
		}
	}
	return nil
}

func (b *batch) UpdateNodeBy(graph.NodeUpdate) error {
	return b.inner.db.unsupportedf("Batch.UpdateNodeBy")
}

func (b *batch) UpdateRelationshipBy(graph.RelationshipUpdate) error {
	return b.inner.db.unsupportedf("Batch.UpdateRelationshipBy")
}

// tryFlush writes every buffer that holds more than limit entries (the PostgreSQL driver's rule).
func (b *batch) tryFlush(limit int) error {
	t := b.inner
	if len(b.edges) > limit {
		if err := t.db.hit(OpFlush, t.target); err != nil {
			return err
		}
		for len(b.edges) > 0 {
			e := b.edges[0]
			if _, err := t.createEdge(e.graph, e.start, e.end, e.kind, e.props); err != nil {
				return err
			}
			b.edges = b.edges[1:]
		}
		b.edges = nil
	}
	if len(b.nodes) > limit {
		if err := t.db.hit(OpFlush, t.target); err != nil {
			return err
		}
		for len(b.nodes) > 0 {
			n := b.nodes[0]
			if _, err := t.createNode(n.graph, n.props, n.kinds); err != nil {
				return err
			}
			b.nodes = b.nodes[1:]
		}
		b.nodes = nil
	}
	if len(b.delNodes) > limit {
		if err := t.db.hit(OpFlush, t.target); err != nil {
			return err
		}
		t.db.mu.Lock()
		for _, p := range b.delNodes {
			if g := t.db.graphLocked(p.graph, false); g != nil {
				t.deleteNodeLocked(g, p.id)
			}
		}
		t.db.mu.Unlock()
		b.delNodes = nil
	}
	if len(b.delEdges) > limit {
		if err := t.db.hit(OpFlush, t.target); err != nil {
			return err
		}
		t.db.mu.Lock()
		for _, p := range b.delEdges {
			if g := t.db.graphLocked(p.graph, false); g != nil {
				t.deleteEdgeLocked(g, p.id)
			}
		}
		t.db.mu.Unlock()
		b.delEdges = nil
	}
	return nil
}

func (b *batch) Commit() error {
	if err := b.tryFlush(0); err != nil {
		return err
	}
	return b.inner.db.hit(OpCommit, b.inner.target)
}
