// Package fakedb is an in-memory implementation of DAWGS's graph.Database used by the
// verification harness wherever DAWGS code needs "a database" (retriever dump/load/verify, ops,
// traversal). It is a test double with a deliberately narrow, documented behaviour; it is NOT a
// Cypher engine.
//
// # What is modelled
//
//   - A database holds any number of named graphs. Every node and relationship belongs to exactly
//     one graph (PostgreSQL driver semantics: `WithGraph` selects the partition). Node ids and
//     relationship ids are two database-wide sequences; new ids are max(existing)+1, so id
//     assignment is deterministic. Seeding may use arbitrary ids with gaps.
//   - graph.Database: ReadTransaction, WriteTransaction, BatchOperation, AssertSchema,
//     SetDefaultGraph, FetchKinds, RefreshKinds, Run (unsupported), Close, OptimizeStorage,
//     SetWriteFlushSize, SetBatchWriteSize.
//   - graph.Transaction: WithGraph, CreateNode, UpdateNode, CreateRelationshipByIDs,
//     UpdateRelationship, Nodes, Relationships, Commit, GraphQueryMemoryLimit. Raw and Query return
//     an "unsupported" error result. A transaction without WithGraph targets the default graph
//     (SetDefaultGraph / AssertSchema.DefaultGraph / first seeded graph); without one the operation
//     fails like the PostgreSQL driver does.
//   - graph.Batch (+ graph.NodeBatchCreator): WithGraph, CreateNode, CreateNodes (immediate, ids in
//     input order), CreateRelationship / CreateRelationshipByIDs (buffered, flushed when the buffer
//     exceeds the batch size and on Commit — the PostgreSQL driver's shape), DeleteNode,
//     DeleteRelationship, UpdateNodes, Nodes, Relationships, Commit. UpdateNodeBy and
//     UpdateRelationshipBy are unsupported.
//   - Relationship identity follows the PostgreSQL schema: (graph, start, end, kind) is unique;
//     creating it again merges the properties into the existing relationship ("upsert") and is
//     logged as update_relationship. Option WithMultiEdges(true) turns that off.
//     Both endpoints must exist in the target graph, otherwise the write fails.
//   - graph.NodeQuery / graph.RelationshipQuery: Filter, Filterf (conjunctive when repeated),
//     OrderBy, Offset, Limit, Count, First, Fetch, FetchIDs, FetchKinds, FetchDirection,
//     FetchTriples, Query (with query.Returning(...) projections), Delete, Update.
//     FetchAllShortestPaths is unsupported.
//   - Criteria are the cypher-model trees built by package query. Supported shapes, evaluated with
//     three-valued logic against a binding {n} (node queries) or {s, r, e} (relationship queries):
//     Conjunction, Disjunction, ExclusiveDisjunction, Parenthetical, Negation, KindMatcher,
//     Comparison with exactly one partial and operator = <> < <= > >= in, is / is not (null),
//     contains / starts with / ends with; operands: id(x), labels(x), type(r), toLower(x),
//     property lookups, variables (an entity compares and orders by its id), parameters and
//     literals. Ordering: id(x), a variable, or a property, ascending or descending, any number of
//     keys. Unordered results are delivered in ascending id order unless WithShuffle is set.
//   - Everything else is an *UnsupportedError ("fakedb: unsupported …"): it is returned from
//     the call, remembered (DB.Unsupported) so that a check can turn it into "inconclusive", and
//     panics when WithPanicOnUnsupported is set. It never degrades into an empty or partial result.
//   - Results handed to callers are deep copies; stored property values are deep copies of what
//     was written. Values are stored as the Go values they were given (no JSON normalisation).
//   - Cursors are graph.NewResultIterator instances (the same type the real drivers hand out), so
//     context cancellation and Close behave as in production code.
//
// # Extras for the checks
//
//   - Fault plan (DB.Inject): at the n-th occurrence of a named operation (see Op…) return an
//     error, call a context.CancelFunc, and/or invoke a callback. OpRecord counts every record
//     delivered by any cursor or result, so "fail at the k-th delivered record" is expressible.
//   - Mutation log (DB.Mutations, DB.WriteCount): every applied node/relationship write with a
//     sequence number; schema assertions are logged separately (DB.SchemaLog). Seeding is not
//     logged. WriteTransaction rolls back on error and logs the compensating entries as
//     Mutation.Rollback = true; WriteCount counts forward writes only.
//   - Seeding from a plain description (Spec) and canonical snapshots (DB.Snapshot).
//
// # What is not modelled
//
// No isolation between concurrent transactions beyond per-operation atomicity (every query
// evaluates against a consistent state under a read lock; a write transaction's effects are
// visible to others before commit and are undone on rollback). No indexes, constraints, time
// zones, JSON normalisation of property values, Cypher text, shortest paths, or the Neo4j
// driver's behaviours. Batch writes are auto-committed per flush (as in the PostgreSQL driver);
// buffered, unflushed batch writes are dropped when the delegate fails.
//
// All exported methods are safe for concurrent use.
package fakedb
