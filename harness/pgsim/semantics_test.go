package pgsim

import (
	"strings"
	"sync"
	"testing"

	"verif/gmodel"
)

// A small graph used by the semantic unit tests.
//
//	1:(A)  name=a value=1          2:(A,B) name=b value=2 tags=[x,y]      3:() name=c (no value)
//	edges: 10: 1-[R]->2   11: 2-[R]->3   12: 1-[S]->3   13: 3-[R]->3 (self loop)
func testDB() *DB {
	g := gmodel.Graph{
		Nodes: []gmodel.Node{
			{ID: 1, Kinds: []string{"A"}, Props: map[string]any{"name": "a", "value": int64(1), "score": 1.5, "flag": true}},
			{ID: 2, Kinds: []string{"A", "B"}, Props: map[string]any{"name": "b", "value": int64(2), "tags": []any{"x", "y"}, "nul": nil}},
			{ID: 3, Kinds: nil, Props: map[string]any{"name": "c"}},
		},
		Edges: []gmodel.Edge{
			{ID: 10, Start: 1, End: 2, Kind: "R", Props: map[string]any{"w": int64(5)}},
			{ID: 11, Start: 2, End: 3, Kind: "R", Props: nil},
			{ID: 12, Start: 1, End: 3, Kind: "S", Props: nil},
			{ID: 13, Start: 3, End: 3, Kind: "R", Props: nil},
		},
	}
	return NewDB(g, map[string]int16{"A": 1, "B": 2, "R": 3, "S": 4}, 0)
}

type semCase struct {
	sql  string
	want string // canonical rows joined by " ; ", or "ERR:<class>" / "UNSUP"
}

func canonResult(res gmodel.Result) string {
	rows := make([]string, len(res.Rows))
	for i, r := range res.Rows {
		rows[i] = gmodel.RowKey(r)
	}
	return strings.Join(rows, " ; ")
}

func runSem(t *testing.T, db *DB, cases []semCase) {
	t.Helper()
	for _, c := range cases {
		res, out := db.Query(c.sql, nil)
		var got string
		switch {
		case out.OK:
			got = canonResult(res)
		case out.Err != nil:
			got = "ERR:" + out.Err.Class
		default:
			got = "UNSUP"
		}
		if got != c.want {
			t.Errorf("%s\n   got:  %s (%s)\n   want: %s", c.sql, got, out, c.want)
		}
	}
}

func TestSemanticsLogicAndNulls(t *testing.T) {
	runSem(t, testDB(), []semCase{
		{`select null and false, null or true, null and true, not null`, `false | true | null | null`},
		{`select 1 = null, null is null, 1 is not null, null = null`, `null | true | true | null`},
		{`select row(1, null) is null, row(1, null) is not null, row(null, null) is null, row(1, 2) is not null`, `false | false | true | true`},
		{`select (null, null, null)::nodecomposite is null`, `true`},
		{`select 1 is distinct from null, null is distinct from null, 1 is not distinct from 1`, `true | false | true`},
		// LEFT JOIN miss: columns are NULL datums, a row built from them is an all-NULL composite (not a NULL datum)
		{`select count(n1.id), count((n1.id, n1.kind_ids, n1.properties)::nodecomposite), count(*) from node n0 left join node n1 on false`, `0 | 3 | 3`},
		{`select ((n1.id, n1.kind_ids, n1.properties)::nodecomposite) is null from node n0 left join node n1 on false limit 1`, `true`},
		{`select s.n is null, (s.n).id is null from node n0 left join (select (n1.id, n1.kind_ids, n1.properties)::nodecomposite as n from node n1) s on false limit 1`, `true | true`},
		{`select count(s.n) from node n0 left join (select (n1.id, n1.kind_ids, n1.properties)::nodecomposite as n from node n1) s on false`, `0`},
		{`select coalesce(null, null, 3), coalesce(null::int8, 4)`, `3 | 4`},
		{`select array_remove(array[1, null, 2, null], null)`, `[1,2]`},
		{`select case when null then 1 else 2 end, case 2 when 1 then 'a' when 2 then 'b' end, case when false then 1 end`, `2 | "b" | null`},
		{`select 1 in (1, null), 2 in (1, null), 2 not in (1, null), 2 not in (1, 3)`, `true | null | null | true`},
		{`select 1 = any(array[1, null]), 2 = any(array[1, null]), 2 = any(array[]::int[]), null::int = any(array[1])`, `true | null | false | null`},
		{`select 2 != all(array[1, null]), 1 != all(array[1, null]), 2 != all(array[]::int[]), 2 <> all(array[1, 3])`, `null | false | true | true`},
		{`select 5 between 1 and 10, 5 not between 1 and 3`, `true | true`},
	})
}

func TestSemanticsCastsAndArithmetic(t *testing.T) {
	runSem(t, testDB(), []semCase{
		{`select ('abc')::int8`, `ERR:runtime`},
		{`select '12'::int8, ' 12 '::int8, '-7'::int4`, `12 | 12 | -7`},
		{`select '1.5'::int8`, `ERR:runtime`},
		{`select 1.5::int8, 2.5::int8, -2.5::int8, (2.5::float8)::int8, (3.5::float8)::int8`, `2 | 3 | -3 | 2 | 4`},
		{`select '1e3'::numeric, '0.10'::numeric + 0.20`, `1000 | 0.3`},
		{`select 0.1 + 0.2 = 0.3, (0.1::float8 + 0.2::float8) = 0.3::float8`, `true | false`},
		{`select 'true'::bool, 't'::bool, 'yes'::bool, 'on'::bool, '1'::bool, 'f'::bool, 'off'::bool, 'no'::bool`, `true | true | true | true | true | false | false | false`},
		{`select 'maybe'::bool`, `ERR:runtime`},
		{`select ('"abc"'::jsonb)::text, ('"abc"'::jsonb) #>> '{}', ('5'::jsonb)::int8, ('2.5'::jsonb)::int8, ('true'::jsonb)::bool`, `"\"abc\"" | "abc" | 5 | 3 | true`},
		{`select ('"5"'::jsonb)::int8`, `ERR:runtime`},
		{`select ('1'::jsonb)::bool`, `ERR:runtime`},
		{`select ('null'::jsonb)::int8, ('null'::jsonb)::bool`, `null | null`}, // PostgreSQL 18
		{`select '{bad'::jsonb`, `ERR:runtime`},
		{`select 7/2, -7/2, 7%3, -7%3, 7.0/2, 1/3.0`, `3 | -3 | 1 | -1 | 3.5 | 0.333333333`},
		{`select (1/3.0)::text, (10/3.0)::text, (7.0/2)::text, (2::numeric * 3.50)::text, (1.10 + 2)::text`, `"0.33333333333333333333" | "3.3333333333333333" | "3.5000000000000000" | "7.00" | "3.10"`},
		{`select 1/0`, `ERR:runtime`},
		{`select 1.0/0`, `ERR:runtime`},
		{`select 2147483647 + 1`, `ERR:runtime`},
		{`select 2147483647::int8 + 1, 2147483648 + 1, 9223372036854775807 + 0`, `2147483648 | 2147483649 | 9223372036854775807`},
		{`select 9223372036854775807 + 1`, `ERR:runtime`},
		{`select (32767::int2 + 1::int2)`, `ERR:runtime`},
		{`select 1 + 1.5, 1 + 1.5::float8, 2 * 3, -(-3), 5 - 7`, `2.5 | 2.5 | 6 | 3 | -2`},
		{`select 1::text, 1.50::text, (1.5::float8)::text, true::text, (1e20::float8)::text, (100000::float8)::text`, `"1" | "1.50" | "1.5" | "true" | "1e+20" | "100000"`},
		{`select 1::bool, 0::bool, true::int`, `true | false | 1`},
		{`select 1::int8::bool`, `ERR:binding`},
		{`select 'abc'::int8[]`, `ERR:runtime`},
		{`select '{1,2,3}'::int8[], '{a,"b c",NULL}'::text[], '{}'::text[]`, `[1,2,3] | ["a","b c",null] | []`},
		{`select array['1','2']::int8[], array[1,2]::text[], array[]::int8[]`, `[1,2] | ["1","2"] | []`},
		{`select array[]`, `ERR:binding`},
		{`select 1 = 'abc'`, `ERR:runtime`},
		{`select 'abc' = 1`, `ERR:runtime`},
		{`select 'a'::text = 1`, `ERR:binding`},
		{`select 1 = '1', '1' = 1, 1.0 = 1, 1::int2 = 1::int8, 1.5::float8 > 1`, `true | true | true | true | true`},
	})
}

func TestSemanticsJSONB(t *testing.T) {
	runSem(t, testDB(), []semCase{
		{`select '{"a":1}'::jsonb -> 'a', '{"a":1}'::jsonb ->> 'a', '{"a":1}'::jsonb -> 'b', '[1,2]'::jsonb -> 0, '[1,2]'::jsonb -> -1, '[1,2]'::jsonb -> 5`, `1 | "1" | null | 1 | 2 | null`},
		{`select '{"a":null}'::jsonb -> 'a' is null, '{"a":null}'::jsonb ->> 'a' is null, jsonb_typeof('{"a":null}'::jsonb -> 'a'), jsonb_typeof(null)`, `false | true | "null" | null`},
		{`select jsonb_typeof('1'), jsonb_typeof('"x"'), jsonb_typeof('true'), jsonb_typeof('[]'), jsonb_typeof('{}'), jsonb_typeof('null')`, `"number" | "string" | "boolean" | "array" | "object" | "null"`},
		{`select '{"a":1,"b":2}'::jsonb @> '{"a":1}', '[1,2,3]'::jsonb @> '[1,3]', '[1,2]'::jsonb @> '1', '{"a":[1,2]}'::jsonb @> '{"a":[2]}', '1'::jsonb @> '[1]', '{"a":1}'::jsonb @> '{"a":2}'`, `true | true | true | true | false | false`},
		{`select '{"a":1}'::jsonb ? 'a', '{"a":1}'::jsonb ? 'b', '["a","b"]'::jsonb ? 'b', '"a"'::jsonb ? 'a', '[1]'::jsonb ? '1'`, `true | false | true | true | false`},
		{`select ('{"a":1,"b":2}'::jsonb - 'a')::text, ('{"a":1}'::jsonb || '{"c":3,"a":9}'::jsonb)::text, ('{"a":1,"b":2,"c":3}'::jsonb - array['a','c'])::text`, `"{\"b\": 2}" | "{\"a\": 9, \"c\": 3}" | "{\"b\": 2}"`},
		{`select '1.0'::jsonb = '1'::jsonb, '{"a":1, "b":2}'::jsonb = '{"b":2,"a":1}'::jsonb, '"a"'::jsonb = '"a"', '1'::jsonb > '"a"'::jsonb, 'true'::jsonb > '5'::jsonb, '[0]'::jsonb > 'true'::jsonb, '{}'::jsonb > '[1]'::jsonb, 'null'::jsonb < '"a"'::jsonb, '[]'::jsonb < 'null'::jsonb`, `true | true | true | true | true | true | true | true | true`},
		{`select to_jsonb(1::int8), to_jsonb('a'::text), to_jsonb(array[1,2]), to_jsonb(true), to_jsonb(1.5), to_jsonb(null::int)`, `1 | "a" | [1,2] | true | 1.5 | null`},
		{`select to_jsonb('a')`, `ERR:binding`},
		{`select jsonb_build_object('a', 1, 'b', 'x', 'c', null, 'd', array[1], 'e', '{"k":1}'::jsonb)`, `{"a":1,"b":"x","c":null,"d":[1],"e":{"k":1}}`},
		{`select jsonb_build_object('a')`, `ERR:runtime`},
		{`select jsonb_build_object()`, `{}`},
		{`select jsonb_array_length('[1,2,3]'), jsonb_array_length('[]')`, `3 | 0`},
		{`select jsonb_array_length('1')`, `ERR:runtime`},
		{`select jsonb_array_length('{}')`, `ERR:runtime`},
		{`select ('{"b":1,"aa":2,"a":[1,"x",null,true]}'::jsonb)::text`, `"{\"a\": [1, \"x\", null, true], \"b\": 1, \"aa\": 2}"`},
		{`select ('{"a": 1.50}'::jsonb ->> 'a'), ('{"a": 1e2}'::jsonb ->> 'a'), ('{"a": {"b": [1]}}'::jsonb ->> 'a')`, `"1.50" | "100" | "{\"b\": [1]}"`},
		{`select jsonb_to_text_array('["a", 1, null, true]'), jsonb_to_text_array('null'), jsonb_to_text_array(null)`, `["a","1",null,"true"] | null | null`},
		{`select jsonb_to_text_array('{"a":1}')`, `ERR:runtime`},
		{`select jsonb_to_text_array('"a"')`, `ERR:runtime`},
		{`select v from jsonb_array_elements_text('["a", 2, null]') as v`, `"a" ; "2" ; null`},
		{`select value from jsonb_array_elements('[1, "a"]')`, `1 ; "a"`},
		{`select n0.properties -> 'value', n0.properties ->> 'value', n0.properties -> 'tags' from node n0 order by n0.id`, `1 | "1" | null ; 2 | "2" | ["x","y"] ; null | null | null`},
		{`select n0.properties ->> 'name' || n0.properties ->> 'name' from node n0`, `ERR:binding`}, // (a ->> b || c) ->> d: text ->> text
		{`select n0.id from node n0 where n0.properties ? 'nul' or (n0.properties -> 'flag')::bool order by 1`, `1 ; 2`},
		{`select '{"a":{"b":[10,20]}}'::jsonb #> '{a,b,1}', '{"a":{"b":[10,20]}}'::jsonb #>> '{a,b}', '{"a":1}'::jsonb #> '{x}'`, `20 | "[10, 20]" | null`},
		{`select cypher_min(v), cypher_max(v) from (values ('1'::jsonb), ('"a"'::jsonb), ('null'::jsonb), (null), ('2.5'::jsonb)) t(v)`, `"a" | 2.5`},
		{`select cypher_min(v) is null from (values ('null'::jsonb)) t(v)`, `true`},
	})
}

func TestSemanticsArraysAndStrings(t *testing.T) {
	runSem(t, testDB(), []semCase{
		{`select (array[10,20,30])[1], (array[10,20,30])[0], (array[10,20,30])[4], (array[10,20,30])[2:3], (array[10,20,30])[:2], (array[10,20,30])[5:6]`, `10 | null | null | [20,30] | [10,20] | []`},
		{`select array[1,2] @> array[2,3], array[1,2] && array[2,3], array[1,2,3] @> array[3,1,1]`, `false | true | true`},
		{`select array[1,2] @> array[2], array[1,2] @> array[3], array[1,2] @> array[]::int[], array[1,null] @> array[null]::int[], array[1,2] && array[2,3], array[1,2] && array[3], array[1] <@ array[1,2]`, `true | false | true | false | true | false | true`},
		{`select array[1,2] operator (pg_catalog.@>) array[1]::int4[], array[1,2] operator (pg_catalog.&&) array[2]`, `true | true`},
		{`select array[1,2] || 3, 0 || array[1], array[1] || array[2], array[1,2] || null, null || array[1], array[1,2] || null::int`, `[1,2,3] | [0,1] | [1,2] | [1,2] | [1] | [1,2,null]`},
		{`select array_length(array[]::int[], 1), cardinality(array[]::int[]), array_length(array[1,2], 1), cardinality(array[1,2,3]), array_length(null::int[], 1)`, `null | 0 | 2 | 3 | null`},
		{`select array_append(array[1], 2), array_prepend(0, array[1]), array_cat(array[1], array[2]), array_position(array['a','b'], 'b')`, `[1,2] | [0,1] | [1,2] | 2`},
		{`select array[1,2] = array[1,2], array[1,2] = array[2,1], array[1,2] < array[1,3], array[1] < array[1,0], array[1,null]::int[] = array[1,null]::int[]`, `true | false | true | true | true`},
		{`select i from generate_subscripts(array['a','b','c'], 1) as i`, `1 ; 2 ; 3`},
		{`select x, o from unnest(array['a','b']) with ordinality as u(x, o)`, `"a" | 1 ; "b" | 2`},
		{`select u from unnest(array[3,4]) as u`, `3 ; 4`},
		{`select * from unnest(null::int[])`, ``},
		{`select id, kind_ids from unnest(array[(1, array[1]::int2[], '{}')::nodecomposite, (2, array[]::int2[], '{}')::nodecomposite]) as c`, `1 | [1] ; 2 | []`},
		{`select c.id from unnest(array[(7, array[1]::int2[], '{}')::nodecomposite]) as c(id, kind_ids, properties)`, `7`},
		{`select 'abc' like 'a%', 'abc' like '_b_', 'abc' like 'b%', 'a%c' like 'a\%c', 'abc' like 'a\%c', 'ABC' ilike 'abc', 'abc' not like 'x%', null like 'a'`, `true | true | false | true | false | true | true | null`},
		{`select 'abc' ~ '^a.c$', 'abc' ~ 'B', 'abc' ~* 'B', 'abc' !~ 'z'`, `true | false | true | true`},
		{`select lower('AbC'), upper('abc'), 'a' || 'b', 'a' || 1, 1 || 'a', 'a' || null, concat('a', null, 1, true)`, `"abc" | "ABC" | "ab" | "a1" | "1a" | null | "a1t"`},
		{`select 1 || 2`, `ERR:binding`},
		{`select substring('hello' from 2 for 3), substring('hello', 2), substr('hello', 0, 3), left('abc', 2), right('abc', 2), left('abc', -1), strpos('hello', 'll'), strpos('hello', 'z'), length('héllo')`, `"ell" | "ello" | "he" | "ab" | "bc" | "ab" | 3 | 0 | 5`},
		{`select string_to_array('a b', ' '), string_to_array('', ' '), string_to_array('abc', null), string_to_array(null, ' '), string_to_array('a,b', ',')::text[]`, `["a","b"] | [] | ["a","b","c"] | null | ["a","b"]`},
		{`select cypher_contains('hello', 'ell'), cypher_contains('hello', ''), cypher_starts_with('hello', 'he'), cypher_ends_with('hello', 'lo'), cypher_ends_with('hello', 'he'), cypher_contains(null, 'a')`, `true | true | true | true | false | null`},
		{`select replace('aXbX', 'X', '-'), reverse('abc'), split_part('a,b,c', ',', 2), btrim('  a '), abs(-3), abs(-1.5)`, `"a-b-" | "cba" | "b" | "a" | 3 | 1.5`},
		{`select 'b' > 'a', 'a' < 'ab', 'a1' < 'a2', '10' < '9'`, `true | true | true | true`},
	})
}

func TestSemanticsAggregatesAndOrdering(t *testing.T) {
	runSem(t, testDB(), []semCase{
		{`select count(*), count(x), sum(x), avg(x), min(x), max(x) from (values (1), (2), (null)) v(x)`, `3 | 2 | 3 | 1.5 | 1 | 2`},
		{`select (avg(x))::text, (sum(x))::text from (values (1), (2)) v(x)`, `"1.5000000000000000" | "3"`},
		{`select count(*), count(x), sum(x), avg(x), min(x), max(x), array_agg(x) from (select 1 as x where false) v`, `0 | 0 | null | null | null | null | null`},
		{`select sum(x), avg(x) from (values (1.5), (2)) v(x)`, `3.5 | 1.75`},
		{`select sum(x::float8), sum(x::int8) from (values (1), (2)) v(x)`, `3 | 3`},
		{`select array_agg(x), array_agg(x order by x desc), array_agg(distinct x), count(distinct x), array_agg(x order by x nulls first) from (values (2), (1), (null), (2)) v(x)`, `[2,1,null,2] | [null,2,2,1] | [1,2,null] | 2 | [null,1,2,2]`},
		{`select coalesce(array_agg(x), array[]::int4[]) from (select 1 as x where false) v`, `[]`},
		{`select x, count(*) from (values (1), (null), (1), (null), (2)) v(x) group by x order by x`, `1 | 2 ; 2 | 1 ; null | 2`},
		{`select x, count(*) as c from (values (1), (1), (2)) v(x) group by x having count(*) > 1`, `1 | 2`},
		{`select x % 2 as p, sum(x) from (values (1), (2), (3)) v(x) group by p order by p`, `0 | 2 ; 1 | 4`},
		{`select x % 2, sum(x) from (values (1), (2), (3)) v(x) group by 1 order by 1 desc`, `1 | 4 ; 0 | 2`},
		{`select x, y from (values (1, 2)) v(x, y) group by x`, `ERR:binding`},
		{`select x from (values (1)) v(x) where count(*) > 0`, `ERR:binding`},
		{`select count(count(x)) from (values (1)) v(x)`, `ERR:binding`},
		{`select x from (values (2), (null), (1)) v(x) order by x`, `1 ; 2 ; null`},
		{`select x from (values (2), (null), (1)) v(x) order by x desc`, `null ; 2 ; 1`},
		{`select x from (values (2), (null), (1)) v(x) order by x desc nulls last`, `2 ; 1 ; null`},
		{`select x from (values (2), (null), (1)) v(x) order by x nulls first`, `null ; 1 ; 2`},
		{`select x from (values (3), (1), (2)) v(x) order by x offset 1 limit 1`, `2`},
		{`select x from (values (3), (1), (2)) v(x) order by x limit 0`, ``},
		{`select x from (values (3), (1)) v(x) limit -1`, `ERR:runtime`},
		{`select distinct x from (values (1), (1), (null), (null), (2)) v(x) order by x`, `1 ; 2 ; null`},
		{`select distinct x % 2 from (values (1), (3)) v(x) order by x`, `ERR:binding`},
		{`select x, -x as y from (values (1), (2)) v(x) order by y`, `2 | -2 ; 1 | -1`},
		{`select x as y from (values (2), (1)) v(x) order by y + 0`, `ERR:binding`}, // output alias only as a bare name
		{`select x from (values (1), (2)) v(x) order by -x`, `2 ; 1`},
		{`select 1 union select 1 union all select 1`, `1 ; 1`},
		{`select 1 union all select 2 order by 1 desc`, `2 ; 1`},
		{`select 1, 2 union select 1`, `ERR:binding`},
		{`select x from (values (1), (2), (2)) v(x) intersect select 2`, `2`},
		{`select x from (values (1), (2), (2)) v(x) except select 2`, `1`},
		{`select bool_and(x), bool_or(x) from (values (true), (false), (null)) v(x)`, `false | true`},
		{`select min(x), max(x) from (values ('b'), ('a')) v(x)`, `"a" | "b"`},
		{`select (select 1), (select 1 where false), exists (select 1 where false), array(select x from (values (2), (1)) v(x) order by x)`, `1 | null | false | [1,2]`},
		{`select (select x from (values (1), (2)) v(x))`, `ERR:runtime`},
		{`select (select 1, 2)`, `ERR:binding`},
	})
}

func TestSemanticsFromAndCTEs(t *testing.T) {
	runSem(t, testDB(), []semCase{
		{`with recursive t(n) as (select 1 union all select n + 1 from t where n < 5) select sum(n), count(*) from t`, `15 | 5`},
		{`with recursive t(n) as (select 1 union select 1 from t) select count(*) from t`, `1`},
		{`with recursive t(n) as (select x from (values (1), (1)) v(x) union all select n + 1 from t where n < 2) select count(*) from t`, `4`},
		{`with recursive t(n) as (select x from (values (1), (1)) v(x) union select n + 1 from t where n < 2) select count(*) from t`, `2`},
		{`with recursive t(n) as (select 1 union all select n + 1 from t where n < 3), u as (select n * 2 as m from t) select m from u order by m`, `2 ; 4 ; 6`},
		{`with t(n) as (select 1 union all select n + 1 from t where n < 3) select * from t`, `ERR:binding`}, // not RECURSIVE: t unknown inside
		{`with a as (select 1 as x), b as (select x + 1 as y from a) select a.x, b.y from a, b`, `1 | 2`},
		{`with a as (select x from b), b as (select 1 as x) select * from a`, `ERR:binding`},
		{`with a as (select 1 as x) select (with a as (select 2 as x) select x from a), x from a`, `2 | 1`},
		{`with node as (select 7 as id) select id from node`, `7`}, // a CTE shadows a table
		{`with s(a, b) as (select 1, 2) select a, b from s`, `1 | 2`},
		{`with s(a, b, c) as (select 1, 2) select * from s`, `ERR:binding`},
		{`with s(a) as (select 1, 2) select * from s`, `1 | 2`},
		{`select n0.id, e.id from node n0 join lateral (select e0.id from edge e0 where e0.start_id = n0.id offset 0) e on true order by 1, 2`, `1 | 10 ; 1 | 12 ; 2 | 11 ; 3 | 13`},
		{`select n0.id, e.id from node n0 left join lateral (select e0.id from edge e0 where e0.start_id = n0.id and e0.kind_id = 4) e on true order by 1`, `1 | 12 ; 2 | null ; 3 | null`},
		{`select n0.id from node n0, (select e0.id from edge e0 where e0.start_id = n0.id) e`, `ERR:binding`}, // not LATERAL
		{`select a.id from node a, node b join node c on a.id = c.id`, `ERR:binding`},                         // a not visible in ON
		{`select a.id from node a join node b on true join node c on a.id = c.id and b.id = c.id order by 1`, `1 ; 2 ; 3`},
		{`select id from node a, node b`, `ERR:binding`}, // ambiguous
		{`select a.id from node a, node a`, `ERR:binding`},
		{`select nope from node`, `ERR:binding`},
		{`select node.nope from node`, `ERR:binding`},
		{`select * from nope`, `ERR:binding`},
		{`select x.id from node n0`, `ERR:binding`},
		{`select (n0).id, (n0.properties) ->> 'name' from node n0 order by 1 limit 1`, `1 | "a"`},
		{`select n0.id.x from node n0`, `ERR:binding`},
		{`select (n0.id).x from node n0`, `ERR:binding`},
		{`select ((n0.id, n0.kind_ids, n0.properties)::nodecomposite).nope from node n0`, `ERR:binding`},
		{`select count(*) from node n0 cross join edge e0`, `12`},
		{`select a.id, b.id from node a full outer join (select id from node where id > 2 union all select 9) b on a.id = b.id order by 1`, `1 | null ; 2 | null ; 3 | 3 ; null | 9`},
		{`select a.id, b.id from (select id from node where id < 3) a right join node b on a.id = b.id order by 2`, `1 | 1 ; 2 | 2 ; null | 3`},
		{`select (select count(*) from edge e0 where e0.start_id = n0.id) from node n0 order by n0.id`, `2 ; 1 ; 1`},
		{`select n0.id from node n0 where exists (select 1 from edge e0 where e0.end_id = n0.id and e0.start_id <> n0.id) order by 1`, `2 ; 3`},
		{`select n0.id from node n0 where n0.kind_ids operator (pg_catalog.@>) array [1]::int2[] order by 1`, `1 ; 2`},
		{`select n0.id from node n0 where n0.kind_ids operator (pg_catalog.@>) array []::int2[] order by 1`, `1 ; 2 ; 3`},
		{`select kind_name(e0.kind_id), kind_name(99::int2) from edge e0 where e0.id = 12`, `"S" | null`},
		{`select (array(select _kind.name from generate_subscripts(n0.kind_ids, 1) as _kind_idx, kind _kind where _kind.id = (n0.kind_ids)[_kind_idx] order by _kind_idx))::text[] from node n0 order by n0.id`, `["A"] ; ["A","B"] ; []`},
		{`select 1 from node n0 where n0.id = @missing`, `ERR:binding`},
		{`select * from (values (1, 'a'), (2, 'b')) v`, `1 | "a" ; 2 | "b"`},
		{`select column1, column2 from (values (1, 'a')) v`, `1 | "a"`},
		{`select v.* , 5 from (values (1)) v`, `1 | 5`},
		{`select`, ``},
	})
}

func TestSemanticsSyntax(t *testing.T) {
	runSem(t, testDB(), []semCase{
		{`select 1 = 1 != 2`, `ERR:syntax`},
		{`select 1 < 2 < 3`, `ERR:syntax`},
		{`select 1 = 1 = true`, `ERR:syntax`},
		{`select (1 = 1) = true, 1 = 1 is true, not 1 = 2, not true is null, 1 + 2 * 3, (1 + 2) * 3, 2 * 3 % 4, - 2 + 3`, `true | true | true | true | 7 | 9 | 2 | 1`},
		{`select 'a' like 'a' like 'b'`, `ERR:syntax`},
		{`select 1 = 2 or 3 = 3 and false`, `false`},
		{`select 'x' || 'y' = 'xy', 1 + 1 = 2 and 2 < 3`, `true | true`},
		{`select f(1).x`, `ERR:syntax`},
		{`select lower('A')[1]`, `ERR:syntax`},
		{`select array[1,2][1]`, `ERR:syntax`},
		{`select (array[1,2])[1]`, `1`},
		{`select 1; select 2`, `ERR:syntax`},
		{`select 1abc`, `ERR:syntax`},
		{`select 'unterminated`, `ERR:syntax`},
		{`select from where`, `ERR:syntax`},
		{`select 1 from`, `ERR:syntax`},
		{`select 1 as from`, `1`},
		{`select 1 as "from", 2 "x y", 3 z`, `1 | 2 | 3`},
		{"select 1 as `x`", `ERR:syntax`},
		{`select 1 -- comment
		 + 1 /* nested /* comment */ */`, `2`},
		{`select $$a'b$$, E'a\nb', 'it''s'`, `"a'b" | "a\nb" | "it's"`},
		{`select * from node n0 where`, `ERR:syntax`},
		{`select * from node n0 join edge e0`, `ERR:syntax`},
		{`select cast(1 as text), cast('2' as int8) + 1`, `"1" | 3`},
		{`select now()`, `UNSUP`},
		{`select * from unidirectional_sp_harness('a', 'b', 15)`, `UNSUP`},
		{`insert into node (graph_id, id, kind_ids, properties) values (0, 9, array[]::int2[], '{}')`, `UNSUP`},
		{`with s as (delete from node n1 where n1.id = 1 returning n1.id) select * from s`, `UNSUP`},
		{`select 1 over ()`, `ERR:syntax`},
		{`select count(*) over () from node`, `UNSUP`},
	})
}

func TestColumnNames(t *testing.T) {
	db := testDB()
	for _, c := range []struct{ sql, want string }{
		{`select 1, 'a', null, 1 + 1`, `?column?,?column?,?column?,?column?`},
		{`select 1::int8, 'a'::text, (1)::int, 2::bigint, true, 1.5::float8`, `int8,text,int4,int8,bool,float8`},
		{`select n0.id, (n0.properties ->> 'name'), n0.properties -> 'a', (n0.properties ->> 'name')::text from node n0`, `id,?column?,?column?,text`},
		{`select count(*), cardinality(array[1])::int, lower('A'), coalesce(1, 2), case when true then 1 end, case when true then 1 else n0.id end from node n0 group by n0.id`, `count,cardinality,lower,coalesce,case,id`},
		{`select exists (select 1), array(select 1), array[1], (select 1 as zz), (select n0.id from node n0 limit 1), row(1, 2), (1, 2)`, `exists,array,array,zz,id,row,row`},
		{`select (s.n).id, s.n, (s.n).properties -> 'x' from (select (n0.id, n0.kind_ids, n0.properties)::nodecomposite as n from node n0) s`, `id,n,?column?`},
		{`select (array[1,2])[1], (n0.kind_ids)[1] from node n0`, `array,kind_ids`},
		{`select (array(select 1))::text[], s.i0 as labels from (select 1 as i0) s`, `array,labels`},
		{`select * from (select 1 as a, 2 as b) s, (select 3 as c) t`, `a,b,c`},
	} {
		res, out := db.Query(c.sql, nil)
		if !out.OK {
			t.Errorf("%s: %s", c.sql, out)
			continue
		}
		if got := strings.Join(res.Columns, ","); got != c.want {
			t.Errorf("%s\n   got:  %s\n   want: %s", c.sql, got, c.want)
		}
	}
}

func TestResultMapping(t *testing.T) {
	db := testDB()
	res, out := db.Query(`select (n0.id, n0.kind_ids, n0.properties)::nodecomposite as n, (e0.id, e0.start_id, e0.end_id, e0.kind_id, e0.properties)::edgecomposite as e,
		ordered_edges_to_path((n0.id, n0.kind_ids, n0.properties)::nodecomposite, array[(e0.id, e0.start_id, e0.end_id, e0.kind_id, e0.properties)::edgecomposite], array[]::nodecomposite[]) as p,
		array[n0.id] as ids, n0.properties -> 'score' as score, n0.properties -> 'value' as value, (n0.properties ->> 'value')::numeric as num, null as nul
		from node n0 join edge e0 on e0.start_id = n0.id where n0.id = 2`, nil)
	if !out.OK {
		t.Fatal(out)
	}
	row := res.Rows[0]
	n, ok := row[0].(gmodel.NodeVal)
	if !ok || n.ID != 2 || strings.Join(n.Kinds, ",") != "A,B" || n.Props["name"] != "b" || n.Props["value"] != int64(2) {
		t.Errorf("node mapping: %#v", row[0])
	}
	e, ok := row[1].(gmodel.EdgeVal)
	if !ok || e.ID != 11 || e.Start != 2 || e.End != 3 || e.Kind != "R" || len(e.Props) != 0 {
		t.Errorf("edge mapping: %#v", row[1])
	}
	p, ok := row[2].(gmodel.PathVal)
	if !ok || len(p.Nodes) != 2 || len(p.Edges) != 1 || p.Nodes[0].ID != 2 || p.Nodes[1].ID != 3 || p.Edges[0].ID != 11 {
		t.Errorf("path mapping: %#v", row[2])
	}
	if gmodel.Canon(row[3]) != "[2]" || row[4] != nil || row[5] != int64(2) || row[6] != float64(2) || row[7] != nil {
		t.Errorf("scalar mapping: %#v", row[3:])
	}
	// score is non-integral → float64
	res, _ = db.Query(`select n0.properties -> 'score', n0.properties -> 'flag', n0.properties -> 'name' from node n0 where n0.id = 1`, nil)
	if res.Rows[0][0] != 1.5 || res.Rows[0][1] != true || res.Rows[0][2] != "a" {
		t.Errorf("jsonb mapping: %#v", res.Rows[0])
	}
	// a composite with NULL fields is handed out as a map keyed by field name (what the driver's rows.Values() yields)
	res, _ = db.Query(`select (n1.id, n1.kind_ids, n1.properties)::nodecomposite from node n0 left join node n1 on false limit 1`, nil)
	m, ok := res.Rows[0][0].(map[string]any)
	if !ok || len(m) != 3 || m["id"] != nil {
		t.Errorf("all-NULL composite mapping: %#v", res.Rows[0][0])
	}
}

func TestPathFunctions(t *testing.T) {
	runSem(t, testDB(), []semCase{
		// walks from the root through the edge list, whatever the order of the list
		{`select (p).nodes is not null, cardinality((p).nodes), cardinality((p).edges) from (select edges_to_path(10, 11) as p) s`, `true | 3 | 2`},
		{`select cardinality((nodes_to_path(1, 3)).nodes), cardinality((nodes_to_path(1, 3)).edges), (nodes_to_path(99)).nodes is null`, `2 | 0 | true`},
		{`select start_node((e0.id, e0.start_id, e0.end_id, e0.kind_id, e0.properties)::edgecomposite) is not null, (end_node((e0.id, e0.start_id, e0.end_id, e0.kind_id, e0.properties)::edgecomposite)).id from edge e0 where e0.id = 10`, `true | 2`},
	})
	db := testDB()
	edgeArr := func(ids string) string {
		return `(select coalesce(array_agg((_edge.id, _edge.start_id, _edge.end_id, _edge.kind_id, _edge.properties)::edgecomposite order by _path.ordinality), array []::edgecomposite[]) from unnest(array [` + ids + `]::int8[]) with ordinality as _path(id, ordinality) join edge _edge on _edge.id = _path.id)`
	}
	for _, c := range []struct{ root, ids, nodes, edges string }{
		{"1", "10, 11", "1,2,3", "10,11"},
		{"3", "10, 11", "3,2,1", "11,10"},          // root touches the last edge: walk backwards
		{"1", "10, 11, 13", "1,2,3,3", "10,11,13"}, // self loop at the end
		{"2", "", "2", ""},
		{"1", "11", "1", ""}, // root does not touch any edge
	} {
		res, out := db.Query(`select ordered_edges_to_path((n0.id, n0.kind_ids, n0.properties)::nodecomposite, `+edgeArr(c.ids)+`, array[]::nodecomposite[]) from node n0 where n0.id = `+c.root, nil)
		if !out.OK {
			t.Errorf("root %s edges %s: %s", c.root, c.ids, out)
			continue
		}
		p, ok := res.Rows[0][0].(gmodel.PathVal)
		if !ok {
			t.Errorf("root %s edges %s: not a path: %#v", c.root, c.ids, res.Rows[0][0])
			continue
		}
		var ns, es []string
		for _, n := range p.Nodes {
			ns = append(ns, gmodel.Canon(n.ID))
		}
		for _, e := range p.Edges {
			es = append(es, gmodel.Canon(e.ID))
		}
		if strings.Join(ns, ",") != c.nodes || strings.Join(es, ",") != c.edges {
			t.Errorf("root %s edges [%s]: nodes %v edges %v, want %s / %s", c.root, c.ids, ns, es, c.nodes, c.edges)
		}
	}
}

// the walk prefers the neighbouring ordinal in walking direction when several unused edges touch
// the current node (schema_up.sql: order by case when ordinality = last + direction …)
func TestOrderedEdgesToPathTieBreak(t *testing.T) {
	g := gmodel.Graph{
		Nodes: []gmodel.Node{{ID: 1}, {ID: 2}, {ID: 3}},
		Edges: []gmodel.Edge{{ID: 10, Start: 1, End: 2, Kind: "R"}, {ID: 11, Start: 2, End: 3, Kind: "R"}, {ID: 14, Start: 3, End: 2, Kind: "S"}},
	}
	db := NewDB(g, map[string]int16{"R": 1, "S": 2}, 0)
	edgeArr := func(ids string) string {
		return `(select array_agg((_edge.id, _edge.start_id, _edge.end_id, _edge.kind_id, _edge.properties)::edgecomposite order by _path.ordinality) from unnest(array [` + ids + `]::int8[]) with ordinality as _path(id, ordinality) join edge _edge on _edge.id = _path.id)`
	}
	for _, c := range []struct{ ids, want string }{
		{"11, 14, 10", "10,14,11"}, // backwards from the last edge: 10, then 14 (ordinal 2 = 3-1), then 11
		{"10, 11, 14", "10,11,14"},
		{"10, 14, 11", "10,14,11"},
	} {
		res, out := db.Query(`select ordered_edges_to_path((n0.id, n0.kind_ids, n0.properties)::nodecomposite, `+edgeArr(c.ids)+`, array[]::nodecomposite[]) from node n0 where n0.id = 1`, nil)
		if !out.OK {
			t.Fatalf("%s: %s", c.ids, out)
		}
		p := res.Rows[0][0].(gmodel.PathVal)
		var es []string
		for _, e := range p.Edges {
			es = append(es, gmodel.Canon(e.ID))
		}
		if strings.Join(es, ",") != c.want {
			t.Errorf("edges [%s]: got %v want %s", c.ids, es, c.want)
		}
	}
}

func TestConcurrentQueries(t *testing.T) {
	db := testDB()
	const sql = `with recursive s1(root_id, next_id, depth, satisfied, is_cycle, path) as (select e0.start_id, e0.end_id, 1, false, e0.start_id = e0.end_id, array [e0.id] from edge e0 union all select s1.root_id, e0.end_id, s1.depth + 1, false, false, s1.path || e0.id from s1 join lateral (select e0.id, e0.start_id, e0.end_id from edge e0 where e0.start_id = s1.next_id and e0.id != all (s1.path) offset 0) e0 on true where s1.depth < 15 and not s1.is_cycle) select count(*), array_agg(distinct root_id) from s1`
	want := ""
	var wg sync.WaitGroup
	results := make([]string, 16)
	for i := range results {
		wg.Add(1)
		go func(i int) {
			defer wg.Done()
			res, out := db.Query(sql, nil)
			if !out.OK {
				results[i] = out.String()
				return
			}
			results[i] = canonResult(res)
		}(i)
	}
	wg.Wait()
	want = results[0]
	for _, r := range results {
		if r != want {
			t.Errorf("concurrent results differ: %q vs %q", r, want)
		}
	}
	if want != "8 | [1,2,3]" {
		t.Errorf("expansion result %q", want)
	}
}

// A whole-row reference to a function in FROM that returns a composite type has that type: unnest over an array of
// node composites yields nodes, not anonymous records (what `UNWIND collect(n) AS m RETURN m` translates to).
func TestSemanticsWholeRowOfCompositeFunction(t *testing.T) {
	db := testDB()
	res, out := db.Query(`with s0 as (select array_agg((n.id, n.kind_ids, n.properties)::nodecomposite order by n.id)::nodecomposite[] as ns from node n where n.id < 3) select i1 as m, i1.id from s0, unnest(ns) as i1`, nil)
	if out != nil && !out.OK {
		t.Fatalf("outcome: %+v", out)
	}
	if len(res.Rows) != 2 {
		t.Fatalf("rows: %d", len(res.Rows))
	}
	for _, row := range res.Rows {
		if _, isNode := row[0].(gmodel.NodeVal); !isNode {
			t.Errorf("whole-row reference is %T, want gmodel.NodeVal", row[0])
		}
	}
}
