package pgsim

import (
	"math"
	"sort"
	"strings"
	"unicode/utf8"
)

// funcDef describes one SQL function known to pgsim (PostgreSQL built-ins that DAWGS emits, their
// close relatives, and the functions of schema_up.sql).
type funcDef struct {
	name     string
	minArgs  int
	maxArgs  int // -1: unbounded
	variadic bool
	agg      bool
	srf      bool // set-returning: only usable in FROM
	strict   bool // NULL argument → NULL result (scalar functions)
	// ret computes the static result type from static argument types ("" = unknown).
	ret func(args []string) string
	// tableCols gives the column names / types when used in FROM (nil: single column named after the function).
	tableCols           func(args []string) ([]string, []string)
	singleColTakesAlias bool
	// eval implements a scalar function; args are already evaluated (Unknown literals resolved to
	// text unless rawUnknown is set).
	eval       func(x *executor, args []Value) Value
	rawUnknown bool
	// rows implements a set-returning function.
	rows func(x *executor, args []Value) [][]Value
	// unsupported: the function exists in PostgreSQL / the schema but pgsim does not execute it.
	unsupported string
}

func retConst(t string) func([]string) string { return func([]string) string { return t } }

func retArg(i int) func([]string) string {
	return func(a []string) string {
		if i < len(a) {
			if a[i] == "unknown" {
				return "text"
			}
			return a[i]
		}
		return ""
	}
}

func retUnify(a []string) string {
	t := ""
	for _, x := range a {
		t = unifyTypes(t, x)
	}
	if t == "unknown" {
		return "text"
	}
	return t
}

var harnessCols = func([]string) ([]string, []string) {
	return []string{"root_id", "next_id", "depth", "satisfied", "is_cycle", "path"}, []string{"int8", "int8", "int4", "bool", "bool", "int8[]"}
}

var funcTable map[string]*funcDef

func lookupFunc(name string) (*funcDef, bool) {
	d, ok := funcTable[name]
	return d, ok
}

// FunctionTable lists the functions pgsim knows, with their status ("native", "aggregate",
// "set-returning", or "unsupported: <reason>").
func FunctionTable() map[string]string {
	out := map[string]string{}
	for n, d := range funcTable {
		switch {
		case d.unsupported != "":
			out[n] = "unsupported: " + d.unsupported
		case d.agg:
			out[n] = "aggregate"
		case d.srf:
			out[n] = "set-returning"
		default:
			out[n] = "native"
		}
	}
	return out
}

func init() {
	funcTable = map[string]*funcDef{}
	add := func(d *funcDef) { funcTable[d.name] = d }

	// ---- aggregates (evaluated by the executor) ----
	add(&funcDef{name: "count", minArgs: 0, maxArgs: 1, agg: true, ret: retConst("int8")})
	add(&funcDef{name: "sum", minArgs: 1, maxArgs: 1, agg: true, ret: func(a []string) string {
		switch a[0] {
		case "int2", "int4":
			return "int8"
		case "int8", "numeric":
			return "numeric"
		case "float4":
			return "float4"
		case "float8":
			return "float8"
		}
		return ""
	}})
	add(&funcDef{name: "avg", minArgs: 1, maxArgs: 1, agg: true, ret: func(a []string) string {
		switch a[0] {
		case "int2", "int4", "int8", "numeric":
			return "numeric"
		case "float4", "float8":
			return "float8"
		}
		return ""
	}})
	add(&funcDef{name: "min", minArgs: 1, maxArgs: 1, agg: true, ret: retArg(0)})
	add(&funcDef{name: "max", minArgs: 1, maxArgs: 1, agg: true, ret: retArg(0)})
	add(&funcDef{name: "array_agg", minArgs: 1, maxArgs: 1, agg: true, ret: func(a []string) string {
		if a[0] == "" {
			return ""
		}
		if a[0] == "unknown" {
			return "text[]"
		}
		if isArrayType(a[0]) {
			return a[0]
		}
		return a[0] + "[]"
	}})
	add(&funcDef{name: "cypher_min", minArgs: 1, maxArgs: 1, agg: true, ret: retConst("jsonb")})
	add(&funcDef{name: "cypher_max", minArgs: 1, maxArgs: 1, agg: true, ret: retConst("jsonb")})
	add(&funcDef{name: "bool_and", minArgs: 1, maxArgs: 1, agg: true, ret: retConst("bool")})
	add(&funcDef{name: "bool_or", minArgs: 1, maxArgs: 1, agg: true, ret: retConst("bool")})
	add(&funcDef{name: "every", minArgs: 1, maxArgs: 1, agg: true, ret: retConst("bool")})
	add(&funcDef{name: "string_agg", minArgs: 2, maxArgs: 2, agg: true, ret: retConst("text")})
	add(&funcDef{name: "jsonb_agg", minArgs: 1, maxArgs: 1, agg: true, ret: retConst("jsonb")})
	for _, n := range []string{"json_agg", "jsonb_object_agg", "stddev", "variance", "bit_and", "bit_or"} {
		add(&funcDef{name: n, minArgs: 1, maxArgs: 2, agg: true, unsupported: "aggregate not modelled"})
	}

	// ---- set-returning ----
	add(&funcDef{name: "unnest", minArgs: 1, maxArgs: 1, srf: true, singleColTakesAlias: true,
		ret: func(a []string) string { return elemType(a[0]) },
		tableCols: func(a []string) ([]string, []string) {
			et := elemType(a[0])
			if def, ok := composites[et]; ok && isArrayType(a[0]) {
				return def.Fields, def.Types
			}
			if !isArrayType(a[0]) {
				et = ""
			}
			return []string{"unnest"}, []string{et}
		},
		rows: func(x *executor, args []Value) [][]Value {
			if args[0] == nil {
				return nil
			}
			arr, ok := args[0].(*Array)
			if !ok {
				bindErr("function unnest(%s) does not exist", displayType(dynType(args[0])))
			}
			var out [][]Value
			for _, e := range arr.V {
				if r, isRow := e.(*Row); isRow && r.Type != "" {
					out = append(out, append([]Value(nil), r.F...))
				} else if e == nil {
					if def, ok := composites[arr.Elem]; ok {
						out = append(out, make([]Value, len(def.Fields)))
					} else {
						out = append(out, []Value{nil})
					}
				} else {
					out = append(out, []Value{e})
				}
			}
			return out
		}})
	add(&funcDef{name: "generate_subscripts", minArgs: 2, maxArgs: 3, srf: true, singleColTakesAlias: true, ret: retConst("int4"),
		tableCols: func([]string) ([]string, []string) { return []string{"generate_subscripts"}, []string{"int4"} },
		rows: func(x *executor, args []Value) [][]Value {
			if args[0] == nil || args[1] == nil {
				return nil
			}
			arr, ok := args[0].(*Array)
			if !ok || !isIntVal(args[1]) {
				bindErr("function generate_subscripts(%s, %s) does not exist", displayType(dynType(args[0])), displayType(dynType(args[1])))
			}
			if asInt64(args[1]) != 1 {
				return nil
			}
			reverse := false
			if len(args) == 3 {
				if args[2] == nil {
					return nil
				}
				reverse, _ = args[2].(bool)
			}
			var out [][]Value
			for i := 1; i <= len(arr.V); i++ {
				out = append(out, []Value{int32(i)})
			}
			if reverse {
				for i, j := 0, len(out)-1; i < j; i, j = i+1, j-1 {
					out[i], out[j] = out[j], out[i]
				}
			}
			return out
		}})
	add(&funcDef{name: "generate_series", minArgs: 2, maxArgs: 3, srf: true, singleColTakesAlias: true, ret: retUnify,
		tableCols: func(a []string) ([]string, []string) { return []string{"generate_series"}, []string{retUnify(a)} },
		rows: func(x *executor, args []Value) [][]Value {
			for _, a := range args {
				if a == nil {
					return nil
				}
				if !isIntVal(a) {
					unsup("generate_series over non-integer arguments")
				}
			}
			lo, hi, step := asInt64(args[0]), asInt64(args[1]), int64(1)
			if len(args) == 3 {
				step = asInt64(args[2])
			}
			if step == 0 {
				rtErr("step size cannot equal zero")
			}
			wide := "int4"
			for _, a := range args {
				if _, is8 := a.(int64); is8 {
					wide = "int8"
				}
			}
			var out [][]Value
			for v := lo; (step > 0 && v <= hi) || (step < 0 && v >= hi); v += step {
				out = append(out, []Value{mkInt(wide, v)})
				x.tick(1)
			}
			return out
		}})
	add(&funcDef{name: "jsonb_array_elements", minArgs: 1, maxArgs: 1, srf: true, singleColTakesAlias: true, ret: retConst("jsonb"),
		tableCols: func([]string) ([]string, []string) { return []string{"value"}, []string{"jsonb"} },
		rows: func(x *executor, args []Value) [][]Value {
			if args[0] == nil {
				return nil
			}
			arr := jsonArrayArg(args[0], "jsonb_array_elements")
			var out [][]Value
			for _, e := range arr {
				out = append(out, []Value{JSONB{V: e}})
			}
			return out
		}})
	add(&funcDef{name: "jsonb_array_elements_text", minArgs: 1, maxArgs: 1, srf: true, singleColTakesAlias: true, ret: retConst("text"),
		tableCols: func([]string) ([]string, []string) { return []string{"value"}, []string{"text"} },
		rows: func(x *executor, args []Value) [][]Value {
			if args[0] == nil {
				return nil
			}
			arr := jsonArrayArg(args[0], "jsonb_array_elements_text")
			var out [][]Value
			for _, e := range arr {
				out = append(out, []Value{jsonElemText(e)})
			}
			return out
		}})
	add(&funcDef{name: "jsonb_object_keys", minArgs: 1, maxArgs: 1, srf: true, singleColTakesAlias: true, ret: retConst("text"),
		tableCols: func([]string) ([]string, []string) { return []string{"jsonb_object_keys"}, []string{"text"} },
		rows: func(x *executor, args []Value) [][]Value {
			if args[0] == nil {
				return nil
			}
			j, ok := args[0].(JSONB)
			if !ok {
				bindErr("function jsonb_object_keys(%s) does not exist", displayType(dynType(args[0])))
			}
			m, ok := j.V.(map[string]any)
			if !ok {
				rtErr("cannot call jsonb_object_keys on %s", jsonKindForError(j.V))
			}
			var out [][]Value
			for _, k := range sortedJSONKeys(m) {
				out = append(out, []Value{k})
			}
			return out
		}})
	for _, n := range []string{"unidirectional_sp_harness", "unidirectional_asp_harness", "bidirectional_sp_harness", "bidirectional_asp_harness", "_bidirectional_sp_harness"} {
		add(&funcDef{name: n, minArgs: 3, maxArgs: 10, srf: true, tableCols: harnessCols, unsupported: "shortest-path harness (plpgsql running dynamic SQL)"})
	}

	// ---- scalar: PostgreSQL built-ins ----
	strictFn := func(name string, min, max int, ret func([]string) string, f func(x *executor, a []Value) Value) {
		add(&funcDef{name: name, minArgs: min, maxArgs: max, strict: true, ret: ret, eval: f})
	}
	textArg := func(v Value, fn string, pos int) string {
		switch t := v.(type) {
		case string:
			return t
		case Unknown:
			return string(t)
		}
		bindErr("function %s(%s) does not exist (argument %d is not text)", fn, displayType(dynType(v)), pos)
		return ""
	}
	strictFn("lower", 1, 1, retConst("text"), func(x *executor, a []Value) Value { return strings.ToLower(textArg(a[0], "lower", 1)) })
	strictFn("upper", 1, 1, retConst("text"), func(x *executor, a []Value) Value { return strings.ToUpper(textArg(a[0], "upper", 1)) })
	for _, n := range []string{"length", "char_length", "character_length"} {
		name := n
		strictFn(name, 1, 1, retConst("int4"), func(x *executor, a []Value) Value {
			return int32(utf8.RuneCountInString(textArg(a[0], name, 1)))
		})
	}
	strictFn("reverse", 1, 1, retConst("text"), func(x *executor, a []Value) Value {
		r := []rune(textArg(a[0], "reverse", 1))
		for i, j := 0, len(r)-1; i < j; i, j = i+1, j-1 {
			r[i], r[j] = r[j], r[i]
		}
		return string(r)
	})
	strictFn("replace", 3, 3, retConst("text"), func(x *executor, a []Value) Value {
		s, from, to := textArg(a[0], "replace", 1), textArg(a[1], "replace", 2), textArg(a[2], "replace", 3)
		if from == "" {
			return s
		}
		return strings.ReplaceAll(s, from, to)
	})
	strictFn("strpos", 2, 2, retConst("int4"), func(x *executor, a []Value) Value {
		return int32(runeIndex(textArg(a[0], "strpos", 1), textArg(a[1], "strpos", 2)))
	})
	strictFn("position", 2, 2, retConst("int4"), func(x *executor, a []Value) Value {
		// position(substring in string)
		return int32(runeIndex(textArg(a[1], "position", 2), textArg(a[0], "position", 1)))
	})
	strictFn("left", 2, 2, retConst("text"), func(x *executor, a []Value) Value {
		r := []rune(textArg(a[0], "left", 1))
		n := int(intArg(a[1], "left"))
		if n < 0 {
			n = len(r) + n
			if n < 0 {
				n = 0
			}
		}
		if n > len(r) {
			n = len(r)
		}
		return string(r[:n])
	})
	strictFn("right", 2, 2, retConst("text"), func(x *executor, a []Value) Value {
		r := []rune(textArg(a[0], "right", 1))
		n := int(intArg(a[1], "right"))
		if n < 0 {
			n = len(r) + n
			if n < 0 {
				n = 0
			}
		}
		if n > len(r) {
			n = len(r)
		}
		return string(r[len(r)-n:])
	})
	for _, n := range []string{"substring", "substr"} {
		name := n
		strictFn(name, 2, 3, retConst("text"), func(x *executor, a []Value) Value {
			s := textArg(a[0], name, 1)
			if _, isText := a[1].(string); isText {
				unsup("substring with a regular expression")
			}
			if _, isU := a[1].(Unknown); isU {
				unsup("substring with a regular expression")
			}
			r := []rune(s)
			start := intArg(a[1], name)
			if len(a) == 2 {
				if start < 1 {
					start = 1
				}
				if start-1 > int64(len(r)) {
					return ""
				}
				return string(r[start-1:])
			}
			length := intArg(a[2], name)
			if length < 0 {
				rtErr("negative substring length not allowed")
			}
			end := start + length // exclusive, 1-based
			if start < 1 {
				start = 1
			}
			if end < start {
				return ""
			}
			if start-1 > int64(len(r)) {
				return ""
			}
			if end-1 > int64(len(r)) {
				end = int64(len(r)) + 1
			}
			return string(r[start-1 : end-1])
		})
	}
	trimFn := func(name string, left, right bool) {
		strictFn(name, 1, 2, retConst("text"), func(x *executor, a []Value) Value {
			s := textArg(a[0], name, 1)
			chars := " "
			if len(a) == 2 {
				chars = textArg(a[1], name, 2)
			}
			if left {
				s = strings.TrimLeft(s, chars)
			}
			if right {
				s = strings.TrimRight(s, chars)
			}
			return s
		})
	}
	trimFn("btrim", true, true)
	trimFn("trim", true, true)
	trimFn("ltrim", true, false)
	trimFn("rtrim", false, true)
	strictFn("starts_with", 2, 2, retConst("bool"), func(x *executor, a []Value) Value {
		return strings.HasPrefix(textArg(a[0], "starts_with", 1), textArg(a[1], "starts_with", 2))
	})
	strictFn("split_part", 3, 3, retConst("text"), func(x *executor, a []Value) Value {
		s, d := textArg(a[0], "split_part", 1), textArg(a[1], "split_part", 2)
		n := intArg(a[2], "split_part")
		if n == 0 {
			rtErr("field position must not be zero")
		}
		var parts []string
		if d == "" {
			parts = []string{s}
		} else {
			parts = strings.Split(s, d)
		}
		if n < 0 {
			n = int64(len(parts)) + n + 1
		}
		if n < 1 || n > int64(len(parts)) {
			return ""
		}
		return parts[n-1]
	})
	add(&funcDef{name: "concat", minArgs: 1, maxArgs: -1, variadic: true, ret: retConst("text"), eval: func(x *executor, a []Value) Value {
		var sb strings.Builder
		for _, v := range a {
			if v == nil {
				continue
			}
			if b, ok := v.(bool); ok {
				sb.WriteString(boolOutText(b))
			} else {
				sb.WriteString(valueText(v))
			}
		}
		return sb.String()
	}})
	add(&funcDef{name: "string_to_array", minArgs: 2, maxArgs: 3, ret: retConst("text[]"), eval: func(x *executor, a []Value) Value {
		if a[0] == nil {
			return nil
		}
		s := textArg(a[0], "string_to_array", 1)
		out := &Array{Elem: "text"}
		var parts []string
		switch {
		case a[1] == nil:
			for _, r := range s {
				parts = append(parts, string(r))
			}
		case s == "":
			return out
		default:
			d := textArg(a[1], "string_to_array", 2)
			if d == "" {
				parts = []string{s}
			} else {
				parts = strings.Split(s, d)
			}
		}
		for _, p := range parts {
			if len(a) == 3 && a[2] != nil && p == textArg(a[2], "string_to_array", 3) {
				out.V = append(out.V, nil)
			} else {
				out.V = append(out.V, p)
			}
		}
		return out
	}})
	add(&funcDef{name: "array_to_string", minArgs: 2, maxArgs: 3, ret: retConst("text"), eval: func(x *executor, a []Value) Value {
		if a[0] == nil || a[1] == nil {
			return nil
		}
		arr, ok := a[0].(*Array)
		if !ok {
			bindErr("function array_to_string(%s, …) does not exist", displayType(dynType(a[0])))
		}
		d := textArg(a[1], "array_to_string", 2)
		var parts []string
		for _, e := range arr.V {
			if e == nil {
				if len(a) == 3 && a[2] != nil {
					parts = append(parts, textArg(a[2], "array_to_string", 3))
				}
				continue
			}
			if b, ok := e.(bool); ok {
				parts = append(parts, boolOutText(b))
			} else {
				parts = append(parts, valueText(e))
			}
		}
		return strings.Join(parts, d)
	}})

	// numeric functions
	numFn := func(name string, f func(v Value) Value) {
		strictFn(name, 1, 1, func(a []string) string {
			if a[0] == "unknown" || a[0] == "" {
				return "float8"
			}
			return a[0]
		}, func(x *executor, a []Value) Value {
			v := a[0]
			if u, ok := v.(Unknown); ok {
				v = parseFloatText(string(u))
			}
			if !isNumericVal(v) {
				bindErr("function %s(%s) does not exist", name, displayType(dynType(v)))
			}
			return f(v)
		})
	}
	numFn("abs", func(v Value) Value {
		switch t := v.(type) {
		case int16:
			if t == math.MinInt16 {
				rtErr("smallint out of range")
			}
			if t < 0 {
				return -t
			}
			return t
		case int32:
			if t == math.MinInt32 {
				rtErr("integer out of range")
			}
			if t < 0 {
				return -t
			}
			return t
		case int64:
			if t == math.MinInt64 {
				rtErr("bigint out of range")
			}
			if t < 0 {
				return -t
			}
			return t
		case float32:
			return float32(math.Abs(float64(t)))
		case float64:
			return math.Abs(t)
		case Numeric:
			if numSign(t) < 0 {
				return numNeg(t)
			}
			return t
		}
		return v
	})
	roundLike := func(name string, ff func(float64) float64, nf func(Numeric) Numeric) {
		strictFn(name, 1, 2, func(a []string) string {
			switch a[0] {
			case "float4", "float8":
				return "float8"
			case "":
				return ""
			}
			return "numeric"
		}, func(x *executor, a []Value) Value {
			v := a[0]
			if !isNumericVal(v) {
				bindErr("function %s(%s) does not exist", name, displayType(dynType(v)))
			}
			if len(a) == 2 {
				unsup("%s with a scale argument", name)
			}
			if isFloatVal(v) {
				return ff(asFloat(v))
			}
			return nf(asNumeric(v))
		})
	}
	roundLike("round", math.RoundToEven, func(n Numeric) Numeric { return n.roundToScale(0) })
	roundLike("trunc", math.Trunc, func(n Numeric) Numeric { return n.truncToScale(0) })
	ceilN := func(n Numeric) Numeric {
		if n.isSpecial() {
			return n
		}
		t := n.truncToScale(0)
		if numCmp(t, n) < 0 {
			return numAdd(t, numFromInt(1))
		}
		return t
	}
	floorN := func(n Numeric) Numeric {
		if n.isSpecial() {
			return n
		}
		t := n.truncToScale(0)
		if numCmp(t, n) > 0 {
			return numSub(t, numFromInt(1))
		}
		return t
	}
	roundLike("ceil", math.Ceil, ceilN)
	roundLike("ceiling", math.Ceil, ceilN)
	roundLike("floor", math.Floor, floorN)
	strictFn("sign", 1, 1, func(a []string) string {
		if a[0] == "float4" || a[0] == "float8" {
			return "float8"
		}
		return "numeric"
	}, func(x *executor, a []Value) Value {
		if !isNumericVal(a[0]) {
			bindErr("function sign(%s) does not exist", displayType(dynType(a[0])))
		}
		if isFloatVal(a[0]) {
			f := asFloat(a[0])
			switch {
			case f > 0:
				return float64(1)
			case f < 0:
				return float64(-1)
			}
			return float64(0)
		}
		return numFromInt(int64(numSign(asNumeric(a[0]))))
	})
	strictFn("sqrt", 1, 1, retConst("float8"), func(x *executor, a []Value) Value {
		if !isNumericVal(a[0]) {
			bindErr("function sqrt(%s) does not exist", displayType(dynType(a[0])))
		}
		if _, isN := a[0].(Numeric); isN {
			unsup("sqrt(numeric)")
		}
		f := asFloat(a[0])
		if f < 0 {
			rtErr("cannot take square root of a negative number")
		}
		return math.Sqrt(f)
	})
	strictFn("mod", 2, 2, retUnify, func(x *executor, a []Value) Value { return arith("%", a[0], a[1]) })
	for _, n := range []string{"power", "pow", "exp", "ln", "log", "log10", "cbrt", "random", "pi", "degrees", "radians", "sin", "cos", "tan"} {
		add(&funcDef{name: n, minArgs: 0, maxArgs: 2, unsupported: "math function not modelled"})
	}

	// conditional expressions (lazy ones are handled by the evaluator: coalesce; these are eager-safe)
	add(&funcDef{name: "coalesce", minArgs: 1, maxArgs: -1, ret: retUnify})
	add(&funcDef{name: "nullif", minArgs: 2, maxArgs: 2, ret: retArg(0), eval: func(x *executor, a []Value) Value {
		if a[0] == nil {
			return nil
		}
		if a[1] == nil {
			return a[0]
		}
		if r := compareOp("=", a[0], a[1]); r != nil && r.(bool) {
			return nil
		}
		return a[0]
	}})
	minmax := func(name string, want int) {
		add(&funcDef{name: name, minArgs: 1, maxArgs: -1, ret: retUnify, eval: func(x *executor, a []Value) Value {
			var best Value
			for _, v := range a {
				if v == nil {
					continue
				}
				if u, ok := v.(Unknown); ok {
					v = string(u)
				}
				if best == nil {
					best = v
					continue
				}
				c, ok := sortCmp(v, best)
				if !ok {
					bindErr("%s types %s and %s cannot be matched", strings.ToUpper(name), displayType(dynType(best)), displayType(dynType(v)))
				}
				if c*want > 0 {
					best = v
				}
			}
			return best
		}})
	}
	minmax("greatest", 1)
	minmax("least", -1)

	// jsonb
	strictFn("jsonb_typeof", 1, 1, retConst("text"), func(x *executor, a []Value) Value {
		return jsonTypeof(jsonbArg(a[0], "jsonb_typeof").V)
	})
	strictFn("jsonb_array_length", 1, 1, retConst("int4"), func(x *executor, a []Value) Value {
		j := jsonbArg(a[0], "jsonb_array_length")
		arr, ok := j.V.([]any)
		if !ok {
			if isJSONContainer(j.V) {
				rtErr("cannot get array length of a non-array")
			}
			rtErr("cannot get array length of a scalar")
		}
		return int32(len(arr))
	})
	add(&funcDef{name: "to_jsonb", minArgs: 1, maxArgs: 1, strict: true, rawUnknown: true, ret: retConst("jsonb"), eval: func(x *executor, a []Value) Value {
		if _, isU := a[0].(Unknown); isU {
			bindErr("could not determine polymorphic type because input has type unknown")
		}
		return JSONB{V: toJSONB(a[0])}
	}})
	add(&funcDef{name: "jsonb_build_object", minArgs: 0, maxArgs: -1, variadic: true, ret: retConst("jsonb"), eval: func(x *executor, a []Value) Value {
		if len(a)%2 != 0 {
			rtErr("argument list must have even number of elements")
		}
		m := map[string]any{}
		for i := 0; i < len(a); i += 2 {
			if a[i] == nil {
				rtErr("argument %d: key must not be null", i+1)
			}
			var key string
			switch k := a[i].(type) {
			case string:
				key = k
			case bool:
				key = valueText(k)
			case JSONB:
				if s, ok := k.V.(string); ok {
					key = s
				} else if isJSONContainer(k.V) {
					rtErr("key value must be scalar, not array, composite, or json")
				} else {
					key = jsonText(k.V)
				}
			case *Array, *Row:
				rtErr("key value must be scalar, not array, composite, or json")
			default:
				key = valueText(k)
			}
			m[key] = toJSONB(a[i+1])
		}
		return JSONB{V: m}
	}})
	add(&funcDef{name: "jsonb_build_array", minArgs: 0, maxArgs: -1, variadic: true, ret: retConst("jsonb"), eval: func(x *executor, a []Value) Value {
		out := make([]any, len(a))
		for i, v := range a {
			out[i] = toJSONB(v)
		}
		return JSONB{V: out}
	}})
	strictFn("jsonb_strip_nulls", 1, 1, retConst("jsonb"), func(x *executor, a []Value) Value {
		return JSONB{V: jsonStripNulls(jsonbArg(a[0], "jsonb_strip_nulls").V)}
	})
	add(&funcDef{name: "jsonb_set", minArgs: 3, maxArgs: 4, ret: retConst("jsonb"), unsupported: "jsonb_set not modelled"})
	add(&funcDef{name: "jsonb_pretty", minArgs: 1, maxArgs: 1, ret: retConst("text"), unsupported: "jsonb_pretty not modelled"})

	// arrays
	strictFn("array_length", 2, 2, retConst("int4"), func(x *executor, a []Value) Value {
		arr := arrayArg(a[0], "array_length")
		if intArg(a[1], "array_length") != 1 || len(arr.V) == 0 {
			return nil
		}
		return int32(len(arr.V))
	})
	strictFn("cardinality", 1, 1, retConst("int4"), func(x *executor, a []Value) Value {
		return int32(len(arrayArg(a[0], "cardinality").V))
	})
	strictFn("array_upper", 2, 2, retConst("int4"), func(x *executor, a []Value) Value {
		arr := arrayArg(a[0], "array_upper")
		if intArg(a[1], "array_upper") != 1 || len(arr.V) == 0 {
			return nil
		}
		return int32(len(arr.V))
	})
	strictFn("array_lower", 2, 2, retConst("int4"), func(x *executor, a []Value) Value {
		arr := arrayArg(a[0], "array_lower")
		if intArg(a[1], "array_lower") != 1 || len(arr.V) == 0 {
			return nil
		}
		return int32(1)
	})
	add(&funcDef{name: "array_remove", minArgs: 2, maxArgs: 2, ret: retArg(0), eval: func(x *executor, a []Value) Value {
		if a[0] == nil {
			return nil
		}
		arr := arrayArg(a[0], "array_remove")
		out := &Array{Elem: arr.Elem}
		needle := coerceToElem(a[1], arr)
		for _, e := range arr.V {
			if needle == nil {
				if e == nil {
					continue
				}
			} else if e != nil {
				if c, ok := sortCmp(e, needle); ok && c == 0 {
					continue
				} else if !ok {
					bindErr("function array_remove(%s, %s) does not exist", displayType(dynType(arr)), displayType(dynType(needle)))
				}
			}
			out.V = append(out.V, e)
		}
		return out
	}})
	add(&funcDef{name: "array_append", minArgs: 2, maxArgs: 2, ret: retArg(0), eval: func(x *executor, a []Value) Value {
		if a[0] == nil {
			return &Array{Elem: elemTypeOfValue(a[1]), V: []Value{a[1]}}
		}
		arr := arrayArg(a[0], "array_append")
		return &Array{Elem: arr.Elem, V: append(append([]Value(nil), arr.V...), coerceToElem(a[1], arr))}
	}})
	add(&funcDef{name: "array_prepend", minArgs: 2, maxArgs: 2, ret: retArg(1), eval: func(x *executor, a []Value) Value {
		if a[1] == nil {
			return &Array{Elem: elemTypeOfValue(a[0]), V: []Value{a[0]}}
		}
		arr := arrayArg(a[1], "array_prepend")
		return &Array{Elem: arr.Elem, V: append([]Value{coerceToElem(a[0], arr)}, arr.V...)}
	}})
	add(&funcDef{name: "array_cat", minArgs: 2, maxArgs: 2, ret: retArg(0), eval: func(x *executor, a []Value) Value {
		return arrayCat(a[0], a[1])
	}})
	add(&funcDef{name: "array_position", minArgs: 2, maxArgs: 3, ret: retConst("int4"), eval: func(x *executor, a []Value) Value {
		if a[0] == nil {
			return nil
		}
		if len(a) == 3 {
			unsup("array_position with start index")
		}
		arr := arrayArg(a[0], "array_position")
		needle := coerceToElem(a[1], arr)
		for i, e := range arr.V {
			if needle == nil && e == nil {
				return int32(i + 1)
			}
			if needle != nil && e != nil {
				if c, ok := sortCmp(e, needle); ok && c == 0 {
					return int32(i + 1)
				}
			}
		}
		return nil
	}})
	// intarray extension
	strictFn("uniq", 1, 1, retArg(0), func(x *executor, a []Value) Value {
		arr := arrayArg(a[0], "uniq")
		out := &Array{Elem: arr.Elem}
		for i, e := range arr.V {
			if e == nil {
				rtErr("array must not contain nulls")
			}
			if i > 0 {
				if c, _ := sortCmp(arr.V[i-1], e); c == 0 {
					continue
				}
			}
			out.V = append(out.V, e)
		}
		return out
	})
	strictFn("sort", 1, 2, retArg(0), func(x *executor, a []Value) Value {
		arr := arrayArg(a[0], "sort")
		desc := false
		if len(a) == 2 {
			d := strings.ToLower(textArg(a[1], "sort", 2))
			switch d {
			case "asc":
			case "desc":
				desc = true
			default:
				rtErr("second parameter must be \"ASC\" or \"DESC\"")
			}
		}
		out := &Array{Elem: arr.Elem, V: append([]Value(nil), arr.V...)}
		for _, e := range out.V {
			if e == nil {
				rtErr("array must not contain nulls")
			}
			if !isIntVal(e) {
				bindErr("function sort(%s) does not exist", displayType(dynType(arr)))
			}
		}
		sort.SliceStable(out.V, func(i, j int) bool {
			if desc {
				return asInt64(out.V[i]) > asInt64(out.V[j])
			}
			return asInt64(out.V[i]) < asInt64(out.V[j])
		})
		return out
	})

	// ---- schema_up.sql functions (native transcriptions) ----
	strictFn("kind_name", 1, 1, retConst("text"), func(x *executor, a []Value) Value {
		if !isIntVal(a[0]) {
			bindErr("function kind_name(%s) does not exist", displayType(dynType(a[0])))
		}
		id := asInt64(a[0])
		if name, ok := x.db.kindName[int16(id)]; ok && id >= math.MinInt16 && id <= math.MaxInt16 {
			return name
		}
		return nil
	})
	nodeOf := func(x *executor, id Value) Value {
		if id == nil {
			return nil
		}
		n, ok := x.db.nodeByID[asInt64(id)]
		if !ok {
			return nil
		}
		return x.db.nodeComposite(n)
	}
	strictFn("start_node", 1, 1, retConst("nodecomposite"), func(x *executor, a []Value) Value {
		r := rowArg(a[0], "edgecomposite", "start_node")
		return nodeOf(x, r.F[1])
	})
	strictFn("end_node", 1, 1, retConst("nodecomposite"), func(x *executor, a []Value) Value {
		r := rowArg(a[0], "edgecomposite", "end_node")
		return nodeOf(x, r.F[2])
	})
	strictFn("jsonb_to_text_array", 1, 1, retConst("text[]"), func(x *executor, a []Value) Value {
		j := jsonbArg(a[0], "jsonb_to_text_array")
		if j.V == nil {
			return nil // target = 'null'::jsonb → return null
		}
		arr, ok := j.V.([]any)
		if !ok {
			if isJSONContainer(j.V) {
				rtErr("cannot extract elements from an object")
			}
			rtErr("cannot extract elements from a scalar")
		}
		out := &Array{Elem: "text"}
		for _, e := range arr {
			out.V = append(out.V, jsonElemText(e))
		}
		return out
	})
	strictFn("cypher_contains", 2, 2, retConst("bool"), func(x *executor, a []Value) Value {
		return strings.Contains(textArg(a[0], "cypher_contains", 1), textArg(a[1], "cypher_contains", 2))
	})
	strictFn("cypher_starts_with", 2, 2, retConst("bool"), func(x *executor, a []Value) Value {
		return strings.HasPrefix(textArg(a[0], "cypher_starts_with", 1), textArg(a[1], "cypher_starts_with", 2))
	})
	strictFn("cypher_ends_with", 2, 2, retConst("bool"), func(x *executor, a []Value) Value {
		return strings.HasSuffix(textArg(a[0], "cypher_ends_with", 1), textArg(a[1], "cypher_ends_with", 2))
	})
	strictFn("cypher_jsonb_type_rank", 1, 1, retConst("int4"), func(x *executor, a []Value) Value {
		return int32(cypherTypeRank(jsonbArg(a[0], "cypher_jsonb_type_rank").V))
	})
	strictFn("cypher_value_compare", 2, 2, retConst("int4"), func(x *executor, a []Value) Value {
		return int32(cypherValueCompare(jsonbArg(a[0], "cypher_value_compare").V, jsonbArg(a[1], "cypher_value_compare").V))
	})
	add(&funcDef{name: "nodes_to_path", minArgs: 1, maxArgs: -1, variadic: true, strict: true, ret: retConst("pathcomposite"), eval: func(x *executor, a []Value) Value {
		return x.nodesToPath(variadicIDs(a, "nodes_to_path"))
	}})
	add(&funcDef{name: "edges_to_path", minArgs: 1, maxArgs: -1, variadic: true, strict: true, ret: retConst("pathcomposite"), eval: func(x *executor, a []Value) Value {
		return x.edgesToPath(variadicIDs(a, "edges_to_path"))
	}})
	strictFn("ordered_edges_to_path", 3, 3, retConst("pathcomposite"), func(x *executor, a []Value) Value {
		return x.orderedEdgesToPath(rowArg(a[0], "nodecomposite", "ordered_edges_to_path"), arrayArg(a[1], "ordered_edges_to_path"), arrayArg(a[2], "ordered_edges_to_path"))
	})
	strictFn("shortest_path_self_endpoint_error", 2, 2, retConst("bool"), func(x *executor, a []Value) Value {
		rtErr("shortest path endpoints must not resolve to the same node: root_id=%s terminal_id=%s", valueText(a[0]), valueText(a[1]))
		return nil
	})

	// known, not executed
	for _, n := range []string{"now", "clock_timestamp", "statement_timestamp", "transaction_timestamp", "timeofday",
		"current_date", "current_time", "current_timestamp", "localtime", "localtimestamp", "extract", "date_part", "date_trunc", "age", "to_timestamp", "to_char", "make_interval"} {
		add(&funcDef{name: n, minArgs: 0, maxArgs: 3, unsupported: "temporal function (depends on the clock / temporal types)"})
	}
	for _, n := range []string{"nextval", "currval", "setval", "pg_get_serial_sequence"} {
		add(&funcDef{name: n, minArgs: 1, maxArgs: 3, ret: func(a []string) string {
			if n == "pg_get_serial_sequence" {
				return "text"
			}
			return "int8"
		}, unsupported: "sequence function (writes)"})
	}
	for _, n := range []string{"current_user", "session_user", "user", "current_role", "current_catalog", "current_schema", "system_user", "inet_server_addr", "version", "pg_backend_pid"} {
		add(&funcDef{name: n, minArgs: 0, maxArgs: 0, unsupported: "session information function"})
	}
	for _, n := range []string{"create_unidirectional_pathspace_tables", "create_unidirectional_shortest_path_tables", "create_traversal_filter_tables",
		"create_bidirectional_pathspace_tables", "create_bidirectional_pair_pathspace_indexes", "create_bidirectional_shortest_path_tables",
		"swap_forward_front", "swap_backward_front", "lock_details", "table_sizes", "index_utilization", "delete_node_edges"} {
		add(&funcDef{name: n, minArgs: 0, maxArgs: 3, unsupported: "schema maintenance / harness helper"})
	}
	for _, n := range []string{"jsonb_typeof", "jsonb_array_length", "jsonb_strip_nulls", "jsonb_to_text_array", "cypher_jsonb_type_rank", "cypher_value_compare"} {
		funcTable[n].rawUnknown = true
	}
	for _, n := range []string{"regexp_replace", "regexp_match", "regexp_matches", "regexp_split_to_array", "translate", "lpad", "rpad", "repeat", "initcap", "md5", "format", "quote_literal", "quote_ident", "concat_ws", "ascii", "chr", "overlay", "encode", "decode", "to_number", "jsonb_path_query", "jsonb_each", "jsonb_each_text", "jsonb_extract_path", "jsonb_extract_path_text", "jsonb_object", "jsonb_populate_record", "row_to_json", "to_json", "array_to_json", "json_build_object", "array_dims", "array_ndims", "array_fill", "array_replace", "array_positions", "trim_array", "icount", "idx", "subarray", "intset"} {
		if _, exists := funcTable[n]; !exists {
			add(&funcDef{name: n, minArgs: 0, maxArgs: -1, unsupported: "PostgreSQL function not modelled"})
		}
	}
}

// ---- helpers -------------------------------------------------------------------------------

func runeIndex(s, sub string) int {
	i := strings.Index(s, sub)
	if i < 0 {
		return 0
	}
	return utf8.RuneCountInString(s[:i]) + 1
}

func intArg(v Value, fn string) int64 {
	if u, ok := v.(Unknown); ok {
		return asInt64(parseIntText(string(u), "int4"))
	}
	if !isIntVal(v) {
		bindErr("function %s: integer argument expected, got %s", fn, displayType(dynType(v)))
	}
	return asInt64(v)
}

func jsonbArg(v Value, fn string) JSONB {
	switch t := v.(type) {
	case JSONB:
		return t
	case Unknown:
		j, ok := parseJSON(string(t))
		if !ok {
			rtErr("invalid input syntax for type json: %q", string(t))
		}
		return JSONB{V: j}
	}
	bindErr("function %s(%s) does not exist", fn, displayType(dynType(v)))
	return JSONB{}
}

func jsonArrayArg(v Value, fn string) []any {
	j := jsonbArg(v, fn)
	arr, ok := j.V.([]any)
	if !ok {
		if isJSONContainer(j.V) {
			rtErr("cannot extract elements from an object")
		}
		rtErr("cannot extract elements from a scalar")
	}
	return arr
}

func jsonKindForError(v any) string {
	switch v.(type) {
	case []any:
		return "an array"
	case map[string]any:
		return "an object"
	}
	return "a scalar"
}

// jsonElemText is what ->> and jsonb_array_elements_text produce for one element (JSON null → SQL NULL).
func jsonElemText(e any) Value {
	switch t := e.(type) {
	case nil:
		return nil
	case string:
		return t
	}
	return jsonText(e)
}

func arrayArg(v Value, fn string) *Array {
	switch t := v.(type) {
	case *Array:
		return t
	case Unknown:
		unsup("untyped array literal passed to %s", fn)
	}
	bindErr("function %s(%s) does not exist", fn, displayType(dynType(v)))
	return nil
}

func rowArg(v Value, typ, fn string) *Row {
	r, ok := v.(*Row)
	if !ok {
		bindErr("function %s(%s) does not exist", fn, displayType(dynType(v)))
	}
	if r.Type != typ {
		// anonymous records are implicitly cast when the shape fits
		if r.Type == "" {
			return castValue(r, typ).(*Row)
		}
		bindErr("function %s(%s) does not exist", fn, displayType(r.Type))
	}
	return r
}

func variadicIDs(a []Value, fn string) []int64 {
	var ids []int64
	if len(a) == 1 {
		if arr, ok := a[0].(*Array); ok {
			for _, e := range arr.V {
				if e == nil {
					continue
				}
				if !isIntVal(e) {
					bindErr("function %s(%s) does not exist", fn, displayType(dynType(arr)))
				}
				ids = append(ids, asInt64(e))
			}
			return ids
		}
	}
	for _, v := range a {
		if v == nil {
			continue
		}
		if !isIntVal(v) {
			bindErr("function %s(%s) does not exist", fn, displayType(dynType(v)))
		}
		ids = append(ids, asInt64(v))
	}
	return ids
}

func elemTypeOfValue(v Value) string {
	t := dynType(v)
	if t == "unknown" {
		return "text"
	}
	return t
}

// coerceToElem resolves an untyped literal against the element type of an array.
func coerceToElem(v Value, arr *Array) Value {
	u, ok := v.(Unknown)
	if !ok {
		return v
	}
	et := arr.Elem
	if et == "" {
		et = elemType(dynType(arr))
	}
	if et == "" {
		et = "text"
	}
	return inputValue(string(u), et)
}

func arrayCat(a, b Value) Value {
	if a == nil {
		return b
	}
	if b == nil {
		return a
	}
	x, y := a.(*Array), b.(*Array)
	et := x.Elem
	if et == "" {
		et = y.Elem
	}
	return &Array{Elem: et, V: append(append([]Value(nil), x.V...), y.V...)}
}

func jsonStripNulls(v any) any {
	switch t := v.(type) {
	case map[string]any:
		out := map[string]any{}
		for k, e := range t {
			if e == nil {
				continue
			}
			out[k] = jsonStripNulls(e)
		}
		return out
	case []any:
		out := make([]any, len(t))
		for i, e := range t {
			out[i] = jsonStripNulls(e)
		}
		return out
	}
	return v
}

// toJSONB is to_jsonb / the value conversion of jsonb_build_object.
func toJSONB(v Value) any {
	switch t := v.(type) {
	case nil:
		return nil
	case bool:
		return t
	case int16, int32, int64:
		return numFromInt(asInt64(t))
	case float32:
		return toJSONB(float64(t))
	case float64:
		if math.IsNaN(t) || math.IsInf(t, 0) {
			return float8Text(t) // PostgreSQL emits these as strings
		}
		n, _ := parseNumeric(float8Text(t))
		return n
	case Numeric:
		if t.isSpecial() {
			return t.String()
		}
		return t
	case string:
		return t
	case Unknown:
		return string(t)
	case JSONB:
		return t.V
	case *Array:
		out := make([]any, len(t.V))
		for i, e := range t.V {
			out[i] = toJSONB(e)
		}
		return out
	case *Row:
		m := map[string]any{}
		def, ok := composites[t.Type]
		for i, f := range t.F {
			name := "f" + itoa(i+1)
			if ok && i < len(def.Fields) {
				name = def.Fields[i]
			}
			m[name] = toJSONB(f)
		}
		return m
	}
	unsup("to_jsonb of %T", v)
	return nil
}

func itoa(i int) string {
	if i == 0 {
		return "0"
	}
	var b []byte
	neg := i < 0
	if neg {
		i = -i
	}
	for i > 0 {
		b = append([]byte{byte('0' + i%10)}, b...)
		i /= 10
	}
	if neg {
		b = append([]byte{'-'}, b...)
	}
	return string(b)
}

// ---- cypher_value_compare & friends (schema_up.sql) ------------------------------------------

func cypherTypeRank(v any) int {
	switch jsonTypeof(v) {
	case "object":
		return 1
	case "array":
		return 2
	case "string":
		return 3
	case "boolean":
		return 4
	case "number":
		return 5
	case "null":
		return 6
	}
	return 7
}

func cypherValueCompare(l, r any) int {
	if jsonCmp(l, r) == 0 {
		return 0
	}
	if l == nil {
		return 1
	}
	if r == nil {
		return -1
	}
	lt, rt := jsonTypeof(l), jsonTypeof(r)
	if lt != rt {
		if cypherTypeRank(l) < cypherTypeRank(r) {
			return -1
		}
		return 1
	}
	switch lt {
	case "number":
		return numCmp(l.(Numeric), r.(Numeric))
	case "string":
		return strings.Compare(l.(string), r.(string))
	case "boolean":
		lb, rb := l.(bool), r.(bool)
		switch {
		case lb == rb:
			return 0
		case !lb && rb:
			return -1
		}
		return 1
	case "array":
		la, ra := l.([]any), r.([]any)
		n := len(la)
		if len(ra) < n {
			n = len(ra)
		}
		for i := 0; i < n; i++ {
			if c := cypherValueCompare(la[i], ra[i]); c != 0 {
				return c
			}
		}
		switch {
		case len(la) == len(ra):
			return 0
		case len(la) < len(ra):
			return -1
		}
		return 1
	case "object":
		lo, ro := l.(map[string]any), r.(map[string]any)
		if len(lo) != len(ro) {
			if len(lo) < len(ro) {
				return -1
			}
			return 1
		}
		lk, rk := make([]string, 0, len(lo)), make([]string, 0, len(ro))
		for k := range lo {
			lk = append(lk, k)
		}
		for k := range ro {
			rk = append(rk, k)
		}
		sort.Strings(lk) // array_agg(key order by key): text ordering
		sort.Strings(rk)
		for i := range lk {
			if lk[i] < rk[i] {
				return -1
			} else if lk[i] > rk[i] {
				return 1
			}
		}
		for i := range lk {
			if c := cypherValueCompare(lo[lk[i]], ro[rk[i]]); c != 0 {
				return c
			}
		}
		return 0
	}
	return strings.Compare(jsonText(l), jsonText(r))
}
