package pgsim

import (
	"fmt"
	"strings"

	"verif/sqltok"
)

// ParseError is returned by Parse. Unsupported is set when the text uses a PostgreSQL construct
// that this parser knows to exist but does not model (never to be confused with a syntax error).
type ParseError struct {
	Pos         int
	Msg         string
	Unsupported bool
}

func (e *ParseError) Error() string {
	if e.Unsupported {
		return fmt.Sprintf("unsupported at %d: %s", e.Pos, e.Msg)
	}
	return fmt.Sprintf("syntax error at %d: %s", e.Pos, e.Msg)
}

// Parse parses exactly one statement (an optional trailing semicolon is accepted).
func Parse(sql string) (stmt *Statement, err error) {
	toks := sqltok.Significant(sqltok.Lex(sql))
	for _, t := range toks {
		if t.Kind == sqltok.Bad {
			return nil, &ParseError{Pos: t.Pos, Msg: "lexical error: " + t.Value}
		}
		if t.Kind == sqltok.QuotedIdent && t.Value == "" {
			return nil, &ParseError{Pos: t.Pos, Msg: "zero-length delimited identifier"}
		}
	}
	p := &parser{sql: sql, toks: toks}
	defer func() {
		if r := recover(); r != nil {
			if pe, ok := r.(*ParseError); ok {
				stmt, err = nil, pe
				return
			}
			panic(r)
		}
	}()
	// trailing junk after numeric literal (PostgreSQL >= 15)
	for i := 0; i+1 < len(toks); i++ {
		if toks[i].Kind == sqltok.Number && toks[i+1].Pos == toks[i].Pos+len(toks[i].Text) &&
			(toks[i+1].Kind == sqltok.Word || toks[i+1].Kind == sqltok.Number) {
			return nil, &ParseError{Pos: toks[i].Pos, Msg: "trailing junk after numeric literal"}
		}
	}
	body := p.parseStatementBody()
	if p.isPunct(";") {
		p.i++
	}
	if !p.eof() {
		if p.i > 0 && p.toks[p.i-1].Text == ";" {
			p.fail("cannot insert multiple commands into a prepared statement")
		}
		p.fail("unexpected %q", p.cur().Text)
	}
	return &Statement{SQL: sql, Body: body}, nil
}

type parser struct {
	sql  string
	toks []sqltok.Token
	i    int
}

var eofTok = sqltok.Token{Kind: sqltok.Punct, Text: "<end>"}

func (p *parser) eof() bool { return p.i >= len(p.toks) }

func (p *parser) cur() sqltok.Token {
	if p.i >= len(p.toks) {
		t := eofTok
		t.Pos = len(p.sql)
		return t
	}
	return p.toks[p.i]
}

func (p *parser) peek(n int) sqltok.Token {
	if p.i+n >= len(p.toks) {
		t := eofTok
		t.Pos = len(p.sql)
		return t
	}
	return p.toks[p.i+n]
}

func (p *parser) pos() int { return p.cur().Pos }

func (p *parser) fail(format string, a ...any) {
	panic(&ParseError{Pos: p.pos(), Msg: fmt.Sprintf(format, a...)})
}

func (p *parser) unsupported(format string, a ...any) {
	panic(&ParseError{Pos: p.pos(), Msg: fmt.Sprintf(format, a...), Unsupported: true})
}

func (p *parser) isKw(kw string) bool {
	t := p.cur()
	return t.Kind == sqltok.Word && t.Value == kw
}

func (p *parser) isKwAt(n int, kw string) bool {
	t := p.peek(n)
	return t.Kind == sqltok.Word && t.Value == kw
}

func (p *parser) isPunct(s string) bool {
	t := p.cur()
	return (t.Kind == sqltok.Punct) && t.Text == s
}

func (p *parser) isPunctAt(n int, s string) bool {
	t := p.peek(n)
	return t.Kind == sqltok.Punct && t.Text == s
}

func (p *parser) isOp(s string) bool {
	t := p.cur()
	return t.Kind == sqltok.Operator && t.Text == s
}

func (p *parser) acceptKw(kw string) bool {
	if p.isKw(kw) {
		p.i++
		return true
	}
	return false
}

func (p *parser) expectKw(kw string) {
	if !p.acceptKw(kw) {
		p.fail("expected %q, found %q", kw, p.cur().Text)
	}
}

func (p *parser) acceptPunct(s string) bool {
	if p.isPunct(s) {
		p.i++
		return true
	}
	return false
}

func (p *parser) expectPunct(s string) {
	if !p.acceptPunct(s) {
		p.fail("expected %q, found %q", s, p.cur().Text)
	}
}

// PostgreSQL reserved key words (cannot be identifiers at all).
var reservedKw = wordSet(`all analyse analyze and any array as asc asymmetric both case cast check collate column
constraint create current_catalog current_date current_role current_time current_timestamp current_user default
deferrable desc distinct do else end except false fetch for foreign from grant group having in initially intersect
into lateral leading limit localtime localtimestamp not null offset on only or order placing primary references
returning select session_user some symmetric system_user table then to trailing true union unique user using
variadic when where window with`)

// type_func_name key words: allowed as function or type names, not as column / table names or aliases.
var typeFuncKw = wordSet(`authorization binary collation concurrently cross current_schema freeze full ilike inner
is isnull join left like natural notnull outer overlaps right similar tablesample verbose`)

// key words that cannot be used as a bare (AS-less) column label in a select list.
var notBareLabel = wordSet(`array as char character create day except fetch filter for from grant group having hour
intersect into isnull limit minute month notnull offset on order over overlaps precision returning second to union
varying where window with within without year`)

func wordSet(s string) map[string]bool {
	m := map[string]bool{}
	for _, w := range strings.Fields(s) {
		m[w] = true
	}
	return m
}

// identifier usable as a column / table name or alias (ColId).
func (p *parser) isColID() bool {
	t := p.cur()
	switch t.Kind {
	case sqltok.QuotedIdent:
		return true
	case sqltok.Word:
		return !reservedKw[t.Value] && !typeFuncKw[t.Value]
	}
	return false
}

func (p *parser) colID(what string) string {
	if !p.isColID() {
		p.fail("expected %s, found %q", what, p.cur().Text)
	}
	t := p.cur()
	p.i++
	return t.Value
}

// ColLabel: any identifier or key word.
func (p *parser) colLabel(what string) string {
	t := p.cur()
	if t.Kind != sqltok.QuotedIdent && t.Kind != sqltok.Word {
		p.fail("expected %s, found %q", what, t.Text)
	}
	p.i++
	return t.Value
}

func (p *parser) identList(what string) []string {
	p.expectPunct("(")
	var out []string
	for {
		out = append(out, p.colID(what))
		if !p.acceptPunct(",") {
			break
		}
	}
	p.expectPunct(")")
	return out
}

// ---- statements ----------------------------------------------------------------------------

func (p *parser) parseStatementBody() Node {
	switch {
	case p.isKw("insert"):
		return p.parseInsert()
	case p.isKw("update"):
		return p.parseUpdate()
	case p.isKw("delete"):
		return p.parseDelete()
	case p.isKw("merge"):
		return p.parseMerge()
	case p.isKw("select"), p.isKw("with"), p.isKw("values"), p.isPunct("("), p.isKw("table"):
		return p.parseQuery()
	}
	if p.eof() {
		p.fail("empty statement")
	}
	t := p.cur()
	if t.Kind == sqltok.Word {
		switch t.Value {
		case "create", "drop", "alter", "truncate", "copy", "set", "show", "begin", "commit", "rollback", "explain",
			"analyze", "vacuum", "do", "call", "grant", "revoke", "lock", "prepare", "execute", "declare", "fetch", "listen", "notify", "refresh", "reindex", "comment":
			p.unsupported("statement kind %q", t.Value)
		}
	}
	p.fail("unexpected %q at start of statement", t.Text)
	return nil
}

func (p *parser) startsQuery(n int) bool {
	return p.isKwAt(n, "select") || p.isKwAt(n, "with") || p.isKwAt(n, "values") || p.isKwAt(n, "table")
}

// after any number of '(' at offset n, does a query start?
func (p *parser) parenStartsQuery() bool {
	n := 0
	for p.isPunctAt(n, "(") {
		n++
	}
	return n > 0 && p.startsQuery(n)
}

func (p *parser) parseQuery() *Query {
	q := &Query{Pos: p.pos()}
	if p.isKw("with") {
		q.With = p.parseWith()
	}
	switch {
	case p.isKw("insert"):
		q.Body = p.parseInsert()
		return q
	case p.isKw("update"):
		q.Body = p.parseUpdate()
		return q
	case p.isKw("delete"):
		q.Body = p.parseDelete()
		return q
	case p.isKw("merge"):
		q.Body = p.parseMerge()
		return q
	}
	q.Body = p.parseSetExpr(0)
	p.parseQueryTail(q)
	// a parenthesised query with nothing around it is that query
	if inner, ok := q.Body.(*Query); ok && q.With == nil && q.OrderBy == nil && q.Offset == nil && q.Limit == nil {
		return inner
	}
	return q
}

func (p *parser) parseQueryTail(q *Query) {
	if p.isKw("order") {
		p.i++
		p.expectKw("by")
		q.OrderBy = p.parseOrderList()
	}
	for {
		switch {
		case p.isKw("limit"):
			if q.Limit != nil {
				p.fail("multiple LIMIT clauses not allowed")
			}
			p.i++
			if p.acceptKw("all") {
				q.Limit = &Literal{Pos: p.pos(), Kind: "null"}
			} else {
				q.Limit = p.parseExpr(0)
			}
		case p.isKw("offset"):
			if q.Offset != nil {
				p.fail("multiple OFFSET clauses not allowed")
			}
			p.i++
			q.Offset = p.parseExpr(0)
			if p.isKw("row") || p.isKw("rows") {
				p.i++
			}
		case p.isKw("fetch"):
			p.unsupported("FETCH FIRST")
		case p.isKw("for"):
			p.unsupported("locking clause")
		default:
			return
		}
	}
}

func (p *parser) parseOrderList() []*OrderItem {
	var out []*OrderItem
	for {
		it := &OrderItem{Pos: p.pos(), Expr: p.parseExpr(0)}
		if p.acceptKw("asc") {
		} else if p.acceptKw("desc") {
			it.Desc = true
		} else if p.isKw("using") {
			p.unsupported("ORDER BY USING")
		}
		if p.acceptKw("nulls") {
			switch {
			case p.acceptKw("first"):
				b := true
				it.NullsFirst = &b
			case p.acceptKw("last"):
				b := false
				it.NullsFirst = &b
			default:
				p.fail("expected FIRST or LAST")
			}
		}
		out = append(out, it)
		if !p.acceptPunct(",") {
			return out
		}
	}
}

func (p *parser) parseWith() *With {
	w := &With{Pos: p.pos()}
	p.expectKw("with")
	if p.acceptKw("recursive") {
		w.Recursive = true
	}
	for {
		c := &CTE{Pos: p.pos()}
		c.Name = p.colID("CTE name")
		if p.isPunct("(") {
			c.Columns = p.identList("column name")
		}
		p.expectKw("as")
		if p.acceptKw("materialized") {
			b := true
			c.Materialized = &b
		} else if p.isKw("not") && p.isKwAt(1, "materialized") {
			p.i += 2
			b := false
			c.Materialized = &b
		}
		p.expectPunct("(")
		c.Query = p.parseQuery()
		p.expectPunct(")")
		if p.isKw("search") || p.isKw("cycle") {
			p.unsupported("SEARCH/CYCLE clause")
		}
		w.CTEs = append(w.CTEs, c)
		if !p.acceptPunct(",") {
			return w
		}
	}
}

// set operations: UNION / EXCEPT (prec 1), INTERSECT (prec 2), left associative.
func (p *parser) parseSetExpr(minPrec int) SetExpr {
	left := p.parseSetOperand()
	for {
		var op string
		prec := 0
		switch {
		case p.isKw("union"):
			op, prec = "union", 1
		case p.isKw("except"):
			op, prec = "except", 1
		case p.isKw("intersect"):
			op, prec = "intersect", 2
		default:
			return left
		}
		if prec < minPrec {
			return left
		}
		pos := p.pos()
		p.i++
		all := false
		if p.acceptKw("all") {
			all = true
		} else {
			p.acceptKw("distinct")
		}
		right := p.parseSetExpr(prec + 1)
		left = &SetOp{Pos: pos, Op: op, All: all, L: left, R: right}
	}
}

func (p *parser) parseSetOperand() SetExpr {
	switch {
	case p.isPunct("("):
		p.i++
		q := p.parseQuery()
		p.expectPunct(")")
		return q
	case p.isKw("select"):
		return p.parseSelect()
	case p.isKw("values"):
		return p.parseValues()
	case p.isKw("table"):
		p.unsupported("TABLE command")
	}
	p.fail("expected SELECT, found %q", p.cur().Text)
	return nil
}

func (p *parser) parseValues() *Values {
	v := &Values{Pos: p.pos()}
	p.expectKw("values")
	for {
		p.expectPunct("(")
		var row []Expr
		for {
			if p.isKw("default") {
				p.unsupported("DEFAULT in VALUES")
			}
			row = append(row, p.parseExpr(0))
			if !p.acceptPunct(",") {
				break
			}
		}
		p.expectPunct(")")
		v.Rows = append(v.Rows, row)
		if !p.acceptPunct(",") {
			return v
		}
	}
}

func (p *parser) parseSelect() *Select {
	s := &Select{Pos: p.pos()}
	p.expectKw("select")
	if p.acceptKw("distinct") {
		s.Distinct = true
		if p.isKw("on") {
			p.unsupported("DISTINCT ON")
		}
	} else {
		p.acceptKw("all")
	}
	// an empty select list is legal in PostgreSQL
	if !(p.isKw("from") || p.isKw("where") || p.isKw("group") || p.isKw("having") || p.isPunct(")") || p.isPunct(";") || p.eof() ||
		p.isKw("union") || p.isKw("order") || p.isKw("limit") || p.isKw("offset") || p.isKw("into")) {
		s.Items = p.parseSelectItems()
	}
	if p.isKw("into") {
		p.unsupported("SELECT INTO")
	}
	if p.acceptKw("from") {
		s.From = p.parseFromList()
	}
	if p.acceptKw("where") {
		s.Where = p.parseExpr(0)
	}
	if p.isKw("group") {
		p.i++
		p.expectKw("by")
		if p.isKw("all") || p.isKw("distinct") {
			p.unsupported("GROUP BY ALL/DISTINCT")
		}
		for {
			if p.isKw("rollup") || p.isKw("cube") || p.isKw("grouping") {
				p.unsupported("grouping sets")
			}
			s.GroupBy = append(s.GroupBy, p.parseExpr(0))
			if !p.acceptPunct(",") {
				break
			}
		}
	}
	if p.acceptKw("having") {
		s.Having = p.parseExpr(0)
	}
	if p.isKw("window") {
		p.unsupported("WINDOW clause")
	}
	return s
}

func (p *parser) parseSelectItems() []*SelectItem {
	var out []*SelectItem
	for {
		it := &SelectItem{Pos: p.pos()}
		if p.isOp("*") {
			it.Expr = &Star{Pos: p.pos()}
			p.i++
		} else {
			it.Expr = p.parseExpr(0)
			if p.acceptKw("as") {
				it.Alias = p.colLabel("column alias")
			} else if p.isBareLabel() {
				it.Alias = p.cur().Value
				p.i++
			}
		}
		out = append(out, it)
		if !p.acceptPunct(",") {
			return out
		}
	}
}

func (p *parser) isBareLabel() bool {
	t := p.cur()
	switch t.Kind {
	case sqltok.QuotedIdent:
		return true
	case sqltok.Word:
		return !notBareLabel[t.Value] && !reservedKwStrict(t.Value)
	}
	return false
}

// reserved words are bare labels only if listed as such in PostgreSQL's kwlist; the ones that
// matter here (from, where, union, order, limit …) are all in notBareLabel; the rest of the
// reserved list is excluded conservatively, except the few PostgreSQL marks BARE_LABEL that
// could plausibly follow an expression.
func reservedKwStrict(w string) bool {
	if !reservedKw[w] {
		return false
	}
	switch w {
	case "all", "and", "any", "asc", "desc", "or", "not", "in", "is", "then", "else", "end", "when", "using", "on", "as",
		"null", "true", "false", "distinct", "case", "cast", "select", "table", "user", "some", "both", "leading", "trailing",
		"default", "do", "check", "column", "constraint", "lateral", "only", "variadic", "unique", "primary", "references",
		"foreign", "deferrable", "initially", "collate", "placing", "symmetric", "asymmetric", "analyse", "analyze",
		"current_catalog", "current_date", "current_role", "current_time", "current_timestamp", "current_user",
		"localtime", "localtimestamp", "session_user", "system_user":
		return true // BARE_LABEL in kwlist, but following an a_expr they continue the expression or clause
	}
	return true
}

// ---- FROM ----------------------------------------------------------------------------------

func (p *parser) parseFromList() []FromItem {
	var out []FromItem
	for {
		out = append(out, p.parseTableRef())
		if !p.acceptPunct(",") {
			return out
		}
	}
}

func (p *parser) parseTableRef() FromItem {
	left := p.parseTablePrimary()
	for {
		pos := p.pos()
		jt := ""
		switch {
		case p.isKw("cross") && p.isKwAt(1, "join"):
			p.i += 2
			right := p.parseTablePrimary()
			left = &Join{Pos: pos, Type: "cross", L: left, R: right}
			continue
		case p.isKw("natural"):
			p.unsupported("NATURAL JOIN")
		case p.isKw("join"):
			p.i++
			jt = "inner"
		case p.isKw("inner") && p.isKwAt(1, "join"):
			p.i += 2
			jt = "inner"
		case p.isKw("left") || p.isKw("right") || p.isKw("full"):
			jt = p.cur().Value
			n := 1
			if p.isKwAt(n, "outer") {
				n++
			}
			if !p.isKwAt(n, "join") {
				p.fail("expected JOIN after %q", jt)
			}
			p.i += n + 1
		default:
			return left
		}
		// the right side of a qualified join may itself be a join tree that takes the next ON
		right := p.parseTablePrimary()
		j := &Join{Pos: pos, Type: jt, L: left, R: right}
		if p.isKw("join") || p.isKw("inner") || p.isKw("left") || p.isKw("right") || p.isKw("full") || p.isKw("cross") {
			p.unsupported("right-nested join without parentheses")
		}
		switch {
		case p.acceptKw("on"):
			j.On = p.parseExpr(0)
		case p.isKw("using"):
			p.i++
			j.Using = p.identList("column name")
		default:
			p.fail("expected ON or USING after JOIN, found %q", p.cur().Text)
		}
		left = j
	}
}

func (p *parser) parseAliasClause(required bool, what string) (alias string, cols []string) {
	if p.acceptKw("as") {
		alias = p.colID("alias")
	} else if p.isColID() {
		alias = p.cur().Value
		p.i++
	} else {
		if required {
			// PostgreSQL >= 16 accepts a sub-select without alias; accept as well.
			return "", nil
		}
		return "", nil
	}
	if p.isPunct("(") {
		// column alias list; for functions this could also be a column definition list (name type)
		cols = p.parseColAliasList()
	}
	return alias, cols
}

func (p *parser) parseColAliasList() []string {
	p.expectPunct("(")
	var out []string
	for {
		out = append(out, p.colID("column alias"))
		if !p.isPunct(",") && !p.isPunct(")") {
			p.unsupported("column definition list")
		}
		if !p.acceptPunct(",") {
			break
		}
	}
	p.expectPunct(")")
	return out
}

func (p *parser) parseTablePrimary() FromItem {
	pos := p.pos()
	lateral := false
	if p.acceptKw("lateral") {
		lateral = true
	}
	if p.isPunct("(") {
		if p.parenStartsQuery() {
			p.i++
			q := p.parseQuery()
			p.expectPunct(")")
			ref := &SubqueryRef{Pos: pos, Lateral: lateral, Query: q}
			ref.Alias, ref.ColAliases = p.parseAliasClause(true, "subquery")
			return ref
		}
		if lateral {
			p.fail("expected sub-select or function after LATERAL")
		}
		// parenthesised join tree
		p.i++
		inner := p.parseTableRef()
		p.expectPunct(")")
		if _, ok := inner.(*Join); !ok {
			p.fail("parenthesised FROM item must be a join")
		}
		if p.isKw("as") || p.isColID() {
			p.unsupported("alias on parenthesised join")
		}
		return inner
	}
	if p.isKw("rows") && p.isKwAt(1, "from") {
		p.unsupported("ROWS FROM")
	}
	if p.acceptKw("only") {
		// ONLY table
	}
	// function call or table name
	if p.isFuncStart() {
		call := p.parseFuncCallNamed()
		ref := &FuncRef{Pos: pos, Lateral: lateral, Call: call}
		if p.isKw("with") && p.isKwAt(1, "ordinality") {
			p.i += 2
			ref.WithOrdinality = true
		}
		ref.Alias, ref.ColAliases = p.parseAliasClause(false, "function")
		return ref
	}
	if lateral {
		p.fail("expected sub-select or function after LATERAL")
	}
	tr := p.parseTableName()
	if p.isOp("*") {
		p.i++
	}
	tr.Alias, tr.ColAliases = p.parseAliasClause(false, "table")
	if p.isKw("tablesample") {
		p.unsupported("TABLESAMPLE")
	}
	return tr
}

func (p *parser) parseTableName() *TableRef {
	tr := &TableRef{Pos: p.pos()}
	name := p.colID("table name")
	if p.isPunct(".") {
		p.i++
		tr.Schema = name
		name = p.colLabel("table name")
		if p.isPunct(".") {
			p.unsupported("database-qualified name")
		}
	}
	tr.Name = name
	return tr
}

// a (possibly qualified) name followed by '(' in a position where a function may appear
func (p *parser) isFuncStart() bool {
	t := p.cur()
	if t.Kind == sqltok.Word && (reservedKw[t.Value]) {
		return false
	}
	if t.Kind != sqltok.Word && t.Kind != sqltok.QuotedIdent {
		return false
	}
	n := 1
	for p.isPunctAt(n, ".") {
		k := p.peek(n + 1)
		if k.Kind != sqltok.Word && k.Kind != sqltok.QuotedIdent {
			return false
		}
		n += 2
	}
	return p.isPunctAt(n, "(")
}

// ---- DML -----------------------------------------------------------------------------------

func (p *parser) parseDMLTarget() *TableRef {
	p.acceptKw("only")
	tr := p.parseTableName()
	if p.isOp("*") {
		p.i++
	}
	if p.acceptKw("as") {
		tr.Alias = p.colID("alias")
	} else if p.isColID() && !p.isKw("set") && !p.isKw("using") {
		tr.Alias = p.cur().Value
		p.i++
	}
	return tr
}

func (p *parser) parseReturning() []*SelectItem {
	if p.acceptKw("returning") {
		return p.parseSelectItems()
	}
	return nil
}

func (p *parser) parseInsert() *Insert {
	ins := &Insert{Pos: p.pos()}
	p.expectKw("insert")
	p.expectKw("into")
	tr := p.parseTableName()
	if p.acceptKw("as") {
		tr.Alias = p.colID("alias")
	}
	ins.Table = tr
	if p.isPunct("(") && !p.parenStartsQuery() {
		p.i++
		for {
			ins.Columns = append(ins.Columns, p.colID("column name"))
			if p.isPunct(".") || p.isPunct("[") {
				p.unsupported("insert target indirection")
			}
			if !p.acceptPunct(",") {
				break
			}
		}
		p.expectPunct(")")
	}
	if p.isKw("overriding") {
		p.unsupported("OVERRIDING")
	}
	if p.isKw("default") && p.isKwAt(1, "values") {
		p.i += 2
	} else {
		ins.Source = p.parseQuery()
		switch ins.Source.Body.(type) {
		case *Insert, *Update, *Delete, *Merge:
			p.fail("INSERT source must be a query")
		}
	}
	if p.isKw("on") && p.isKwAt(1, "conflict") {
		oc := &OnConflict{Pos: p.pos()}
		p.i += 2
		if p.isPunct("(") {
			p.i++
			for {
				if !p.isColID() {
					p.unsupported("expression in conflict target")
				}
				oc.Columns = append(oc.Columns, p.colID("column name"))
				if !p.acceptPunct(",") {
					break
				}
			}
			p.expectPunct(")")
			if p.isKw("where") {
				p.unsupported("conflict target predicate")
			}
		} else if p.isKw("on") && p.isKwAt(1, "constraint") {
			p.i += 2
			oc.Constraint = p.colID("constraint name")
		}
		p.expectKw("do")
		if p.acceptKw("nothing") {
			oc.DoNothing = true
		} else {
			p.expectKw("update")
			p.expectKw("set")
			oc.Set = p.parseAssignments()
			if p.acceptKw("where") {
				oc.Where = p.parseExpr(0)
			}
		}
		ins.OnConflict = oc
	}
	ins.Returning = p.parseReturning()
	return ins
}

func (p *parser) parseAssignments() []*Assignment {
	var out []*Assignment
	for {
		a := &Assignment{Pos: p.pos()}
		if p.isPunct("(") {
			p.unsupported("multi-column assignment")
		}
		a.Column = p.colID("column name")
		if p.isPunct(".") || p.isPunct("[") {
			p.unsupported("assignment target indirection")
		}
		if !p.isOp("=") {
			p.fail("expected = in assignment, found %q", p.cur().Text)
		}
		p.i++
		if p.isKw("default") {
			p.unsupported("DEFAULT in assignment")
		}
		a.Value = p.parseExpr(0)
		out = append(out, a)
		if !p.acceptPunct(",") {
			return out
		}
	}
}

func (p *parser) parseUpdate() *Update {
	u := &Update{Pos: p.pos()}
	p.expectKw("update")
	u.Table = p.parseDMLTarget()
	p.expectKw("set")
	u.Set = p.parseAssignments()
	if p.acceptKw("from") {
		u.From = p.parseFromList()
	}
	if p.acceptKw("where") {
		if p.isKw("current") && p.isKwAt(1, "of") {
			p.unsupported("WHERE CURRENT OF")
		}
		u.Where = p.parseExpr(0)
	}
	u.Returning = p.parseReturning()
	return u
}

func (p *parser) parseDelete() *Delete {
	d := &Delete{Pos: p.pos()}
	p.expectKw("delete")
	p.expectKw("from")
	d.Table = p.parseDMLTarget()
	if p.acceptKw("using") {
		d.Using = p.parseFromList()
	}
	if p.acceptKw("where") {
		if p.isKw("current") && p.isKwAt(1, "of") {
			p.unsupported("WHERE CURRENT OF")
		}
		d.Where = p.parseExpr(0)
	}
	d.Returning = p.parseReturning()
	return d
}

func (p *parser) parseMerge() *Merge {
	m := &Merge{Pos: p.pos()}
	p.expectKw("merge")
	p.expectKw("into")
	m.Table = p.parseDMLTarget()
	p.expectKw("using")
	m.Source = p.parseTablePrimary()
	p.expectKw("on")
	m.On = p.parseExpr(0)
	for p.isKw("when") {
		a := &MergeAction{Pos: p.pos()}
		p.i++
		if p.acceptKw("not") {
			p.expectKw("matched")
			if p.acceptKw("by") {
				if p.acceptKw("source") {
					p.unsupported("WHEN NOT MATCHED BY SOURCE")
				}
				p.expectKw("target")
			}
		} else {
			p.expectKw("matched")
			a.Matched = true
		}
		if p.acceptKw("and") {
			a.And = p.parseExpr(0)
		}
		p.expectKw("then")
		switch {
		case p.acceptKw("update"):
			if !a.Matched {
				p.fail("UPDATE not allowed in WHEN NOT MATCHED")
			}
			a.Kind = "update"
			p.expectKw("set")
			a.Set = p.parseAssignments()
		case p.acceptKw("delete"):
			if !a.Matched {
				p.fail("DELETE not allowed in WHEN NOT MATCHED")
			}
			a.Kind = "delete"
		case p.acceptKw("do"):
			p.expectKw("nothing")
			a.Kind = "nothing"
		case p.acceptKw("insert"):
			if a.Matched {
				p.fail("INSERT not allowed in WHEN MATCHED")
			}
			a.Kind = "insert"
			if p.isPunct("(") {
				a.Columns = p.identList("column name")
			}
			if p.isKw("default") && p.isKwAt(1, "values") {
				p.i += 2
			} else {
				p.expectKw("values")
				p.expectPunct("(")
				for {
					a.Values = append(a.Values, p.parseExpr(0))
					if !p.acceptPunct(",") {
						break
					}
				}
				p.expectPunct(")")
			}
		default:
			p.fail("expected merge action, found %q", p.cur().Text)
		}
		m.Actions = append(m.Actions, a)
	}
	if len(m.Actions) == 0 {
		p.fail("MERGE requires at least one WHEN clause")
	}
	if p.isKw("returning") {
		p.unsupported("MERGE … RETURNING")
	}
	return m
}

// ---- expressions ---------------------------------------------------------------------------

// precedence levels (PostgreSQL gram.y, lowest to highest)
const (
	precOr      = 1
	precAnd     = 2
	precNot     = 3
	precIs      = 4
	precCmp     = 5
	precLike    = 6 // BETWEEN IN LIKE ILIKE SIMILAR
	precOp      = 7 // any other operator
	precAdd     = 8
	precMul     = 9
	precExp     = 10
	precAt      = 11
	precCollate = 12
	precUminus  = 13
)

type opInfo struct {
	op       string // normalised operator
	schema   string
	prec     int
	nonassoc bool
	ntok     int    // tokens consumed by the operator itself
	kind     string // "bin" | "is" | "in" | "like" | "between" | "postfixnull"
	not      bool
}

func opPrec(text string) int {
	switch text {
	case "<", ">", "=", "<=", ">=", "<>", "!=":
		return precCmp
	case "+", "-":
		return precAdd
	case "*", "/", "%":
		return precMul
	case "^":
		return precExp
	}
	return precOp
}

// peekInfix classifies the token(s) at the cursor as an infix/postfix operator.
func (p *parser) peekInfix() (opInfo, bool) {
	t := p.cur()
	switch t.Kind {
	case sqltok.Operator:
		op := t.Text
		if op == "!=" {
			op = "<>"
		}
		pr := opPrec(t.Text)
		return opInfo{op: op, prec: pr, nonassoc: pr == precCmp, ntok: 1, kind: "bin"}, true
	case sqltok.Word:
		switch t.Value {
		case "or":
			return opInfo{op: "or", prec: precOr, ntok: 1, kind: "bin"}, true
		case "and":
			return opInfo{op: "and", prec: precAnd, ntok: 1, kind: "bin"}, true
		case "is":
			return opInfo{op: "is", prec: precIs, nonassoc: true, ntok: 1, kind: "is"}, true
		case "isnull":
			return opInfo{op: "isnull", prec: precIs, nonassoc: true, ntok: 1, kind: "postfixnull"}, true
		case "notnull":
			return opInfo{op: "notnull", prec: precIs, nonassoc: true, ntok: 1, kind: "postfixnull", not: true}, true
		case "like", "ilike":
			return opInfo{op: t.Value, prec: precLike, nonassoc: true, ntok: 1, kind: "like"}, true
		case "similar":
			if p.isKwAt(1, "to") {
				return opInfo{op: "similar to", prec: precLike, nonassoc: true, ntok: 2, kind: "like"}, true
			}
		case "in":
			return opInfo{op: "in", prec: precLike, nonassoc: true, ntok: 1, kind: "in"}, true
		case "between":
			return opInfo{op: "between", prec: precLike, nonassoc: true, ntok: 1, kind: "between"}, true
		case "not":
			n := p.peek(1)
			if n.Kind == sqltok.Word {
				switch n.Value {
				case "like", "ilike":
					return opInfo{op: "not " + n.Value, prec: precLike, nonassoc: true, ntok: 2, kind: "like", not: true}, true
				case "similar":
					if p.isKwAt(2, "to") {
						return opInfo{op: "not similar to", prec: precLike, nonassoc: true, ntok: 3, kind: "like", not: true}, true
					}
				case "in":
					return opInfo{op: "in", prec: precLike, nonassoc: true, ntok: 2, kind: "in", not: true}, true
				case "between":
					return opInfo{op: "between", prec: precLike, nonassoc: true, ntok: 2, kind: "between", not: true}, true
				}
			}
		case "operator":
			if p.isPunctAt(1, "(") {
				// OPERATOR ( [schema .] op )
				n := 2
				schema := ""
				for (p.peek(n).Kind == sqltok.Word || p.peek(n).Kind == sqltok.QuotedIdent) && p.isPunctAt(n+1, ".") {
					if schema != "" {
						schema += "."
					}
					schema += p.peek(n).Value
					n += 2
				}
				o := p.peek(n)
				if o.Kind != sqltok.Operator || !p.isPunctAt(n+1, ")") {
					p.fail("malformed OPERATOR() construct")
				}
				op := o.Text
				if op == "!=" {
					op = "<>"
				}
				return opInfo{op: op, schema: schema, prec: precOp, ntok: n + 2, kind: "bin"}, true
			}
		case "at":
			if p.isKwAt(1, "time") && p.isKwAt(2, "zone") {
				p.unsupported("AT TIME ZONE")
			}
		case "collate":
			p.unsupported("COLLATE")
		case "overlaps":
			p.unsupported("OVERLAPS")
		}
	}
	return opInfo{}, false
}

func (p *parser) parseExpr(minPrec int) Expr {
	left := p.parsePrefix()
	lastNonassocPrec := 0
	for {
		info, ok := p.peekInfix()
		if !ok || info.prec < minPrec {
			return left
		}
		if info.nonassoc && info.prec == lastNonassocPrec {
			p.fail("operator %q is non-associative", info.op)
		}
		pos := p.pos()
		p.i += info.ntok
		switch info.kind {
		case "postfixnull":
			left = &IsExpr{Pos: pos, X: left, Not: info.not, What: "null"}
		case "is":
			left = p.parseIsTail(pos, left)
		case "in":
			left = p.parseInTail(pos, left, info.not)
		case "between":
			if p.isKw("symmetric") || p.isKw("asymmetric") {
				p.unsupported("BETWEEN SYMMETRIC")
			}
			lo := p.parseExpr(precLike + 1)
			p.expectKw("and")
			hi := p.parseExpr(precLike + 1)
			left = &Between{Pos: pos, X: left, Lo: lo, Hi: hi, Not: info.not}
		case "like":
			if r, ok := p.tryAnyAll(pos, info, left); ok {
				left = r
				break
			}
			right := p.parseExpr(info.prec + 1)
			if p.isKw("escape") {
				p.unsupported("LIKE … ESCAPE")
			}
			left = &Binary{Pos: pos, Op: info.op, L: left, R: right}
		default:
			if info.op != "and" && info.op != "or" {
				if r, ok := p.tryAnyAll(pos, info, left); ok {
					left = r
					break
				}
			}
			right := p.parseExpr(info.prec + 1)
			left = &Binary{Pos: pos, Op: info.op, Schema: info.schema, L: left, R: right}
		}
		if info.nonassoc {
			lastNonassocPrec = info.prec
		} else {
			lastNonassocPrec = 0
		}
	}
}

// op ANY|ALL|SOME ( array-expr | sub-select )
func (p *parser) tryAnyAll(pos int, info opInfo, left Expr) (Expr, bool) {
	if !(p.isKw("any") || p.isKw("all") || p.isKw("some")) || !p.isPunctAt(1, "(") {
		return nil, false
	}
	all := p.isKw("all")
	p.i += 2
	var r Expr
	if p.startsQuery(0) {
		q := p.parseQuery()
		r = &SubqueryExpr{Pos: q.Pos, Query: q}
	} else {
		r = p.parseExpr(0)
	}
	p.expectPunct(")")
	return &AnyAll{Pos: pos, Op: info.op, Schema: info.schema, All: all, L: left, R: r}, true
}

func (p *parser) parseIsTail(pos int, left Expr) Expr {
	not := p.acceptKw("not")
	switch {
	case p.acceptKw("null"):
		return &IsExpr{Pos: pos, X: left, Not: not, What: "null"}
	case p.acceptKw("true"):
		return &IsExpr{Pos: pos, X: left, Not: not, What: "true"}
	case p.acceptKw("false"):
		return &IsExpr{Pos: pos, X: left, Not: not, What: "false"}
	case p.acceptKw("unknown"):
		return &IsExpr{Pos: pos, X: left, Not: not, What: "unknown"}
	case p.acceptKw("distinct"):
		p.expectKw("from")
		r := p.parseExpr(precIs + 1)
		return &IsExpr{Pos: pos, X: left, Not: not, What: "distinct from", R: r}
	case p.isKw("document"), p.isKw("normalized"), p.isKw("json"), p.isKw("of"), p.isKw("nfc"), p.isKw("nfd"), p.isKw("nfkc"), p.isKw("nfkd"):
		p.unsupported("IS %s", p.cur().Value)
	}
	p.fail("unexpected %q after IS", p.cur().Text)
	return nil
}

func (p *parser) parseInTail(pos int, left Expr, not bool) Expr {
	p.expectPunct("(")
	in := &InExpr{Pos: pos, X: left, Not: not}
	if p.startsQuery(0) {
		in.Query = p.parseQuery()
	} else {
		for {
			in.List = append(in.List, p.parseExpr(0))
			if !p.acceptPunct(",") {
				break
			}
		}
	}
	p.expectPunct(")")
	return in
}

func (p *parser) parsePrefix() Expr {
	t := p.cur()
	pos := t.Pos
	if t.Kind == sqltok.Word && t.Value == "not" {
		p.i++
		x := p.parseExpr(precNot + 1)
		return &Unary{Pos: pos, Op: "not", X: x}
	}
	if t.Kind == sqltok.Operator {
		switch t.Text {
		case "-", "+":
			p.i++
			x := p.parseExpr(precUminus)
			return &Unary{Pos: pos, Op: t.Text, X: x}
		case "*":
			p.fail("unexpected \"*\"")
		default:
			// generic prefix operator (e.g. ~ x, @ x): binds like any other operator
			p.i++
			x := p.parseExpr(precOp + 1)
			return &Unary{Pos: pos, Op: t.Text, X: x}
		}
	}
	return p.parsePostfix(p.parsePrimary())
}

// parsePostfix applies ::type casts, and – where PostgreSQL's grammar allows indirection – .field
// and [subscripts]. canIndirect reflects c_expr: indirection is allowed after a column reference,
// a parameter, a parenthesised expression and a parenthesised sub-select only.
func (p *parser) parsePostfix(e Expr, canIndirect bool) Expr {
	for {
		switch {
		case p.cur().Kind == sqltok.Cast:
			pos := p.pos()
			p.i++
			tn := p.parseTypeName()
			e = &Cast{Pos: pos, X: e, Type: tn}
			canIndirect = false
		case canIndirect && p.isPunct("."):
			pos := p.pos()
			p.i++
			if p.isOp("*") {
				p.i++
				e = &FieldSel{Pos: pos, X: e, Field: "*"}
			} else {
				e = &FieldSel{Pos: pos, X: e, Field: p.colLabel("field name")}
			}
		case canIndirect && p.isPunct("["):
			pos := p.pos()
			p.i++
			var lo, hi Expr
			isSlice := false
			if p.isPunct(":") {
				isSlice = true
				p.i++
				if !p.isPunct("]") {
					hi = p.parseExpr(0)
				}
			} else {
				lo = p.parseExpr(0)
				if p.acceptPunct(":") {
					isSlice = true
					if !p.isPunct("]") {
						hi = p.parseExpr(0)
					}
				}
			}
			p.expectPunct("]")
			if isSlice {
				e = &Slice{Pos: pos, X: e, Lo: lo, Hi: hi}
			} else {
				e = &Index{Pos: pos, X: e, Idx: lo}
			}
		default:
			return e
		}
	}
}

func (p *parser) parsePrimary() (Expr, bool) {
	t := p.cur()
	pos := t.Pos
	switch t.Kind {
	case sqltok.Number:
		p.i++
		kind := "int"
		if strings.ContainsAny(t.Text, ".eE") {
			kind = "numeric"
		}
		return &Literal{Pos: pos, Kind: kind, Text: t.Text}, false
	case sqltok.String, sqltok.EString, sqltok.UString, sqltok.DollarString:
		p.i++
		val := t.Value
		// adjacent string literals separated by a newline are concatenated
		for p.cur().Kind == sqltok.String && strings.ContainsAny(p.sql[t.Pos+len(t.Text):p.cur().Pos], "\n\r") {
			val += p.cur().Value
			t = p.cur()
			p.i++
		}
		if t.Kind == sqltok.UString {
			p.unsupported("U& string literal")
		}
		return &Literal{Pos: pos, Kind: "string", Text: val}, false
	case sqltok.BitString:
		p.unsupported("bit string literal")
	case sqltok.Param:
		p.unsupported("positional parameter")
	case sqltok.NamedParam:
		p.i++
		return &Param{Pos: pos, Name: t.Value}, true
	case sqltok.Punct:
		if t.Text == "(" {
			return p.parseParenExpr()
		}
		p.fail("unexpected %q", t.Text)
	case sqltok.QuotedIdent:
		return p.parseNameExpr()
	case sqltok.Word:
		switch t.Value {
		case "null":
			p.i++
			return &Literal{Pos: pos, Kind: "null"}, false
		case "true", "false":
			p.i++
			return &Literal{Pos: pos, Kind: "bool", Bool: t.Value == "true"}, false
		case "case":
			return p.parseCase(), false
		case "exists":
			if p.isPunctAt(1, "(") {
				p.i += 2
				q := p.parseQuery()
				p.expectPunct(")")
				return &Exists{Pos: pos, Query: q}, false
			}
		case "array":
			if p.isPunctAt(1, "[") {
				p.i++
				return p.parseArrayCtor(), false
			}
			if p.isPunctAt(1, "(") {
				p.i += 2
				q := p.parseQuery()
				p.expectPunct(")")
				return &ArraySubquery{Pos: pos, Query: q}, false
			}
			p.fail("expected [ or ( after ARRAY")
		case "row":
			if p.isPunctAt(1, "(") {
				p.i += 2
				r := &RowCtor{Pos: pos, Explicit: true}
				if !p.isPunct(")") {
					for {
						r.Elems = append(r.Elems, p.parseExpr(0))
						if !p.acceptPunct(",") {
							break
						}
					}
				}
				p.expectPunct(")")
				return r, false
			}
		case "cast":
			if p.isPunctAt(1, "(") {
				p.i += 2
				x := p.parseExpr(0)
				p.expectKw("as")
				tn := p.parseTypeName()
				p.expectPunct(")")
				return &Cast{Pos: pos, X: x, Type: tn}, false
			}
		case "extract":
			if p.isPunctAt(1, "(") {
				p.i += 2
				f := p.cur()
				if f.Kind != sqltok.Word && f.Kind != sqltok.String && f.Kind != sqltok.QuotedIdent {
					p.fail("expected field name in EXTRACT")
				}
				p.i++
				p.expectKw("from")
				src := p.parseExpr(0)
				p.expectPunct(")")
				return &FuncCall{Pos: pos, Name: "extract", Special: "extract", Args: []Expr{&Literal{Pos: f.Pos, Kind: "string", Text: strings.ToLower(f.Value)}, src}}, false
			}
		case "position":
			if p.isPunctAt(1, "(") {
				p.i += 2
				a := p.parseExpr(precLike + 1)
				p.expectKw("in")
				b := p.parseExpr(precLike + 1)
				p.expectPunct(")")
				return &FuncCall{Pos: pos, Name: "position", Special: "position", Args: []Expr{a, b}}, false
			}
		case "substring":
			if p.isPunctAt(1, "(") {
				// substring(x from a [for b]) | substring(x for b [from a]) | substring(x, a, b)
				save := p.i
				p.i += 2
				x := p.parseExpr(0)
				if p.isKw("from") || p.isKw("for") {
					var from, forE Expr
					for p.isKw("from") || p.isKw("for") {
						if p.acceptKw("from") {
							from = p.parseExpr(0)
						} else if p.acceptKw("for") {
							forE = p.parseExpr(0)
						}
					}
					p.expectPunct(")")
					if from == nil {
						from = &Literal{Pos: pos, Kind: "int", Text: "1"}
					}
					args := []Expr{x, from}
					if forE != nil {
						args = append(args, forE)
					}
					return &FuncCall{Pos: pos, Name: "substring", Args: args}, false
				}
				if p.isKw("similar") {
					p.unsupported("SUBSTRING … SIMILAR")
				}
				p.i = save
			}
		case "trim":
			if p.isPunctAt(1, "(") && (p.isKwAt(2, "both") || p.isKwAt(2, "leading") || p.isKwAt(2, "trailing")) {
				p.unsupported("TRIM with BOTH/LEADING/TRAILING")
			}
		case "overlay", "normalize", "treat", "xmlelement", "xmlforest", "xmlparse", "xmlpi", "xmlroot", "xmlserialize", "xmlconcat", "xmlexists",
			"json_object", "json_array", "json_query", "json_value", "json_exists", "json_scalar", "json_serialize", "json", "json_objectagg", "json_arrayagg", "grouping":
			if p.isPunctAt(1, "(") {
				p.unsupported("special function syntax %s()", t.Value)
			}
		case "current_date", "current_time", "current_timestamp", "localtime", "localtimestamp",
			"current_user", "current_role", "session_user", "user", "current_catalog", "current_schema", "system_user":
			p.i++
			fc := &FuncCall{Pos: pos, Name: t.Value, Bare: true}
			if p.isPunct("(") {
				switch t.Value {
				case "current_time", "current_timestamp", "localtime", "localtimestamp":
					p.i++
					n := p.cur()
					if n.Kind != sqltok.Number || strings.ContainsAny(n.Text, ".eE") {
						p.fail("expected integer precision")
					}
					p.i++
					p.expectPunct(")")
					fc.Bare = false
					fc.Args = []Expr{&Literal{Pos: n.Pos, Kind: "int", Text: n.Text}}
				}
			}
			return fc, false
		case "select", "with", "values":
			p.fail("unexpected %q (sub-select must be parenthesised)", t.Value)
		}
		// typed literal:  typename 'string'
		if !reservedKw[t.Value] {
			if lit, ok := p.tryTypedLiteral(); ok {
				return lit, false
			}
		}
		if reservedKw[t.Value] {
			p.fail("unexpected key word %q", t.Value)
		}
		return p.parseNameExpr()
	}
	p.fail("unexpected %q", t.Text)
	return nil, false
}

// parseNameExpr: column reference (a, t.a, t.*) or function call.
func (p *parser) parseNameExpr() (Expr, bool) {
	if p.isFuncStart() {
		return p.parseFuncCallNamed(), false
	}
	pos := p.pos()
	t := p.cur()
	if t.Kind == sqltok.Word && typeFuncKw[t.Value] {
		p.fail("unexpected key word %q", t.Value)
	}
	p.i++
	parts := []string{t.Value}
	for p.isPunct(".") {
		n := p.peek(1)
		if n.Kind == sqltok.Operator && n.Text == "*" {
			p.i += 2
			if len(parts) > 1 {
				p.unsupported("schema-qualified t.*")
			}
			return &Star{Pos: pos, Table: parts[0]}, false
		}
		if n.Kind != sqltok.Word && n.Kind != sqltok.QuotedIdent {
			p.fail("expected name after \".\"")
		}
		parts = append(parts, n.Value)
		p.i += 2
	}
	return &ColumnRef{Pos: pos, Parts: parts}, true
}

func (p *parser) parseFuncCallNamed() *FuncCall {
	fc := &FuncCall{Pos: p.pos()}
	var names []string
	names = append(names, p.cur().Value)
	p.i++
	for p.isPunct(".") {
		names = append(names, p.peek(1).Value)
		p.i += 2
	}
	fc.Name = names[len(names)-1]
	if len(names) > 1 {
		fc.Schema = strings.Join(names[:len(names)-1], ".")
	}
	p.expectPunct("(")
	switch {
	case p.isOp("*"):
		p.i++
		fc.Star = true
	case p.isPunct(")"):
	default:
		if p.acceptKw("distinct") {
			fc.Distinct = true
		} else {
			p.acceptKw("all")
		}
		for {
			if p.acceptKw("variadic") {
				fc.Variadic = true
			} else if fc.Variadic {
				p.fail("VARIADIC must be last")
			}
			arg := p.parseExpr(0)
			if p.isOp("=>") || p.isOp(":=") {
				p.unsupported("named argument notation")
			}
			fc.Args = append(fc.Args, arg)
			if !p.acceptPunct(",") {
				break
			}
		}
		if p.isKw("order") {
			p.i++
			p.expectKw("by")
			fc.OrderBy = p.parseOrderList()
		}
	}
	p.expectPunct(")")
	if p.isKw("within") {
		p.unsupported("WITHIN GROUP")
	}
	if p.isKw("filter") && p.isPunctAt(1, "(") {
		p.i += 2
		p.expectKw("where")
		fc.Filter = p.parseExpr(0)
		p.expectPunct(")")
	}
	if p.isKw("over") {
		p.unsupported("window function")
	}
	return fc
}

func (p *parser) parseCase() Expr {
	c := &Case{Pos: p.pos()}
	p.expectKw("case")
	if !p.isKw("when") {
		c.Operand = p.parseExpr(0)
	}
	for p.isKw("when") {
		w := &When{Pos: p.pos()}
		p.i++
		w.Cond = p.parseExpr(0)
		p.expectKw("then")
		w.Then = p.parseExpr(0)
		c.Whens = append(c.Whens, w)
	}
	if len(c.Whens) == 0 {
		p.fail("CASE requires at least one WHEN")
	}
	if p.acceptKw("else") {
		c.Else = p.parseExpr(0)
	}
	p.expectKw("end")
	return c
}

func (p *parser) parseArrayCtor() Expr {
	a := &ArrayCtor{Pos: p.pos()}
	p.expectPunct("[")
	if !p.isPunct("]") {
		for {
			if p.isPunct("[") {
				// nested [ … ] inside ARRAY[…] denotes a sub-array
				a.Elems = append(a.Elems, p.parseArrayCtor())
			} else {
				a.Elems = append(a.Elems, p.parseExpr(0))
			}
			if !p.acceptPunct(",") {
				break
			}
		}
	}
	p.expectPunct("]")
	return a
}

func (p *parser) parseParenExpr() (Expr, bool) {
	pos := p.pos()
	if p.parenStartsQuery() {
		// try as a parenthesised sub-select first
		save := p.i
		if q, ok := p.tryParenQuery(); ok {
			return &SubqueryExpr{Pos: pos, Query: q}, true
		}
		p.i = save
	}
	p.expectPunct("(")
	first := p.parseExpr(0)
	if p.isPunct(",") {
		r := &RowCtor{Pos: pos, Elems: []Expr{first}}
		for p.acceptPunct(",") {
			r.Elems = append(r.Elems, p.parseExpr(0))
		}
		p.expectPunct(")")
		return r, false
	}
	p.expectPunct(")")
	return &Paren{Pos: pos, X: first}, true
}

func (p *parser) tryParenQuery() (q *Query, ok bool) {
	defer func() {
		if r := recover(); r != nil {
			if pe, isPE := r.(*ParseError); isPE && !pe.Unsupported {
				q, ok = nil, false
				return
			}
			panic(r)
		}
	}()
	p.expectPunct("(")
	q = p.parseQuery()
	p.expectPunct(")")
	// `(select 1) union …` cannot occur inside an expression, but `((select 1) + 1)` can: the
	// caller decides by what follows; a sub-select followed by an operator is fine either way.
	return q, true
}

var multiWordTypes = map[string][]string{
	"double":    {"precision"},
	"character": {"varying"},
	"char":      {"varying"},
	"national":  {"character", "char"},
	"bit":       {"varying"},
}

func (p *parser) parseTypeName() TypeName {
	t := p.cur()
	if t.Kind != sqltok.Word && t.Kind != sqltok.QuotedIdent {
		p.fail("expected type name, found %q", t.Text)
	}
	if t.Kind == sqltok.Word && reservedKw[t.Value] {
		p.fail("expected type name, found key word %q", t.Value)
	}
	if t.Kind == sqltok.Word && t.Value == "setof" {
		p.fail("SETOF not allowed here")
	}
	p.i++
	name := t.Value
	for p.isPunct(".") && (p.peek(1).Kind == sqltok.Word || p.peek(1).Kind == sqltok.QuotedIdent) {
		// schema-qualified: keep only the last part, remember pg_catalog / public as plain
		name = p.peek(1).Value
		p.i += 2
	}
	tn := TypeName{Name: name}
	if t.Kind == sqltok.Word {
		switch name {
		case "double":
			p.expectKw("precision")
			tn.Name = "double precision"
		case "character", "char", "nchar":
			if p.acceptKw("varying") {
				tn.Name = "character varying"
			}
		case "national":
			if !(p.acceptKw("character") || p.acceptKw("char")) {
				p.fail("expected CHARACTER after NATIONAL")
			}
			tn.Name = "character"
			if p.acceptKw("varying") {
				tn.Name = "character varying"
			}
		case "bit":
			if p.acceptKw("varying") {
				tn.Name = "bit varying"
			}
		}
	}
	if p.isPunct("(") && tn.Name != "interval" {
		p.i++
		for {
			m := p.cur()
			if m.Kind != sqltok.Number {
				p.fail("expected type modifier")
			}
			tn.Mods = append(tn.Mods, m.Text)
			p.i++
			if !p.acceptPunct(",") {
				break
			}
		}
		p.expectPunct(")")
	}
	if t.Kind == sqltok.Word && (name == "timestamp" || name == "time") {
		if p.isKw("with") && p.isKwAt(1, "time") && p.isKwAt(2, "zone") {
			p.i += 3
			tn.Name = name + " with time zone"
		} else if p.isKw("without") && p.isKwAt(1, "time") && p.isKwAt(2, "zone") {
			p.i += 3
			tn.Name = name + " without time zone"
		}
	}
	if t.Kind == sqltok.Word && name == "interval" {
		for p.isKw("year") || p.isKw("month") || p.isKw("day") || p.isKw("hour") || p.isKw("minute") || p.isKw("second") || p.isKw("to") {
			p.unsupported("interval fields")
		}
	}
	for {
		if p.isPunct("[") {
			if p.isPunctAt(1, "]") {
				p.i += 2
				tn.ArrayDims++
				continue
			}
			if p.peek(1).Kind == sqltok.Number && p.isPunctAt(2, "]") {
				p.i += 3
				tn.ArrayDims++
				continue
			}
		}
		if p.isKw("array") {
			p.i++
			tn.ArrayDims++
			if p.isPunct("[") && p.peek(1).Kind == sqltok.Number && p.isPunctAt(2, "]") {
				p.i += 3
			}
			continue
		}
		break
	}
	return tn
}

var typedLiteralNames = wordSet(`interval date time timestamp timestamptz timetz int int2 int4 int8 integer bigint smallint
float4 float8 real double numeric decimal bool boolean text varchar char character json jsonb uuid bytea name oid inet cidr`)

// tryTypedLiteral recognises `typename 'string'` (AexprConst: func_name Sconst | ConstTypename Sconst | ConstInterval Sconst).
func (p *parser) tryTypedLiteral() (Expr, bool) {
	t := p.cur()
	if t.Kind != sqltok.Word || !typedLiteralNames[t.Value] {
		// generic `func_name Sconst` is legal too, but a word directly followed by a string is far
		// more often an error in emitted SQL; treat only known type names as typed literals.
		if t.Kind == sqltok.Word && p.peek(1).Kind == sqltok.String && !reservedKw[t.Value] && !typeFuncKw[t.Value] {
			save := p.i
			p.i++
			s := p.cur()
			p.i++
			_ = save
			return &TypedLiteral{Pos: t.Pos, Type: TypeName{Name: t.Value}, Text: s.Value}, true
		}
		return nil, false
	}
	save := p.i
	pos := t.Pos
	ok := true
	var tn TypeName
	func() {
		defer func() {
			if r := recover(); r != nil {
				if _, isPE := r.(*ParseError); isPE {
					ok = false
					return
				}
				panic(r)
			}
		}()
		tn = p.parseTypeName()
	}()
	if !ok || p.cur().Kind != sqltok.String || tn.ArrayDims > 0 {
		p.i = save
		return nil, false
	}
	s := p.cur()
	p.i++
	if tn.Name == "interval" && (p.isKw("year") || p.isKw("month") || p.isKw("day") || p.isKw("hour") || p.isKw("minute") || p.isKw("second")) {
		p.unsupported("interval fields")
	}
	return &TypedLiteral{Pos: pos, Type: tn, Text: s.Value}, true
}
