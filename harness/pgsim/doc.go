// Package pgsim executes the PostgreSQL text that DAWGS emits (cypher/models/pgsql/translate +
// format) on an in-memory instance of the DAWGS schema (drivers/pg/query/sql/schema_up.sql), so that
// property checks can compare what the SQL returns with what Cypher semantics say without a
// PostgreSQL server. It models PostgreSQL 18 (the version the repository's CI and docker-compose use)
// for exactly the SQL subset DAWGS can print, and says so when it meets anything else.
//
// # API
//
//	Parse(sql) (*Statement, error)            parser; error is *ParseError (Unsupported=true: known PostgreSQL
//	                                          syntax pgsim does not model; otherwise a PostgreSQL syntax error)
//	Walk / Children                           AST traversal (ast.go; every node carries its byte offset)
//	Bind(stmt, params) []Issue                name resolution with PostgreSQL scoping (top-level statement)
//	BindWithStats / BindHarness               … plus counters / for statements passed as text to the
//	                                          shortest-path harness (harness temp tables visible, caller CTEs not)
//	NewDB(graph, kindIDs, graphID) *DB        immutable database: tables node, edge, kind, graph
//	(*DB).Query(sql, params) (Result, *Outcome)   parse + bind + execute; (*DB).Exec for a parsed statement
//	FunctionTable()                           which SQL functions are native / aggregate / set-returning / unsupported
//
// Outcome distinguishes three cases, never two: OK (rows), Err (what PostgreSQL would raise; Class
// "syntax" | "binding" | "runtime") and Unsupported (pgsim met something it does not model – that is
// never turned into rows or into an error).
//
// # What is modelled
//
// Parser: WITH [RECURSIVE] … [NOT] MATERIALIZED; SELECT [DISTINCT] …; FROM with comma lists,
// [INNER|LEFT|RIGHT|FULL [OUTER]|CROSS] JOIN [LATERAL] … ON, parenthesised joins, sub-selects,
// functions in FROM [WITH ORDINALITY] with alias and column alias lists; WHERE, GROUP BY, HAVING;
// UNION/INTERSECT/EXCEPT [ALL]; VALUES; ORDER BY [ASC|DESC] [NULLS FIRST|LAST], OFFSET, LIMIT;
// INSERT … [(cols)] SELECT/VALUES … ON CONFLICT … RETURNING, UPDATE … SET … FROM … RETURNING,
// DELETE … USING … RETURNING, MERGE; expressions with PostgreSQL's precedence table (gram.y),
// including non-associative comparison / LIKE / IS levels (`a = b != c` is a syntax error),
// OPERATOR(schema.op), op ANY/ALL (array | sub-select), IN, BETWEEN, IS [NOT] NULL/TRUE/FALSE/
// UNKNOWN/DISTINCT FROM, CASE, EXISTS, scalar and ARRAY(sub-select), ARRAY[…], row constructors,
// ::casts and CAST(), typed literals, (x).field, (x).*, a[i], a[i:j] with PostgreSQL's rule that
// indirection is only legal after a column, a parameter or a parenthesised expression, function
// calls with DISTINCT / ORDER BY / FILTER / VARIADIC, EXTRACT / POSITION / SUBSTRING special forms,
// the bare-keyword functions (current_date, localtime(n) …), @name parameters (pgx named arguments).
// Lexing is package sqltok (scan.l rules, standard_conforming_strings = on).
//
// Binder: CTE visibility (order, RECURSIVE, shadowing of tables, nested WITH), FROM-item order and
// LATERAL (functions in FROM are implicitly lateral), JOIN … ON seeing only its own two sides,
// correlated sub-queries, `*` / `t.*` expansion, column alias lists, whole-row references, output
// aliases and ordinals in ORDER BY / GROUP BY (with PostgreSQL's different precedence rules for the
// two), grouping errors ("must appear in the GROUP BY clause"), aggregate placement, CTE / set
// operation / INSERT arity, unknown functions / types / composite fields, @parameters, and
// PostgreSQL's output column naming (FigureColname). A light static type lattice (int2/4/8,
// float4/8, numeric, text, bool, jsonb, arrays, the three composites, record, unknown) decides field
// selections and the few places where a NULL's static type matters at run time.
//
// Evaluator: a relational interpreter with SQL three-valued logic; NULL datum vs composite with
// all-NULL fields (LEFT JOIN misses, IS [NOT] NULL on rows, count(x), array_remove(…, NULL),
// record equality treating NULL fields as equal); untyped literals and string parameters resolved
// against the other operand like PostgreSQL's `unknown`; int2/int4/int8 with overflow errors, float8,
// an exact decimal numeric (PostgreSQL's scale rules incl. select_div_scale, half-away-from-zero
// rounding on casts, banker's rounding for float→int); casts with PostgreSQL's errors (text→int/
// numeric/float8/bool/jsonb/arrays, jsonb→text/bool/numbers incl. PostgreSQL 18's JSON null → NULL);
// jsonb (-> ->> #> #>> @> <@ ? ?| ?& - || equality, btree ordering incl. the empty-array quirk,
// key order of jsonb_out, jsonb_typeof, to_jsonb, jsonb_build_object/array, jsonb_array_length,
// jsonb_array_elements[_text], jsonb_object_keys, jsonb_strip_nulls); arrays (1-based subscripts and
// slices, @> <@ && ||, = and ordering, ANY/ALL, array_agg, array_length, cardinality, array_remove/
// append/prepend/cat/position, unnest (composite arrays expand into columns), generate_subscripts,
// generate_series, string_to_array, array_to_string, array literals); LIKE / ILIKE / ~ (RE2 subset);
// lower, upper, length, substring, left, right, strpos, replace, reverse, split_part, trim family,
// concat, abs, round, trunc, ceil, floor, sign, sqrt, mod, coalesce, nullif, greatest, least;
// aggregates count(*)/count(x)/sum/avg/min/max/array_agg/bool_and/bool_or/string_agg/jsonb_agg with
// DISTINCT, ORDER BY and FILTER; DISTINCT, GROUP BY, HAVING, ORDER BY with PostgreSQL's NULL
// placement, OFFSET/LIMIT; all join types; LATERAL; correlated sub-queries; CTEs evaluated lazily
// and once per enclosing query evaluation; recursive CTEs with the working-table semantics of
// UNION ALL and UNION; set operations. The intarray functions uniq, sort and the `-` operator that
// DAWGS's kind updates use are present.
//
// Server-side functions of schema_up.sql transcribed to Go: kind_name, start_node, end_node,
// jsonb_to_text_array, cypher_contains / cypher_starts_with / cypher_ends_with,
// cypher_jsonb_type_rank, cypher_value_compare, cypher_min / cypher_max (aggregates), nodes_to_path,
// edges_to_path, ordered_edges_to_path, shortest_path_self_endpoint_error (raises).
//
// Result cells are gmodel values, mapped the way the pg driver's result path implies
// (drivers/pg/result.go, mapper.go, types.go): nodecomposite → gmodel.NodeVal (kind ids mapped to
// names, sorted), edgecomposite → gmodel.EdgeVal, pathcomposite → gmodel.PathVal, jsonb → the JSON
// value (integral numbers written without fraction int64, others float64), text → string,
// int2/4/8 → int64, numeric/float → float64, bool, arrays → []any, NULL → nil. A composite the
// driver could not map to an entity (any NULL field – e.g. the all-NULL composite of an OPTIONAL
// MATCH miss – or an anonymous record) is returned as map[string]any keyed by field name, which is
// what rows.Values() hands to the driver's caller.
//
// # What is Unsupported (reported as such, never guessed)
//
//   - data-modifying statements and data-modifying CTEs (INSERT / UPDATE / DELETE / MERGE are parsed
//     and bound, not executed), nextval / pg_get_serial_sequence;
//   - the shortest-path harness functions (unidirectional_/bidirectional_[a]sp_harness: plpgsql that
//     EXECUTEs SQL passed as text) – the outer statement parses and binds, the texts bind with
//     BindHarness;
//   - temporal types and functions (now(), current_date, localtime …, date / time / timestamp /
//     interval casts and literals, extract);
//   - window functions, DISTINCT ON, GROUPING SETS, NATURAL / USING joins, FETCH FIRST, FOR UPDATE,
//     TABLESAMPLE, COLLATE, AT TIME ZONE, LIKE … ESCAPE, SIMILAR TO, set-returning functions in a
//     select list, multi-dimensional arrays, array_agg over arrays, numeric ^, regular expressions
//     outside the RE2/ARE common subset, record input syntax, json (non-b), uuid/bytea/etc.;
//   - resource limits: > 40 000 000 evaluation steps, > 2 000 000 rows in one relation, > 100 000
//     iterations of one recursive CTE.
//
// # Residual assumptions (stated, not checked)
//
//   - Text ordering and comparison (<, ORDER BY, min/max, jsonb string ordering) is byte-wise
//     (collation "C"). PostgreSQL's default en_US.utf8 agrees on strings drawn from [a-z0-9]*; checks
//     must not draw ordering conclusions from other strings. Equality does not depend on collation.
//     ILIKE / lower / upper fold ASCII and simple Unicode case only.
//   - Rows without ORDER BY come out in an order that PostgreSQL does not promise (heap order ×
//     join order); consumers must compare bags. array_agg without ORDER BY and LIMIT without a total
//     ORDER BY inherit that.
//   - AND / OR evaluate left to right with short circuit; PostgreSQL does not promise an order, so a
//     run-time error that only one evaluation order reaches is not a verdict (C02 treats those as
//     inconclusive).
//   - Static type errors that PostgreSQL reports at parse analysis (operator / function does not exist
//     for these argument types) are detected when the expression is first evaluated; a statement whose
//     ill-typed expression is never evaluated (no input rows) returns rows where PostgreSQL rejects.
//     Name resolution, arity, grouping and aggregate-placement errors are static, as in PostgreSQL.
//   - float4 is treated as float8; numeric NaN / Infinity follow PostgreSQL 14+.
//   - A whole-row reference to the NULL-extended side of an outer join yields NULL (DAWGS does not
//     emit whole-row references).
//   - pgx parameter encoding: a Go string behaves like an untyped literal (the server parses it
//     for the type the context requires), integers are int8, floats float8, slices arrays, maps and
//     json.Marshaler values jsonb.
//
// # Calibration
//
// `go test ./pgsim/` parses and binds the 373 golden statements of
// cypher/models/pgsql/test/translation_cases, executes them on a small graph, and runs every case /
// template variant / metamorphic query of integration/testdata (documented as passing on the real
// PostgreSQL backend) that DAWGS translates and pgsim executes against the repository's own
// assertion; the test fails on any assertion failure and prints the summary table.
package pgsim
