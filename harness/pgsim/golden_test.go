package pgsim

import (
	"os"
	"path/filepath"
	"regexp"
	"strings"
	"testing"
)

type goldenCase struct {
	File   string
	Line   int
	Cypher string
	SQL    string
	Params string // raw pgsql_params JSON, may be empty
}

const goldenDir = "/repo/cypher/models/pgsql/test/translation_cases"

func repoRoot() string {
	if r := os.Getenv("VERIF_REPO"); r != "" {
		return r
	}
	return "/repo"
}

var caseRe = regexp.MustCompile(`(?i)^--\s*case:\s*(.*)$`)
var pgParamsRe = regexp.MustCompile(`(?i)^--\s*pgsql_params:\s*(.*)$`)

func loadGoldens(t testing.TB) []goldenCase {
	files, err := filepath.Glob(filepath.Join(repoRoot(), "cypher/models/pgsql/test/translation_cases", "*.sql"))
	if err != nil || len(files) == 0 {
		t.Fatalf("no golden files: %v", err)
	}
	var out []goldenCase
	for _, f := range files {
		raw, err := os.ReadFile(f)
		if err != nil {
			t.Fatal(err)
		}
		var cur *goldenCase
		var sql strings.Builder
		flush := func() {
			if cur != nil && strings.TrimSpace(sql.String()) != "" {
				cur.SQL = strings.TrimSpace(sql.String())
				out = append(out, *cur)
			}
			cur = nil
			sql.Reset()
		}
		for i, line := range strings.Split(string(raw), "\n") {
			trim := strings.TrimSpace(line)
			if m := caseRe.FindStringSubmatch(trim); m != nil {
				flush()
				cur = &goldenCase{File: filepath.Base(f), Line: i + 1, Cypher: m[1]}
				continue
			}
			if m := pgParamsRe.FindStringSubmatch(trim); m != nil {
				if cur != nil {
					cur.Params = m[1]
				}
				continue
			}
			if strings.HasPrefix(trim, "--") {
				continue
			}
			if cur != nil && trim != "" {
				sql.WriteString(line)
				sql.WriteString("\n")
				if strings.HasSuffix(trim, ";") {
					flush()
				}
			}
		}
		flush()
	}
	return out
}

func TestGoldenParse(t *testing.T) {
	cases := loadGoldens(t)
	if len(cases) < 370 {
		t.Fatalf("only %d golden statements found", len(cases))
	}
	bad := 0
	for _, c := range cases {
		if _, err := Parse(c.SQL); err != nil {
			bad++
			pe := err.(*ParseError)
			lo, hi := pe.Pos-60, pe.Pos+40
			if lo < 0 {
				lo = 0
			}
			if hi > len(c.SQL) {
				hi = len(c.SQL)
			}
			t.Errorf("%s:%d %q: %v\n   …%s…", c.File, c.Line, c.Cypher, err, c.SQL[lo:hi])
		}
	}
	t.Logf("golden statements: %d, parse failures: %d", len(cases), bad)
}
