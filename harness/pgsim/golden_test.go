package pgsim

import (
	"encoding/json"
	"fmt"
	"os"
	"path/filepath"
	"regexp"
	"strings"
	"testing"
)

type goldenCase struct {
	File   string
	Line   int
	Cypher string
	SQL    string
	Params string // raw pgsql_params JSON, may be empty
}

const goldenDir = "/repo/cypher/models/pgsql/test/translation_cases"

func repoRoot() string {
	if r := os.Getenv("VERIF_REPO"); r != "" {
		return r
	}
	return "/repo"
}

var caseRe = regexp.MustCompile(`(?i)^--\s*case:\s*(.*)$`)
var pgParamsRe = regexp.MustCompile(`(?i)^--\s*pgsql_params:\s*(.*)$`)

func loadGoldens(t testing.TB) []goldenCase {
	files, err := filepath.Glob(filepath.Join(repoRoot(), "cypher/models/pgsql/test/translation_cases", "*.sql"))
	if err != nil || len(files) == 0 {
		t.Fatalf("no golden files: %v", err)
	}
	var out []goldenCase
	for _, f := range files {
		raw, err := os.ReadFile(f)
		if err != nil {
			t.Fatal(err)
		}
		var cur *goldenCase
		var sql strings.Builder
		flush := func() {
			if cur != nil && strings.TrimSpace(sql.String()) != "" {
				cur.SQL = strings.TrimSpace(sql.String())
				out = append(out, *cur)
			}
			cur = nil
			sql.Reset()
		}
		for i, line := range strings.Split(string(raw), "\n") {
			trim := strings.TrimSpace(line)
			if m := caseRe.FindStringSubmatch(trim); m != nil {
				flush()
				cur = &goldenCase{File: filepath.Base(f), Line: i + 1, Cypher: m[1]}
				continue
			}
			if m := pgParamsRe.FindStringSubmatch(trim); m != nil {
				if cur != nil {
					cur.Params = m[1]
				}
				continue
			}
			if strings.HasPrefix(trim, "--") {
				continue
			}
			if cur != nil && trim != "" {
				sql.WriteString(line)
				sql.WriteString("\n")
				if strings.HasSuffix(trim, ";") {
					flush()
				}
			}
		}
		flush()
	}
	return out
}

func TestGoldenParse(t *testing.T) {
	cases := loadGoldens(t)
	if len(cases) < 370 {
		t.Fatalf("only %d golden statements found", len(cases))
	}
	bad := 0
	for _, c := range cases {
		if _, err := Parse(c.SQL); err != nil {
			bad++
			pe := err.(*ParseError)
			lo, hi := pe.Pos-60, pe.Pos+40
			if lo < 0 {
				lo = 0
			}
			if hi > len(c.SQL) {
				hi = len(c.SQL)
			}
			t.Errorf("%s:%d %q: %v\n   …%s…", c.File, c.Line, c.Cypher, err, c.SQL[lo:hi])
		}
	}
	t.Logf("golden statements: %d, parse failures: %d", len(cases), bad)
}

func paramNames(stmt *Statement) []string { return ParamNames(stmt) }

func looksLikeSQL(s string) bool { return LooksLikeSQL(s) }

func embeddedSQL(stmt *Statement) []string { return EmbeddedSQL(stmt) }

// bindClean parses and binds sql (and, recursively, every SQL text embedded in it as a string
// literal, as harness SQL); it returns the problems found as text.
func bindClean(label, sql string, params map[string]any, stats *BindStats, harness bool) (problems []string) {
	stmt, err := Parse(sql)
	if err != nil {
		return []string{fmt.Sprintf("%s: parse: %v\n   %s", label, err, sql)}
	}
	if params == nil {
		params = map[string]any{}
		for _, n := range paramNames(stmt) {
			params[n] = "x"
		}
	}
	issues, st := BindWithStats(stmt, params)
	if harness {
		issues, st = BindHarness(stmt, params)
	}
	for _, is := range issues {
		if is.Error || is.Kind == "unsupported" {
			lo, hi := is.Pos-50, is.Pos+50
			if lo < 0 {
				lo = 0
			}
			if hi > len(sql) {
				hi = len(sql)
			}
			problems = append(problems, fmt.Sprintf("%s: %s\n   …%s…", label, is, sql[lo:hi]))
		}
	}
	if stats != nil {
		stats.Frames += st.Frames
		stats.CTEs += st.CTEs
		stats.ColumnRefs += st.ColumnRefs
		stats.CrossFrameRefs += st.CrossFrameRefs
		stats.FieldSelections += st.FieldSelections
		stats.UnknownTyped += st.UnknownTyped
		stats.Correlated += st.Correlated
		stats.Params += st.Params
	}
	for _, inner := range embeddedSQL(stmt) {
		problems = append(problems, bindClean(label+" (embedded)", inner, nil, stats, true)...)
	}
	return problems
}

// Goldens whose harness filter text refers to a CTE of the calling statement. The text is run by
// plpgsql EXECUTE inside create_traversal_filter_tables(), where the caller's CTEs do not exist,
// so PostgreSQL raises `relation "sN" does not exist` (translate/expansion.go:
// boundNodeIDsFilterStatement selects from the previous frame by name). Reported as a DAWGS defect
// candidate; the goldens only pin the text, no integration case exercises the shape.
var knownOpenGoldens = map[string]string{
	"match p=(c:NodeKind1)-[]->(u:NodeKind2) match p2=shortestPath((u:NodeKind2)-[*1..]->(d:NodeKind1)) return p, p2 limit 500": "bound root filter reads caller CTE s0",
	"match (a:NodeKind1), (b:NodeKind2) match p=shortestPath((a)-[:EdgeKind1*]->(b)) return p":                                  "bound pair filter reads caller CTE s1",
	"match (a:NodeKind1), (b:NodeKind2) match p=allShortestPaths((a)-[:EdgeKind1*..]->(b)) return p":                            "bound pair filter reads caller CTE s1",
}

func isKnownOpenGolden(cypher string) (string, bool) {
	if r, ok := knownOpenGoldens[cypher]; ok {
		return r, true
	}
	if strings.HasPrefix(cypher, "MATCH (g1:Group) MATCH (g2:Group) WHERE g1.name STARTS WITH 'DOMAIN USERS@'") {
		return "bound pair filter reads caller CTE s1", true
	}
	return "", false
}

// every golden statement binds without an error issue; with the golden's own pgsql_params when listed
func TestGoldenBind(t *testing.T) {
	var stats BindStats
	n, open := 0, 0
	for _, c := range loadGoldens(t) {
		var params map[string]any
		if c.Params != "" {
			if err := json.Unmarshal([]byte(c.Params), &params); err != nil {
				t.Fatalf("%s:%d params: %v", c.File, c.Line, err)
			}
		}
		stmt, err := Parse(c.SQL)
		if err != nil {
			continue // reported by TestGoldenParse
		}
		if params != nil {
			// goldens list only the parameters they want to assert on; the rest get placeholders
			for _, p := range paramNames(stmt) {
				if _, ok := params[p]; !ok {
					params[p] = "x"
				}
			}
		}
		problems := bindClean(fmt.Sprintf("%s:%d %q", c.File, c.Line, c.Cypher), c.SQL, params, &stats, false)
		n++
		if len(problems) == 0 {
			continue
		}
		if reason, known := isKnownOpenGolden(c.Cypher); known {
			onlyEmbedded := true
			for _, p := range problems {
				if !strings.Contains(p, "(embedded)") {
					onlyEmbedded = false
				}
			}
			if onlyEmbedded {
				open++
				t.Logf("KNOWN (DAWGS defect candidate, %s): %s:%d %s — %d issue(s) in the embedded harness text", reason, c.File, c.Line, c.Cypher, len(problems))
				continue
			}
		}
		for _, p := range problems {
			t.Error(p)
		}
	}
	t.Logf("bound %d golden statements (%d with known-open embedded harness text): %+v", n, open, stats)
}

// every translated integration query binds; SQL passed in string parameters / literals binds too
func TestIntegrationBind(t *testing.T) {
	c := loadCorpus(t)
	var stats BindStats
	n, inner := 0, 0
	for _, cc := range c.Cases {
		tr := translateCase(c, cc)
		if tr.Err != nil {
			continue
		}
		label := cc.Source + " :: " + cc.Name
		problems := bindClean(label, tr.SQL, tr.Params, &stats, false)
		n++
		for name, v := range tr.Params {
			if s, ok := v.(string); ok && looksLikeSQL(s) {
				problems = append(problems, bindClean(label+" @"+name, s, nil, &stats, true)...)
				inner++
			}
		}
		for _, p := range problems {
			t.Error(p)
		}
	}
	t.Logf("bound %d translated statements and %d SQL-valued parameters: %+v", n, inner, stats)
}
