package pgsim

import (
	"fmt"
	"strconv"
	"strings"
)

// Issue is one finding of the binder.
//
// Kinds: "undefined-table", "undefined-column", "ambiguous-column", "ambiguous-table",
// "invalid-reference" (the entry exists but is not visible from this part of the query),
// "duplicate-alias", "undefined-field", "arity-mismatch", "missing-parameter",
// "undefined-function", "undefined-type", "grouping-error", "aggregate-misuse", "unknown-type"
// (a field selection on an expression whose type the lattice cannot determine: counted, not an
// error), "unsupported" (a construct the binder does not model: no verdict).
type Issue struct {
	Kind string
	Msg  string
	Pos  int
	// Error is true when PostgreSQL would reject the statement because of this issue.
	Error bool
}

func (i Issue) String() string { return fmt.Sprintf("%s at %d: %s", i.Kind, i.Pos, i.Msg) }

// Bind resolves every name in the statement against the DAWGS schema with PostgreSQL's scoping
// rules and returns the issues found (empty: the statement is closed).
func Bind(stmt *Statement, params map[string]any) []Issue {
	b := bindStatement(stmt, params)
	return b.issues
}

// BindStats are counters over one bound statement, for non-triviality rules of checks.
type BindStats struct {
	Frames          int // SELECT scopes
	CTEs            int
	ColumnRefs      int // resolved column references
	CrossFrameRefs  int // references resolved through a CTE / sub-select output (sK.col)
	FieldSelections int // (x).field resolved against a known composite type
	UnknownTyped    int
	Correlated      int // references resolved in an outer query level
	Params          int
}

// BindWithStats is Bind plus counters.
func BindWithStats(stmt *Statement, params map[string]any) ([]Issue, BindStats) {
	b := bindStatement(stmt, params)
	return b.issues, b.stats
}

// BindHarness binds a statement that DAWGS hands to the shortest-path harness functions as text
// (primer / recursive / filter statements). Such a statement runs inside the plpgsql function,
// after the harness created its temporary tables (forward_front, next_front, visited,
// traversal_*_filter, …), so those tables are visible – and nothing of the calling statement is
// (no CTE of the caller, no @parameter unless listed in params).
func BindHarness(stmt *Statement, params map[string]any) ([]Issue, BindStats) {
	b := bindStatementOpts(stmt, params, true)
	return b.issues, b.stats
}

// ---- bound information used by the executor ------------------------------------------------

type colRes struct {
	up   int // scope hops from the scope in which the reference is evaluated
	rte  int // range-table index in that select scope; -1: output column (ORDER BY / GROUP BY alias)
	col  int // column index; -1: whole row
	kind int // resCol | resWholeRow | resOutput
}

const (
	resCol = iota
	resWholeRow
	resOutput
)

type rte struct {
	alias    string
	cols     []string
	types    []string
	rowType  string // composite type name for whole-row references ("" = record)
	fromCTE  bool
	crossRef bool // produced by a CTE or sub-select (cross-frame reference)
}

type outCol struct {
	name string
	typ  string
	expr Expr // nil for star expansion
	rte  int  // star expansion source
	col  int
}

type selInfo struct {
	nRTE    int
	rtes    []*rte
	out     []outCol
	hasAgg  bool
	groupBy []Expr // after alias / ordinal resolution; entries may be *outRef
	rteOf   map[FromItem]int
}

type queryInfo struct {
	cols  []string
	types []string
	// ORDER BY items resolved: index >= 0 → output column; else expression evaluated in select scope
	orderIdx []int
}

type cteInfo struct {
	cte       *CTE
	cols      []string
	types     []string
	recursive bool // references itself
	scopeID   int
}

// outRef marks a GROUP BY / ORDER BY item that names an output column.
type outRef struct {
	Pos int
	Idx int
}

func (*outRef) node() {}
func (*outRef) expr() {}

type binding struct {
	params   map[string]any
	issues   []Issue
	stats    BindStats
	cols     map[*ColumnRef]colRes
	sel      map[*Select]*selInfo
	query    map[*Query]*queryInfo
	tableCTE map[*TableRef]*cteInfo // table reference resolved to a CTE
	ctes     map[*CTE]*cteInfo
	types    map[Expr]string
	aggLevel map[*FuncCall]bool // aggregate calls
	colScope map[*ColumnRef]*selInfo
	dml      map[Node]*selInfo // synthetic select scope of INSERT / UPDATE / DELETE
	unsupp   []string
	harness  bool // temporary tables of the shortest-path harness are visible
	keyLocal map[*selInfo]int // exprKey: SELECT scopes that lie inside the expression being keyed
}

type scope struct {
	parent *scope
	query  *Query // query scope
	ctes   []*cteInfo
	sel    *selInfo // select scope
	// namespace: which RTE indexes are visible right now (nil = all)
	ns        []int
	nsLimited bool
	// while binding ORDER BY / GROUP BY of a select: output columns visible by name
	outNames bool
	inAgg    bool
}

func bindStatement(stmt *Statement, params map[string]any) *binding {
	return bindStatementOpts(stmt, params, false)
}

func bindStatementOpts(stmt *Statement, params map[string]any, harness bool) *binding {
	b := &binding{
		harness:  harness,
		params:   params,
		cols:     map[*ColumnRef]colRes{},
		sel:      map[*Select]*selInfo{},
		query:    map[*Query]*queryInfo{},
		tableCTE: map[*TableRef]*cteInfo{},
		ctes:     map[*CTE]*cteInfo{},
		types:    map[Expr]string{},
		aggLevel: map[*FuncCall]bool{},
		colScope: map[*ColumnRef]*selInfo{},
		dml:      map[Node]*selInfo{},
	}
	func() {
		defer func() {
			if r := recover(); r != nil {
				if u, ok := r.(*unsupportedError); ok {
					b.issue("unsupported", 0, false, "%s", u.Reason)
					return
				}
				// a bug in the binder must never become a verdict
				b.issue("unsupported", 0, false, "internal error: %v", r)
			}
		}()
		switch t := stmt.Body.(type) {
		case *Query:
			b.bindQuery(t, nil)
		case *Insert:
			b.bindQuery(&Query{Pos: t.Pos, Body: t}, nil)
		case *Update:
			b.bindQuery(&Query{Pos: t.Pos, Body: t}, nil)
		case *Delete:
			b.bindQuery(&Query{Pos: t.Pos, Body: t}, nil)
		case *Merge:
			b.bindQuery(&Query{Pos: t.Pos, Body: t}, nil)
		}
	}()
	return b
}

func (b *binding) issue(kind string, pos int, isErr bool, format string, a ...any) {
	b.issues = append(b.issues, Issue{Kind: kind, Pos: pos, Error: isErr, Msg: fmt.Sprintf(format, a...)})
	if kind == "unsupported" {
		b.unsupp = append(b.unsupp, fmt.Sprintf(format, a...))
	}
}

func (b *binding) firstError() *Issue {
	for i := range b.issues {
		if b.issues[i].Error {
			return &b.issues[i]
		}
	}
	return nil
}

// ---- schema --------------------------------------------------------------------------------

var baseTables = map[string]*rte{
	"node":  {cols: []string{"id", "graph_id", "kind_ids", "properties"}, types: []string{"int8", "int4", "int2[]", "jsonb"}, rowType: "node"},
	"edge":  {cols: []string{"id", "graph_id", "start_id", "end_id", "kind_id", "properties"}, types: []string{"int8", "int4", "int8", "int8", "int2", "jsonb"}, rowType: "edge"},
	"kind":  {cols: []string{"id", "name"}, types: []string{"int2", "text"}, rowType: "kind"},
	"graph": {cols: []string{"id", "name"}, types: []string{"int8", "text"}, rowType: "graph"},
}

// harnessTables are the temporary tables the shortest-path harness functions of schema_up.sql
// create (ON COMMIT DROP); they exist only while a harness function runs.
var harnessTables = map[string]*rte{
	"traversal_root_filter":     {cols: []string{"id"}, types: []string{"int8"}},
	"traversal_terminal_filter": {cols: []string{"id"}, types: []string{"int8"}},
	"traversal_pair_filter":     {cols: []string{"root_id", "terminal_id"}, types: []string{"int8", "int8"}},
	"unresolved_pairs":          {cols: []string{"root_id", "terminal_id"}, types: []string{"int8", "int8"}},
	"resolved_pair_depths":      {cols: []string{"root_id", "terminal_id", "depth"}, types: []string{"int8", "int8", "int4"}},
	"resolved_roots":            {cols: []string{"root_id"}, types: []string{"int8"}},
	"visited":                   {cols: []string{"root_id", "id"}, types: []string{"int8", "int8"}},
	"forward_visited":           {cols: []string{"root_id", "id"}, types: []string{"int8", "int8"}},
	"backward_visited":          {cols: []string{"root_id", "id"}, types: []string{"int8", "int8"}},
	"forward_front":             {cols: []string{"root_id", "next_id", "depth", "satisfied", "is_cycle", "path"}, types: []string{"int8", "int8", "int4", "bool", "bool", "int8[]"}},
	"backward_front":            {cols: []string{"root_id", "next_id", "depth", "satisfied", "is_cycle", "path"}, types: []string{"int8", "int8", "int4", "bool", "bool", "int8[]"}},
	"next_front":                {cols: []string{"root_id", "next_id", "depth", "satisfied", "is_cycle", "path"}, types: []string{"int8", "int8", "int4", "bool", "bool", "int8[]"}},
	"paths":                     {cols: []string{"root_id", "next_id", "depth", "satisfied", "is_cycle", "path"}, types: []string{"int8", "int8", "int4", "bool", "bool", "int8[]"}},
	"resolved_paths":            {cols: []string{"root_id", "next_id", "depth", "satisfied", "is_cycle", "path"}, types: []string{"int8", "int8", "int4", "bool", "bool", "int8[]"}},
	"resolved_pairs":            {cols: []string{"root_id", "next_id", "depth", "satisfied", "is_cycle", "path"}, types: []string{"int8", "int8", "int4", "bool", "bool", "int8[]"}},
}

// ---- queries -------------------------------------------------------------------------------

func (b *binding) bindQuery(q *Query, parent *scope) *queryInfo {
	sc := &scope{parent: parent, query: q}
	qi := &queryInfo{}
	b.query[q] = qi
	if q.With != nil {
		b.bindWith(q.With, sc)
	}
	var selScope *scope
	switch body := q.Body.(type) {
	case *Select:
		selScope = b.bindSelect(body, sc, q)
		si := b.sel[body]
		for _, o := range si.out {
			qi.cols = append(qi.cols, o.name)
			qi.types = append(qi.types, o.typ)
		}
	case *SetOp:
		qi.cols, qi.types = b.bindSetOp(body, sc)
	case *Values:
		qi.cols, qi.types = b.bindValues(body, sc)
	case *Query:
		inner := b.bindQuery(body, sc)
		qi.cols, qi.types = inner.cols, inner.types
	case *Insert:
		qi.cols, qi.types = b.bindInsert(body, sc)
	case *Update:
		qi.cols, qi.types = b.bindUpdate(body, sc)
	case *Delete:
		qi.cols, qi.types = b.bindDelete(body, sc)
	case *Merge:
		b.bindMerge(body, sc)
	}
	// ORDER BY
	for _, o := range q.OrderBy {
		idx := -1
		e := stripParen(o.Expr)
		if n, isInt, isConst := sortConstant(o.Expr); isConst {
			// findTargetlistEntrySQL92: a bare constant is an output column position, or an error
			switch {
			case !isInt:
				b.issue("undefined-column", o.Pos, true, "non-integer constant in ORDER BY")
				qi.orderIdx = append(qi.orderIdx, 0)
				continue
			case n < 1 || n > len(qi.cols):
				b.issue("undefined-column", o.Pos, true, "ORDER BY position %d is not in select list", n)
				qi.orderIdx = append(qi.orderIdx, 0)
				continue
			}
			idx = n - 1
		} else if cr, ok := e.(*ColumnRef); ok && len(cr.Parts) == 1 {
			// an output column name takes precedence
			matches := 0
			for i, c := range qi.cols {
				if c == cr.Parts[0] {
					if matches == 0 {
						idx = i
					}
					matches++
				}
			}
			if matches > 1 {
				// ambiguous only if the matching output expressions differ
				if sel, isSel := q.Body.(*Select); isSel {
					si := b.sel[sel]
					first := ""
					same := true
					for i, c := range qi.cols {
						if c == cr.Parts[0] {
							k := b.exprKey(si.out[i].expr)
							if first == "" {
								first = k
							} else if k != first || si.out[i].expr == nil {
								same = false
							}
						}
					}
					if !same {
						b.issue("ambiguous-column", o.Pos, true, "ORDER BY %q is ambiguous", cr.Parts[0])
					}
				} else {
					b.issue("ambiguous-column", o.Pos, true, "ORDER BY %q is ambiguous", cr.Parts[0])
				}
			}
		}
		if idx < 0 {
			if selScope == nil {
				b.issue("undefined-column", o.Pos, true, "ORDER BY on a set operation / VALUES must name an output column")
			} else {
				sel := q.Body.(*Select)
				si := b.sel[sel]
				saveNs, saveLim := selScope.ns, selScope.nsLimited
				selScope.ns, selScope.nsLimited = nil, false
				b.bindExpr(o.Expr, selScope, si.hasAgg)
				selScope.ns, selScope.nsLimited = saveNs, saveLim
				if si.hasAgg {
					b.checkGrouped(o.Expr, si, selScope)
				}
				if sel.Distinct {
					// for SELECT DISTINCT, ORDER BY expressions must appear in select list
					found := false
					k := b.exprKey(o.Expr)
					for _, oc := range si.out {
						if oc.expr != nil && b.exprKey(oc.expr) == k {
							found = true
						}
					}
					if !found {
						b.issue("grouping-error", o.Pos, true, "for SELECT DISTINCT, ORDER BY expressions must appear in select list")
					}
				}
			}
		}
		qi.orderIdx = append(qi.orderIdx, idx)
	}
	if q.Offset != nil {
		b.bindExpr(q.Offset, sc, false)
	}
	if q.Limit != nil {
		b.bindExpr(q.Limit, sc, false)
	}
	return qi
}

func (b *binding) bindWith(w *With, sc *scope) {
	if w.Recursive {
		// every name is visible everywhere; bodies bound in order, forward references unsupported
		names := map[string]bool{}
		for _, c := range w.CTEs {
			if names[c.Name] {
				b.issue("duplicate-alias", c.Pos, true, "WITH query name %q specified more than once", c.Name)
			}
			names[c.Name] = true
		}
	}
	for _, c := range w.CTEs {
		b.stats.CTEs++
		ci := &cteInfo{cte: c}
		b.ctes[c] = ci
		for _, prev := range sc.ctes {
			if prev.cte.Name == c.Name && !w.Recursive {
				b.issue("duplicate-alias", c.Pos, true, "WITH query name %q specified more than once", c.Name)
			}
		}
		selfRef := w.Recursive && referencesTable(c.Query, c.Name)
		if selfRef {
			ci.recursive = true
			so, ok := c.Query.Body.(*SetOp)
			if !ok || so.Op != "union" || c.Query.With != nil || c.Query.OrderBy != nil || c.Query.Limit != nil || c.Query.Offset != nil {
				b.issue("unsupported", c.Pos, false, "recursive CTE %q is not of the form non-recursive UNION [ALL] recursive", c.Name)
				sc.ctes = append(sc.ctes, ci)
				continue
			}
			if referencesTableSet(so.L, c.Name) {
				b.issue("invalid-reference", c.Pos, true, "recursive reference to query %q must not appear within its non-recursive term", c.Name)
			}
			// bind the non-recursive term first; it defines the column names and types
			qsc := &scope{parent: sc, query: c.Query}
			b.query[c.Query] = &queryInfo{}
			lcols, ltypes := b.bindSetOperand(so.L, qsc)
			ci.cols, ci.types = applyColumnAliases(b, c, lcols, ltypes)
			sc.ctes = append(sc.ctes, ci)
			rcols, rtypes := b.bindSetOperand(so.R, qsc)
			if len(rcols) != len(lcols) {
				b.issue("arity-mismatch", c.Pos, true, "each UNION query must have the same number of columns (%d vs %d) in CTE %q", len(lcols), len(rcols), c.Name)
			}
			for i := range ci.types {
				if i < len(rtypes) && ci.types[i] == "" {
					ci.types[i] = rtypes[i]
				}
			}
			qi := b.query[c.Query]
			qi.cols, qi.types = lcols, ltypes
			continue
		}
		qi := b.bindQuery(c.Query, sc)
		ci.cols, ci.types = applyColumnAliases(b, c, qi.cols, qi.types)
		sc.ctes = append(sc.ctes, ci)
	}
}

// sortConstant recognises what PostgreSQL's grammar hands to ORDER BY / GROUP BY as a bare constant
// (A_Const): a literal, possibly parenthesised (parentheses leave no node behind), possibly negated
// (doNegate folds '-' into integer and float constants; unary '+' is an operator expression).
func sortConstant(e Expr) (n int, isInt, isConst bool) {
	neg := false
	for {
		switch t := e.(type) {
		case *Paren:
			e = t.X
			continue
		case *Unary:
			if t.Op == "-" {
				if _, _, inner := sortConstant(t.X); inner {
					if lit, ok := stripParenUnaryMinus(t.X).(*Literal); ok && (lit.Kind == "int" || lit.Kind == "numeric") {
						neg = !neg
						e = t.X
						continue
					}
				}
			}
			return 0, false, false
		case *Literal:
			if t.Kind == "int" {
				v, err := strconv.Atoi(strings.ReplaceAll(t.Text, "_", ""))
				if err != nil {
					return 0, false, true // beyond int4: a Float constant
				}
				if neg {
					v = -v
				}
				return v, true, true
			}
			return 0, false, true
		}
		return 0, false, false
	}
}

func stripParenUnaryMinus(e Expr) Expr {
	for {
		switch t := e.(type) {
		case *Paren:
			e = t.X
		case *Unary:
			if t.Op != "-" {
				return e
			}
			e = t.X
		default:
			return e
		}
	}
}

func applyColumnAliases(b *binding, c *CTE, cols, types []string) ([]string, []string) {
	outC := append([]string(nil), cols...)
	outT := append([]string(nil), types...)
	if len(c.Columns) > 0 {
		if len(c.Columns) > len(cols) {
			b.issue("arity-mismatch", c.Pos, true, "WITH query %q has %d columns available but %d columns specified", c.Name, len(cols), len(c.Columns))
		} else if len(c.Columns) < len(cols) {
			b.issue("arity-mismatch", c.Pos, false, "WITH query %q has %d columns but only %d column names", c.Name, len(cols), len(c.Columns))
		}
		for i, n := range c.Columns {
			if i < len(outC) {
				outC[i] = n
			}
		}
	}
	return outC, outT
}

func referencesTable(q *Query, name string) bool {
	found := false
	Walk(q, func(n Node) bool {
		if tr, ok := n.(*TableRef); ok && tr.Schema == "" && tr.Name == name {
			found = true
		}
		return !found
	})
	return found
}

func referencesTableSet(s SetExpr, name string) bool {
	found := false
	Walk(s, func(n Node) bool {
		if tr, ok := n.(*TableRef); ok && tr.Schema == "" && tr.Name == name {
			found = true
		}
		return !found
	})
	return found
}

func (b *binding) bindSetOperand(s SetExpr, sc *scope) ([]string, []string) {
	switch t := s.(type) {
	case *Select:
		b.bindSelect(t, sc, nil)
		si := b.sel[t]
		var cols, types []string
		for _, o := range si.out {
			cols = append(cols, o.name)
			types = append(types, o.typ)
		}
		return cols, types
	case *SetOp:
		return b.bindSetOp(t, sc)
	case *Values:
		return b.bindValues(t, sc)
	case *Query:
		qi := b.bindQuery(t, sc)
		return qi.cols, qi.types
	}
	b.issue("unsupported", 0, false, "data-modifying statement inside a set operation")
	return nil, nil
}

func (b *binding) bindSetOp(s *SetOp, sc *scope) ([]string, []string) {
	lc, lt := b.bindSetOperand(s.L, sc)
	rc, rt := b.bindSetOperand(s.R, sc)
	if len(lc) != len(rc) {
		b.issue("arity-mismatch", s.Pos, true, "each %s query must have the same number of columns (%d vs %d)", strings.ToUpper(s.Op), len(lc), len(rc))
	}
	types := append([]string(nil), lt...)
	for i := range types {
		if i < len(rt) {
			types[i] = unifyTypes(types[i], rt[i])
		}
	}
	return lc, types
}

func (b *binding) bindValues(v *Values, sc *scope) ([]string, []string) {
	var cols, types []string
	for ri, row := range v.Rows {
		if ri > 0 && len(row) != len(v.Rows[0]) {
			b.issue("arity-mismatch", v.Pos, true, "VALUES lists must all be the same length")
		}
		for ci, e := range row {
			t := b.bindExpr(e, sc, false)
			if ri == 0 {
				cols = append(cols, "column"+strconv.Itoa(ci+1))
				types = append(types, t)
			} else if ci < len(types) {
				types[ci] = unifyTypes(types[ci], t)
			}
		}
	}
	for i := range types {
		if types[i] == "unknown" {
			types[i] = "text"
		}
	}
	return cols, types
}

func unifyTypes(a, b string) string {
	switch {
	case a == b:
		return a
	case a == "" || a == "unknown":
		return b
	case b == "" || b == "unknown":
		return a
	}
	rank := map[string]int{"int2": 1, "int4": 2, "int8": 3, "numeric": 4, "float4": 5, "float8": 6}
	if ra, ok := rank[a]; ok {
		if rb, ok := rank[b]; ok {
			if ra > rb {
				return a
			}
			return b
		}
	}
	return a
}

// ---- SELECT --------------------------------------------------------------------------------

func (b *binding) bindSelect(s *Select, parent *scope, owner *Query) *scope {
	b.stats.Frames++
	si := &selInfo{rteOf: map[FromItem]int{}}
	b.sel[s] = si
	sc := &scope{parent: parent, sel: si}
	// FROM
	var acc []int
	for _, item := range s.From {
		idxs := b.bindFromItem(item, sc, acc)
		acc = append(acc, idxs...)
	}
	sc.ns, sc.nsLimited = nil, false
	si.nRTE = len(si.rtes)
	// does the select aggregate?
	si.hasAgg = len(s.GroupBy) > 0 || s.Having != nil
	for _, it := range s.Items {
		if containsAggregate(it.Expr) {
			si.hasAgg = true
		}
	}
	if owner != nil {
		for _, o := range owner.OrderBy {
			if containsAggregate(o.Expr) {
				si.hasAgg = true
			}
		}
	}
	if s.Where != nil {
		if containsAggregate(s.Where) {
			b.issue("aggregate-misuse", s.Pos, true, "aggregate functions are not allowed in WHERE")
		}
		b.bindExpr(s.Where, sc, false)
	}
	// select list
	for _, it := range s.Items {
		switch e := it.Expr.(type) {
		case *Star:
			b.expandStar(e, sc, si)
		default:
			if fs, ok := stripParen(it.Expr).(*FieldSel); ok && fs.Field == "*" {
				t := b.bindExpr(fs.X, sc, si.hasAgg)
				def, known := composites[t]
				if !known {
					b.issue("unsupported", fs.Pos, false, "(expr).* on type %q", t)
					continue
				}
				for i, f := range def.Fields {
					si.out = append(si.out, outCol{name: f, typ: def.Types[i], expr: &FieldSel{Pos: fs.Pos, X: fs.X, Field: f}})
					b.types[si.out[len(si.out)-1].expr] = def.Types[i]
				}
				continue
			}
			t := b.bindExpr(it.Expr, sc, si.hasAgg)
			if t == "unknown" {
				t = "text"
			}
			name := it.Alias
			if name == "" {
				name = b.figureColname(it.Expr)
			}
			si.out = append(si.out, outCol{name: name, typ: t, expr: it.Expr})
		}
	}
	// GROUP BY
	for _, g := range s.GroupBy {
		ge := stripParen(g)
		if n, isInt, isConst := sortConstant(g); isConst {
			pos := 0
			if lit, ok := ge.(*Literal); ok {
				pos = lit.Pos
			}
			if !isInt {
				b.issue("undefined-column", pos, true, "non-integer constant in GROUP BY")
				continue
			}
			if n < 1 || n > len(si.out) {
				b.issue("undefined-column", pos, true, "GROUP BY position %d is not in select list", n)
				continue
			}
			si.groupBy = append(si.groupBy, &outRef{Pos: pos, Idx: n - 1})
			continue
		}
		if cr, ok := ge.(*ColumnRef); ok && len(cr.Parts) == 1 {
			// input column first, then output alias
			if _, found := b.lookupColumn(cr, sc, true); !found {
				idx := -1
				for i, o := range si.out {
					if o.name == cr.Parts[0] {
						idx = i
						break
					}
				}
				if idx >= 0 {
					si.groupBy = append(si.groupBy, &outRef{Pos: cr.Pos, Idx: idx})
					continue
				}
			}
		}
		if containsAggregate(g) {
			b.issue("aggregate-misuse", s.Pos, true, "aggregate functions are not allowed in GROUP BY")
		}
		b.bindExpr(g, sc, false)
		si.groupBy = append(si.groupBy, g)
	}
	if s.Having != nil {
		b.bindExpr(s.Having, sc, true)
	}
	if si.hasAgg {
		for _, o := range si.out {
			if o.expr != nil {
				b.checkGrouped(o.expr, si, sc)
			} else {
				b.issue("grouping-error", s.Pos, true, "column from * must appear in the GROUP BY clause or be used in an aggregate function")
			}
		}
		if s.Having != nil {
			b.checkGrouped(s.Having, si, sc)
		}
	}
	return sc
}

func (b *binding) expandStar(e *Star, sc *scope, si *selInfo) {
	if len(si.rtes) == 0 && e.Table == "" {
		b.issue("undefined-table", e.Pos, true, "SELECT * with no tables specified is not valid")
		return
	}
	found := false
	for i, r := range si.rtes {
		if e.Table != "" && r.alias != e.Table {
			continue
		}
		found = true
		for j, c := range r.cols {
			si.out = append(si.out, outCol{name: c, typ: r.types[j], rte: i, col: j})
		}
	}
	if !found {
		b.issue("undefined-table", e.Pos, true, "missing FROM-clause entry for table %q", e.Table)
	}
}

// figureColname follows PostgreSQL's FigureColname.
func (b *binding) figureColname(e Expr) string {
	name, _ := figureColnameInternal(e)
	if name == "" {
		return "?column?"
	}
	return name
}

func figureColnameInternal(e Expr) (string, int) {
	switch t := e.(type) {
	case *Paren:
		return figureColnameInternal(t.X)
	case *ColumnRef:
		return t.Parts[len(t.Parts)-1], 2
	case *FieldSel:
		if t.Field != "*" {
			return t.Field, 2
		}
		return figureColnameInternal(t.X)
	case *Index:
		return figureColnameInternal(t.X)
	case *Slice:
		return figureColnameInternal(t.X)
	case *FuncCall:
		switch t.Name {
		case "coalesce", "greatest", "least", "nullif":
			return t.Name, 2
		}
		return t.Name, 2
	case *Cast:
		name, strength := figureColnameInternal(t.X)
		if strength <= 1 {
			return pgTypeLabel(t.Type), 1
		}
		return name, strength
	case *Exists:
		return "exists", 2
	case *ArraySubquery:
		return "array", 2
	case *SubqueryExpr:
		if sel, ok := innermostSelect(t.Query); ok && len(sel.Items) > 0 {
			it := sel.Items[0]
			if it.Alias != "" {
				return it.Alias, 2
			}
			if _, isStar := it.Expr.(*Star); !isStar {
				return figureColnameInternal(it.Expr)
			}
		}
		return "", 0
	case *Case:
		if t.Else != nil {
			name, strength := figureColnameInternal(t.Else)
			if strength > 1 {
				return name, strength
			}
		}
		return "case", 1
	case *ArrayCtor:
		return "array", 2
	case *RowCtor:
		return "row", 2
	case *TypedLiteral:
		return pgTypeLabel(t.Type), 1
	case *Literal:
		if t.Kind == "bool" {
			return "bool", 1 // TRUE/FALSE are typecast constants in the grammar
		}
	}
	return "", 0
}

func innermostSelect(q *Query) (*Select, bool) {
	for q != nil {
		switch t := q.Body.(type) {
		case *Select:
			return t, true
		case *Query:
			q = t
		case *SetOp:
			// leftmost arm
			var s SetExpr = t
			for {
				so, ok := s.(*SetOp)
				if !ok {
					break
				}
				s = so.L
			}
			switch l := s.(type) {
			case *Select:
				return l, true
			case *Query:
				q = l
				continue
			}
			return nil, false
		default:
			return nil, false
		}
	}
	return nil, false
}

// ---- FROM ----------------------------------------------------------------------------------

func (b *binding) addRTE(sc *scope, r *rte, pos int) int {
	if r.alias != "" {
		for _, o := range sc.sel.rtes {
			if o.alias == r.alias {
				b.issue("duplicate-alias", pos, true, "table name %q specified more than once", r.alias)
			}
		}
	}
	sc.sel.rtes = append(sc.sel.rtes, r)
	return len(sc.sel.rtes) - 1
}

func applyAliases(r *rte, alias string, colAliases []string, b *binding, pos int) {
	if alias != "" {
		r.alias = alias
	}
	if len(colAliases) > len(r.cols) {
		b.issue("arity-mismatch", pos, true, "table %q has %d columns available but %d columns specified", r.alias, len(r.cols), len(colAliases))
	}
	for i, a := range colAliases {
		if i < len(r.cols) {
			r.cols[i] = a
		}
	}
}

func (b *binding) bindFromItem(item FromItem, sc *scope, left []int) []int {
	switch t := item.(type) {
	case *TableRef:
		r := b.resolveTable(t, sc)
		applyAliases(r, t.Alias, t.ColAliases, b, t.Pos)
		idx := b.addRTE(sc, r, t.Pos)
		sc.sel.rteOf[t] = idx
		return []int{idx}
	case *SubqueryRef:
		saveNs, saveLim := sc.ns, sc.nsLimited
		if t.Lateral {
			sc.ns, sc.nsLimited = left, true
		} else {
			sc.ns, sc.nsLimited = []int{}, true
		}
		qi := b.bindQuery(t.Query, sc)
		sc.ns, sc.nsLimited = saveNs, saveLim
		r := &rte{alias: t.Alias, cols: append([]string(nil), qi.cols...), types: append([]string(nil), qi.types...), crossRef: true}
		applyAliases(r, t.Alias, t.ColAliases, b, t.Pos)
		idx := b.addRTE(sc, r, t.Pos)
		sc.sel.rteOf[t] = idx
		return []int{idx}
	case *FuncRef:
		saveNs, saveLim := sc.ns, sc.nsLimited
		sc.ns, sc.nsLimited = left, true
		var argTypes []string
		for _, a := range t.Call.Args {
			argTypes = append(argTypes, b.bindExpr(a, sc, false))
		}
		sc.ns, sc.nsLimited = saveNs, saveLim
		r := &rte{alias: t.Alias}
		if r.alias == "" {
			r.alias = t.Call.Name
		}
		def, ok := lookupFunc(t.Call.Name)
		switch {
		case !ok:
			b.issue("undefined-function", t.Pos, true, "function %s does not exist", t.Call.Name)
			r.cols, r.types = []string{t.Call.Name}, []string{""}
		case def.agg:
			b.issue("aggregate-misuse", t.Pos, true, "aggregate functions are not allowed in functions in FROM")
			r.cols, r.types = []string{t.Call.Name}, []string{""}
		case !b.checkArgCount(t.Call, def):
			r.cols, r.types = []string{t.Call.Name}, []string{""}
		default:
			if def.tableCols != nil {
				r.cols, r.types = def.tableCols(argTypes)
			} else {
				rt := ""
				if def.ret != nil {
					rt = def.ret(argTypes)
				}
				if cd, isComp := composites[rt]; isComp {
					r.cols, r.types = append([]string(nil), cd.Fields...), append([]string(nil), cd.Types...)
				} else {
					r.cols, r.types = []string{t.Call.Name}, []string{rt}
				}
			}
			r.cols = append([]string(nil), r.cols...)
			r.types = append([]string(nil), r.types...)
			// a single-column function result takes the table alias as its column name
			if len(r.cols) == 1 && t.Alias != "" && def.tableCols == nil {
				r.cols[0] = t.Alias
			} else if len(r.cols) == 1 && t.Alias != "" && def.singleColTakesAlias {
				r.cols[0] = t.Alias
			}
		}
		if t.WithOrdinality {
			r.cols = append(r.cols, "ordinality")
			r.types = append(r.types, "int8")
		} else if def != nil && def.ret != nil && len(t.ColAliases) == 0 {
			// a whole-row reference to a function returning a composite type has that type (unnest(nodecomposite[]) AS x; SELECT x)
			rt := def.ret(argTypes)
			if cd, isComposite := composites[rt]; isComposite && len(r.cols) == len(cd.Fields) {
				r.rowType = rt
			}
		}
		applyAliases(r, t.Alias, t.ColAliases, b, t.Pos)
		idx := b.addRTE(sc, r, t.Pos)
		sc.sel.rteOf[t] = idx
		b.types[t.Call] = ""
		return []int{idx}
	case *Join:
		l := b.bindFromItem(t.L, sc, left)
		if t.Type == "right" || t.Type == "full" {
			// the right side must not reference the left side laterally
			r := b.bindFromItem(t.R, sc, left)
			b.bindJoinQual(t, sc, l, r)
			return append(l, r...)
		}
		r := b.bindFromItem(t.R, sc, append(append([]int(nil), left...), l...))
		b.bindJoinQual(t, sc, l, r)
		return append(l, r...)
	}
	return nil
}

func (b *binding) bindJoinQual(j *Join, sc *scope, l, r []int) {
	if len(j.Using) > 0 {
		b.issue("unsupported", j.Pos, false, "JOIN … USING")
		return
	}
	if j.On != nil {
		saveNs, saveLim := sc.ns, sc.nsLimited
		sc.ns, sc.nsLimited = append(append([]int(nil), l...), r...), true
		if containsAggregate(j.On) {
			b.issue("aggregate-misuse", j.Pos, true, "aggregate functions are not allowed in JOIN conditions")
		}
		b.bindExpr(j.On, sc, false)
		sc.ns, sc.nsLimited = saveNs, saveLim
	}
}

func (b *binding) resolveTable(t *TableRef, sc *scope) *rte {
	if t.Schema == "" {
		// CTEs, innermost first
		for s := sc; s != nil; s = s.parent {
			for i := len(s.ctes) - 1; i >= 0; i-- {
				c := s.ctes[i]
				if c.cte.Name == t.Name {
					b.tableCTE[t] = c
					return &rte{alias: t.Name, cols: append([]string(nil), c.cols...), types: append([]string(nil), c.types...), fromCTE: true, crossRef: true}
				}
			}
		}
	}
	if t.Schema == "" || t.Schema == "public" {
		if bt, ok := baseTables[t.Name]; ok {
			return &rte{alias: t.Name, cols: append([]string(nil), bt.cols...), types: append([]string(nil), bt.types...), rowType: bt.rowType}
		}
	}
	if ht, ok := harnessTables[t.Name]; ok && b.harness && (t.Schema == "" || t.Schema == "pg_temp") {
		return &rte{alias: t.Name, cols: append([]string(nil), ht.cols...), types: append([]string(nil), ht.types...)}
	}
	name := t.Name
	if t.Schema != "" {
		name = t.Schema + "." + name
	}
	b.issue("undefined-table", t.Pos, true, "relation %q does not exist", name)
	return &rte{alias: t.Name}
}

// ---- name lookup ---------------------------------------------------------------------------

func (sc *scope) visible(i int) bool {
	if !sc.nsLimited {
		return true
	}
	for _, v := range sc.ns {
		if v == i {
			return true
		}
	}
	return false
}

// lookupColumn resolves a column reference; quiet suppresses issue reporting (used for probing).
func (b *binding) lookupColumn(cr *ColumnRef, sc *scope, quiet bool) (string, bool) {
	parts := cr.Parts
	if len(parts) == 3 {
		if parts[0] != "public" {
			if !quiet {
				b.issue("undefined-table", cr.Pos, true, "schema %q does not exist", parts[0])
			}
			return "", false
		}
		parts = parts[1:]
	}
	if len(parts) > 3 {
		if !quiet {
			b.issue("unsupported", cr.Pos, false, "over-qualified name")
		}
		return "", false
	}
	up := 0
	hidden := ""
	for s := sc; s != nil; s = s.parent {
		if s.sel != nil {
			if len(parts) == 1 {
				matchR, matchC, n := -1, -1, 0
				for i, r := range s.sel.rtes {
					if !s.visible(i) {
						continue
					}
					for j, c := range r.cols {
						if c == parts[0] {
							if n == 0 {
								matchR, matchC = i, j
							}
							n++
						}
					}
				}
				if n > 1 {
					if !quiet {
						b.issue("ambiguous-column", cr.Pos, true, "column reference %q is ambiguous", parts[0])
					}
					return "", false
				}
				if n == 1 {
					if !quiet {
						b.recordCol(cr, colRes{up: up, rte: matchR, col: matchC, kind: resCol}, s.sel.rtes[matchR], up, s.sel)
					}
					return s.sel.rtes[matchR].types[matchC], true
				}
			} else {
				n, match := 0, -1
				for i, r := range s.sel.rtes {
					if r.alias == parts[0] {
						if !s.visible(i) {
							hidden = parts[0]
							continue
						}
						if n == 0 {
							match = i
						}
						n++
					}
				}
				if n > 1 {
					if !quiet {
						b.issue("ambiguous-table", cr.Pos, true, "table reference %q is ambiguous", parts[0])
					}
					return "", false
				}
				if n == 1 {
					r := s.sel.rtes[match]
					for j, c := range r.cols {
						if c == parts[1] {
							if !quiet {
								b.recordCol(cr, colRes{up: up, rte: match, col: j, kind: resCol}, r, up, s.sel)
							}
							return r.types[j], true
						}
					}
					if !quiet {
						b.issue("undefined-column", cr.Pos, true, "column %s.%s does not exist", parts[0], parts[1])
					}
					return "", false
				}
			}
		}
		up++
	}
	// a bare name may denote a whole row of a table alias
	if len(parts) == 1 {
		up = 0
		for s := sc; s != nil; s = s.parent {
			if s.sel != nil {
				for i, r := range s.sel.rtes {
					if r.alias == parts[0] && s.visible(i) {
						if !quiet {
							b.recordCol(cr, colRes{up: up, rte: i, col: -1, kind: resWholeRow}, r, up, s.sel)
						}
						if r.rowType != "" {
							return r.rowType, true
						}
						return "record", true
					}
				}
			}
			up++
		}
		if !quiet {
			b.issue("undefined-column", cr.Pos, true, "column %q does not exist", parts[0])
		}
		return "", false
	}
	if !quiet {
		if hidden != "" {
			b.issue("invalid-reference", cr.Pos, true, "invalid reference to FROM-clause entry for table %q", hidden)
		} else {
			b.issue("undefined-table", cr.Pos, true, "missing FROM-clause entry for table %q", parts[0])
		}
	}
	return "", false
}

func (b *binding) recordCol(cr *ColumnRef, res colRes, r *rte, up int, owner *selInfo) {
	b.cols[cr] = res
	b.colScope[cr] = owner
	b.stats.ColumnRefs++
	if r.crossRef {
		b.stats.CrossFrameRefs++
	}
	if up > 0 {
		// hops over query scopes do not make a reference correlated; count select scopes only
		b.stats.Correlated++
	}
}

// ---- expressions ---------------------------------------------------------------------------

var aggregateNames = map[string]bool{
	"count": true, "sum": true, "avg": true, "min": true, "max": true, "array_agg": true, "cypher_min": true, "cypher_max": true,
	"bool_and": true, "bool_or": true, "every": true, "string_agg": true, "jsonb_agg": true, "json_agg": true,
	"jsonb_object_agg": true, "stddev": true, "variance": true, "bit_and": true, "bit_or": true,
}

// containsAggregate reports whether e contains an aggregate call of the current query level
// (sub-selects are not entered).
func containsAggregate(e Expr) bool {
	found := false
	Walk(e, func(n Node) bool {
		if found {
			return false
		}
		switch t := n.(type) {
		case *Query:
			return false
		case *FuncCall:
			if aggregateNames[t.Name] && t.Schema == "" || (aggregateNames[t.Name] && (t.Schema == "public" || t.Schema == "pg_catalog")) {
				found = true
				return false
			}
		}
		return true
	})
	return found
}

// exprKey is a structural key for expression equality (GROUP BY matching), ignoring parentheses.
func (b *binding) exprKey(e Expr) string {
	var sb strings.Builder
	b.keyLocal = map[*selInfo]int{}
	b.writeExprKey(&sb, e)
	b.keyLocal = nil
	return sb.String()
}

func (b *binding) writeExprKey(sb *strings.Builder, n Node) {
	if sel, ok := n.(*Select); ok && b.keyLocal != nil {
		// a SELECT scope inside the expression: references into it are keyed by the scope's ordinal within
		// the expression, so that two separately written but identical sub-selects have equal keys (as
		// PostgreSQL's equal() on SubLink nodes has it)
		if si := b.sel[sel]; si != nil {
			if _, seen := b.keyLocal[si]; !seen {
				b.keyLocal[si] = len(b.keyLocal)
			}
		}
	}
	switch t := n.(type) {
	case nil:
		sb.WriteString("nil")
	case *Paren:
		b.writeExprKey(sb, t.X)
	case *Literal:
		fmt.Fprintf(sb, "L%s:%q:%v", t.Kind, t.Text, t.Bool)
	case *ColumnRef:
		if res, ok := b.cols[t]; ok {
			if idx, local := b.keyLocal[b.colScope[t]]; local {
				fmt.Fprintf(sb, "Clocal%d.%d.%d", idx, res.rte, res.col)
			} else {
				fmt.Fprintf(sb, "C%p.%d.%d", b.colScope[t], res.rte, res.col)
			}
		} else {
			fmt.Fprintf(sb, "C%s", strings.Join(t.Parts, "."))
		}
	case *Param:
		fmt.Fprintf(sb, "@%s", t.Name)
	case *Unary:
		fmt.Fprintf(sb, "U%s(", t.Op)
		b.writeExprKey(sb, t.X)
		sb.WriteString(")")
	case *Binary:
		fmt.Fprintf(sb, "B%s(", t.Op)
		b.writeExprKey(sb, t.L)
		sb.WriteString(",")
		b.writeExprKey(sb, t.R)
		sb.WriteString(")")
	case *Cast:
		sb.WriteString("T(")
		b.writeExprKey(sb, t.X)
		fmt.Fprintf(sb, "::%s)", t.Type.String())
	case *FieldSel:
		sb.WriteString("F(")
		b.writeExprKey(sb, t.X)
		fmt.Fprintf(sb, ".%s)", t.Field)
	case *FuncCall:
		fmt.Fprintf(sb, "f%s[%v%v](", t.Name, t.Distinct, t.Star)
		for _, a := range t.Args {
			b.writeExprKey(sb, a)
			sb.WriteString(",")
		}
		for _, o := range t.OrderBy {
			sb.WriteString("o")
			b.writeExprKey(sb, o.Expr)
			fmt.Fprintf(sb, "%v", o.Desc)
		}
		sb.WriteString(")")
	default:
		// generic: node type + children
		fmt.Fprintf(sb, "%T", n)
		switch x := n.(type) {
		case *IsExpr:
			fmt.Fprintf(sb, "%v%s", x.Not, x.What)
		case *AnyAll:
			fmt.Fprintf(sb, "%s%v", x.Op, x.All)
		case *InExpr:
			fmt.Fprintf(sb, "%v", x.Not)
		case *Select:
			fmt.Fprintf(sb, "%v", x.Distinct)
		case *SelectItem:
			sb.WriteString(x.Alias)
		case *TableRef:
			fmt.Fprintf(sb, "%s.%s as %s", x.Schema, x.Name, x.Alias)
		case *SubqueryRef:
			fmt.Fprintf(sb, "%v %s", x.Lateral, x.Alias)
		case *FuncRef:
			fmt.Fprintf(sb, "%v %s %v", x.WithOrdinality, x.Alias, x.ColAliases)
		case *Join:
			sb.WriteString(x.Type)
		case *SetOp:
			fmt.Fprintf(sb, "%s%v", x.Op, x.All)
		case *OrderItem:
			fmt.Fprintf(sb, "%v", x.Desc)
		case *TypedLiteral:
			fmt.Fprintf(sb, "%s%q", x.Type.String(), x.Text)
		case *Star:
			sb.WriteString(x.Table)
		}
		sb.WriteString("(")
		for _, c := range Children(n) {
			b.writeExprKey(sb, c)
			sb.WriteString(",")
		}
		sb.WriteString(")")
	}
}

// checkGrouped verifies that e only uses ungrouped columns of the current level inside aggregates.
func (b *binding) checkGrouped(e Expr, si *selInfo, sc *scope) {
	groupKeys := map[string]bool{}
	for _, g := range si.groupBy {
		if or, ok := g.(*outRef); ok {
			if si.out[or.Idx].expr != nil {
				groupKeys[b.exprKey(si.out[or.Idx].expr)] = true
			}
			continue
		}
		groupKeys[b.exprKey(g)] = true
	}
	var walk func(n Node) bool
	bad := false
	walk = func(n Node) bool {
		if bad {
			return false
		}
		if ex, ok := n.(Expr); ok {
			if groupKeys[b.exprKey(ex)] {
				return false
			}
		}
		switch t := n.(type) {
		case *FuncCall:
			if aggregateNames[t.Name] {
				return false
			}
		case *ColumnRef:
			if res, ok := b.cols[t]; ok && res.kind != resOutput {
				// which scope does it belong to? count hops to the select scope `sc`
				if b.refersToScope(t, sc) {
					bad = true
					b.issue("grouping-error", t.Pos, true, "column %q must appear in the GROUP BY clause or be used in an aggregate function", strings.Join(t.Parts, "."))
				}
			}
			return false
		}
		return true
	}
	Walk(e, walk)
}

// refersToScope: the binder records, for every column reference, the number of hops from its own
// scope; to know whether it lands in sc we re-resolve quietly from sc and compare the RTE.
func (b *binding) refersToScope(cr *ColumnRef, sc *scope) bool {
	res := b.cols[cr]
	// find the depth of the reference's own scope below sc: references directly in sc have up == 0;
	// references inside sub-selects have up >= 1 when they reach sc or beyond. We stored the scope
	// pointer for precision:
	if s, ok := b.colScope[cr]; ok {
		return s == sc.sel
	}
	return res.up == 0
}
