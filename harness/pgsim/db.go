package pgsim

import (
	"fmt"
	"sort"

	"verif/gmodel"
)

// DB is an immutable in-memory instance of the DAWGS PostgreSQL schema (tables node, edge, kind,
// graph). It is safe for concurrent read-only use.
type DB struct {
	graphID  int32
	nodes    [][]Value // id, graph_id, kind_ids, properties
	edges    [][]Value // id, graph_id, start_id, end_id, kind_id, properties
	kinds    [][]Value // id, name
	graphs   [][]Value
	nodeByID map[int64][]Value
	edgeByID map[int64][]Value
	kindName map[int16]string
	kindID   map[string]int16
	// LoadError is set when the graph could not be represented (unknown kind, bad property value);
	// every Query then reports Unsupported.
	LoadError error

	// MaxSteps, when positive, replaces the default evaluation step budget of a statement (a statement that
	// needs more is reported Unsupported). Checks that execute many generated statements in parallel shards
	// and do not need the rows (C03) set a small budget to bound memory.
	MaxSteps int64
}

// NewDB loads g as graph graphID. kindIDs is the content of the kind table (every kind used by g
// must be present; kinds that only queries mention may be present too).
func NewDB(g gmodel.Graph, kindIDs map[string]int16, graphID int32) *DB {
	db := &DB{graphID: graphID, nodeByID: map[int64][]Value{}, edgeByID: map[int64][]Value{}, kindName: map[int16]string{}, kindID: map[string]int16{}}
	defer func() {
		if r := recover(); r != nil {
			if u, ok := r.(*unsupportedError); ok {
				db.LoadError = u
				return
			}
			panic(r)
		}
	}()
	names := make([]string, 0, len(kindIDs))
	for n := range kindIDs {
		names = append(names, n)
	}
	sort.Slice(names, func(i, j int) bool { return kindIDs[names[i]] < kindIDs[names[j]] })
	for _, n := range names {
		id := kindIDs[n]
		if prev, dup := db.kindName[id]; dup {
			db.LoadError = fmt.Errorf("kind id %d used for %q and %q", id, prev, n)
			return db
		}
		db.kindName[id] = n
		db.kindID[n] = id
		db.kinds = append(db.kinds, []Value{id, n})
	}
	db.graphs = append(db.graphs, []Value{int64(graphID), "default"})
	for _, n := range g.Nodes {
		if _, dup := db.nodeByID[n.ID]; dup {
			db.LoadError = fmt.Errorf("duplicate node id %d", n.ID)
			return db
		}
		ks := &Array{Elem: "int2"}
		for _, k := range n.Kinds {
			id, ok := db.kindID[k]
			if !ok {
				db.LoadError = fmt.Errorf("node %d: kind %q is not in the kind table", n.ID, k)
				return db
			}
			ks.V = append(ks.V, id)
		}
		row := []Value{n.ID, graphID, ks, JSONB{V: jsonFromGo(propsOrEmpty(n.Props))}}
		db.nodes = append(db.nodes, row)
		db.nodeByID[n.ID] = row
	}
	for _, e := range g.Edges {
		if _, dup := db.edgeByID[e.ID]; dup {
			db.LoadError = fmt.Errorf("duplicate edge id %d", e.ID)
			return db
		}
		id, ok := db.kindID[e.Kind]
		if !ok {
			db.LoadError = fmt.Errorf("edge %d: kind %q is not in the kind table", e.ID, e.Kind)
			return db
		}
		row := []Value{e.ID, graphID, e.Start, e.End, id, JSONB{V: jsonFromGo(propsOrEmpty(e.Props))}}
		db.edges = append(db.edges, row)
		db.edgeByID[e.ID] = row
	}
	return db
}

func propsOrEmpty(m map[string]any) map[string]any {
	if m == nil {
		return map[string]any{}
	}
	return m
}

func (db *DB) table(name string) ([][]Value, bool) {
	switch name {
	case "node":
		return db.nodes, true
	case "edge":
		return db.edges, true
	case "kind":
		return db.kinds, true
	case "graph":
		return db.graphs, true
	}
	return nil, false
}

func (db *DB) nodeComposite(row []Value) *Row {
	return &Row{Type: "nodecomposite", F: []Value{row[0], row[2], row[3]}}
}

func (db *DB) edgeComposite(row []Value) *Row {
	return &Row{Type: "edgecomposite", F: []Value{row[0], row[2], row[3], row[4], row[5]}}
}

// Outcome tells how a Query ended. Exactly one of OK, Err, Unsupported is set.
type Outcome struct {
	OK          bool
	Err         *QueryError // what PostgreSQL would raise
	Unsupported string      // pgsim met a construct it does not model (no verdict)
}

// QueryError is an error PostgreSQL would raise. Class is "syntax", "binding" (parse-analysis:
// undefined table / column / function / type, ambiguous reference, grouping error, missing
// parameter, impossible cast or operator) or "runtime" (raised while executing: failing cast,
// division by zero, out of range, RAISE in a function, more than one row from a scalar sub-select).
type QueryError struct {
	Class string
	Msg   string
}

func (e *QueryError) Error() string { return e.Class + " error: " + e.Msg }

func (o *Outcome) String() string {
	switch {
	case o.OK:
		return "ok"
	case o.Err != nil:
		return o.Err.Error()
	}
	return "unsupported: " + o.Unsupported
}

// Query parses, binds and executes one statement. params are pgx named arguments (@name).
func (db *DB) Query(sql string, params map[string]any) (gmodel.Result, *Outcome) {
	stmt, err := Parse(sql)
	if err != nil {
		pe := err.(*ParseError)
		if pe.Unsupported {
			return gmodel.Result{}, &Outcome{Unsupported: "parse: " + pe.Msg}
		}
		return gmodel.Result{}, &Outcome{Err: &QueryError{Class: "syntax", Msg: pe.Error()}}
	}
	return db.Exec(stmt, params)
}

// Exec binds and executes a parsed statement.
func (db *DB) Exec(stmt *Statement, params map[string]any) (res gmodel.Result, out *Outcome) {
	if db.LoadError != nil {
		return gmodel.Result{}, &Outcome{Unsupported: "graph not loadable: " + db.LoadError.Error()}
	}
	b := bindStatement(stmt, params)
	if e := b.firstError(); e != nil {
		return gmodel.Result{}, &Outcome{Err: &QueryError{Class: "binding", Msg: e.Msg}}
	}
	if len(b.unsupp) > 0 {
		return gmodel.Result{}, &Outcome{Unsupported: "bind: " + b.unsupp[0]}
	}
	q, ok := stmt.Body.(*Query)
	if !ok {
		return gmodel.Result{}, &Outcome{Unsupported: "data-modifying statement"}
	}
	if reason := writesOrUnsupportedCalls(q); reason != "" {
		return gmodel.Result{}, &Outcome{Unsupported: reason}
	}
	x := &executor{db: db, b: b, params: params}
	defer func() {
		if r := recover(); r != nil {
			switch t := r.(type) {
			case *sqlError:
				res, out = gmodel.Result{}, &Outcome{Err: &QueryError{Class: t.Class, Msg: t.Msg}}
			case *unsupportedError:
				res, out = gmodel.Result{}, &Outcome{Unsupported: t.Reason}
			default:
				// a bug in pgsim must never become a verdict
				res, out = gmodel.Result{}, &Outcome{Unsupported: fmt.Sprintf("internal error: %v", r)}
			}
		}
	}()
	rel := x.evalQuery(q, nil)
	qi := b.query[q]
	res.Columns = append([]string(nil), qi.cols...)
	for _, r := range rel.rows {
		row := make([]gmodel.Value, len(r))
		for i, v := range r {
			row[i] = db.export(v)
		}
		res.Rows = append(res.Rows, row)
	}
	return res, &Outcome{OK: true}
}

// writesOrUnsupportedCalls: statements containing data-modifying CTEs or functions with side
// effects / without a model are not executed at all (PostgreSQL would run data-modifying CTEs
// even when they are not referenced).
func writesOrUnsupportedCalls(q *Query) string {
	reason := ""
	Walk(q, func(n Node) bool {
		if reason != "" {
			return false
		}
		switch t := n.(type) {
		case *Insert, *Update, *Delete, *Merge:
			reason = "data-modifying statement"
		case *FuncCall:
			if d, ok := lookupFunc(t.Name); ok && d.unsupported != "" {
				reason = "function " + t.Name + ": " + d.unsupported
			}
		case *TypedLiteral:
			reason = "typed literal of type " + t.Type.String()
		}
		return reason == ""
	})
	return reason
}

// export converts a datum to the gmodel value set the way the pg driver's result mapping implies.
func (db *DB) export(v Value) gmodel.Value {
	switch t := v.(type) {
	case nil:
		return nil
	case bool:
		return t
	case int16:
		return int64(t)
	case int32:
		return int64(t)
	case int64:
		return t
	case float32:
		return float64(t)
	case float64:
		return t
	case Numeric:
		return t.Float64()
	case string:
		return t
	case Unknown:
		return string(t)
	case JSONB:
		return jsonToGo(t.V)
	case *Array:
		out := make([]any, len(t.V))
		for i, e := range t.V {
			out[i] = db.export(e)
		}
		return out
	case *Row:
		switch t.Type {
		case "nodecomposite":
			if nv, ok := db.exportNode(t); ok {
				return nv
			}
		case "edgecomposite":
			if ev, ok := db.exportEdge(t); ok {
				return ev
			}
		case "pathcomposite":
			if pv, ok := db.exportPath(t); ok {
				return pv
			}
		}
		// a composite the driver could not map to an entity (NULL fields), or an anonymous record:
		// the driver hands out a map keyed by field name
		m := map[string]any{}
		def, known := composites[t.Type]
		for i, f := range t.F {
			name := "f" + itoa(i+1)
			if known && i < len(def.Fields) {
				name = def.Fields[i]
			}
			m[name] = db.export(f)
		}
		return m
	}
	return fmt.Sprintf("?%T", v)
}

func (db *DB) exportProps(v Value) (map[string]any, bool) {
	j, ok := v.(JSONB)
	if !ok {
		return nil, false
	}
	m, ok := j.V.(map[string]any)
	if !ok {
		return nil, false
	}
	return jsonToGo(m).(map[string]any), true
}

func (db *DB) exportNode(r *Row) (gmodel.NodeVal, bool) {
	if len(r.F) != 3 || r.F[0] == nil || r.F[1] == nil || r.F[2] == nil {
		return gmodel.NodeVal{}, false
	}
	ks, ok := r.F[1].(*Array)
	if !ok || !isIntVal(r.F[0]) {
		return gmodel.NodeVal{}, false
	}
	props, ok := db.exportProps(r.F[2])
	if !ok {
		return gmodel.NodeVal{}, false
	}
	nv := gmodel.NodeVal{ID: asInt64(r.F[0]), Props: props, Kinds: []string{}}
	for _, k := range ks.V {
		if k == nil || !isIntVal(k) {
			return gmodel.NodeVal{}, false
		}
		name, known := db.kindName[int16(asInt64(k))]
		if !known {
			return gmodel.NodeVal{}, false
		}
		nv.Kinds = append(nv.Kinds, name)
	}
	sort.Strings(nv.Kinds)
	return nv, true
}

func (db *DB) exportEdge(r *Row) (gmodel.EdgeVal, bool) {
	if len(r.F) != 5 {
		return gmodel.EdgeVal{}, false
	}
	for _, f := range r.F {
		if f == nil {
			return gmodel.EdgeVal{}, false
		}
	}
	for _, f := range r.F[:4] {
		if !isIntVal(f) {
			return gmodel.EdgeVal{}, false
		}
	}
	props, ok := db.exportProps(r.F[4])
	if !ok {
		return gmodel.EdgeVal{}, false
	}
	name, known := db.kindName[int16(asInt64(r.F[3]))]
	if !known {
		return gmodel.EdgeVal{}, false
	}
	return gmodel.EdgeVal{ID: asInt64(r.F[0]), Start: asInt64(r.F[1]), End: asInt64(r.F[2]), Kind: name, Props: props}, true
}

func (db *DB) exportPath(r *Row) (gmodel.PathVal, bool) {
	if len(r.F) != 2 {
		return gmodel.PathVal{}, false
	}
	ns, ok1 := r.F[0].(*Array)
	es, ok2 := r.F[1].(*Array)
	if !ok1 || !ok2 {
		return gmodel.PathVal{}, false
	}
	pv := gmodel.PathVal{Nodes: []gmodel.NodeVal{}, Edges: []gmodel.EdgeVal{}}
	for _, n := range ns.V {
		nr, ok := n.(*Row)
		if !ok {
			return gmodel.PathVal{}, false
		}
		nv, ok := db.exportNode(nr)
		if !ok {
			return gmodel.PathVal{}, false
		}
		pv.Nodes = append(pv.Nodes, nv)
	}
	for _, e := range es.V {
		er, ok := e.(*Row)
		if !ok {
			return gmodel.PathVal{}, false
		}
		ev, ok := db.exportEdge(er)
		if !ok {
			return gmodel.PathVal{}, false
		}
		pv.Edges = append(pv.Edges, ev)
	}
	return pv, true
}

// ---- path functions of schema_up.sql ----------------------------------------------------------

func (x *executor) sortedDistinctRows(rows []*Row) *Array {
	sort.SliceStable(rows, func(i, j int) bool {
		c, _ := sortCmp(rows[i], rows[j])
		return c < 0
	})
	out := &Array{}
	for i, r := range rows {
		if i > 0 {
			if c, _ := sortCmp(rows[i-1], r); c == 0 {
				continue
			}
		}
		out.V = append(out.V, r)
	}
	return out
}

func containsID(ids []int64, id int64) bool {
	for _, v := range ids {
		if v == id {
			return true
		}
	}
	return false
}

func (x *executor) nodesToPath(ids []int64) Value {
	var rows []*Row
	for _, n := range x.db.nodes {
		if containsID(ids, n[0].(int64)) {
			rows = append(rows, x.db.nodeComposite(n))
		}
	}
	var nodes Value
	if len(rows) > 0 {
		a := x.sortedDistinctRows(rows)
		a.Elem = "nodecomposite"
		nodes = a
	}
	return &Row{Type: "pathcomposite", F: []Value{nodes, &Array{Elem: "edgecomposite"}}}
}

func (x *executor) edgesToPath(ids []int64) Value {
	var erows, nrows []*Row
	var nodeIDs []int64
	for _, e := range x.db.edges {
		if containsID(ids, e[0].(int64)) {
			erows = append(erows, x.db.edgeComposite(e))
			nodeIDs = append(nodeIDs, e[2].(int64), e[3].(int64))
		}
	}
	for _, n := range x.db.nodes {
		if containsID(nodeIDs, n[0].(int64)) {
			nrows = append(nrows, x.db.nodeComposite(n))
		}
	}
	var nodes, edges Value
	if len(nrows) > 0 {
		a := x.sortedDistinctRows(nrows)
		a.Elem = "nodecomposite"
		nodes = a
	}
	if len(erows) > 0 {
		a := x.sortedDistinctRows(erows)
		a.Elem = "edgecomposite"
		edges = a
	}
	return &Row{Type: "pathcomposite", F: []Value{nodes, edges}}
}

// orderedEdgesToPath transcribes public.ordered_edges_to_path (a recursive walk over the edge list
// starting at root; see schema_up.sql).
func (x *executor) orderedEdgesToPath(root *Row, edges, known *Array) Value {
	type edgeT struct {
		row        *Row
		start, end Value
	}
	n := len(edges.V)
	es := make([]edgeT, n)
	for i, e := range edges.V {
		if r, ok := e.(*Row); ok {
			er := r
			if er.Type != "edgecomposite" {
				er = castValue(r, "edgecomposite").(*Row)
			}
			es[i] = edgeT{row: er, start: er.F[1], end: er.F[2]}
		}
	}
	rootID := root.F[0]
	eq := func(a, b Value) bool {
		if a == nil || b == nil {
			return false
		}
		return asInt64(a) == asInt64(b)
	}
	touches := func(i int) bool { return es[i].row != nil && (eq(rootID, es[i].start) || eq(rootID, es[i].end)) }
	lastOrdinal, direction := int64(0), int64(1)
	if n > 0 {
		switch {
		case touches(0):
			lastOrdinal = 0
		case touches(n - 1):
			lastOrdinal = int64(n) + 1
		}
		if !touches(0) && touches(n-1) {
			direction = -1
		}
	}
	current := rootID
	nodeIDs := []Value{rootID}
	var ordinals []int64
	for idx := 1; idx <= n; idx++ {
		best := -1
		bestPref, bestKey := 0, int64(0)
		for j := 0; j < n; j++ {
			ord := int64(j + 1)
			if es[j].row == nil || containsID(ordinals, ord) {
				continue
			}
			if !(eq(current, es[j].start) || eq(current, es[j].end)) {
				continue
			}
			pref := 1
			if ord == lastOrdinal+direction {
				pref = 0
			}
			key := ord
			if direction < 0 {
				key = -ord
			}
			if best < 0 || pref < bestPref || (pref == bestPref && key < bestKey) {
				best, bestPref, bestKey = j, pref, key
			}
		}
		if best < 0 {
			break
		}
		var next Value
		switch {
		case eq(current, es[best].start):
			next = es[best].end
		case eq(current, es[best].end):
			next = es[best].start
		}
		current = next
		nodeIDs = append(nodeIDs, next)
		ordinals = append(ordinals, int64(best+1))
		lastOrdinal = int64(best + 1)
	}
	nodes := &Array{Elem: "nodecomposite"}
	for _, id := range nodeIDs {
		var found Value
		if id != nil {
			for _, k := range known.V {
				kr, ok := k.(*Row)
				if !ok {
					continue
				}
				if eq(kr.F[0], id) {
					found = &Row{Type: "nodecomposite", F: []Value{kr.F[0], kr.F[1], kr.F[2]}}
					break
				}
			}
			if found == nil {
				if nrow, ok := x.db.nodeByID[asInt64(id)]; ok {
					found = x.db.nodeComposite(nrow)
				}
			}
		}
		if found == nil {
			found = &Row{Type: "nodecomposite", F: []Value{nil, nil, nil}}
		}
		nodes.V = append(nodes.V, found)
	}
	outEdges := &Array{Elem: "edgecomposite"}
	for _, o := range ordinals {
		outEdges.V = append(outEdges.V, es[o-1].row)
	}
	return &Row{Type: "pathcomposite", F: []Value{nodes, outEdges}}
}
