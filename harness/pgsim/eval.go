package pgsim

import (
	"encoding/json"
	"math"
	"regexp"
	"sort"
	"strconv"
	"strings"
	"unicode"
)

// executor evaluates one statement. It is created per Exec call and not shared.
type executor struct {
	db     *DB
	b      *binding
	params map[string]any
	steps  int64
}

// resource guard: a statement that needs more evaluation steps than this is reported Unsupported.
const maxSteps = 40_000_000

func (x *executor) tick(n int) {
	x.steps += int64(n)
	limit := int64(maxSteps)
	if x.db != nil && x.db.MaxSteps > 0 {
		limit = x.db.MaxSteps
	}
	if x.steps > limit {
		unsup("resource limit: more than %d evaluation steps", limit)
	}
}

// frame is the run-time counterpart of a binder scope (one per Query and one per Select evaluation).
type frame struct {
	parent *frame
	// select scope
	si    *selInfo
	rows  [][]Value   // current row per range-table entry (nil entry: NULL-extended / not bound)
	group [][][]Value // rows of the current group while an aggregated select list is evaluated
	inAgg bool
	// query scope
	q    *Query
	ctes map[*CTE]*relation
	work map[*CTE]*relation // working table of a recursive CTE being iterated
}

type relation struct {
	rows [][]Value
}

func truth(v Value) (val bool, null bool) {
	switch t := v.(type) {
	case nil:
		return false, true
	case bool:
		return t, false
	case Unknown:
		return parseBoolText(string(t)), false
	}
	bindErr("argument must be type boolean, not type %s", displayType(dynType(v)))
	return false, false
}

func (x *executor) paramValue(name string) Value {
	v, ok := x.params[name]
	if !ok {
		bindErr("no value for parameter @%s", name)
	}
	return goToValue(v)
}

func goToValue(v any) Value {
	switch t := v.(type) {
	case nil:
		return nil
	case string:
		return Unknown(t)
	case bool:
		return t
	case int:
		return int64(t)
	case int8:
		return int64(t)
	case int16:
		return int64(t)
	case int32:
		return int64(t)
	case int64:
		return t
	case uint:
		return int64(t)
	case uint8:
		return int64(t)
	case uint16:
		return int64(t)
	case uint32:
		return int64(t)
	case uint64:
		if t > math.MaxInt64 {
			unsup("uint64 parameter above int64 range")
		}
		return int64(t)
	case float32:
		return float64(t)
	case float64:
		return t
	case []any:
		out := &Array{}
		for _, e := range t {
			ev := goToValue(e)
			if u, ok := ev.(Unknown); ok {
				ev = string(u)
			}
			out.V = append(out.V, ev)
		}
		out.Elem = elemType(dynType(out))
		return out
	case []string:
		out := &Array{Elem: "text"}
		for _, e := range t {
			out.V = append(out.V, e)
		}
		return out
	case []int64:
		out := &Array{Elem: "int8"}
		for _, e := range t {
			out.V = append(out.V, e)
		}
		return out
	case []int:
		out := &Array{Elem: "int8"}
		for _, e := range t {
			out.V = append(out.V, int64(e))
		}
		return out
	case []int32:
		out := &Array{Elem: "int4"}
		for _, e := range t {
			out.V = append(out.V, e)
		}
		return out
	case []int16:
		out := &Array{Elem: "int2"}
		for _, e := range t {
			out.V = append(out.V, e)
		}
		return out
	case []float64:
		out := &Array{Elem: "float8"}
		for _, e := range t {
			out.V = append(out.V, e)
		}
		return out
	case map[string]any:
		return JSONB{V: jsonFromGo(t)}
	case json.Marshaler:
		// pgtype.JSONB and friends: what reaches the server is the JSON text
		raw, err := t.MarshalJSON()
		if err != nil {
			unsup("parameter of Go type %T does not marshal: %v", v, err)
		}
		j, ok := parseJSON(string(raw))
		if !ok {
			unsup("parameter of Go type %T marshals to invalid JSON", v)
		}
		return JSONB{V: j}
	}
	unsup("parameter of Go type %T", v)
	return nil
}

func (x *executor) evalBool(e Expr, fr *frame) (bool, bool) {
	return truth(x.evalExpr(e, fr))
}

func (x *executor) evalExpr(e Expr, fr *frame) Value {
	x.tick(1)
	switch t := e.(type) {
	case *Paren:
		return x.evalExpr(t.X, fr)
	case *Literal:
		switch t.Kind {
		case "null":
			return nil
		case "bool":
			return t.Bool
		case "string":
			return Unknown(t.Text)
		case "int":
			switch literalIntType(t.Text) {
			case "int4":
				v, _ := strconv.ParseInt(strings.ReplaceAll(t.Text, "_", ""), 10, 64)
				return int32(v)
			case "int8":
				v, _ := strconv.ParseInt(strings.ReplaceAll(t.Text, "_", ""), 10, 64)
				return v
			}
			n, ok := parseNumeric(t.Text)
			if !ok {
				rtErr("invalid numeric literal %q", t.Text)
			}
			return n
		case "numeric":
			n, ok := parseNumeric(t.Text)
			if !ok {
				rtErr("invalid numeric literal %q", t.Text)
			}
			return n
		}
	case *TypedLiteral:
		ct, _ := canonType(t.Type)
		return inputValue(t.Text, ct)
	case *ColumnRef:
		return x.evalColumn(t, fr)
	case *Param:
		return x.paramValue(t.Name)
	case *Unary:
		v := x.evalExpr(t.X, fr)
		switch t.Op {
		case "not":
			b, null := truth(v)
			if null {
				return nil
			}
			return !b
		case "+":
			if v != nil && !isNumericVal(v) {
				if u, ok := v.(Unknown); ok {
					return parseFloatText(string(u))
				}
				bindErr("operator does not exist: + %s", displayType(dynType(v)))
			}
			return v
		case "-":
			return negate(v)
		}
		unsup("prefix operator %s", t.Op)
	case *Binary:
		return x.evalBinary(t, fr)
	case *AnyAll:
		return x.evalAnyAll(t, fr)
	case *IsExpr:
		return x.evalIs(t, fr)
	case *InExpr:
		return x.evalIn(t, fr)
	case *Between:
		v, lo, hi := x.evalExpr(t.X, fr), x.evalExpr(t.Lo, fr), x.evalExpr(t.Hi, fr)
		r := and3(compareOp(">=", v, lo), compareOp("<=", v, hi))
		if t.Not {
			return not3(r)
		}
		return r
	case *Case:
		return x.evalCase(t, fr)
	case *Exists:
		rel := x.evalQuery(t.Query, fr)
		return len(rel.rows) > 0
	case *SubqueryExpr:
		rel := x.evalQuery(t.Query, fr)
		switch len(rel.rows) {
		case 0:
			return nil
		case 1:
			return rel.rows[0][0]
		}
		rtErr("more than one row returned by a subquery used as an expression")
	case *ArraySubquery:
		rel := x.evalQuery(t.Query, fr)
		out := &Array{Elem: elemType(x.b.types[t])}
		for _, r := range rel.rows {
			if _, isArr := r[0].(*Array); isArr {
				unsup("ARRAY(sub-select) over array values")
			}
			out.V = append(out.V, r[0])
		}
		return out
	case *ArrayCtor:
		return x.evalArrayCtor(t, fr, "")
	case *RowCtor:
		r := &Row{F: make([]Value, len(t.Elems))}
		for i, el := range t.Elems {
			r.F[i] = x.evalExpr(el, fr)
		}
		return r
	case *Cast:
		return x.evalCast(t, fr)
	case *FieldSel:
		return x.evalFieldSel(t, fr)
	case *Index:
		return x.evalIndex(t, fr)
	case *Slice:
		return x.evalSlice(t, fr)
	case *FuncCall:
		return x.evalFuncCall(t, fr)
	case *outRef:
		bindErr("output column reference outside of ORDER BY / GROUP BY")
	}
	unsup("expression node %T", e)
	return nil
}

func negate(v Value) Value {
	switch t := v.(type) {
	case nil:
		return nil
	case int16:
		if t == math.MinInt16 {
			rtErr("smallint out of range")
		}
		return -t
	case int32:
		if t == math.MinInt32 {
			rtErr("integer out of range")
		}
		return -t
	case int64:
		if t == math.MinInt64 {
			rtErr("bigint out of range")
		}
		return -t
	case float32:
		return -t
	case float64:
		return -t
	case Numeric:
		return numNeg(t)
	case Unknown:
		return -parseFloatText(string(t))
	}
	bindErr("operator does not exist: - %s", displayType(dynType(v)))
	return nil
}

func (x *executor) evalColumn(cr *ColumnRef, fr *frame) Value {
	res, ok := x.b.cols[cr]
	if !ok {
		bindErr("column %q was not resolved", strings.Join(cr.Parts, "."))
	}
	f := fr
	for i := 0; i < res.up; i++ {
		if f == nil {
			break
		}
		f = f.parent
	}
	if f == nil || f.si == nil || res.rte >= len(f.rows) {
		unsup("internal: frame mismatch resolving %s", strings.Join(cr.Parts, "."))
	}
	row := f.rows[res.rte]
	if row == nil {
		return nil
	}
	if res.kind == resWholeRow {
		return &Row{Type: f.si.rtes[res.rte].rowType, F: append([]Value(nil), row...)}
	}
	return row[res.col]
}

// ---- three-valued logic ----------------------------------------------------------------------

func and3(a, b Value) Value {
	av, an := truth(a)
	bv, bn := truth(b)
	switch {
	case !an && !av, !bn && !bv:
		return false
	case an || bn:
		return nil
	}
	return true
}

func or3(a, b Value) Value {
	av, an := truth(a)
	bv, bn := truth(b)
	switch {
	case !an && av, !bn && bv:
		return true
	case an || bn:
		return nil
	}
	return false
}

func not3(a Value) Value {
	v, n := truth(a)
	if n {
		return nil
	}
	return !v
}

// ---- binary operators ------------------------------------------------------------------------

func (x *executor) evalBinary(t *Binary, fr *frame) Value {
	switch t.Op {
	case "and":
		l := x.evalExpr(t.L, fr)
		if lv, ln := truth(l); !ln && !lv {
			return false
		}
		return and3(l, x.evalExpr(t.R, fr))
	case "or":
		l := x.evalExpr(t.L, fr)
		if lv, ln := truth(l); !ln && lv {
			return true
		}
		return or3(l, x.evalExpr(t.R, fr))
	}
	if t.Schema != "" && t.Schema != "pg_catalog" && t.Schema != "public" {
		bindErr("schema %q does not exist", t.Schema)
	}
	l := x.evalExpr(t.L, fr)
	r := x.evalExpr(t.R, fr)
	switch t.Op {
	case "=", "<>", "<", ">", "<=", ">=":
		_, lrow := stripParen(t.L).(*RowCtor)
		_, rrow := stripParen(t.R).(*RowCtor)
		if lrow && rrow {
			return rowCompare(t.Op, l.(*Row), r.(*Row))
		}
		return compareOp(t.Op, l, r)
	case "||":
		return x.concatOp(t, l, r)
	}
	return applyBinaryOp(t.Op, l, r)
}

// rowCompare implements comparison of two row constructors (SQL semantics with NULLs).
func rowCompare(op string, l, r *Row) Value {
	if len(l.F) != len(r.F) {
		bindErr("unequal number of entries in row expressions")
	}
	switch op {
	case "=":
		var res Value = true
		for i := range l.F {
			res = and3(res, compareOp("=", l.F[i], r.F[i]))
		}
		return res
	case "<>":
		var res Value = false
		for i := range l.F {
			res = or3(res, compareOp("<>", l.F[i], r.F[i]))
		}
		return res
	}
	// <, <=, >, >=: lexicographic; first non-equal pair decides; NULL in a deciding pair → NULL
	for i := range l.F {
		eq := compareOp("=", l.F[i], r.F[i])
		if eq == nil {
			return nil
		}
		if !eq.(bool) {
			strict := strings.TrimSuffix(op, "=")
			return compareOp(strict, l.F[i], r.F[i])
		}
	}
	return op == "<=" || op == ">="
}

// resolveUnknownPair applies PostgreSQL's rule for untyped literals in a binary operator: an
// unknown operand takes the type of the other operand; two unknowns are text.
func resolveUnknownPair(l, r Value) (Value, Value) {
	lu, lIsU := l.(Unknown)
	ru, rIsU := r.(Unknown)
	switch {
	case lIsU && rIsU:
		return string(lu), string(ru)
	case lIsU && r != nil:
		return inputValue(string(lu), unknownTargetFor(r)), r
	case rIsU && l != nil:
		return l, inputValue(string(ru), unknownTargetFor(l))
	case lIsU:
		return string(lu), r
	case rIsU:
		return l, string(ru)
	}
	return l, r
}

func unknownTargetFor(other Value) string {
	t := dynType(other)
	if t == "record" || t == "[]" {
		return "text"
	}
	return t
}

func compareOp(op string, l, r Value) Value {
	if l == nil || r == nil {
		// an untyped literal with invalid syntax for the other side would still be an error in
		// PostgreSQL, but the other side being NULL at run time tells nothing about its type here
		return nil
	}
	l, r = resolveUnknownPair(l, r)
	c, ok := sortCmp(l, r)
	if !ok {
		bindErr("operator does not exist: %s %s %s", displayType(dynType(l)), op, displayType(dynType(r)))
	}
	switch op {
	case "=":
		return c == 0
	case "<>":
		return c != 0
	case "<":
		return c < 0
	case ">":
		return c > 0
	case "<=":
		return c <= 0
	case ">=":
		return c >= 0
	}
	unsup("comparison operator %s", op)
	return nil
}

func (x *executor) concatOp(t *Binary, l, r Value) Value {
	la, lIsArr := l.(*Array)
	ra, rIsArr := r.(*Array)
	lt, rt := x.b.types[t.L], x.b.types[t.R]
	switch {
	case lIsArr && rIsArr:
		return arrayCat(la, ra)
	case lIsArr:
		if r == nil && (rt == "" || rt == "unknown" || isArrayType(rt)) {
			return la // array_cat(array, NULL)
		}
		return &Array{Elem: la.Elem, V: append(append([]Value(nil), la.V...), coerceToElem(r, la))}
	case rIsArr:
		if l == nil && (lt == "" || lt == "unknown" || isArrayType(lt)) {
			return ra
		}
		return &Array{Elem: ra.Elem, V: append([]Value{coerceToElem(l, ra)}, ra.V...)}
	}
	if l == nil || r == nil {
		// array || NULL with a NULL array datum
		if l == nil && r == nil {
			return nil
		}
		if isArrayType(lt) && l == nil && !isArrayType(rt) && rt != "unknown" && rt != "" {
			return &Array{Elem: elemType(lt), V: []Value{r}} // array_append(NULL, elem)
		}
		if isArrayType(rt) && r == nil && !isArrayType(lt) && lt != "unknown" && lt != "" {
			return &Array{Elem: elemType(rt), V: []Value{l}}
		}
		return nil
	}
	lj, lIsJ := l.(JSONB)
	rj, rIsJ := r.(JSONB)
	if lIsJ || rIsJ {
		if !lIsJ {
			if u, ok := l.(Unknown); ok {
				lj, lIsJ = jsonbArg(u, "||"), true
			}
		}
		if !rIsJ {
			if u, ok := r.(Unknown); ok {
				rj, rIsJ = jsonbArg(u, "||"), true
			}
		}
		if lIsJ && rIsJ {
			return JSONB{V: jsonConcat(lj.V, rj.V)}
		}
		// jsonb || text: anynonarray || text → text concatenation
	}
	_, lText := l.(string)
	_, rText := r.(string)
	_, lU := l.(Unknown)
	_, rU := r.(Unknown)
	if !(lText || rText || lU || rU) {
		bindErr("operator does not exist: %s || %s", displayType(dynType(l)), displayType(dynType(r)))
	}
	return concatText(l) + concatText(r)
}

func concatText(v Value) string {
	if b, ok := v.(bool); ok {
		return boolOutText(b)
	}
	return valueText(v)
}

func jsonConcat(a, b any) any {
	am, aObj := a.(map[string]any)
	bm, bObj := b.(map[string]any)
	if aObj && bObj {
		out := make(map[string]any, len(am)+len(bm))
		for k, v := range am {
			out[k] = v
		}
		for k, v := range bm {
			out[k] = v
		}
		return out
	}
	aa, aArr := a.([]any)
	ba, bArr := b.([]any)
	switch {
	case aArr && bArr:
		return append(append([]any(nil), aa...), ba...)
	case aArr:
		return append(append([]any(nil), aa...), b)
	case bArr:
		return append([]any{a}, ba...)
	}
	return []any{a, b}
}

func applyBinaryOp(op string, l, r Value) Value {
	switch op {
	case "+", "-", "*", "/", "%", "^":
		if op == "-" && l != nil {
			if j, ok := l.(JSONB); ok {
				return jsonMinus(j, r)
			}
			if a, ok := l.(*Array); ok {
				return intarrayMinus(a, r)
			}
		}
		if l == nil || r == nil {
			return nil
		}
		return arith(op, l, r)
	case "->", "->>":
		return jsonGet(op, l, r)
	case "#>", "#>>":
		return jsonGetPath(op, l, r)
	case "@>":
		return containsOp(l, r)
	case "<@":
		return containsOp(r, l)
	case "&&":
		if l == nil || r == nil {
			return nil
		}
		la, ok1 := l.(*Array)
		ra, ok2 := r.(*Array)
		if !ok1 || !ok2 {
			bindErr("operator does not exist: %s && %s", displayType(dynType(l)), displayType(dynType(r)))
		}
		for _, a := range la.V {
			if a == nil {
				continue
			}
			for _, b := range ra.V {
				if b == nil {
					continue
				}
				c, ok := sortCmp(a, b)
				if !ok {
					bindErr("operator does not exist: %s && %s", displayType(dynType(l)), displayType(dynType(r)))
				}
				if c == 0 {
					return true
				}
			}
		}
		return false
	case "?", "?|", "?&":
		return jsonExists(op, l, r)
	case "like", "not like", "ilike", "not ilike":
		if l == nil || r == nil {
			return nil
		}
		ls, ok1 := textOf(l)
		rs, ok2 := textOf(r)
		if !ok1 || !ok2 {
			bindErr("operator does not exist: %s %s %s", displayType(dynType(l)), op, displayType(dynType(r)))
		}
		ci := strings.Contains(op, "ilike")
		m := likeMatch(ls, rs, ci)
		if strings.HasPrefix(op, "not") {
			return !m
		}
		return m
	case "~", "~*", "!~", "!~*":
		if l == nil || r == nil {
			return nil
		}
		ls, ok1 := textOf(l)
		rs, ok2 := textOf(r)
		if !ok1 || !ok2 {
			bindErr("operator does not exist: %s %s %s", displayType(dynType(l)), op, displayType(dynType(r)))
		}
		m := regexMatch(ls, rs, strings.HasSuffix(op, "*"))
		if strings.HasPrefix(op, "!") {
			return !m
		}
		return m
	}
	unsup("operator %s", op)
	return nil
}

func textOf(v Value) (string, bool) {
	switch t := v.(type) {
	case string:
		return t, true
	case Unknown:
		return string(t), true
	}
	return "", false
}

// likeMatch implements LIKE with % _ and backslash escape.
func likeMatch(s, pat string, ci bool) bool {
	if ci {
		s, pat = strings.ToLower(s), strings.ToLower(pat)
	}
	sr, pr := []rune(s), []rune(pat)
	var rec func(si, pi int) bool
	rec = func(si, pi int) bool {
		for pi < len(pr) {
			switch pr[pi] {
			case '%':
				for pi < len(pr) && pr[pi] == '%' {
					pi++
				}
				if pi == len(pr) {
					return true
				}
				for k := si; k <= len(sr); k++ {
					if rec(k, pi) {
						return true
					}
				}
				return false
			case '_':
				if si >= len(sr) {
					return false
				}
				si++
				pi++
			case '\\':
				if pi+1 >= len(pr) {
					rtErr("LIKE pattern must not end with escape character")
				}
				pi++
				if si >= len(sr) || sr[si] != pr[pi] {
					return false
				}
				si++
				pi++
			default:
				if si >= len(sr) || sr[si] != pr[pi] {
					return false
				}
				si++
				pi++
			}
		}
		return si == len(sr)
	}
	return rec(0, 0)
}

// regexMatch maps a POSIX ARE to Go's RE2 where the two agree; anything Go cannot compile, or
// constructs whose meaning differs, are Unsupported.
func regexMatch(s, pat string, ci bool) bool {
	for _, bad := range []string{`\y`, `\m`, `\M`, `\Y`, `(?=`, `(?!`, `(?<`, `\1`, `\2`, `\3`, `[[:<:]]`, `[[:>:]]`, `***`} {
		if strings.Contains(pat, bad) {
			unsup("regular expression construct %q", bad)
		}
	}
	p := pat
	if ci {
		p = "(?i)" + p
	}
	re, err := regexp.Compile(p)
	if err != nil {
		unsup("regular expression %q not portable to RE2", pat)
	}
	return re.MatchString(s)
}

func containsOp(l, r Value) Value {
	if l == nil || r == nil {
		return nil
	}
	if la, ok := l.(*Array); ok {
		ra, ok := r.(*Array)
		if !ok {
			if u, isU := r.(Unknown); isU {
				ra = parseArrayLiteral(string(u), la.Elem).(*Array)
			} else {
				bindErr("operator does not exist: %s @> %s", displayType(dynType(l)), displayType(dynType(r)))
			}
		}
		for _, b := range ra.V {
			if b == nil {
				return false
			}
			found := false
			for _, a := range la.V {
				if a == nil {
					continue
				}
				c, ok := sortCmp(a, b)
				if !ok {
					bindErr("operator does not exist: %s @> %s", displayType(dynType(l)), displayType(dynType(r)))
				}
				if c == 0 {
					found = true
					break
				}
			}
			if !found {
				return false
			}
		}
		return true
	}
	lj, lok := l.(JSONB)
	if !lok {
		if u, isU := l.(Unknown); isU {
			if _, rIsArr := r.(*Array); rIsArr {
				return containsOp(parseArrayLiteral(string(u), r.(*Array).Elem), r)
			}
			lj, lok = jsonbArg(u, "@>"), true
		}
	}
	if lok {
		rj := jsonbArg(r, "@>")
		return jsonContains(lj.V, rj.V)
	}
	bindErr("operator does not exist: %s @> %s", displayType(dynType(l)), displayType(dynType(r)))
	return nil
}

func jsonGet(op string, l, r Value) Value {
	if l == nil || r == nil {
		return nil
	}
	lj, ok := l.(JSONB)
	if !ok {
		if u, isU := l.(Unknown); isU {
			lj = jsonbArg(u, op)
		} else {
			bindErr("operator does not exist: %s %s %s", displayType(dynType(l)), op, displayType(dynType(r)))
		}
	}
	var elem any
	found := false
	switch k := r.(type) {
	case string, Unknown:
		key, _ := textOf(k)
		if m, isObj := lj.V.(map[string]any); isObj {
			elem, found = m[key]
		}
	case int16, int32, int64:
		if arr, isArr := lj.V.([]any); isArr {
			i := asInt64(k)
			if i < 0 {
				i += int64(len(arr))
			}
			if i >= 0 && i < int64(len(arr)) {
				elem, found = arr[i], true
			}
		}
	default:
		bindErr("operator does not exist: jsonb %s %s", op, displayType(dynType(r)))
	}
	if !found {
		return nil
	}
	if op == "->" {
		return JSONB{V: elem}
	}
	return jsonElemText(elem)
}

func jsonGetPath(op string, l, r Value) Value {
	if l == nil || r == nil {
		return nil
	}
	lj := jsonbArg(l, op)
	var path *Array
	switch p := r.(type) {
	case *Array:
		path = p
	case Unknown:
		path = parseArrayLiteral(string(p), "text").(*Array)
	default:
		bindErr("operator does not exist: jsonb %s %s", op, displayType(dynType(r)))
	}
	cur := lj.V
	for _, step := range path.V {
		if step == nil {
			return nil
		}
		key, ok := textOf(step)
		if !ok {
			bindErr("operator does not exist: jsonb %s %s", op, displayType(dynType(r)))
		}
		switch c := cur.(type) {
		case map[string]any:
			v, present := c[key]
			if !present {
				return nil
			}
			cur = v
		case []any:
			i, err := strconv.Atoi(key)
			if err != nil {
				return nil
			}
			if i < 0 {
				i += len(c)
			}
			if i < 0 || i >= len(c) {
				return nil
			}
			cur = c[i]
		default:
			return nil
		}
	}
	if op == "#>" {
		return JSONB{V: cur}
	}
	return jsonElemText(cur)
}

func jsonExists(op string, l, r Value) Value {
	if l == nil || r == nil {
		return nil
	}
	lj := jsonbArg(l, op)
	has := func(key string) bool {
		switch c := lj.V.(type) {
		case map[string]any:
			_, ok := c[key]
			return ok
		case []any:
			for _, e := range c {
				if s, ok := e.(string); ok && s == key {
					return true
				}
			}
			return false
		case string:
			return c == key
		}
		return false
	}
	if op == "?" {
		key, ok := textOf(r)
		if !ok {
			bindErr("operator does not exist: jsonb ? %s", displayType(dynType(r)))
		}
		return has(key)
	}
	arr, ok := r.(*Array)
	if !ok {
		if u, isU := r.(Unknown); isU {
			arr = parseArrayLiteral(string(u), "text").(*Array)
		} else {
			bindErr("operator does not exist: jsonb %s %s", op, displayType(dynType(r)))
		}
	}
	any_, all := false, true
	for _, e := range arr.V {
		if e == nil {
			continue
		}
		key, _ := textOf(e)
		if has(key) {
			any_ = true
		} else {
			all = false
		}
	}
	if op == "?|" {
		return any_
	}
	return all
}

func jsonMinus(j JSONB, r Value) Value {
	if r == nil {
		return nil
	}
	del := func(keys map[string]bool) Value {
		switch c := j.V.(type) {
		case map[string]any:
			out := map[string]any{}
			for k, v := range c {
				if !keys[k] {
					out[k] = v
				}
			}
			return JSONB{V: out}
		case []any:
			out := []any{}
			for _, e := range c {
				if s, ok := e.(string); ok && keys[s] {
					continue
				}
				out = append(out, e)
			}
			return JSONB{V: out}
		}
		rtErr("cannot delete from scalar")
		return nil
	}
	switch k := r.(type) {
	case string:
		return del(map[string]bool{k: true})
	case Unknown:
		return del(map[string]bool{string(k): true})
	case *Array:
		keys := map[string]bool{}
		for _, e := range k.V {
			if e == nil {
				continue
			}
			s, ok := textOf(e)
			if !ok {
				bindErr("operator does not exist: jsonb - %s", displayType(dynType(r)))
			}
			keys[s] = true
		}
		return del(keys)
	case int16, int32, int64:
		arr, ok := j.V.([]any)
		if !ok {
			if isJSONContainer(j.V) {
				rtErr("cannot delete from object using integer index")
			}
			rtErr("cannot delete from scalar")
		}
		i := asInt64(k)
		if i < 0 {
			i += int64(len(arr))
		}
		if i < 0 || i >= int64(len(arr)) {
			return j
		}
		out := append(append([]any(nil), arr[:i]...), arr[i+1:]...)
		return JSONB{V: out}
	}
	bindErr("operator does not exist: jsonb - %s", displayType(dynType(r)))
	return nil
}

// intarrayMinus: the intarray extension's integer[] - integer[] (sorted, unique result) and
// integer[] - integer.
func intarrayMinus(a *Array, r Value) Value {
	if r == nil {
		return nil
	}
	for _, e := range a.V {
		if e == nil {
			rtErr("array must not contain nulls")
		}
		if !isIntVal(e) {
			bindErr("operator does not exist: %s - %s", displayType(dynType(a)), displayType(dynType(r)))
		}
	}
	switch k := r.(type) {
	case *Array:
		drop := map[int64]bool{}
		for _, e := range k.V {
			if e == nil {
				rtErr("array must not contain nulls")
			}
			if !isIntVal(e) {
				bindErr("operator does not exist: %s - %s", displayType(dynType(a)), displayType(dynType(r)))
			}
			drop[asInt64(e)] = true
		}
		var vals []int64
		seen := map[int64]bool{}
		for _, e := range a.V {
			v := asInt64(e)
			if !drop[v] && !seen[v] {
				seen[v] = true
				vals = append(vals, v)
			}
		}
		sort.Slice(vals, func(i, j int) bool { return vals[i] < vals[j] })
		out := &Array{Elem: "int4"}
		for _, v := range vals {
			out.V = append(out.V, mkInt("int4", v))
		}
		return out
	case int16, int32, int64:
		out := &Array{Elem: "int4"}
		for _, e := range a.V {
			if asInt64(e) != asInt64(k) {
				out.V = append(out.V, mkInt("int4", asInt64(e)))
			}
		}
		return out
	}
	bindErr("operator does not exist: %s - %s", displayType(dynType(a)), displayType(dynType(r)))
	return nil
}

// ---- arithmetic ------------------------------------------------------------------------------

func widerInt(a, b Value) string {
	rank := func(v Value) int {
		switch v.(type) {
		case int16:
			return 1
		case int32:
			return 2
		}
		return 3
	}
	r := rank(a)
	if rb := rank(b); rb > r {
		r = rb
	}
	return [...]string{"", "int2", "int4", "int8"}[r]
}

func arith(op string, l, r Value) Value {
	if lu, ok := l.(Unknown); ok {
		if ru, ok2 := r.(Unknown); ok2 {
			// unknown op unknown: PostgreSQL resolves +,-,*,/ on two unknowns… ambiguously; prefers int4? it fails.
			_ = ru
			bindErr("operator is not unique: unknown %s unknown", op)
		}
		l = inputValue(string(lu), numericTargetFor(r))
	}
	if ru, ok := r.(Unknown); ok {
		r = inputValue(string(ru), numericTargetFor(l))
	}
	if !isNumericVal(l) || !isNumericVal(r) {
		bindErr("operator does not exist: %s %s %s", displayType(dynType(l)), op, displayType(dynType(r)))
	}
	switch {
	case isIntVal(l) && isIntVal(r):
		t := widerInt(l, r)
		a, b := asInt64(l), asInt64(r)
		var res int64
		switch op {
		case "+":
			res = a + b
			if (res > a) != (b > 0) && b != 0 {
				rtErr("%s out of range", displayType(t))
			}
		case "-":
			res = a - b
			if (res < a) != (b > 0) && b != 0 {
				rtErr("%s out of range", displayType(t))
			}
		case "*":
			if a != 0 && b != 0 {
				res = a * b
				if res/b != a || (a == -1 && b == math.MinInt64) || (b == -1 && a == math.MinInt64) {
					rtErr("%s out of range", displayType(t))
				}
			}
		case "/":
			if b == 0 {
				rtErr("division by zero")
			}
			if a == math.MinInt64 && b == -1 {
				rtErr("%s out of range", displayType(t))
			}
			res = a / b
		case "%":
			if b == 0 {
				rtErr("division by zero")
			}
			if b == -1 {
				res = 0
			} else {
				res = a % b
			}
		case "^":
			return math.Pow(float64(a), float64(b))
		}
		return mkInt(t, res)
	case isFloatVal(l) || isFloatVal(r):
		a, b := asFloat(l), asFloat(r)
		var res float64
		switch op {
		case "+":
			res = a + b
		case "-":
			res = a - b
		case "*":
			res = a * b
		case "/":
			if b == 0 {
				rtErr("division by zero")
			}
			res = a / b
		case "%":
			bindErr("operator does not exist: double precision %% double precision")
		case "^":
			res = math.Pow(a, b)
		}
		if math.IsInf(res, 0) && !math.IsInf(a, 0) && !math.IsInf(b, 0) {
			rtErr("value out of range: overflow")
		}
		return res
	}
	a, b := asNumeric(l), asNumeric(r)
	switch op {
	case "+":
		return numAdd(a, b)
	case "-":
		return numSub(a, b)
	case "*":
		return numMul(a, b)
	case "/":
		q, ok := numDiv(a, b)
		if !ok {
			rtErr("division by zero")
		}
		return q
	case "%":
		q, ok := numMod(a, b)
		if !ok {
			rtErr("division by zero")
		}
		return q
	case "^":
		unsup("numeric exponentiation")
	}
	unsup("arithmetic operator %s", op)
	return nil
}

func numericTargetFor(other Value) string {
	t := dynType(other)
	if isNumType(t) {
		return t
	}
	return "float8"
}

// ---- predicates ------------------------------------------------------------------------------

func (x *executor) evalIs(t *IsExpr, fr *frame) Value {
	v := x.evalExpr(t.X, fr)
	var res bool
	switch t.What {
	case "null":
		if r, ok := v.(*Row); ok {
			// row IS NULL: every field NULL; row IS NOT NULL: every field non-NULL
			allNull, allNotNull := true, true
			for _, f := range r.F {
				if f == nil {
					allNotNull = false
				} else {
					allNull = false
				}
			}
			if t.Not {
				return allNotNull
			}
			return allNull
		}
		res = v == nil
	case "true", "false", "unknown":
		b, null := truth(v)
		switch t.What {
		case "true":
			res = !null && b
		case "false":
			res = !null && !b
		default:
			res = null
		}
	case "distinct from":
		r := x.evalExpr(t.R, fr)
		switch {
		case v == nil && r == nil:
			res = false
		case v == nil || r == nil:
			res = true
		default:
			eq := compareOp("=", v, r)
			res = !(eq != nil && eq.(bool))
		}
	default:
		unsup("IS %s", t.What)
	}
	if t.Not {
		return !res
	}
	return res
}

// quantified applies `l op ANY/ALL (elements)`.
func quantified(op string, all bool, l Value, elems []Value) Value {
	sawNull := false
	for _, e := range elems {
		var r Value
		switch op {
		case "=", "<>", "<", ">", "<=", ">=":
			r = compareOp(op, l, e)
		default:
			r = applyBinaryOp(op, l, e)
		}
		b, null := truth(r)
		if null {
			sawNull = true
			continue
		}
		if all && !b {
			return false
		}
		if !all && b {
			return true
		}
	}
	if sawNull {
		return nil
	}
	return all
}

func (x *executor) evalAnyAll(t *AnyAll, fr *frame) Value {
	l := x.evalExpr(t.L, fr)
	if sq, ok := t.R.(*SubqueryExpr); ok {
		rel := x.evalQuery(sq.Query, fr)
		elems := make([]Value, len(rel.rows))
		for i, r := range rel.rows {
			elems[i] = r[0]
		}
		return quantified(t.Op, t.All, l, elems)
	}
	r := x.evalExpr(t.R, fr)
	if r == nil {
		return nil
	}
	arr, ok := r.(*Array)
	if !ok {
		if u, isU := r.(Unknown); isU {
			et := "text"
			if l != nil {
				et = unknownTargetFor(l)
				if et == "unknown" {
					et = "text"
				}
			}
			arr = parseArrayLiteral(string(u), et).(*Array)
		} else {
			bindErr("op ANY/ALL (array) requires array on right side")
		}
	}
	return quantified(t.Op, t.All, l, arr.V)
}

func (x *executor) evalIn(t *InExpr, fr *frame) Value {
	l := x.evalExpr(t.X, fr)
	var elems []Value
	if t.Query != nil {
		rel := x.evalQuery(t.Query, fr)
		if _, isRow := stripParen(t.X).(*RowCtor); isRow {
			unsup("row IN (sub-select)")
		}
		for _, r := range rel.rows {
			elems = append(elems, r[0])
		}
	} else {
		for _, e := range t.List {
			elems = append(elems, x.evalExpr(e, fr))
		}
	}
	r := quantified("=", false, l, elems)
	if t.Not {
		return not3(r)
	}
	return r
}

func (x *executor) evalCase(t *Case, fr *frame) Value {
	var res Value
	matched := false
	if t.Operand != nil {
		op := x.evalExpr(t.Operand, fr)
		for _, w := range t.Whens {
			c := compareOp("=", op, x.evalExpr(w.Cond, fr))
			if c != nil && c.(bool) {
				res, matched = x.evalExpr(w.Then, fr), true
				break
			}
		}
	} else {
		for _, w := range t.Whens {
			b, null := x.evalBool(w.Cond, fr)
			if !null && b {
				res, matched = x.evalExpr(w.Then, fr), true
				break
			}
		}
	}
	if !matched && t.Else != nil {
		res = x.evalExpr(t.Else, fr)
	}
	// resolve an untyped literal result against the CASE's static type
	if u, ok := res.(Unknown); ok {
		st := x.b.types[t]
		if st == "" || st == "unknown" {
			st = "text"
		}
		return inputValue(string(u), st)
	}
	return res
}

func (x *executor) evalArrayCtor(t *ArrayCtor, fr *frame, castElem string) Value {
	out := &Array{Elem: castElem, V: make([]Value, len(t.Elems))}
	nested := false
	for i, el := range t.Elems {
		out.V[i] = x.evalExpr(el, fr)
		if _, isArr := out.V[i].(*Array); isArr {
			nested = true
		}
	}
	if nested {
		unsup("multi-dimensional array constructor")
	}
	if castElem == "" {
		et := ""
		for _, v := range out.V {
			if v == nil {
				continue
			}
			if _, isU := v.(Unknown); isU {
				continue
			}
			et = unifyTypes(et, dynType(v))
		}
		if et == "" {
			et = elemType(x.b.types[t])
			if et == "" || et == "unknown" {
				et = "text"
			}
		}
		out.Elem = et
	}
	// resolve untyped literals and unify numeric element types
	for i, v := range out.V {
		if u, ok := v.(Unknown); ok {
			out.V[i] = inputValue(string(u), out.Elem)
		} else if v != nil && castElem == "" && isNumType(out.Elem) && dynType(v) != out.Elem && isNumericVal(v) {
			out.V[i] = castValue(v, out.Elem)
		}
	}
	return out
}

func (x *executor) evalCast(t *Cast, fr *frame) Value {
	ct, ok := canonType(t.Type)
	if !ok {
		bindErr("type %q does not exist", t.Type.String())
	}
	if ac, isCtor := t.X.(*ArrayCtor); isCtor && isArrayType(ct) {
		// ARRAY[...]::T[] — elements are coerced to T directly (this is what makes ARRAY[]::T[] legal)
		arr := x.evalArrayCtor(ac, fr, "").(*Array)
		return castValue(arr, ct)
	}
	v := x.evalExpr(t.X, fr)
	if ct == "anyarray" {
		if v == nil {
			return nil
		}
		if _, isArr := v.(*Array); !isArr {
			bindErr("cannot cast type %s to anyarray", displayType(dynType(v)))
		}
		return v
	}
	return castValue(v, ct)
}

func (x *executor) evalFieldSel(t *FieldSel, fr *frame) Value {
	v := x.evalExpr(t.X, fr)
	if v == nil {
		return nil
	}
	r, ok := v.(*Row)
	if !ok {
		bindErr("column notation .%s applied to type %s, which is not a composite type", t.Field, displayType(dynType(v)))
	}
	typ := r.Type
	if typ == "" {
		typ = x.b.types[t.X]
	}
	if def, known := composites[typ]; known {
		for i, f := range def.Fields {
			if f == t.Field && i < len(r.F) {
				return r.F[i]
			}
		}
		bindErr("column %q not found in data type %s", t.Field, typ)
	}
	if strings.HasPrefix(t.Field, "f") {
		if n, err := strconv.Atoi(t.Field[1:]); err == nil && n >= 1 && n <= len(r.F) {
			return r.F[n-1]
		}
	}
	bindErr("could not identify column %q in record data type", t.Field)
	return nil
}

func (x *executor) evalIndex(t *Index, fr *frame) Value {
	v := x.evalExpr(t.X, fr)
	i := x.evalExpr(t.Idx, fr)
	if v == nil || i == nil {
		return nil
	}
	switch a := v.(type) {
	case *Array:
		if u, ok := i.(Unknown); ok {
			i = parseIntText(string(u), "int4")
		}
		if !isIntVal(i) {
			bindErr("array subscript must have type integer")
		}
		k := asInt64(i)
		if k < 1 || k > int64(len(a.V)) {
			return nil
		}
		return a.V[k-1]
	case JSONB:
		return jsonGet("->", a, i)
	}
	bindErr("cannot subscript type %s because it does not support subscripting", displayType(dynType(v)))
	return nil
}

func (x *executor) evalSlice(t *Slice, fr *frame) Value {
	v := x.evalExpr(t.X, fr)
	if v == nil {
		return nil
	}
	a, ok := v.(*Array)
	if !ok {
		bindErr("cannot subscript type %s because it does not support subscripting", displayType(dynType(v)))
	}
	lo, hi := int64(1), int64(len(a.V))
	if t.Lo != nil {
		l := x.evalExpr(t.Lo, fr)
		if l == nil {
			return nil
		}
		if !isIntVal(l) {
			bindErr("array subscript must have type integer")
		}
		lo = asInt64(l)
	}
	if t.Hi != nil {
		h := x.evalExpr(t.Hi, fr)
		if h == nil {
			return nil
		}
		if !isIntVal(h) {
			bindErr("array subscript must have type integer")
		}
		hi = asInt64(h)
	}
	if lo < 1 {
		lo = 1
	}
	if hi > int64(len(a.V)) {
		hi = int64(len(a.V))
	}
	out := &Array{Elem: a.Elem}
	if lo <= hi {
		out.V = append(out.V, a.V[lo-1:hi]...)
	}
	return out
}

// ---- function calls --------------------------------------------------------------------------

func (x *executor) evalFuncCall(fc *FuncCall, fr *frame) Value {
	def, ok := lookupFunc(fc.Name)
	if !ok {
		bindErr("function %s does not exist", fc.Name)
	}
	if def.unsupported != "" {
		unsup("function %s: %s", fc.Name, def.unsupported)
	}
	if def.agg {
		return x.evalAggregate(fc, def, fr)
	}
	if def.srf {
		unsup("set-returning function %s in a scalar context", fc.Name)
	}
	if fc.Name == "coalesce" {
		st := x.b.types[fc]
		for _, a := range fc.Args {
			v := x.evalExpr(a, fr)
			if v != nil {
				if u, isU := v.(Unknown); isU {
					if st == "" || st == "unknown" {
						st = "text"
					}
					return inputValue(string(u), st)
				}
				return v
			}
		}
		return nil
	}
	args := make([]Value, 0, len(fc.Args))
	for i, a := range fc.Args {
		v := x.evalExpr(a, fr)
		if fc.Variadic && i == len(fc.Args)-1 {
			if v == nil {
				if def.strict {
					return nil
				}
				args = append(args, nil)
				continue
			}
			arr, isArr := v.(*Array)
			if !isArr {
				bindErr("VARIADIC argument must be an array")
			}
			args = append(args, arr.V...)
			continue
		}
		args = append(args, v)
	}
	if def.strict {
		for _, a := range args {
			if a == nil {
				return nil
			}
		}
	}
	if !def.rawUnknown {
		for i, a := range args {
			if u, isU := a.(Unknown); isU {
				args[i] = string(u)
			}
		}
	}
	if def.eval == nil {
		unsup("function %s has no evaluator", fc.Name)
	}
	return def.eval(x, args)
}

type aggItem struct {
	args []Value
	keys []Value
}

func (x *executor) evalAggregate(fc *FuncCall, def *funcDef, fr *frame) Value {
	if fr.group == nil && !fr.inAgg {
		bindErr("aggregate function %s is not allowed here", fc.Name)
	}
	if fr.inAgg {
		bindErr("aggregate function calls cannot be nested")
	}
	saveRows := fr.rows
	fr.inAgg = true
	defer func() {
		fr.rows = saveRows
		fr.inAgg = false
	}()
	var items []aggItem
	for _, member := range fr.group {
		fr.rows = member
		if fc.Filter != nil {
			if b, null := x.evalBool(fc.Filter, fr); null || !b {
				continue
			}
		}
		it := aggItem{}
		for _, a := range fc.Args {
			it.args = append(it.args, x.evalExpr(a, fr))
		}
		for _, o := range fc.OrderBy {
			it.keys = append(it.keys, x.evalExpr(o.Expr, fr))
		}
		items = append(items, it)
	}
	if fc.Star {
		return int64(len(items))
	}
	if len(fc.Args) == 0 {
		bindErr("%s(*) must be used to call a parameterless aggregate function", fc.Name)
	}
	if fc.Distinct {
		seen := map[string]bool{}
		var uniq []aggItem
		for _, it := range items {
			var sb strings.Builder
			for _, a := range it.args {
				writeGroupKey(&sb, a)
				sb.WriteByte('|')
			}
			k := sb.String()
			if seen[k] {
				continue
			}
			seen[k] = true
			uniq = append(uniq, it)
		}
		items = uniq
		if len(fc.OrderBy) == 0 {
			// DISTINCT sorts its input (observable for array_agg(distinct …))
			sort.SliceStable(items, func(i, j int) bool {
				for k := range items[i].args {
					c, ok := sortCmpNulls(items[i].args[k], items[j].args[k])
					if ok && c != 0 {
						return c < 0
					}
				}
				return false
			})
		}
	}
	if len(fc.OrderBy) > 0 {
		sort.SliceStable(items, func(i, j int) bool {
			return orderLess(fc.OrderBy, items[i].keys, items[j].keys)
		})
	}
	vals := make([]Value, len(items))
	for i, it := range items {
		vals[i] = it.args[0]
	}
	switch def.name {
	case "count":
		n := int64(0)
		for _, v := range vals {
			if v != nil {
				n++
			}
		}
		return n
	case "sum", "avg":
		return aggSumAvg(def.name, vals, x.b.types[fc.Args[0]])
	case "min", "max":
		var best Value
		for _, v := range vals {
			if v == nil {
				continue
			}
			if u, ok := v.(Unknown); ok {
				v = string(u)
			}
			if best == nil {
				best = v
				continue
			}
			c, ok := sortCmp(v, best)
			if !ok {
				bindErr("function %s(%s) does not exist", def.name, displayType(dynType(v)))
			}
			if (def.name == "min" && c < 0) || (def.name == "max" && c > 0) {
				best = v
			}
		}
		if r, isRow := best.(*Row); isRow {
			_ = r
			bindErr("function %s(record) does not exist", def.name)
		}
		return best
	case "array_agg":
		if len(vals) == 0 {
			return nil
		}
		out := &Array{Elem: elemType(x.b.types[fc])}
		for _, v := range vals {
			if _, isArr := v.(*Array); isArr {
				unsup("array_agg over array values")
			}
			if u, ok := v.(Unknown); ok {
				v = string(u)
			}
			out.V = append(out.V, v)
		}
		if out.Elem == "" {
			out.Elem = elemType(dynType(out))
		}
		return out
	case "cypher_min", "cypher_max":
		var state Value
		for _, v := range vals {
			if v == nil {
				continue
			}
			j := jsonbArg(v, def.name)
			if j.V == nil {
				continue
			}
			if state == nil {
				state = j
				continue
			}
			c := cypherValueCompare(j.V, state.(JSONB).V)
			if (def.name == "cypher_min" && c < 0) || (def.name == "cypher_max" && c > 0) {
				state = j
			}
		}
		return state
	case "bool_and", "every", "bool_or":
		var res Value
		for _, v := range vals {
			b, null := truth(v)
			if null {
				continue
			}
			if res == nil {
				res = b
			} else if def.name == "bool_or" {
				res = res.(bool) || b
			} else {
				res = res.(bool) && b
			}
		}
		return res
	case "string_agg":
		var sb strings.Builder
		n := 0
		for _, it := range items {
			if it.args[0] == nil {
				continue
			}
			s, ok := textOf(it.args[0])
			if !ok {
				bindErr("function string_agg(%s, …) does not exist", displayType(dynType(it.args[0])))
			}
			if n > 0 && it.args[1] != nil {
				d, _ := textOf(it.args[1])
				sb.WriteString(d)
			}
			sb.WriteString(s)
			n++
		}
		if n == 0 {
			return nil
		}
		return sb.String()
	case "jsonb_agg":
		if len(vals) == 0 {
			return nil
		}
		out := make([]any, len(vals))
		for i, v := range vals {
			out[i] = toJSONB(v)
		}
		return JSONB{V: out}
	}
	unsup("aggregate %s", def.name)
	return nil
}

func aggSumAvg(name string, vals []Value, staticType string) Value {
	n := 0
	var isum int64
	var fsum float64
	nsum := numFromInt(0)
	kind := "" // "int", "int8", "float", "numeric"
	for _, v := range vals {
		if v == nil {
			continue
		}
		if u, ok := v.(Unknown); ok {
			_ = u
			bindErr("function %s(unknown) is not unique", name)
		}
		if !isNumericVal(v) {
			bindErr("function %s(%s) does not exist", name, displayType(dynType(v)))
		}
		n++
		switch t := v.(type) {
		case int16, int32:
			if kind == "" {
				kind = "int"
			}
			a := asInt64(t)
			s := isum + a
			if (s > isum) != (a > 0) && a != 0 {
				rtErr("bigint out of range")
			}
			isum = s
			nsum = numAdd(nsum, numFromInt(a))
		case int64:
			if kind == "" || kind == "int" {
				kind = "int8"
			}
			nsum = numAdd(nsum, numFromInt(t))
		case float32, float64:
			kind = "float"
			fsum += asFloat(t)
		case Numeric:
			if kind != "float" {
				kind = "numeric"
			}
			nsum = numAdd(nsum, t)
		}
	}
	if n == 0 {
		return nil
	}
	if name == "sum" {
		switch kind {
		case "int":
			return isum
		case "float":
			return fsum + nsum.Float64()
		}
		return nsum
	}
	// avg
	if kind == "float" {
		return (fsum + nsum.Float64()) / float64(n)
	}
	q, _ := numDiv(nsum, numFromInt(int64(n)))
	return q
}

func orderLess(items []*OrderItem, a, b []Value) bool {
	for k, o := range items {
		c := orderCmp(o, a[k], b[k])
		if c != 0 {
			return c < 0
		}
	}
	return false
}

// orderCmp compares two sort keys under one ORDER BY item (NULLS LAST for ASC, NULLS FIRST for DESC
// unless stated otherwise).
func orderCmp(o *OrderItem, a, b Value) int {
	nullsFirst := o.Desc
	if o.NullsFirst != nil {
		nullsFirst = *o.NullsFirst
	}
	switch {
	case a == nil && b == nil:
		return 0
	case a == nil:
		if nullsFirst {
			return -1
		}
		return 1
	case b == nil:
		if nullsFirst {
			return 1
		}
		return -1
	}
	c, ok := sortCmp(a, b)
	if !ok {
		bindErr("could not identify an ordering operator for types %s and %s", displayType(dynType(a)), displayType(dynType(b)))
	}
	if o.Desc {
		return -c
	}
	return c
}

var _ = unicode.IsSpace
