package pgsim

import (
	"encoding/json"
	"sort"
	"testing"

	"verif/gmodel"
)

// TestGoldenExecute runs every golden statement on a small graph: each must end as rows, as a
// PostgreSQL error, or as one of the enumerated Unsupported reasons – never as a pgsim panic – and
// read-only statements outside the shortest-path / temporal families must execute.
func TestGoldenExecute(t *testing.T) {
	g := gmodel.Graph{
		Nodes: []gmodel.Node{
			{ID: 1, Kinds: []string{"NodeKind1"}, Props: map[string]any{"name": "n1", "value": int64(1), "objectid": "S-1-5-21-1234", "system_tags": "admin_tier_0", "array": []any{"a", "b"}}},
			{ID: 2, Kinds: []string{"NodeKind2"}, Props: map[string]any{"name": "n2", "value": int64(2), "objectid": "S-1-5-21-4567"}},
			{ID: 3, Kinds: []string{"NodeKind1", "NodeKind2"}, Props: map[string]any{"name": "n3", "other": "n3"}},
			{ID: 4, Kinds: nil, Props: map[string]any{}},
		},
		Edges: []gmodel.Edge{
			{ID: 1, Start: 1, End: 2, Kind: "EdgeKind1", Props: map[string]any{"prop": "a", "value": int64(42)}},
			{ID: 2, Start: 2, End: 3, Kind: "EdgeKind2"},
			{ID: 3, Start: 3, End: 1, Kind: "EdgeKind1"},
			{ID: 4, Start: 3, End: 3, Kind: "EdgeKind2"},
		},
	}
	db := NewDB(g, map[string]int16{"NodeKind1": 1, "NodeKind2": 2, "EdgeKind1": 3, "EdgeKind2": 4}, 0)
	counts := map[string]int{}
	reasons := map[string]int{}
	for _, c := range loadGoldens(t) {
		stmt, err := Parse(c.SQL)
		if err != nil {
			continue
		}
		params := map[string]any{}
		if c.Params != "" {
			if err := json.Unmarshal([]byte(c.Params), &params); err != nil {
				t.Fatal(err)
			}
		}
		for _, p := range paramNames(stmt) {
			if _, ok := params[p]; !ok {
				params[p] = "x"
			}
		}
		_, out := db.Exec(stmt, params)
		switch {
		case out.OK:
			counts["rows"]++
		case out.Err != nil:
			counts["error:"+out.Err.Class]++
			t.Logf("ERROR %s:%d %s\n    %v", c.File, c.Line, c.Cypher, out.Err)
		default:
			counts["unsupported"]++
			reasons[unsupportedBucket(out.Unsupported)]++
		}
	}
	t.Logf("outcomes: %v", counts)
	var rs []string
	for r := range reasons {
		rs = append(rs, r)
	}
	sort.Strings(rs)
	for _, r := range rs {
		t.Logf("  unsupported %3d  %s", reasons[r], r)
		switch r {
		case "write query (INSERT/UPDATE/DELETE, nextval)", "shortest-path harness function", "temporal function / type":
		default:
			t.Errorf("golden statement Unsupported for an unlisted reason: %s", r)
		}
	}
}
