package pgsim

import (
	"fmt"
	"math"
	"sort"
	"strconv"
	"strings"
	"unicode/utf8"
)

// Run-time datums. A Value is one of
//
//	nil                      SQL NULL
//	bool
//	int16 / int32 / int64    int2 / int4 / int8
//	float32 / float64        float4 / float8
//	Numeric                  numeric
//	string                   text
//	Unknown                  an untyped string literal (or string parameter) not yet resolved
//	JSONB                    jsonb; .V is nil (JSON null), bool, Numeric, string, []any, map[string]any
//	*Array                   one-dimensional array, 1-based
//	*Row                     composite value (named type or anonymous record)
type Value = any

type Unknown string

type JSONB struct{ V any }

type Array struct {
	Elem string // element type name ("" when not known)
	V    []Value
}

type Row struct {
	Type string // "" = anonymous record
	F    []Value
}

// ---- control flow for errors ---------------------------------------------------------------

type sqlError struct {
	Class string // "syntax" | "binding" | "runtime"
	Code  string // SQLSTATE-like short tag, informational
	Msg   string
}

func (e *sqlError) Error() string { return e.Msg }

type unsupportedError struct{ Reason string }

func (e *unsupportedError) Error() string { return "unsupported: " + e.Reason }

func rtErr(format string, a ...any) {
	panic(&sqlError{Class: "runtime", Msg: fmt.Sprintf(format, a...)})
}

func bindErr(format string, a ...any) {
	panic(&sqlError{Class: "binding", Msg: fmt.Sprintf(format, a...)})
}

func unsup(format string, a ...any) {
	panic(&unsupportedError{Reason: fmt.Sprintf(format, a...)})
}

// ---- type names ----------------------------------------------------------------------------

var typeAliases = map[string]string{
	"int": "int4", "integer": "int4", "int4": "int4", "serial": "int4",
	"smallint": "int2", "int2": "int2", "smallserial": "int2",
	"bigint": "int8", "int8": "int8", "bigserial": "int8",
	"real": "float4", "float4": "float4",
	"float": "float8", "float8": "float8", "double precision": "float8",
	"numeric": "numeric", "decimal": "numeric", "dec": "numeric",
	"bool": "bool", "boolean": "bool",
	"text": "text", "varchar": "text", "character varying": "text", "name": "text", "bpchar": "text", "char": "text", "character": "text",
	"jsonb":         "jsonb",
	"json":          "json",
	"nodecomposite": "nodecomposite", "edgecomposite": "edgecomposite", "pathcomposite": "pathcomposite",
	"timestamp": "timestamp", "timestamp without time zone": "timestamp",
	"timestamptz": "timestamptz", "timestamp with time zone": "timestamptz",
	"date": "date", "time": "time", "time without time zone": "time", "timetz": "timetz", "time with time zone": "timetz",
	"interval": "interval",
	"anyarray": "anyarray", "anyelement": "anyelement", "record": "record", "void": "void",
	"uuid": "uuid", "bytea": "bytea", "oid": "oid", "regclass": "regclass", "inet": "inet",
}

// canonType maps a parsed type name to pgsim's canonical type string ("int8", "text[]", …); ok is
// false for a type pgsim does not know.
func canonType(t TypeName) (string, bool) {
	base, ok := typeAliases[strings.ToLower(t.Name)]
	if !ok {
		return strings.ToLower(t.Name) + strings.Repeat("[]", minInt(t.ArrayDims, 1)), false
	}
	if t.ArrayDims > 0 {
		if base == "anyarray" {
			return "", false
		}
		return base + "[]", true // PostgreSQL does not distinguish dimensions in the type
	}
	return base, true
}

func minInt(a, b int) int {
	if a < b {
		return a
	}
	return b
}

// pgTypeLabel is the name PostgreSQL's FigureColname uses for a cast target.
func pgTypeLabel(t TypeName) string {
	switch strings.ToLower(t.Name) {
	case "int", "integer":
		return "int4"
	case "smallint":
		return "int2"
	case "bigint":
		return "int8"
	case "real":
		return "float4"
	case "double precision", "float":
		return "float8"
	case "decimal", "dec":
		return "numeric"
	case "boolean":
		return "bool"
	case "character varying":
		return "varchar"
	case "char", "character":
		return "bpchar"
	case "timestamp with time zone":
		return "timestamptz"
	case "timestamp without time zone":
		return "timestamp"
	case "time with time zone":
		return "timetz"
	case "time without time zone":
		return "time"
	}
	return strings.ToLower(t.Name)
}

type compositeDef struct {
	Fields []string
	Types  []string
}

var composites = map[string]compositeDef{
	"nodecomposite": {Fields: []string{"id", "kind_ids", "properties"}, Types: []string{"int8", "int2[]", "jsonb"}},
	"edgecomposite": {Fields: []string{"id", "start_id", "end_id", "kind_id", "properties"}, Types: []string{"int8", "int8", "int8", "int2", "jsonb"}},
	"pathcomposite": {Fields: []string{"nodes", "edges"}, Types: []string{"nodecomposite[]", "edgecomposite[]"}},
	// table row types
	"node":  {Fields: []string{"id", "graph_id", "kind_ids", "properties"}, Types: []string{"int8", "int4", "int2[]", "jsonb"}},
	"edge":  {Fields: []string{"id", "graph_id", "start_id", "end_id", "kind_id", "properties"}, Types: []string{"int8", "int4", "int8", "int8", "int2", "jsonb"}},
	"kind":  {Fields: []string{"id", "name"}, Types: []string{"int2", "text"}},
	"graph": {Fields: []string{"id", "name"}, Types: []string{"int8", "text"}},
}

func isArrayType(t string) bool { return strings.HasSuffix(t, "[]") }

func elemType(t string) string { return strings.TrimSuffix(t, "[]") }

// dynType names the type of a run-time value ("" for NULL).
func dynType(v Value) string {
	switch t := v.(type) {
	case nil:
		return ""
	case bool:
		return "bool"
	case int16:
		return "int2"
	case int32:
		return "int4"
	case int64:
		return "int8"
	case float32:
		return "float4"
	case float64:
		return "float8"
	case Numeric:
		return "numeric"
	case string:
		return "text"
	case Unknown:
		return "unknown"
	case JSONB:
		return "jsonb"
	case *Array:
		if t.Elem == "" {
			for _, e := range t.V {
				if et := dynType(e); et != "" && et != "unknown" {
					return et + "[]"
				}
			}
			return "[]"
		}
		return t.Elem + "[]"
	case *Row:
		if t.Type == "" {
			return "record"
		}
		return t.Type
	}
	return fmt.Sprintf("?%T", v)
}

// ---- JSONB ---------------------------------------------------------------------------------

// jsonFromGo converts a property value (nil, bool, int64, float64, string, []any, map[string]any,
// plus the other Go numeric types) into the JSONB payload representation (numbers as Numeric).
func jsonFromGo(v any) any {
	switch t := v.(type) {
	case nil:
		return nil
	case bool:
		return t
	case string:
		return t
	case int:
		return numFromInt(int64(t))
	case int16:
		return numFromInt(int64(t))
	case int32:
		return numFromInt(int64(t))
	case int64:
		return numFromInt(t)
	case uint32:
		return numFromInt(int64(t))
	case uint64:
		n, _ := parseNumeric(strconv.FormatUint(t, 10))
		return n
	case float32:
		return jsonFromGo(float64(t))
	case float64:
		// what encoding/json would have written and PostgreSQL's jsonb_in then parsed
		if math.IsNaN(t) || math.IsInf(t, 0) {
			unsup("non-finite float in JSON property")
		}
		n, ok := parseNumeric(strconv.FormatFloat(t, 'f', -1, 64))
		if !ok {
			unsup("unrepresentable float in JSON property")
		}
		return n
	case Numeric:
		return t
	case []any:
		out := make([]any, len(t))
		for i, e := range t {
			out[i] = jsonFromGo(e)
		}
		return out
	case []string:
		out := make([]any, len(t))
		for i, e := range t {
			out[i] = e
		}
		return out
	case map[string]any:
		out := make(map[string]any, len(t))
		for k, e := range t {
			out[k] = jsonFromGo(e)
		}
		return out
	}
	unsup("JSON property value of Go type %T", v)
	return nil
}

// jsonToGo converts a JSONB payload to the gmodel value set (ints int64, non-integral float64).
func jsonToGo(v any) any {
	switch t := v.(type) {
	case nil, bool, string:
		return t
	case Numeric:
		return numericToGo(t)
	case []any:
		out := make([]any, len(t))
		for i, e := range t {
			out[i] = jsonToGo(e)
		}
		return out
	case map[string]any:
		out := make(map[string]any, len(t))
		for k, e := range t {
			out[k] = jsonToGo(e)
		}
		return out
	}
	return v
}

func numericToGo(n Numeric) any {
	if !n.isSpecial() && n.scale == 0 && n.u.IsInt64() {
		return n.u.Int64()
	}
	return n.Float64()
}

func jsonTypeof(v any) string {
	switch v.(type) {
	case nil:
		return "null"
	case bool:
		return "boolean"
	case Numeric:
		return "number"
	case string:
		return "string"
	case []any:
		return "array"
	case map[string]any:
		return "object"
	}
	return "?"
}

// jsonb object keys are stored sorted by (length, bytes).
func jsonKeyLess(a, b string) bool {
	if len(a) != len(b) {
		return len(a) < len(b)
	}
	return a < b
}

func sortedJSONKeys(m map[string]any) []string {
	keys := make([]string, 0, len(m))
	for k := range m {
		keys = append(keys, k)
	}
	sort.Slice(keys, func(i, j int) bool { return jsonKeyLess(keys[i], keys[j]) })
	return keys
}

// jsonText is jsonb_out.
func jsonText(v any) string {
	var sb strings.Builder
	writeJSONText(&sb, v)
	return sb.String()
}

func writeJSONText(sb *strings.Builder, v any) {
	switch t := v.(type) {
	case nil:
		sb.WriteString("null")
	case bool:
		sb.WriteString(strconv.FormatBool(t))
	case Numeric:
		sb.WriteString(t.String())
	case string:
		writeJSONString(sb, t)
	case []any:
		sb.WriteByte('[')
		for i, e := range t {
			if i > 0 {
				sb.WriteString(", ")
			}
			writeJSONText(sb, e)
		}
		sb.WriteByte(']')
	case map[string]any:
		sb.WriteByte('{')
		for i, k := range sortedJSONKeys(t) {
			if i > 0 {
				sb.WriteString(", ")
			}
			writeJSONString(sb, k)
			sb.WriteString(": ")
			writeJSONText(sb, t[k])
		}
		sb.WriteByte('}')
	default:
		fmt.Fprintf(sb, "?%T", v)
	}
}

func writeJSONString(sb *strings.Builder, s string) {
	sb.WriteByte('"')
	for _, r := range s {
		switch r {
		case '"':
			sb.WriteString(`\"`)
		case '\\':
			sb.WriteString(`\\`)
		case '\b':
			sb.WriteString(`\b`)
		case '\f':
			sb.WriteString(`\f`)
		case '\n':
			sb.WriteString(`\n`)
		case '\r':
			sb.WriteString(`\r`)
		case '\t':
			sb.WriteString(`\t`)
		default:
			if r < 0x20 {
				fmt.Fprintf(sb, `\u%04x`, r)
			} else {
				sb.WriteRune(r)
			}
		}
	}
	sb.WriteByte('"')
}

// parseJSON is jsonb_in: strict JSON; numbers keep their decimal form; duplicate keys: last wins.
func parseJSON(s string) (any, bool) {
	p := &jsonParser{s: s}
	p.ws()
	v, ok := p.value(0)
	if !ok {
		return nil, false
	}
	p.ws()
	if p.i != len(p.s) {
		return nil, false
	}
	return v, true
}

type jsonParser struct {
	s string
	i int
}

func (p *jsonParser) ws() {
	for p.i < len(p.s) && (p.s[p.i] == ' ' || p.s[p.i] == '\t' || p.s[p.i] == '\n' || p.s[p.i] == '\r') {
		p.i++
	}
}

func (p *jsonParser) value(depth int) (any, bool) {
	if depth > 512 || p.i >= len(p.s) {
		return nil, false
	}
	switch c := p.s[p.i]; {
	case c == '{':
		p.i++
		m := map[string]any{}
		p.ws()
		if p.i < len(p.s) && p.s[p.i] == '}' {
			p.i++
			return m, true
		}
		for {
			p.ws()
			if p.i >= len(p.s) || p.s[p.i] != '"' {
				return nil, false
			}
			k, ok := p.str()
			if !ok {
				return nil, false
			}
			p.ws()
			if p.i >= len(p.s) || p.s[p.i] != ':' {
				return nil, false
			}
			p.i++
			p.ws()
			v, ok := p.value(depth + 1)
			if !ok {
				return nil, false
			}
			m[k] = v
			p.ws()
			if p.i < len(p.s) && p.s[p.i] == ',' {
				p.i++
				continue
			}
			if p.i < len(p.s) && p.s[p.i] == '}' {
				p.i++
				return m, true
			}
			return nil, false
		}
	case c == '[':
		p.i++
		arr := []any{}
		p.ws()
		if p.i < len(p.s) && p.s[p.i] == ']' {
			p.i++
			return arr, true
		}
		for {
			p.ws()
			v, ok := p.value(depth + 1)
			if !ok {
				return nil, false
			}
			arr = append(arr, v)
			p.ws()
			if p.i < len(p.s) && p.s[p.i] == ',' {
				p.i++
				continue
			}
			if p.i < len(p.s) && p.s[p.i] == ']' {
				p.i++
				return arr, true
			}
			return nil, false
		}
	case c == '"':
		return p.str()
	case c == 't':
		if strings.HasPrefix(p.s[p.i:], "true") {
			p.i += 4
			return true, true
		}
	case c == 'f':
		if strings.HasPrefix(p.s[p.i:], "false") {
			p.i += 5
			return false, true
		}
	case c == 'n':
		if strings.HasPrefix(p.s[p.i:], "null") {
			p.i += 4
			return nil, true
		}
	case c == '-' || (c >= '0' && c <= '9'):
		j := p.i
		if p.s[j] == '-' {
			j++
		}
		if j >= len(p.s) {
			return nil, false
		}
		if p.s[j] == '0' {
			j++
		} else if p.s[j] >= '1' && p.s[j] <= '9' {
			for j < len(p.s) && p.s[j] >= '0' && p.s[j] <= '9' {
				j++
			}
		} else {
			return nil, false
		}
		if j < len(p.s) && p.s[j] == '.' {
			j++
			k := j
			for j < len(p.s) && p.s[j] >= '0' && p.s[j] <= '9' {
				j++
			}
			if j == k {
				return nil, false
			}
		}
		if j < len(p.s) && (p.s[j] == 'e' || p.s[j] == 'E') {
			j++
			if j < len(p.s) && (p.s[j] == '+' || p.s[j] == '-') {
				j++
			}
			k := j
			for j < len(p.s) && p.s[j] >= '0' && p.s[j] <= '9' {
				j++
			}
			if j == k {
				return nil, false
			}
		}
		n, ok := parseNumeric(p.s[p.i:j])
		if !ok {
			return nil, false
		}
		p.i = j
		// a JSON token must end here
		if p.i < len(p.s) {
			switch p.s[p.i] {
			case ',', ']', '}', ' ', '\t', '\n', '\r':
			default:
				return nil, false
			}
		}
		return n, true
	}
	return nil, false
}

func (p *jsonParser) str() (string, bool) {
	// p.s[p.i] == '"'
	p.i++
	var sb strings.Builder
	for p.i < len(p.s) {
		c := p.s[p.i]
		switch {
		case c == '"':
			p.i++
			return sb.String(), true
		case c == '\\':
			p.i++
			if p.i >= len(p.s) {
				return "", false
			}
			switch p.s[p.i] {
			case '"':
				sb.WriteByte('"')
			case '\\':
				sb.WriteByte('\\')
			case '/':
				sb.WriteByte('/')
			case 'b':
				sb.WriteByte('\b')
			case 'f':
				sb.WriteByte('\f')
			case 'n':
				sb.WriteByte('\n')
			case 'r':
				sb.WriteByte('\r')
			case 't':
				sb.WriteByte('\t')
			case 'u':
				if p.i+4 >= len(p.s) {
					return "", false
				}
				v, err := strconv.ParseUint(p.s[p.i+1:p.i+5], 16, 32)
				if err != nil {
					return "", false
				}
				p.i += 4
				r := rune(v)
				if r == 0 {
					return "", false // \u0000 cannot be converted to text
				}
				if r >= 0xD800 && r < 0xDC00 {
					// surrogate pair
					if p.i+6 < len(p.s) && p.s[p.i+1] == '\\' && p.s[p.i+2] == 'u' {
						v2, err := strconv.ParseUint(p.s[p.i+3:p.i+7], 16, 32)
						if err != nil || v2 < 0xDC00 || v2 > 0xDFFF {
							return "", false
						}
						r = 0x10000 + (r-0xD800)<<10 + (rune(v2) - 0xDC00)
						p.i += 6
					} else {
						return "", false
					}
				} else if r >= 0xDC00 && r <= 0xDFFF {
					return "", false
				}
				sb.WriteRune(r)
			default:
				return "", false
			}
			p.i++
		case c < 0x20:
			return "", false
		default:
			_, sz := utf8.DecodeRuneInString(p.s[p.i:])
			sb.WriteString(p.s[p.i : p.i+sz])
			p.i += sz
		}
	}
	return "", false
}

// jsonCmp is the jsonb btree comparison: Object > Array > Boolean > Number > String > Null; arrays
// by length then elements; objects by number of pairs, then key/value pairs in storage order.
func jsonCmp(a, b any) int {
	ra, rb := jsonRank(a), jsonRank(b)
	if ra != rb {
		if ra < rb {
			return -1
		}
		return 1
	}
	switch x := a.(type) {
	case nil:
		return 0
	case string:
		return strings.Compare(x, b.(string))
	case Numeric:
		return numCmp(x, b.(Numeric))
	case bool:
		y := b.(bool)
		if x == y {
			return 0
		}
		if !x {
			return -1
		}
		return 1
	case []any:
		y := b.([]any)
		if len(x) != len(y) {
			if len(x) < len(y) {
				return -1
			}
			return 1
		}
		for i := range x {
			if c := jsonCmp(x[i], y[i]); c != 0 {
				return c
			}
		}
		return 0
	case map[string]any:
		y := b.(map[string]any)
		if len(x) != len(y) {
			if len(x) < len(y) {
				return -1
			}
			return 1
		}
		kx, ky := sortedJSONKeys(x), sortedJSONKeys(y)
		for i := range kx {
			if kx[i] != ky[i] {
				// keys compare by length then bytes (lengthCompareJsonbStringValue)
				if jsonKeyLess(kx[i], ky[i]) {
					return -1
				}
				return 1
			}
			if c := jsonCmp(x[kx[i]], y[ky[i]]); c != 0 {
				return c
			}
		}
		return 0
	}
	return 0
}

func jsonRank(v any) int {
	switch v.(type) {
	case nil:
		return 0
	case string:
		return 1
	case Numeric:
		return 2
	case bool:
		return 3
	case []any:
		return 4
	case map[string]any:
		return 5
	}
	return -1
}

// jsonContains implements jsonb @> jsonb.
func jsonContains(a, b any) bool {
	switch y := b.(type) {
	case map[string]any:
		x, ok := a.(map[string]any)
		if !ok {
			return false
		}
		for k, bv := range y {
			av, present := x[k]
			if !present {
				return false
			}
			if isJSONContainer(bv) {
				if !jsonContains(av, bv) {
					return false
				}
			} else if isJSONContainer(av) || jsonCmp(av, bv) != 0 {
				return false
			}
		}
		return true
	case []any:
		x, ok := a.([]any)
		if !ok {
			return false
		}
		for _, bv := range y {
			found := false
			for _, av := range x {
				if isJSONContainer(bv) {
					if isJSONContainer(av) && jsonRank(av) == jsonRank(bv) && jsonContains(av, bv) {
						found = true
						break
					}
				} else if !isJSONContainer(av) && jsonCmp(av, bv) == 0 {
					found = true
					break
				}
			}
			if !found {
				return false
			}
		}
		return true
	default:
		// scalar on the right: equal scalar, or (special case) an array on the left containing it
		if x, ok := a.([]any); ok {
			for _, av := range x {
				if !isJSONContainer(av) && jsonCmp(av, b) == 0 {
					return true
				}
			}
			return false
		}
		return !isJSONContainer(a) && jsonCmp(a, b) == 0
	}
}

func isJSONContainer(v any) bool {
	switch v.(type) {
	case []any, map[string]any:
		return true
	}
	return false
}

// ---- text output (type output functions) -----------------------------------------------------

func float8Text(f float64) string {
	switch {
	case math.IsNaN(f):
		return "NaN"
	case math.IsInf(f, 1):
		return "Infinity"
	case math.IsInf(f, -1):
		return "-Infinity"
	}
	// extra_float_digits = 1 (default since 12): shortest round-trip representation
	s := strconv.FormatFloat(f, 'g', -1, 64)
	if strings.Contains(s, "e") {
		// PostgreSQL prints exponents as e+NN / e-NN with at least two digits
		mant, exp, _ := strings.Cut(s, "e")
		sign := "+"
		if exp[0] == '-' || exp[0] == '+' {
			sign = string(exp[0])
			exp = exp[1:]
		}
		if len(exp) < 2 {
			exp = "0" + exp
		}
		return mant + "e" + sign + exp
	}
	return s
}

// valueText is the type's output function (what ::text produces).
func valueText(v Value) string {
	switch t := v.(type) {
	case nil:
		return ""
	case bool:
		if t {
			return "true"
		}
		return "false"
	case int16:
		return strconv.FormatInt(int64(t), 10)
	case int32:
		return strconv.FormatInt(int64(t), 10)
	case int64:
		return strconv.FormatInt(t, 10)
	case float32:
		return strconv.FormatFloat(float64(t), 'g', -1, 32)
	case float64:
		return float8Text(t)
	case Numeric:
		return t.String()
	case string:
		return t
	case Unknown:
		return string(t)
	case JSONB:
		return jsonText(t.V)
	case *Array:
		return arrayText(t)
	case *Row:
		return rowText(t)
	}
	return fmt.Sprintf("%v", v)
}

func boolOutText(b bool) string {
	if b {
		return "t"
	}
	return "f"
}

// arrayText is array_out ({a,b,NULL}); elements are quoted when they need to be.
func arrayText(a *Array) string {
	var sb strings.Builder
	sb.WriteByte('{')
	for i, e := range a.V {
		if i > 0 {
			sb.WriteByte(',')
		}
		if e == nil {
			sb.WriteString("NULL")
			continue
		}
		var s string
		if b, ok := e.(bool); ok {
			s = boolOutText(b)
		} else {
			s = valueText(e)
		}
		if _, isArr := e.(*Array); isArr {
			sb.WriteString(s)
			continue
		}
		if needsArrayQuote(s) {
			sb.WriteByte('"')
			for _, c := range []byte(s) {
				if c == '"' || c == '\\' {
					sb.WriteByte('\\')
				}
				sb.WriteByte(c)
			}
			sb.WriteByte('"')
		} else {
			sb.WriteString(s)
		}
	}
	sb.WriteByte('}')
	return sb.String()
}

func needsArrayQuote(s string) bool {
	if s == "" || strings.EqualFold(s, "null") {
		return true
	}
	for _, c := range []byte(s) {
		switch c {
		case '{', '}', ',', '"', '\\', ' ', '\t', '\n', '\r', '\v', '\f':
			return true
		}
	}
	return false
}

// rowText is record_out.
func rowText(r *Row) string {
	var sb strings.Builder
	sb.WriteByte('(')
	for i, e := range r.F {
		if i > 0 {
			sb.WriteByte(',')
		}
		if e == nil {
			continue
		}
		var s string
		if b, ok := e.(bool); ok {
			s = boolOutText(b)
		} else {
			s = valueText(e)
		}
		quote := s == ""
		for _, c := range []byte(s) {
			switch c {
			case '"', '\\', '(', ')', ',', ' ', '\t', '\n', '\r', '\v', '\f':
				quote = true
			}
		}
		if quote {
			sb.WriteByte('"')
			for _, c := range []byte(s) {
				if c == '"' || c == '\\' {
					sb.WriteByte(c)
				}
				sb.WriteByte(c)
			}
			sb.WriteByte('"')
		} else {
			sb.WriteString(s)
		}
	}
	sb.WriteByte(')')
	return sb.String()
}

// ---- comparison ----------------------------------------------------------------------------

func isNumericVal(v Value) bool {
	switch v.(type) {
	case int16, int32, int64, float32, float64, Numeric:
		return true
	}
	return false
}

func isIntVal(v Value) bool {
	switch v.(type) {
	case int16, int32, int64:
		return true
	}
	return false
}

func asInt64(v Value) int64 {
	switch t := v.(type) {
	case int16:
		return int64(t)
	case int32:
		return int64(t)
	case int64:
		return t
	}
	panic(fmt.Sprintf("asInt64(%T)", v))
}

func asFloat(v Value) float64 {
	switch t := v.(type) {
	case int16:
		return float64(t)
	case int32:
		return float64(t)
	case int64:
		return float64(t)
	case float32:
		return float64(t)
	case float64:
		return t
	case Numeric:
		return t.Float64()
	}
	panic(fmt.Sprintf("asFloat(%T)", v))
}

func asNumeric(v Value) Numeric {
	switch t := v.(type) {
	case int16:
		return numFromInt(int64(t))
	case int32:
		return numFromInt(int64(t))
	case int64:
		return numFromInt(t)
	case Numeric:
		return t
	case float32:
		return numFromFloat(float64(t))
	case float64:
		return numFromFloat(t)
	}
	panic(fmt.Sprintf("asNumeric(%T)", v))
}

func isFloatVal(v Value) bool {
	switch v.(type) {
	case float32, float64:
		return true
	}
	return false
}

func float8Cmp(a, b float64) int {
	// NaN is greater than everything and equal to itself
	an, bn := math.IsNaN(a), math.IsNaN(b)
	switch {
	case an && bn:
		return 0
	case an:
		return 1
	case bn:
		return -1
	case a < b:
		return -1
	case a > b:
		return 1
	}
	return 0
}

// numberCmp compares two numeric-class values across types the way PostgreSQL's cross-type
// operators do (int vs int exact; anything with a float8 as float8; numeric otherwise).
func numberCmp(a, b Value) int {
	if isIntVal(a) && isIntVal(b) {
		x, y := asInt64(a), asInt64(b)
		switch {
		case x < y:
			return -1
		case x > y:
			return 1
		}
		return 0
	}
	if isFloatVal(a) || isFloatVal(b) {
		return float8Cmp(asFloat(a), asFloat(b))
	}
	return numCmp(asNumeric(a), asNumeric(b))
}

// sortCmp is the default btree ordering of two non-NULL values of the same type class. ok=false
// when the two values are not comparable (operator does not exist).
func sortCmp(a, b Value) (int, bool) {
	if ua, ok := a.(Unknown); ok {
		a = string(ua)
	}
	if ub, ok := b.(Unknown); ok {
		b = string(ub)
	}
	switch x := a.(type) {
	case bool:
		y, ok := b.(bool)
		if !ok {
			return 0, false
		}
		switch {
		case x == y:
			return 0, true
		case !x:
			return -1, true
		}
		return 1, true
	case string:
		y, ok := b.(string)
		if !ok {
			return 0, false
		}
		return strings.Compare(x, y), true
	case JSONB:
		y, ok := b.(JSONB)
		if !ok {
			return 0, false
		}
		// historical quirk: an empty top-level array sorts below everything else
		xa, xIsArr := x.V.([]any)
		ya, yIsArr := y.V.([]any)
		xe, ye := xIsArr && len(xa) == 0, yIsArr && len(ya) == 0
		switch {
		case xe && ye:
			return 0, true
		case xe:
			return -1, true
		case ye:
			return 1, true
		}
		return jsonCmp(x.V, y.V), true
	case *Array:
		y, ok := b.(*Array)
		if !ok {
			return 0, false
		}
		n := len(x.V)
		if len(y.V) < n {
			n = len(y.V)
		}
		for i := 0; i < n; i++ {
			c, ok := sortCmpNulls(x.V[i], y.V[i])
			if !ok {
				return 0, false
			}
			if c != 0 {
				return c, true
			}
		}
		switch {
		case len(x.V) < len(y.V):
			return -1, true
		case len(x.V) > len(y.V):
			return 1, true
		}
		return 0, true
	case *Row:
		y, ok := b.(*Row)
		if !ok || len(x.F) != len(y.F) {
			return 0, false
		}
		for i := range x.F {
			c, ok := sortCmpNulls(x.F[i], y.F[i])
			if !ok {
				return 0, false
			}
			if c != 0 {
				return c, true
			}
		}
		return 0, true
	}
	if isNumericVal(a) && isNumericVal(b) {
		return numberCmp(a, b), true
	}
	return 0, false
}

// sortCmpNulls orders NULL after every non-NULL value and equal to NULL (btree / record / array rules).
func sortCmpNulls(a, b Value) (int, bool) {
	switch {
	case a == nil && b == nil:
		return 0, true
	case a == nil:
		return 1, true
	case b == nil:
		return -1, true
	}
	return sortCmp(a, b)
}

// groupKey renders a value so that two values are in the same DISTINCT / GROUP BY group exactly
// when the key strings are equal (NULLs group together; 1 and 1.0 numeric group together; float
// -0 and 0 group together).
func groupKey(v Value) string {
	var sb strings.Builder
	writeGroupKey(&sb, v)
	return sb.String()
}

func writeGroupKey(sb *strings.Builder, v Value) {
	switch t := v.(type) {
	case nil:
		sb.WriteString("N")
	case bool:
		if t {
			sb.WriteString("bT")
		} else {
			sb.WriteString("bF")
		}
	case int16, int32, int64:
		sb.WriteString("n")
		sb.WriteString(strconv.FormatInt(asInt64(t), 10))
	case float32:
		writeGroupKey(sb, float64(t))
	case float64:
		if t == 0 {
			t = 0
		}
		if t == math.Trunc(t) && math.Abs(t) < 1e15 {
			sb.WriteString("n")
			sb.WriteString(strconv.FormatInt(int64(t), 10))
		} else {
			sb.WriteString("f")
			sb.WriteString(strconv.FormatFloat(t, 'g', -1, 64))
		}
	case Numeric:
		s := t.stripTrailingZeros()
		if !s.isSpecial() && s.scale == 0 {
			sb.WriteString("n")
			sb.WriteString(s.String())
		} else {
			sb.WriteString("d")
			sb.WriteString(s.String())
		}
	case string:
		sb.WriteString("s")
		sb.WriteString(strconv.Quote(t))
	case Unknown:
		sb.WriteString("s")
		sb.WriteString(strconv.Quote(string(t)))
	case JSONB:
		sb.WriteString("j")
		writeJSONGroupKey(sb, t.V)
	case *Array:
		sb.WriteString("[")
		for i, e := range t.V {
			if i > 0 {
				sb.WriteByte(',')
			}
			writeGroupKey(sb, e)
		}
		sb.WriteString("]")
	case *Row:
		sb.WriteString("(")
		for i, e := range t.F {
			if i > 0 {
				sb.WriteByte(',')
			}
			writeGroupKey(sb, e)
		}
		sb.WriteString(")")
	default:
		fmt.Fprintf(sb, "?%T%v", v, v)
	}
}

func writeJSONGroupKey(sb *strings.Builder, v any) {
	switch t := v.(type) {
	case Numeric:
		sb.WriteString(t.stripTrailingZeros().String())
	case []any:
		sb.WriteByte('[')
		for i, e := range t {
			if i > 0 {
				sb.WriteByte(',')
			}
			writeJSONGroupKey(sb, e)
		}
		sb.WriteByte(']')
	case map[string]any:
		sb.WriteByte('{')
		for i, k := range sortedJSONKeys(t) {
			if i > 0 {
				sb.WriteByte(',')
			}
			writeJSONString(sb, k)
			sb.WriteByte(':')
			writeJSONGroupKey(sb, t[k])
		}
		sb.WriteByte('}')
	default:
		writeJSONText(sb, v)
	}
}
