package pgsim

import (
	"os"
	"testing"

	"verif/xlate"
)

// TestProbeCypherShapes (developer aid, PGSIM_PROBE=1): translate a spread of Cypher shapes and show
// how pgsim answers; anything Unsupported or a binding error here is a gap to look at.
func TestProbeCypherShapes(t *testing.T) {
	if os.Getenv("PGSIM_PROBE") == "" {
		t.Skip("PGSIM_PROBE not set")
	}
	db := testDB()
	mapper := xlate.FixedMapper("A", "B", "R", "S")
	queries := []struct {
		cy     string
		params map[string]any
	}{
		{"match (n) return n.name order by n.name desc skip 1 limit 1", nil},
		{"match (n:A) where n.value >= 1 and not n.name = 'a' return n", nil},
		{"match (n)-[r]->(m) return n.name, type(r), m.name order by n.name, m.name", nil},
		{"match (n)-[r]-(m) return id(n), id(r), id(m)", nil},
		{"match (n)<-[r:R|S]-(m) return n, r, m", nil},
		{"match (n)-[r:R*1..2]->(m) return n.name, m.name, size(r)", nil},
		{"match p = (n)-[*..3]->(m) return nodes(p), relationships(p), size(relationships(p))", nil},
		{"match p = (n)-[:R]->(m)-[:R]->(o) return p", nil},
		{"match (n) optional match (n)-[r:S]->(m) return n.name, r, m", nil},
		{"match (n) optional match (n)-[r:S]->(m) return n.name, count(r), collect(m.name)", nil},
		{"match (n) where n.value is null return n.name", nil},
		{"match (n) where n.value is not null return n.name, n.value + 1, n.value * 2, n.value - 1, n.value / 2, n.value % 2", nil},
		{"match (n) where n.name in ['a', 'c'] return n.name", nil},
		{"match (n) where n.name starts with 'a' or n.name ends with 'c' or n.name contains 'b' return n.name", nil},
		{"match (n) where not n.name contains 'a' return n.name", nil},
		{"match (n) where n.name =~ 'a.*' return n.name", nil},
		{"match (n) return toLower(n.name), toUpper(n.name), toString(n.value), toInteger(n.value), coalesce(n.value, 0)", nil},
		{"match (n) return labels(n), size(labels(n)), n:A, n:A:B", nil},
		{"match (n) where n:A and not n:B return n.name", nil},
		{"match (n) where 'x' in n.tags return n.name", nil},
		{"match (n) where any(t in n.tags where t = 'x') return n.name", nil},
		{"match (n) where all(t in n.tags where t starts with 'x') return n.name", nil},
		{"match (n) where none(t in n.tags where t = 'z') return n.name", nil},
		{"match (n) where single(t in n.tags where t = 'x') return n.name", nil},
		{"match (n) where size(n.tags) > 1 return n.name", nil},
		{"match (n) return head(n.tags), tail(n.tags)", nil},
		{"unwind [1, 2, 3] as x return x, x + 1", nil},
		{"unwind ['a', 'b'] as x match (n) where n.name = x return n", nil},
		{"match (n) with n.name as name, n.value as v where v > 1 return name", nil},
		{"match (n) with n order by n.name limit 2 return n.name", nil},
		{"match (n) with count(n) as c, sum(n.value) as s, avg(n.value) as a, min(n.value) as mn, max(n.value) as mx return c, s, a, mn, mx", nil},
		{"match (n) return distinct n.flag", nil},
		{"match (n) return count(distinct n.value), collect(distinct n.name)", nil},
		{"match (n)-[r]->(m) return startNode(r).name, endNode(r).name, r.w", nil},
		{"match (n) where (n)-[:R]->() return n.name", nil},
		{"match (n) where not (n)-[:R]->() return n.name", nil},
		{"match (n) where exists(n.value) return n.name", nil},
		{"match (n), (m) where n.name = 'a' and m.name = 'b' return n, m", nil},
		{"match (n)-[:R]->(m), (m)-[:R]->(o) return n.name, o.name", nil},
		{"match (n) where n.name = $name return n", map[string]any{"name": "a"}},
		{"match (n) where n.value = $v return n", map[string]any{"v": 1}},
		{"match (n) where n.value in $vs return n", map[string]any{"vs": []any{1, 2}}},
		{"match (n) where id(n) = $id return n", map[string]any{"id": 2}},
		{"match (n) where id(n) in $ids return n", map[string]any{"ids": []int64{1, 2}}},
		{"match (n) where n.score > 1.0 return n.score", nil},
		{"match (n) where n.flag = true return n.name", nil},
		{"match (n) where n.flag return n.name", nil},
		{"match (n) return n.name + '-' + n.name", nil},
		{"match (n) return n.value + n.score", nil},
		{"match (n) return case when n.value > 1 then 'big' else 'small' end", nil},
		{"match (n)-[r:R]->(n) return n", nil},
		{"match (a)-[r1]->(b)<-[r2]-(c) return a.name, c.name", nil},
		{"match (n) return n.name as name union match (m) return m.name as name", nil},
		{"match (n) return [n.name, n.value]", nil},
		{"match (n) return {name: n.name}", nil},
		{"match (n) return n.tags[0]", nil},
		{"match (n) return split(n.name, 'a')", nil},
		{"match (n) return n order by id(n) desc", nil},
		{"match (n:A) with collect(n) as ns return size(ns), ns", nil},
		{"match (n:A) with collect(n) as ns unwind ns as x return x.name", nil},
	}
	counts := map[string]int{}
	for _, q := range queries {
		pq, err := xlate.Parse(q.cy)
		if err != nil {
			t.Logf("PARSE-FAIL %s: %v", q.cy, err)
			counts["cypher parse"]++
			continue
		}
		tr, err := xlate.TranslateWith(pq, q.params, mapper)
		if err != nil {
			t.Logf("NO-TRANSLATION %s: %v", q.cy, firstLine(err.Error()))
			counts["no translation"]++
			continue
		}
		res, out := db.Query(tr.SQL, tr.Params)
		switch {
		case out.OK:
			counts["rows"]++
			t.Logf("OK   %s\n        => %s", q.cy, truncate(canonResult(res), 300))
		case out.Err != nil:
			counts["error "+out.Err.Class]++
			t.Logf("ERR  %s\n        => %v\n        sql: %s", q.cy, out.Err, tr.SQL)
		default:
			counts["unsupported"]++
			t.Logf("UNSUP %s\n        => %s\n        sql: %s", q.cy, out.Unsupported, tr.SQL)
		}
	}
	t.Logf("%v", counts)
}

func firstLine(s string) string {
	for i, c := range s {
		if c == '\n' {
			return s[:i]
		}
	}
	return s
}

func truncate(s string, n int) string {
	if len(s) > n {
		return s[:n] + "…"
	}
	return s
}
