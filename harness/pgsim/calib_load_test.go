package pgsim

import (
	"bytes"
	"encoding/json"
	"fmt"
	"os"
	"path/filepath"
	"sort"
	"strings"
	"testing"

	"verif/gmodel"
	"verif/xlate"
)

// ---- loading the repo's integration corpus -----------------------------------------------------

type ogNode struct {
	ID         string         `json:"id"`
	Kinds      []string       `json:"kinds"`
	Properties map[string]any `json:"properties"`
}

type ogEdge struct {
	StartID    string         `json:"start_id"`
	EndID      string         `json:"end_id"`
	Kind       string         `json:"kind"`
	Properties map[string]any `json:"properties"`
}

type ogGraph struct {
	Nodes []ogNode `json:"nodes"`
	Edges []ogEdge `json:"edges"`
}

type calCase struct {
	Source  string // file / family
	Name    string
	Cypher  string
	Params  map[string]any
	Assert  json.RawMessage
	Fixture *ogGraph // nil: dataset
	Dataset string
	Meta    string // for metamorphic families: "family#idx"
}

type fixture struct {
	G     gmodel.Graph
	IDMap map[string]int64 // fixture id -> node id
	Rev   map[int64]string
}

func decodeJSONNumberAware(raw []byte, into any) error {
	dec := json.NewDecoder(bytes.NewReader(raw))
	dec.UseNumber()
	return dec.Decode(into)
}

func normProps(m map[string]any) map[string]any {
	if m == nil {
		return map[string]any{}
	}
	return gmodel.NormalizeJSON(m).(map[string]any)
}

func buildFixture(og *ogGraph) (fixture, error) {
	fx := fixture{IDMap: map[string]int64{}, Rev: map[int64]string{}}
	for i, n := range og.Nodes {
		id := int64(i + 1)
		if _, dup := fx.IDMap[n.ID]; dup {
			return fx, fmt.Errorf("duplicate fixture node id %q", n.ID)
		}
		fx.IDMap[n.ID] = id
		fx.Rev[id] = n.ID
		fx.G.Nodes = append(fx.G.Nodes, gmodel.Node{ID: id, Kinds: append([]string(nil), n.Kinds...), Props: normProps(n.Properties)})
	}
	for i, e := range og.Edges {
		s, ok1 := fx.IDMap[e.StartID]
		t, ok2 := fx.IDMap[e.EndID]
		if !ok1 || !ok2 {
			return fx, fmt.Errorf("edge %d references unknown node", i)
		}
		fx.G.Edges = append(fx.G.Edges, gmodel.Edge{ID: int64(i + 1), Start: s, End: t, Kind: e.Kind, Props: normProps(e.Properties)})
	}
	return fx, nil
}

func integrationDir() string { return filepath.Join(repoRoot(), "integration", "testdata") }

func loadDatasetFile(name string) (*ogGraph, error) {
	raw, err := os.ReadFile(filepath.Join(integrationDir(), name+".json"))
	if err != nil {
		return nil, err
	}
	var doc struct {
		Graph ogGraph `json:"graph"`
	}
	if err := decodeJSONNumberAware(raw, &doc); err != nil {
		return nil, err
	}
	return &doc.Graph, nil
}

type corpus struct {
	Cases    []calCase
	Datasets map[string]*ogGraph
	Kinds    []string // node kinds then edge kinds, sorted within each group
}

func loadCorpus(t testing.TB) *corpus {
	c := &corpus{Datasets: map[string]*ogGraph{}}
	nodeKinds, edgeKinds := map[string]bool{}, map[string]bool{}
	addKinds := func(g *ogGraph) {
		if g == nil {
			return
		}
		for _, n := range g.Nodes {
			for _, k := range n.Kinds {
				nodeKinds[k] = true
			}
		}
		for _, e := range g.Edges {
			edgeKinds[e.Kind] = true
		}
	}
	dsFiles, _ := filepath.Glob(filepath.Join(integrationDir(), "*.json"))
	for _, f := range dsFiles {
		name := strings.TrimSuffix(filepath.Base(f), ".json")
		g, err := loadDatasetFile(name)
		if err != nil {
			t.Fatalf("dataset %s: %v", name, err)
		}
		c.Datasets[name] = g
		addKinds(g)
	}
	// case files
	files, _ := filepath.Glob(filepath.Join(integrationDir(), "cases", "*.json"))
	sort.Strings(files)
	for _, f := range files {
		raw, err := os.ReadFile(f)
		if err != nil {
			t.Fatal(err)
		}
		var cf struct {
			Dataset string `json:"dataset"`
			Cases   []struct {
				Name    string          `json:"name"`
				Cypher  string          `json:"cypher"`
				Params  json.RawMessage `json:"params"`
				Assert  json.RawMessage `json:"assert"`
				Fixture json.RawMessage `json:"fixture"`
			} `json:"cases"`
		}
		if err := json.Unmarshal(raw, &cf); err != nil {
			t.Fatalf("%s: %v", f, err)
		}
		ds := cf.Dataset
		if ds == "" {
			ds = "base"
		}
		for _, tc := range cf.Cases {
			cc := calCase{Source: "cases/" + filepath.Base(f), Name: tc.Name, Cypher: tc.Cypher, Assert: tc.Assert, Dataset: ds}
			if len(tc.Params) > 0 {
				// the integration test decodes params with encoding/json defaults (numbers = float64)
				if err := json.Unmarshal(tc.Params, &cc.Params); err != nil {
					t.Fatal(err)
				}
			}
			if len(tc.Fixture) > 0 && string(tc.Fixture) != "null" {
				var g ogGraph
				if err := decodeJSONNumberAware(tc.Fixture, &g); err != nil {
					t.Fatal(err)
				}
				cc.Fixture = &g
				addKinds(&g)
			}
			c.Cases = append(c.Cases, cc)
		}
	}
	// templates
	tfiles, _ := filepath.Glob(filepath.Join(integrationDir(), "templates", "*.json"))
	sort.Strings(tfiles)
	for _, f := range tfiles {
		raw, err := os.ReadFile(f)
		if err != nil {
			t.Fatal(err)
		}
		var tf struct {
			Families []struct {
				Name     string          `json:"name"`
				Fixture  json.RawMessage `json:"fixture"`
				Template string          `json:"template"`
				Params   map[string]any  `json:"params"`
				Variants []struct {
					Name   string            `json:"name"`
					Vars   map[string]string `json:"vars"`
					Params map[string]any    `json:"params"`
					Assert json.RawMessage   `json:"assert"`
				} `json:"variants"`
			} `json:"families"`
			Metamorphic []struct {
				Name    string          `json:"name"`
				Fixture json.RawMessage `json:"fixture"`
				Compare json.RawMessage `json:"compare"`
				Queries []struct {
					Name   string         `json:"name"`
					Cypher string         `json:"cypher"`
					Params map[string]any `json:"params"`
				} `json:"queries"`
			} `json:"metamorphic"`
		}
		if err := json.Unmarshal(raw, &tf); err != nil {
			t.Fatalf("%s: %v", f, err)
		}
		base := "templates/" + filepath.Base(f)
		for _, fam := range tf.Families {
			var g ogGraph
			if err := decodeJSONNumberAware(fam.Fixture, &g); err != nil {
				t.Fatal(err)
			}
			addKinds(&g)
			for _, v := range fam.Variants {
				cy := fam.Template
				for k, val := range v.Vars {
					cy = strings.ReplaceAll(cy, "{{"+k+"}}", val)
				}
				params := map[string]any{}
				for k, val := range fam.Params {
					params[k] = val
				}
				for k, val := range v.Params {
					params[k] = val
				}
				if len(params) == 0 {
					params = nil
				}
				gg := g
				c.Cases = append(c.Cases, calCase{Source: base + "/" + fam.Name, Name: v.Name, Cypher: cy, Params: params, Assert: v.Assert, Fixture: &gg})
			}
		}
		for _, fam := range tf.Metamorphic {
			var g ogGraph
			if err := decodeJSONNumberAware(fam.Fixture, &g); err != nil {
				t.Fatal(err)
			}
			addKinds(&g)
			for i, q := range fam.Queries {
				gg := g
				c.Cases = append(c.Cases, calCase{Source: base + "/" + fam.Name, Name: q.Name, Cypher: q.Cypher, Params: q.Params,
					Assert: fam.Compare, Fixture: &gg, Meta: fmt.Sprintf("%s#%d", fam.Name, i)})
			}
		}
	}
	var nk, ek []string
	for k := range nodeKinds {
		nk = append(nk, k)
	}
	for k := range edgeKinds {
		if !nodeKinds[k] {
			ek = append(ek, k)
		}
	}
	sort.Strings(nk)
	sort.Strings(ek)
	c.Kinds = append(nk, ek...)
	return c
}

func (c *corpus) kindIDs() map[string]int16 {
	m := map[string]int16{}
	for i, k := range c.Kinds {
		m[k] = int16(i + 1)
	}
	return m
}

type translated struct {
	SQL    string
	Params map[string]any
	Err    error
	Write  bool
}

func translateCase(c *corpus, cc calCase) translated {
	q, err := xlate.Parse(cc.Cypher)
	if err != nil {
		return translated{Err: fmt.Errorf("parse: %w", err)}
	}
	res, err := xlate.TranslateWith(q, cc.Params, xlate.FixedMapper(c.Kinds...))
	if err != nil {
		return translated{Err: fmt.Errorf("translate: %w", err)}
	}
	return translated{SQL: res.SQL, Params: res.Params}
}

// TestDumpTranslations writes every translated integration query to $PGSIM_DUMP (developer aid).
func TestDumpTranslations(t *testing.T) {
	out := os.Getenv("PGSIM_DUMP")
	if out == "" {
		t.Skip("PGSIM_DUMP not set")
	}
	c := loadCorpus(t)
	var sb strings.Builder
	for _, cc := range c.Cases {
		tr := translateCase(c, cc)
		fmt.Fprintf(&sb, "-- %s :: %s\n-- cypher: %s\n-- assert: %s\n", cc.Source, cc.Name, cc.Cypher, string(cc.Assert))
		if tr.Err != nil {
			fmt.Fprintf(&sb, "-- ERROR: %v\n\n", tr.Err)
			continue
		}
		pj, _ := json.Marshal(tr.Params)
		fmt.Fprintf(&sb, "-- params: %s\n%s\n\n", pj, tr.SQL)
	}
	if err := os.WriteFile(out, []byte(sb.String()), 0o644); err != nil {
		t.Fatal(err)
	}
	t.Logf("%d cases, kinds=%v", len(c.Cases), c.Kinds)
}
