package pgsim

import (
	"math"
	"math/big"
	"strconv"
	"strings"
)

// Numeric models PostgreSQL's arbitrary precision decimal: value = Unscaled / 10^Scale, with the
// display scale tracked the way numeric.c does (add/sub: max scale; mul: sum; div: select_div_scale).
// special: 0 finite, 1 NaN, 2 +Infinity, 3 -Infinity.
type Numeric struct {
	u       *big.Int
	scale   int
	special int8
}

const (
	numFinite = 0
	numNaN    = 1
	numPInf   = 2
	numNInf   = 3
)

var bigTen = big.NewInt(10)

func pow10(n int) *big.Int {
	return new(big.Int).Exp(bigTen, big.NewInt(int64(n)), nil)
}

func numFromInt(i int64) Numeric { return Numeric{u: big.NewInt(i)} }

func (n Numeric) isSpecial() bool { return n.special != numFinite }

func (n Numeric) isZero() bool { return n.special == numFinite && n.u.Sign() == 0 }

// parseNumeric implements numeric_in for the usual forms: [ws][sign]digits[.digits][e[sign]digits][ws],
// NaN, Infinity, inf (case-insensitive).
func parseNumeric(s string) (Numeric, bool) {
	t := strings.TrimSpace(s)
	if t == "" {
		return Numeric{}, false
	}
	switch strings.ToLower(t) {
	case "nan":
		return Numeric{special: numNaN}, true
	case "infinity", "inf", "+infinity", "+inf":
		return Numeric{special: numPInf}, true
	case "-infinity", "-inf":
		return Numeric{special: numNInf}, true
	}
	neg := false
	i := 0
	if t[i] == '+' || t[i] == '-' {
		neg = t[i] == '-'
		i++
	}
	// PostgreSQL 16 accepts 0x / 0o / 0b integers and underscores; modelled: underscores between digits.
	var digits strings.Builder
	scale := 0
	seenDigit, seenDot := false, false
	for i < len(t) {
		c := t[i]
		switch {
		case c >= '0' && c <= '9':
			digits.WriteByte(c)
			seenDigit = true
			if seenDot {
				scale++
			}
		case c == '.' && !seenDot:
			seenDot = true
		case c == '_' && seenDigit && i+1 < len(t) && t[i+1] >= '0' && t[i+1] <= '9':
		default:
			goto exp
		}
		i++
	}
exp:
	if !seenDigit {
		return Numeric{}, false
	}
	exp := 0
	if i < len(t) && (t[i] == 'e' || t[i] == 'E') {
		j := i + 1
		eneg := false
		if j < len(t) && (t[j] == '+' || t[j] == '-') {
			eneg = t[j] == '-'
			j++
		}
		k := j
		for k < len(t) && t[k] >= '0' && t[k] <= '9' {
			k++
		}
		if k == j {
			return Numeric{}, false
		}
		v, err := strconv.Atoi(t[j:k])
		if err != nil || v > 100000 {
			return Numeric{}, false
		}
		if eneg {
			v = -v
		}
		exp = v
		i = k
	}
	if i != len(t) {
		return Numeric{}, false
	}
	u, _ := new(big.Int).SetString(digits.String(), 10)
	if neg {
		u.Neg(u)
	}
	// apply exponent
	scale -= exp
	if scale < 0 {
		u.Mul(u, pow10(-scale))
		scale = 0
	}
	return Numeric{u: u, scale: scale}, true
}

func numFromFloat(f float64) Numeric {
	switch {
	case math.IsNaN(f):
		return Numeric{special: numNaN}
	case math.IsInf(f, 1):
		return Numeric{special: numPInf}
	case math.IsInf(f, -1):
		return Numeric{special: numNInf}
	}
	// float8_numeric prints with DBL_DIG (15) significant digits
	s := strconv.FormatFloat(f, 'e', 14, 64)
	n, _ := parseNumeric(s)
	return n.stripTrailingZeros()
}

// stripTrailingZeros reduces the scale while the value stays the same (used for float conversions,
// where PostgreSQL prints with %.15g and therefore has no trailing zeros).
func (n Numeric) stripTrailingZeros() Numeric {
	if n.isSpecial() {
		return n
	}
	u := new(big.Int).Set(n.u)
	scale := n.scale
	q, r := new(big.Int), new(big.Int)
	for scale > 0 {
		q.QuoRem(u, bigTen, r)
		if r.Sign() != 0 {
			break
		}
		u.Set(q)
		scale--
	}
	return Numeric{u: u, scale: scale}
}

func (n Numeric) String() string {
	switch n.special {
	case numNaN:
		return "NaN"
	case numPInf:
		return "Infinity"
	case numNInf:
		return "-Infinity"
	}
	s := new(big.Int).Abs(n.u).String()
	if n.scale > 0 {
		for len(s) <= n.scale {
			s = "0" + s
		}
		s = s[:len(s)-n.scale] + "." + s[len(s)-n.scale:]
	}
	if n.u.Sign() < 0 {
		s = "-" + s
	}
	return s
}

func (n Numeric) Float64() float64 {
	switch n.special {
	case numNaN:
		return math.NaN()
	case numPInf:
		return math.Inf(1)
	case numNInf:
		return math.Inf(-1)
	}
	f, err := strconv.ParseFloat(n.String(), 64)
	if err != nil {
		return f // ±Inf on overflow; callers check
	}
	return f
}

// isIntegral reports whether the value has no fractional part.
func (n Numeric) isIntegral() bool {
	if n.isSpecial() {
		return false
	}
	if n.scale == 0 {
		return true
	}
	r := new(big.Int).Rem(n.u, pow10(n.scale))
	return r.Sign() == 0
}

// roundToScale rounds half away from zero (numeric.c round_var).
func (n Numeric) roundToScale(scale int) Numeric {
	if n.isSpecial() {
		return n
	}
	if scale >= n.scale {
		return Numeric{u: new(big.Int).Mul(n.u, pow10(scale-n.scale)), scale: scale}
	}
	d := pow10(n.scale - scale)
	q, r := new(big.Int).QuoRem(n.u, d, new(big.Int))
	r.Abs(r)
	r.Mul(r, big.NewInt(2))
	if r.Cmp(d) >= 0 {
		if n.u.Sign() < 0 {
			q.Sub(q, big.NewInt(1))
		} else {
			q.Add(q, big.NewInt(1))
		}
	}
	return Numeric{u: q, scale: scale}
}

func (n Numeric) truncToScale(scale int) Numeric {
	if n.isSpecial() || scale >= n.scale {
		return n.roundToScale(scale)
	}
	q := new(big.Int).Quo(n.u, pow10(n.scale-scale))
	return Numeric{u: q, scale: scale}
}

// Int64 rounds to the nearest integer (half away from zero) as numeric_int8 does.
func (n Numeric) Int64() (int64, bool) {
	if n.isSpecial() {
		return 0, false
	}
	r := n.roundToScale(0)
	if !r.u.IsInt64() {
		return 0, false
	}
	return r.u.Int64(), true
}

func alignScales(a, b Numeric) (*big.Int, *big.Int, int) {
	s := a.scale
	if b.scale > s {
		s = b.scale
	}
	au := new(big.Int).Mul(a.u, pow10(s-a.scale))
	bu := new(big.Int).Mul(b.u, pow10(s-b.scale))
	return au, bu, s
}

func numCmp(a, b Numeric) int {
	// NaN sorts above everything (PostgreSQL), NaN = NaN
	rank := func(n Numeric) int {
		switch n.special {
		case numNaN:
			return 3
		case numPInf:
			return 2
		case numNInf:
			return 0
		}
		return 1
	}
	ra, rb := rank(a), rank(b)
	if ra != rb {
		if ra < rb {
			return -1
		}
		return 1
	}
	if ra != 1 {
		return 0
	}
	au, bu, _ := alignScales(a, b)
	return au.Cmp(bu)
}

func numNeg(a Numeric) Numeric {
	switch a.special {
	case numNaN:
		return a
	case numPInf:
		return Numeric{special: numNInf}
	case numNInf:
		return Numeric{special: numPInf}
	}
	return Numeric{u: new(big.Int).Neg(a.u), scale: a.scale}
}

func numAdd(a, b Numeric) Numeric {
	if a.isSpecial() || b.isSpecial() {
		if a.special == numNaN || b.special == numNaN {
			return Numeric{special: numNaN}
		}
		if a.isSpecial() && b.isSpecial() && a.special != b.special {
			return Numeric{special: numNaN}
		}
		if a.isSpecial() {
			return a
		}
		return b
	}
	au, bu, s := alignScales(a, b)
	return Numeric{u: au.Add(au, bu), scale: s}
}

func numSub(a, b Numeric) Numeric { return numAdd(a, numNeg(b)) }

func numMul(a, b Numeric) Numeric {
	if a.isSpecial() || b.isSpecial() {
		if a.special == numNaN || b.special == numNaN {
			return Numeric{special: numNaN}
		}
		sa, sb := numSign(a), numSign(b)
		if sa == 0 || sb == 0 {
			return Numeric{special: numNaN}
		}
		if sa*sb > 0 {
			return Numeric{special: numPInf}
		}
		return Numeric{special: numNInf}
	}
	return Numeric{u: new(big.Int).Mul(a.u, b.u), scale: a.scale + b.scale}
}

func numSign(a Numeric) int {
	switch a.special {
	case numPInf:
		return 1
	case numNInf:
		return -1
	case numNaN:
		return 0
	}
	return a.u.Sign()
}

// weight and first base-10000 digit as numeric.c stores them.
func weightAndFirstDigit(n Numeric) (int, int) {
	if n.u.Sign() == 0 {
		return 0, 0
	}
	s := new(big.Int).Abs(n.u).String()
	// decimal point position: number of integer digits
	intDigits := len(s) - n.scale
	// strip leading zeros conceptually: s has none, but intDigits may be <= 0
	// position of first significant decimal digit relative to the point: p = intDigits-1 (10^p)
	p := intDigits - 1
	// base-10000 weight = floor(p / 4)
	w := floorDiv(p, 4)
	// first base-10000 digit consists of decimal positions from 4w+3 down to 4w
	hi := 4*w + 3
	val := 0
	for pos := hi; pos >= 4*w; pos-- {
		val *= 10
		idx := p - pos // index into s of the digit at 10^pos
		if idx >= 0 && idx < len(s) {
			val += int(s[idx] - '0')
		}
	}
	return w, val
}

func floorDiv(a, b int) int {
	q := a / b
	if (a%b != 0) && ((a < 0) != (b < 0)) {
		q--
	}
	return q
}

func selectDivScale(a, b Numeric) int {
	w1, f1 := weightAndFirstDigit(a)
	w2, f2 := weightAndFirstDigit(b)
	qweight := w1 - w2
	if f1 <= f2 {
		qweight--
	}
	rscale := 16 - qweight*4
	if rscale < a.scale {
		rscale = a.scale
	}
	if rscale < b.scale {
		rscale = b.scale
	}
	if rscale < 0 {
		rscale = 0
	}
	if rscale > 1000 {
		rscale = 1000
	}
	return rscale
}

// numDiv returns ok=false on division by zero.
func numDiv(a, b Numeric) (Numeric, bool) {
	if a.special == numNaN || b.special == numNaN {
		return Numeric{special: numNaN}, true
	}
	if a.isSpecial() {
		if b.isSpecial() {
			return Numeric{special: numNaN}, true
		}
		if b.isZero() {
			return Numeric{}, false
		}
		if numSign(a)*numSign(b) > 0 {
			return Numeric{special: numPInf}, true
		}
		return Numeric{special: numNInf}, true
	}
	if b.isSpecial() {
		return Numeric{u: big.NewInt(0)}, true
	}
	if b.isZero() {
		return Numeric{}, false
	}
	rscale := selectDivScale(a, b)
	// compute a/b to rscale+1 digits then round half away from zero
	// a.u/10^as / (b.u/10^bs) = a.u*10^(bs-as)/b.u ; want result*10^(rscale+1)
	shift := rscale + 1 + b.scale - a.scale
	num := new(big.Int).Set(a.u)
	den := new(big.Int).Set(b.u)
	if shift >= 0 {
		num.Mul(num, pow10(shift))
	} else {
		den.Mul(den, pow10(-shift))
	}
	q := new(big.Int).Quo(num, den)
	return Numeric{u: q, scale: rscale + 1}.roundToScale(rscale), true
}

func numMod(a, b Numeric) (Numeric, bool) {
	if a.isSpecial() || b.isSpecial() {
		if a.special == numNaN || b.special == numNaN || a.isSpecial() {
			return Numeric{special: numNaN}, true
		}
		return a, true
	}
	if b.isZero() {
		return Numeric{}, false
	}
	au, bu, s := alignScales(a, b)
	r := new(big.Int).Rem(au, bu) // truncated division, sign follows dividend
	return Numeric{u: r, scale: s}, true
}
