package pgsim

import "strings"

// ParamNames lists the @name parameters a statement refers to, in first-use order.
func ParamNames(stmt *Statement) []string {
	seen := map[string]bool{}
	var out []string
	Walk(stmt.Body, func(n Node) bool {
		if p, ok := n.(*Param); ok && !seen[p.Name] {
			seen[p.Name] = true
			out = append(out, p.Name)
		}
		return true
	})
	return out
}

// HasDataModification reports whether the statement is, or contains (in a CTE), an INSERT, UPDATE,
// DELETE or MERGE.
func HasDataModification(stmt *Statement) bool {
	found := false
	Walk(stmt.Body, func(n Node) bool {
		switch n.(type) {
		case *Insert, *Update, *Delete, *Merge:
			found = true
		}
		return !found
	})
	return found
}

// LooksLikeSQL recognises the statements DAWGS passes around as text (shortest-path harness
// primer / recursive / filter statements).
func LooksLikeSQL(s string) bool {
	l := strings.ToLower(strings.TrimSpace(s))
	return strings.HasPrefix(l, "insert into ") || strings.HasPrefix(l, "select ") || strings.HasPrefix(l, "with ") ||
		strings.HasPrefix(l, "update ") || strings.HasPrefix(l, "delete from ") || strings.HasPrefix(l, "merge ")
}

// EmbeddedSQL returns every string literal of the statement whose value is itself SQL text.
func EmbeddedSQL(stmt *Statement) []string {
	var out []string
	Walk(stmt.Body, func(n Node) bool {
		if l, ok := n.(*Literal); ok && l.Kind == "string" && LooksLikeSQL(l.Text) {
			out = append(out, l.Text)
		}
		return true
	})
	return out
}

// CalledFunctions lists the distinct function names a statement calls.
func CalledFunctions(stmt *Statement) []string {
	seen := map[string]bool{}
	var out []string
	Walk(stmt.Body, func(n Node) bool {
		if f, ok := n.(*FuncCall); ok && !seen[f.Name] {
			seen[f.Name] = true
			out = append(out, f.Name)
		}
		return true
	})
	return out
}
