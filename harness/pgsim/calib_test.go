package pgsim

import (
	"encoding/json"
	"fmt"
	"math"
	"os"
	"reflect"
	"sort"
	"strings"
	"testing"
	"time"

	"verif/gmodel"
)

// ---- the repo's assertion vocabulary (integration/cypher_test.go) on a gmodel.Result -----------

type assertCtx struct {
	rev map[int64]string
}

func (c assertCtx) fixtureID(id int64) (string, error) {
	if s, ok := c.rev[id]; ok {
		return s, nil
	}
	return "", fmt.Errorf("database node ID %d was not found in the assertion fixture ID map", id)
}

func sigNumber(v any) (float64, bool) {
	switch t := v.(type) {
	case int64:
		return float64(t), true
	case int:
		return float64(t), true
	case float64:
		return t, true
	}
	return 0, false
}

func scalarSignature(v any) string {
	if v == nil {
		return "null:"
	}
	if n, ok := sigNumber(v); ok {
		return fmt.Sprintf("number:%g", n)
	}
	switch t := v.(type) {
	case string:
		return "string:" + t
	case bool:
		return fmt.Sprintf("bool:%t", t)
	}
	enc, err := json.Marshal(v)
	if err != nil {
		return fmt.Sprintf("%T:%v", v, v)
	}
	return "json:" + string(enc)
}

func rowSignature(vals []any) string {
	parts := make([]string, len(vals))
	for i, v := range vals {
		parts[i] = scalarSignature(v)
	}
	enc, _ := json.Marshal(parts)
	return string(enc)
}

func multisetEqual(got, want []string) error {
	g := append([]string(nil), got...)
	w := append([]string(nil), want...)
	sort.Strings(g)
	sort.Strings(w)
	if len(g) != len(w) {
		return fmt.Errorf("count: got %d, want %d\n  got:  %v\n  want: %v", len(g), len(w), g, w)
	}
	for i := range g {
		if g[i] != w[i] {
			return fmt.Errorf("mismatch at %d:\n  got:  %v\n  want: %v", i, g, w)
		}
	}
	return nil
}

func asNodeList(v any) ([]gmodel.NodeVal, bool) {
	l, ok := v.([]any)
	if !ok {
		return nil, false
	}
	out := make([]gmodel.NodeVal, 0, len(l))
	for _, e := range l {
		n, ok := e.(gmodel.NodeVal)
		if !ok {
			return nil, false
		}
		out = append(out, n)
	}
	return out, true
}

func asEdgeList(v any) ([]gmodel.EdgeVal, bool) {
	l, ok := v.([]any)
	if !ok {
		return nil, false
	}
	out := make([]gmodel.EdgeVal, 0, len(l))
	for _, e := range l {
		n, ok := e.(gmodel.EdgeVal)
		if !ok {
			return nil, false
		}
		out = append(out, n)
	}
	return out, true
}

func valuesEqual(actual, expected any) bool {
	if a, ok := sigNumber(actual); ok {
		if e, ok := sigNumber(expected); ok {
			return a == e
		}
	}
	return gmodel.Canon(gmodel.NormalizeJSON(actual)) == gmodel.Canon(gmodel.NormalizeJSON(expected)) && reflect.TypeOf(actual) != nil
}

func propsMatch(props map[string]any, expected map[string]any) bool {
	for k, ev := range expected {
		av, ok := props[k]
		if !ok || !valuesEqual(av, ev) {
			return false
		}
	}
	return true
}

func collectNodeIDs(res gmodel.Result, ctx assertCtx, unique bool) ([]string, error) {
	var ids []string
	seen := map[string]bool{}
	for _, row := range res.Rows {
		for _, v := range row {
			if n, ok := v.(gmodel.NodeVal); ok {
				id, err := ctx.fixtureID(n.ID)
				if err != nil {
					return nil, err
				}
				if unique {
					if seen[id] {
						continue
					}
					seen[id] = true
				}
				ids = append(ids, id)
			}
		}
	}
	return ids, nil
}

func collectPaths(res gmodel.Result) []gmodel.PathVal {
	var out []gmodel.PathVal
	for _, row := range res.Rows {
		for _, v := range row {
			if p, ok := v.(gmodel.PathVal); ok {
				out = append(out, p)
			}
		}
	}
	return out
}

func pathNodeSig(p gmodel.PathVal, ctx assertCtx) (string, error) {
	ids := make([]string, len(p.Nodes))
	for i, n := range p.Nodes {
		id, err := ctx.fixtureID(n.ID)
		if err != nil {
			return "", err
		}
		ids[i] = id
	}
	return strings.Join(ids, "->"), nil
}

func pathKindSig(p gmodel.PathVal) string {
	ks := make([]string, len(p.Edges))
	for i, e := range p.Edges {
		ks[i] = e.Kind
	}
	return strings.Join(ks, "->")
}

func firstScalar(res gmodel.Result) (any, error) {
	if len(res.Rows) == 0 {
		return nil, fmt.Errorf("no rows returned")
	}
	if len(res.Rows[0]) == 0 {
		return nil, fmt.Errorf("first row has no values")
	}
	return res.Rows[0][0], nil
}

func asInt64Sig(v any) (int64, bool) {
	switch t := v.(type) {
	case int64:
		return t, true
	case float64:
		if math.Trunc(t) == t {
			return int64(t), true
		}
	}
	return 0, false
}

// checkAssertion evaluates one assertion object/string of the integration corpus.
func checkAssertion(raw json.RawMessage, res gmodel.Result, ctx assertCtx) error {
	var str string
	if err := json.Unmarshal(raw, &str); err == nil {
		switch str {
		case "non_empty":
			if len(res.Rows) == 0 {
				return fmt.Errorf("expected non-empty result set")
			}
		case "empty":
			if len(res.Rows) > 0 {
				return fmt.Errorf("expected empty result set but got %d rows", len(res.Rows))
			}
		case "no_error":
		default:
			return fmt.Errorf("unknown string assertion %q", str)
		}
		return nil
	}
	var obj map[string]json.RawMessage
	if err := json.Unmarshal(raw, &obj); err != nil {
		return fmt.Errorf("cannot parse assertion: %v", err)
	}
	keys := make([]string, 0, len(obj))
	for k := range obj {
		keys = append(keys, k)
	}
	sort.Strings(keys)
	for _, key := range keys {
		val := obj[key]
		dec := func(into any) error { return json.Unmarshal(val, into) }
		var err error
		switch key {
		case "keys":
			var want []string
			if err = dec(&want); err != nil {
				break
			}
			if len(res.Rows) == 0 {
				err = fmt.Errorf("key assertion expected at least one row")
				break
			}
			if strings.Join(res.Columns, "\x00") != strings.Join(want, "\x00") {
				err = fmt.Errorf("keys mismatch: got %v want %v", res.Columns, want)
			}
		case "row_count":
			var n int
			if err = dec(&n); err == nil && len(res.Rows) != n {
				err = fmt.Errorf("row count: got %d, want %d", len(res.Rows), n)
			}
		case "at_least_int", "exact_int":
			var n int64
			if err = dec(&n); err != nil {
				break
			}
			if key == "exact_int" && len(res.Rows) != 1 {
				err = fmt.Errorf("exact integer assertion expected one row, got %d", len(res.Rows))
				break
			}
			var v any
			if v, err = firstScalar(res); err != nil {
				break
			}
			got, ok := asInt64Sig(v)
			if !ok {
				err = fmt.Errorf("expected integer, got %T: %v", v, v)
				break
			}
			if key == "exact_int" && got != n {
				err = fmt.Errorf("got %d, want %d", got, n)
			}
			if key == "at_least_int" && got < n {
				err = fmt.Errorf("got %d, want >= %d", got, n)
			}
		case "scalar_values", "ordered_scalar_values":
			var want []any
			if err = dec(&want); err != nil {
				break
			}
			var g, w []string
			for i, row := range res.Rows {
				if len(row) == 0 {
					err = fmt.Errorf("row %d has no values", i)
					break
				}
				g = append(g, scalarSignature(row[0]))
			}
			for _, e := range want {
				w = append(w, scalarSignature(e))
			}
			if err == nil {
				if key == "ordered_scalar_values" {
					if strings.Join(g, "\x00") != strings.Join(w, "\x00") {
						err = fmt.Errorf("ordered scalar values mismatch:\n  got:  %v\n  want: %v", g, w)
					}
				} else {
					err = multisetEqual(g, w)
				}
			}
		case "row_values", "ordered_row_values":
			var want [][]any
			if err = dec(&want); err != nil {
				break
			}
			var g, w []string
			for _, row := range res.Rows {
				g = append(g, rowSignature(row))
			}
			for _, e := range want {
				w = append(w, rowSignature(e))
			}
			if key == "ordered_row_values" {
				if strings.Join(g, "\x00") != strings.Join(w, "\x00") {
					err = fmt.Errorf("ordered row values mismatch:\n  got:  %v\n  want: %v", g, w)
				}
			} else {
				err = multisetEqual(g, w)
			}
		case "contains_node_with_prop":
			var pair [2]string
			if err = dec(&pair); err != nil {
				break
			}
			found := false
			for _, row := range res.Rows {
				for _, v := range row {
					if n, ok := v.(gmodel.NodeVal); ok {
						if s, isStr := n.Props[pair[0]].(string); isStr && s == pair[1] {
							found = true
						}
					}
				}
			}
			if !found {
				err = fmt.Errorf("no row contains a node with %s = %q", pair[0], pair[1])
			}
		case "contains_node_with_props":
			var want map[string]any
			if err = dec(&want); err != nil {
				break
			}
			found := false
			for _, row := range res.Rows {
				for _, v := range row {
					switch t := v.(type) {
					case gmodel.NodeVal:
						if propsMatch(t.Props, want) {
							found = true
						}
					case gmodel.PathVal:
						for _, n := range t.Nodes {
							if propsMatch(n.Props, want) {
								found = true
							}
						}
					}
				}
			}
			if !found {
				err = fmt.Errorf("no row contains a node with properties %v", want)
			}
		case "contains_edge":
			var want struct {
				Start string         `json:"start"`
				End   string         `json:"end"`
				Kind  string         `json:"kind"`
				Props map[string]any `json:"props"`
			}
			if err = dec(&want); err != nil {
				break
			}
			var rels []gmodel.EdgeVal
			for _, row := range res.Rows {
				for _, v := range row {
					switch t := v.(type) {
					case gmodel.EdgeVal:
						rels = append(rels, t)
					case gmodel.PathVal:
						rels = append(rels, t.Edges...)
					}
				}
			}
			found := false
			for _, r := range rels {
				ok := true
				if want.Start != "" {
					if id, e := ctx.fixtureID(r.Start); e != nil || id != want.Start {
						ok = false
					}
				}
				if want.End != "" {
					if id, e := ctx.fixtureID(r.End); e != nil || id != want.End {
						ok = false
					}
				}
				if want.Kind != "" && r.Kind != want.Kind {
					ok = false
				}
				if ok && propsMatch(r.Props, want.Props) {
					found = true
				}
			}
			if !found {
				err = fmt.Errorf("no row contains an edge matching %+v", want)
			}
		case "node_ids", "node_id_set":
			var want []string
			if err = dec(&want); err != nil {
				break
			}
			var got []string
			if got, err = collectNodeIDs(res, ctx, key == "node_id_set"); err == nil {
				err = multisetEqual(got, want)
			}
		case "ordered_node_ids":
			var want []string
			if err = dec(&want); err != nil {
				break
			}
			var got []string
			for i, row := range res.Rows {
				found := false
				for _, v := range row {
					if n, ok := v.(gmodel.NodeVal); ok {
						id, e := ctx.fixtureID(n.ID)
						if e != nil {
							err = e
						}
						got = append(got, id)
						found = true
						break
					}
				}
				if !found {
					err = fmt.Errorf("row %d did not contain a node value", i)
				}
			}
			if err == nil && strings.Join(got, "\x00") != strings.Join(want, "\x00") {
				err = fmt.Errorf("ordered node IDs mismatch:\n  got:  %v\n  want: %v", got, want)
			}
		case "node_list_ids":
			var want [][]string
			if err = dec(&want); err != nil {
				break
			}
			var g, w []string
			for _, row := range res.Rows {
				for _, v := range row {
					if nodes, ok := asNodeList(v); ok {
						ids := make([]string, len(nodes))
						for i, n := range nodes {
							id, e := ctx.fixtureID(n.ID)
							if e != nil {
								err = e
							}
							ids[i] = id
						}
						g = append(g, strings.Join(ids, "->"))
					}
				}
			}
			for _, e := range want {
				w = append(w, strings.Join(e, "->"))
			}
			if err == nil {
				err = multisetEqual(g, w)
			}
		case "path_node_ids":
			var want [][]string
			if err = dec(&want); err != nil {
				break
			}
			var g, w []string
			for _, p := range collectPaths(res) {
				s, e := pathNodeSig(p, ctx)
				if e != nil {
					err = e
				}
				g = append(g, s)
			}
			for _, e := range want {
				w = append(w, strings.Join(e, "->"))
			}
			if err == nil {
				err = multisetEqual(g, w)
			}
		case "path_lengths":
			var want []int
			if err = dec(&want); err != nil {
				break
			}
			var g, w []string
			for _, p := range collectPaths(res) {
				g = append(g, fmt.Sprint(len(p.Edges)))
			}
			for _, e := range want {
				w = append(w, fmt.Sprint(e))
			}
			err = multisetEqual(g, w)
		case "path_edge_kinds":
			var want [][]string
			if err = dec(&want); err != nil {
				break
			}
			var g, w []string
			for _, p := range collectPaths(res) {
				g = append(g, pathKindSig(p))
			}
			for _, e := range want {
				w = append(w, strings.Join(e, "->"))
			}
			err = multisetEqual(g, w)
		case "relationship_list_kinds":
			var want [][]string
			if err = dec(&want); err != nil {
				break
			}
			var g, w []string
			for _, row := range res.Rows {
				for _, v := range row {
					if rels, ok := asEdgeList(v); ok {
						ks := make([]string, len(rels))
						for i, r := range rels {
							ks[i] = r.Kind
						}
						g = append(g, strings.Join(ks, "->"))
					}
				}
			}
			for _, e := range want {
				w = append(w, strings.Join(e, "->"))
			}
			err = multisetEqual(g, w)
		default:
			err = fmt.Errorf("unknown assertion key %q", key)
		}
		if err != nil {
			return fmt.Errorf("%s: %v", key, err)
		}
	}
	return nil
}

// metamorphic comparison signature (integration/cypher_template_test.go)
func comparisonSignature(modes json.RawMessage, res gmodel.Result, ctx assertCtx) ([]string, error) {
	var list []string
	var one string
	if err := json.Unmarshal(modes, &one); err == nil {
		list = []string{one}
	} else if err := json.Unmarshal(modes, &list); err != nil {
		return nil, err
	}
	var out []string
	for _, mode := range list {
		var sig []string
		switch mode {
		case "row_count":
			sig = []string{fmt.Sprint(len(res.Rows))}
		case "scalar_values", "ordered_scalar_values":
			for _, r := range res.Rows {
				if len(r) == 0 {
					return nil, fmt.Errorf("row has no values")
				}
				sig = append(sig, scalarSignature(r[0]))
			}
			if mode == "scalar_values" {
				sort.Strings(sig)
			}
		case "row_values", "ordered_row_values":
			for _, r := range res.Rows {
				sig = append(sig, rowSignature(r))
			}
			if mode == "row_values" {
				sort.Strings(sig)
			}
		case "node_ids", "node_id_set":
			ids, err := collectNodeIDs(res, ctx, mode == "node_id_set")
			if err != nil {
				return nil, err
			}
			sig = ids
			sort.Strings(sig)
		case "path_node_ids":
			for _, p := range collectPaths(res) {
				s, err := pathNodeSig(p, ctx)
				if err != nil {
					return nil, err
				}
				sig = append(sig, s)
			}
			sort.Strings(sig)
		case "path_edge_kinds":
			for _, p := range collectPaths(res) {
				sig = append(sig, pathKindSig(p))
			}
			sort.Strings(sig)
		default:
			return nil, fmt.Errorf("unknown metamorphic comparison mode %q", mode)
		}
		enc, _ := json.Marshal(sig)
		out = append(out, mode+":"+string(enc))
	}
	return out, nil
}

// ---- the calibration run -------------------------------------------------------------------------

type calibStats struct {
	total, translated, notTranslated, expectedErrorSeen int
	expectedErrAtTranslate                              int
	executed, passed, failed, errored                   int
	unsupported                                         map[string]int
	failures                                            []string
	errors                                              []string
}

func isShortestPath(cy string) bool {
	l := strings.ToLower(cy)
	return strings.Contains(l, "shortestpath(") || strings.Contains(l, "allshortestpaths(")
}

func unsupportedBucket(reason string) string {
	switch {
	case strings.Contains(reason, "data-modifying"), strings.Contains(reason, "sequence function"):
		return "write query (INSERT/UPDATE/DELETE, nextval)"
	case strings.Contains(reason, "harness"):
		return "shortest-path harness function"
	case strings.Contains(reason, "temporal"), strings.Contains(reason, "typed literal"):
		return "temporal function / type"
	case strings.HasPrefix(reason, "resource limit"):
		return "resource limit"
	}
	return reason
}

func TestCalibration(t *testing.T) {
	start := time.Now()
	c := loadCorpus(t)
	kinds := c.kindIDs()
	st := calibStats{unsupported: map[string]int{}}
	dsCache := map[string]struct {
		fx fixture
		db *DB
	}{}
	getDB := func(cc calCase) (fixture, *DB, error) {
		if cc.Fixture != nil {
			fx, err := buildFixture(cc.Fixture)
			if err != nil {
				return fx, nil, err
			}
			return fx, NewDB(fx.G, kinds, 0), nil
		}
		if e, ok := dsCache[cc.Dataset]; ok {
			return e.fx, e.db, nil
		}
		og, ok := c.Datasets[cc.Dataset]
		if !ok {
			return fixture{}, nil, fmt.Errorf("unknown dataset %q", cc.Dataset)
		}
		fx, err := buildFixture(og)
		if err != nil {
			return fx, nil, err
		}
		db := NewDB(fx.G, kinds, 0)
		dsCache[cc.Dataset] = struct {
			fx fixture
			db *DB
		}{fx, db}
		return fx, db, nil
	}
	type metaRes struct {
		name string
		sig  []string
	}
	meta := map[string][]metaRes{}
	var metaOrder []string
	verbose := os.Getenv("PGSIM_VERBOSE") != ""
	for _, cc := range c.Cases {
		st.total++
		label := cc.Source + " :: " + cc.Name
		expectErr := string(cc.Assert) == `"query_error"`
		tr := translateCase(c, cc)
		if tr.Err != nil {
			if expectErr {
				st.expectedErrorSeen++
				st.expectedErrAtTranslate++
				st.passed++
				continue
			}
			st.notTranslated++
			st.errors = append(st.errors, fmt.Sprintf("NOT TRANSLATED %s: %v", label, tr.Err))
			continue
		}
		st.translated++
		fx, db, err := getDB(cc)
		if err != nil {
			t.Fatalf("%s: %v", label, err)
		}
		if db.LoadError != nil {
			t.Fatalf("%s: fixture not loadable: %v", label, db.LoadError)
		}
		res, out := db.Query(tr.SQL, tr.Params)
		ctx := assertCtx{rev: fx.Rev}
		switch {
		case out.Unsupported != "":
			st.unsupported[unsupportedBucket(out.Unsupported)]++
			if verbose {
				t.Logf("UNSUPPORTED %s: %s\n   cypher: %s", label, out.Unsupported, cc.Cypher)
			}
			continue
		case out.Err != nil:
			if expectErr {
				st.expectedErrorSeen++
				st.executed++
				st.passed++
				continue
			}
			st.errored++
			st.failures = append(st.failures, fmt.Sprintf("ERROR %s: %v\n   cypher: %s\n   sql: %s", label, out.Err, cc.Cypher, tr.SQL))
			continue
		}
		st.executed++
		if expectErr {
			st.failed++
			st.failures = append(st.failures, fmt.Sprintf("FAIL %s: expected query error but query completed\n   cypher: %s\n   sql: %s", label, cc.Cypher, tr.SQL))
			continue
		}
		if cc.Meta != "" {
			fam := cc.Source
			sig, err := comparisonSignature(cc.Assert, res, ctx)
			if err != nil {
				st.failed++
				st.failures = append(st.failures, fmt.Sprintf("FAIL %s: %v", label, err))
				continue
			}
			if _, seen := meta[fam]; !seen {
				metaOrder = append(metaOrder, fam)
			}
			meta[fam] = append(meta[fam], metaRes{name: cc.Name, sig: sig})
			if len(meta[fam]) == 1 || reflect.DeepEqual(meta[fam][0].sig, sig) {
				st.passed++
			} else {
				st.failed++
				st.failures = append(st.failures, fmt.Sprintf("FAIL %s: metamorphic mismatch against %q:\n  got:  %v\n  want: %v\n   cypher: %s\n   sql: %s",
					label, meta[fam][0].name, sig, meta[fam][0].sig, cc.Cypher, tr.SQL))
			}
			continue
		}
		if err := checkAssertion(cc.Assert, res, ctx); err != nil {
			st.failed++
			st.failures = append(st.failures, fmt.Sprintf("FAIL %s: %v\n   cypher: %s\n   sql: %s", label, err, cc.Cypher, tr.SQL))
			continue
		}
		st.passed++
	}
	_ = metaOrder
	// summary
	var sb strings.Builder
	fmt.Fprintf(&sb, "\npgsim calibration against the repository's integration corpus\n")
	fmt.Fprintf(&sb, "  total cases / template variants / metamorphic queries : %d\n", st.total)
	fmt.Fprintf(&sb, "  translated by DAWGS                                    : %d\n", st.translated)
	fmt.Fprintf(&sb, "  rejected by DAWGS (parse / translation error)          : %d (expected by a query_error assertion: %d, unexpected: %d)\n", st.notTranslated+st.expectedErrAtTranslate, st.expectedErrAtTranslate, st.notTranslated)
	fmt.Fprintf(&sb, "  executed by pgsim (rows, or the expected error)        : %d\n", st.executed)
	fmt.Fprintf(&sb, "  assertion passed (incl. %d query_error expectations)     : %d\n", st.expectedErrorSeen, st.passed)
	fmt.Fprintf(&sb, "  assertion FAILED                                       : %d\n", st.failed)
	fmt.Fprintf(&sb, "  unexpected pgsim error outcome                         : %d\n", st.errored)
	unsupTotal := 0
	var reasons []string
	for r, n := range st.unsupported {
		unsupTotal += n
		reasons = append(reasons, fmt.Sprintf("%4d  %s", n, r))
	}
	sort.Sort(sort.Reverse(sort.StringSlice(reasons)))
	fmt.Fprintf(&sb, "  Unsupported                                            : %d\n", unsupTotal)
	for _, r := range reasons {
		fmt.Fprintf(&sb, "      %s\n", r)
	}
	fmt.Fprintf(&sb, "  wall time: %v\n", time.Since(start).Round(time.Millisecond))
	t.Log(sb.String())
	for _, e := range st.errors {
		t.Log(e)
	}
	for _, f := range st.failures {
		t.Error(f)
	}
	// read-only cases outside the shortest-path family must not be Unsupported for any other reason
	for r, n := range st.unsupported {
		switch r {
		case "write query (INSERT/UPDATE/DELETE, nextval)", "shortest-path harness function", "temporal function / type":
		default:
			t.Errorf("%d case(s) Unsupported for an unlisted reason: %s", n, r)
		}
	}
}
