package pgsim

import "testing"

// Binder regressions found while building C03 (each is what PostgreSQL does, re-derived from its
// parse analysis rules; see the comment on each case).
func TestBinderGroupingAndScopes(t *testing.T) {
	runSem(t, testDB(), []semCase{
		// parse_agg.c check_ungrouped_columns_walker: a sub-expression that is equal() to a GROUP BY item is
		// grouped, at every level; equal() on SubLink compares the sub-select trees, so a sub-select written
		// twice matches itself
		{`select (array(select k.name from generate_subscripts(n0.kind_ids, 1) as i, kind k where k.id = (n0.kind_ids)[i] order by i))::text[], count(*) from node n0 group by (array(select k.name from generate_subscripts(n0.kind_ids, 1) as i, kind k where k.id = (n0.kind_ids)[i] order by i))::text[] order by 2 desc, 1`, `[] | 1 ; ["A"] | 1 ; ["A","B"] | 1`},
		{`select (select count(*) from edge e0 where e0.start_id = n0.id), count(*) from node n0 group by (select count(*) from edge e0 where e0.end_id = n0.id)`, `ERR:binding`},
	})
}

func TestBinderSortConstants(t *testing.T) {
	runSem(t, testDB(), []semCase{
		// parse_clause.c findTargetlistEntrySQL92: "if (IsA(node, A_Const)) { if (!IsA(&aconst->val, Integer)) ereport(ERROR, non-integer constant in %s) … }"
		{`select n0.id from node n0 order by 1`, `1 ; 2 ; 3`},
		{`select n0.id from node n0 order by (1)`, `1 ; 2 ; 3`},
		{`select n0.id from node n0 order by 2`, `ERR:binding`},
		{`select n0.id from node n0 order by -1`, `ERR:binding`}, // gram.y doNegate folds the sign into the constant
		{`select n0.id from node n0 order by 'a'`, `ERR:binding`},
		{`select n0.id from node n0 order by null`, `ERR:binding`},
		{`select n0.id from node n0 order by true`, `ERR:binding`}, // makeBoolAConst yields an A_Const since PostgreSQL 15
		{`select n0.id from node n0 order by 1.5`, `ERR:binding`},
		{`select n0.id from node n0 order by +1, n0.id`, `1 ; 2 ; 3`}, // unary plus is an operator expression
		{`select n0.id from node n0 order by 1 + 1, n0.id`, `1 ; 2 ; 3`},
		{`select n0.id from node n0 order by 'a'::text, n0.id`, `1 ; 2 ; 3`},
		{`select count(*) from node n0 group by 'a'`, `ERR:binding`},
		{`select n0.id, count(*) from node n0 group by 1 order by 1`, `1 | 1 ; 2 | 1 ; 3 | 1`},
	})
}
