package pgsim

import (
	"math"
	"strconv"
	"strings"
)

var typeDisplay = map[string]string{
	"int2": "smallint", "int4": "integer", "int8": "bigint", "float4": "real", "float8": "double precision",
	"bool": "boolean", "numeric": "numeric", "text": "text", "jsonb": "jsonb",
}

func displayType(t string) string {
	if isArrayType(t) {
		return displayType(elemType(t)) + "[]"
	}
	if d, ok := typeDisplay[t]; ok {
		return d
	}
	if t == "" {
		return "unknown"
	}
	return t
}

func intRange(t string) (int64, int64) {
	switch t {
	case "int2":
		return math.MinInt16, math.MaxInt16
	case "int4":
		return math.MinInt32, math.MaxInt32
	}
	return math.MinInt64, math.MaxInt64
}

func mkInt(t string, v int64) Value {
	lo, hi := intRange(t)
	if v < lo || v > hi {
		rtErr("%s out of range", displayType(t))
	}
	switch t {
	case "int2":
		return int16(v)
	case "int4":
		return int32(v)
	}
	return v
}

// parseIntText is pg_strtoint64 (PostgreSQL 16+: decimal, 0x/0o/0b, underscores between digits).
func parseIntText(s string, t string) Value {
	orig := s
	s = strings.TrimSpace(s)
	bad := func() {
		rtErr("invalid input syntax for type %s: %q", displayType(t), orig)
	}
	if s == "" {
		bad()
	}
	neg := false
	if s[0] == '+' || s[0] == '-' {
		neg = s[0] == '-'
		s = s[1:]
	}
	base := 10
	if len(s) > 2 && s[0] == '0' {
		switch s[1] {
		case 'x', 'X':
			base, s = 16, s[2:]
		case 'o', 'O':
			base, s = 8, s[2:]
		case 'b', 'B':
			base, s = 2, s[2:]
		}
	}
	if s == "" {
		bad()
	}
	var digits strings.Builder
	for i := 0; i < len(s); i++ {
		c := s[i]
		if c == '_' {
			if i == 0 && base == 10 || i+1 >= len(s) || s[i+1] == '_' {
				bad()
			}
			continue
		}
		d := -1
		switch {
		case c >= '0' && c <= '9':
			d = int(c - '0')
		case c >= 'a' && c <= 'f':
			d = int(c-'a') + 10
		case c >= 'A' && c <= 'F':
			d = int(c-'A') + 10
		}
		if d < 0 || d >= base {
			bad()
		}
		digits.WriteByte(c)
	}
	txt := digits.String()
	if neg {
		txt = "-" + txt
	}
	v, err := strconv.ParseInt(txt, base, 64)
	if err != nil {
		rtErr("value %q is out of range for type %s", orig, displayType(t))
	}
	lo, hi := intRange(t)
	if v < lo || v > hi {
		rtErr("value %q is out of range for type %s", orig, displayType(t))
	}
	return mkInt(t, v)
}

func parseFloatText(s string) float64 {
	orig := s
	s = strings.TrimSpace(s)
	switch strings.ToLower(s) {
	case "nan", "+nan", "-nan":
		return math.NaN()
	case "infinity", "+infinity", "inf", "+inf":
		return math.Inf(1)
	case "-infinity", "-inf":
		return math.Inf(-1)
	}
	// strtod accepts: [sign] digits [. digits] [e [sign] digits], also hex floats (not modelled)
	ok := s != ""
	i := 0
	if ok && (s[i] == '+' || s[i] == '-') {
		i++
	}
	nd := 0
	for i < len(s) && s[i] >= '0' && s[i] <= '9' {
		i++
		nd++
	}
	if i < len(s) && s[i] == '.' {
		i++
		for i < len(s) && s[i] >= '0' && s[i] <= '9' {
			i++
			nd++
		}
	}
	if nd == 0 {
		ok = false
	}
	if ok && i < len(s) && (s[i] == 'e' || s[i] == 'E') {
		j := i + 1
		if j < len(s) && (s[j] == '+' || s[j] == '-') {
			j++
		}
		k := j
		for k < len(s) && s[k] >= '0' && s[k] <= '9' {
			k++
		}
		if k == j {
			ok = false
		}
		i = k
	}
	if !ok || i != len(s) {
		rtErr("invalid input syntax for type double precision: %q", orig)
	}
	f, err := strconv.ParseFloat(s, 64)
	if err != nil {
		if math.IsInf(f, 0) {
			rtErr("%q is out of range for type double precision", orig)
		}
		rtErr("invalid input syntax for type double precision: %q", orig)
	}
	if f == 0 && strings.ContainsAny(s, "123456789") {
		// underflow
		rtErr("%q is out of range for type double precision", orig)
	}
	return f
}

func parseBoolText(s string) bool {
	t := strings.ToLower(strings.TrimSpace(s))
	match := func(word string, minLen int) bool {
		return len(t) >= minLen && len(t) <= len(word) && strings.HasPrefix(word, t)
	}
	switch {
	case t == "":
	case match("true", 1), match("yes", 1), t == "on", t == "1":
		return true
	case match("false", 1), match("no", 1), match("off", 2), t == "0":
		return false
	}
	rtErr("invalid input syntax for type boolean: %q", s)
	return false
}

// inputValue is the type input function applied to a string (untyped literal or text→T I/O cast).
func inputValue(s string, target string) Value {
	if isArrayType(target) {
		return parseArrayLiteral(s, elemType(target))
	}
	switch target {
	case "text", "unknown", "":
		return s
	case "int2", "int4", "int8":
		return parseIntText(s, target)
	case "float8":
		return parseFloatText(s)
	case "float4":
		return float32(parseFloatText(s))
	case "numeric":
		n, ok := parseNumeric(s)
		if !ok {
			rtErr("invalid input syntax for type numeric: %q", s)
		}
		return n
	case "bool":
		return parseBoolText(s)
	case "jsonb":
		v, ok := parseJSON(s)
		if !ok {
			rtErr("invalid input syntax for type json: %q", s)
		}
		return JSONB{V: v}
	case "json":
		unsup("type json")
	case "timestamp", "timestamptz", "date", "time", "timetz", "interval":
		unsup("temporal type %s", target)
	case "anyarray", "anyelement", "record", "void":
		rtErr("cannot accept a value of type %s", target)
	}
	if _, ok := composites[target]; ok {
		unsup("composite input syntax for %s", target)
	}
	unsup("input for type %s", target)
	return nil
}

// parseArrayLiteral is array_in for one-dimensional literals.
func parseArrayLiteral(s string, elem string) Value {
	t := strings.TrimSpace(s)
	bad := func() { rtErr("malformed array literal: %q", s) }
	if len(t) < 2 || t[0] != '{' || t[len(t)-1] != '}' {
		if strings.HasPrefix(t, "[") {
			unsup("array literal with explicit bounds")
		}
		bad()
	}
	body := t[1 : len(t)-1]
	out := &Array{Elem: elem}
	if strings.TrimSpace(body) == "" {
		return out
	}
	i := 0
	for {
		for i < len(body) && (body[i] == ' ' || body[i] == '\t' || body[i] == '\n') {
			i++
		}
		if i >= len(body) {
			bad()
		}
		var item string
		quoted := false
		if body[i] == '{' {
			unsup("multi-dimensional array literal")
		}
		if body[i] == '"' {
			quoted = true
			i++
			var sb strings.Builder
			closed := false
			for i < len(body) {
				c := body[i]
				if c == '\\' && i+1 < len(body) {
					sb.WriteByte(body[i+1])
					i += 2
					continue
				}
				if c == '"' {
					closed = true
					i++
					break
				}
				sb.WriteByte(c)
				i++
			}
			if !closed {
				bad()
			}
			item = sb.String()
		} else {
			var sb strings.Builder
			for i < len(body) && body[i] != ',' {
				c := body[i]
				if c == '\\' && i+1 < len(body) {
					sb.WriteByte(body[i+1])
					i += 2
					continue
				}
				if c == '"' || c == '{' || c == '}' {
					bad()
				}
				sb.WriteByte(c)
				i++
			}
			item = strings.TrimSpace(sb.String())
			if item == "" {
				bad()
			}
		}
		for i < len(body) && (body[i] == ' ' || body[i] == '\t' || body[i] == '\n') {
			i++
		}
		if !quoted && strings.EqualFold(item, "null") {
			out.V = append(out.V, nil)
		} else {
			out.V = append(out.V, inputValue(item, elem))
		}
		if i >= len(body) {
			break
		}
		if body[i] != ',' {
			bad()
		}
		i++
	}
	return out
}

// castValue converts a non-Unknown, possibly NULL value to the target type with the semantics of an
// explicit cast (x::T). Errors are PostgreSQL's run-time cast errors; an impossible cast is a
// binding-class error ("cannot cast type A to B").
func castValue(v Value, target string) Value {
	if v == nil {
		return nil
	}
	if u, ok := v.(Unknown); ok {
		return inputValue(string(u), target)
	}
	src := dynType(v)
	if src == target {
		return v
	}
	cannot := func() {
		bindErr("cannot cast type %s to %s", displayType(src), displayType(target))
	}
	switch target {
	case "anyarray":
		if _, ok := v.(*Array); ok {
			return v
		}
		cannot()
	case "anyelement", "record":
		if _, ok := v.(*Row); ok && target == "record" {
			return v
		}
		unsup("cast to pseudo-type %s", target)
	case "timestamp", "timestamptz", "date", "time", "timetz", "interval", "json", "uuid", "bytea", "oid", "regclass", "inet":
		unsup("cast to type %s", target)
	}
	if isArrayType(target) {
		a, ok := v.(*Array)
		if !ok {
			if s, isText := v.(string); isText {
				return parseArrayLiteral(s, elemType(target))
			}
			if j, isJ := v.(JSONB); isJ {
				_ = j
				cannot()
			}
			cannot()
		}
		et := elemType(target)
		out := &Array{Elem: et, V: make([]Value, len(a.V))}
		for i, e := range a.V {
			out.V[i] = castValue(e, et)
		}
		return out
	}
	if def, ok := composites[target]; ok {
		r, isRow := v.(*Row)
		if !isRow {
			cannot()
		}
		if r.Type == target {
			return r
		}
		if len(r.F) != len(def.Fields) {
			bindErr("cannot cast type record to %s: Input has too %s columns.", target, map[bool]string{true: "many", false: "few"}[len(r.F) > len(def.Fields)])
		}
		out := &Row{Type: target, F: make([]Value, len(r.F))}
		for i, f := range r.F {
			out.F[i] = castValue(f, def.Types[i])
		}
		return out
	}
	switch x := v.(type) {
	case string:
		// I/O conversion cast
		return inputValue(x, target)
	case bool:
		switch target {
		case "text":
			return valueText(x)
		case "int4":
			if x {
				return int32(1)
			}
			return int32(0)
		}
		cannot()
	case int16, int32, int64:
		i := asInt64(x)
		switch target {
		case "int2", "int4", "int8":
			return mkInt(target, i)
		case "float8":
			return float64(i)
		case "float4":
			return float32(i)
		case "numeric":
			return numFromInt(i)
		case "text":
			return strconv.FormatInt(i, 10)
		case "bool":
			if _, is4 := x.(int32); is4 {
				return i != 0
			}
			cannot()
		case "jsonb":
			cannot()
		}
		cannot()
	case float32, float64:
		f := asFloat(x)
		switch target {
		case "int2", "int4", "int8":
			if math.IsNaN(f) || math.IsInf(f, 0) {
				rtErr("%s out of range", displayType(target))
			}
			r := math.RoundToEven(f)
			lo, hi := intRange(target)
			if r < float64(lo) || r >= -float64(lo) || (target != "int8" && r > float64(hi)) {
				rtErr("%s out of range", displayType(target))
			}
			return mkInt(target, int64(r))
		case "float8":
			return f
		case "float4":
			return float32(f)
		case "numeric":
			return numFromFloat(f)
		case "text":
			return valueText(x)
		}
		cannot()
	case Numeric:
		switch target {
		case "int2", "int4", "int8":
			if x.special == numNaN {
				rtErr("cannot convert NaN to %s", displayType(target))
			}
			if x.isSpecial() {
				rtErr("cannot convert infinity to %s", displayType(target))
			}
			i, ok := x.Int64()
			if !ok {
				rtErr("%s out of range", displayType(target))
			}
			return mkInt(target, i)
		case "float8":
			f := x.Float64()
			if math.IsInf(f, 0) && !x.isSpecial() {
				rtErr("%q is out of range for type double precision", x.String())
			}
			return f
		case "float4":
			return float32(x.Float64())
		case "text":
			return x.String()
		}
		cannot()
	case JSONB:
		switch target {
		case "text":
			return jsonText(x.V)
		case "bool":
			if x.V == nil {
				return nil // PostgreSQL 18: JSON null casts to SQL NULL (earlier versions raise an error)
			}
			b, ok := x.V.(bool)
			if !ok {
				rtErr("cannot cast jsonb %s to type boolean", jsonTypeof(x.V))
			}
			return b
		case "int2", "int4", "int8", "float4", "float8", "numeric":
			if x.V == nil {
				return nil
			}
			n, ok := x.V.(Numeric)
			if !ok {
				rtErr("cannot cast jsonb %s to type %s", jsonTypeof(x.V), displayType(target))
			}
			return castValue(n, target)
		}
		cannot()
	case *Array:
		if target == "text" {
			return arrayText(x)
		}
		cannot()
	case *Row:
		if target == "text" {
			return rowText(x)
		}
		cannot()
	}
	unsup("cast from %s to %s", src, target)
	return nil
}
