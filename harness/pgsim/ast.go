package pgsim

// The AST is exported and walkable (see Walk). Every node records the byte offset of its first
// token in the statement text (Pos) so that checks can point at the source.

// Node is any AST node.
type Node interface{ node() }

// Statement is one parsed SQL statement.
type Statement struct {
	SQL  string
	Body Node // *Query | *Insert | *Update | *Delete | *Merge
}

// Expr is a scalar expression.
type Expr interface {
	Node
	expr()
}

// SetExpr is the body of a Query.
type SetExpr interface {
	Node
	setExpr()
}

// FromItem is one item of a FROM list (or a join tree).
type FromItem interface {
	Node
	fromItem()
}

// ---- queries -------------------------------------------------------------------------------

// Query is [WITH …] body [ORDER BY …] [OFFSET …] [LIMIT …]. Body may be a data-modifying
// statement (WITH … INSERT/UPDATE/DELETE), which is how DAWGS prints update queries.
type Query struct {
	Pos     int
	With    *With
	Body    SetExpr // *Select | *SetOp | *Values | *Query (parenthesised) | *Insert | *Update | *Delete | *Merge
	OrderBy []*OrderItem
	Offset  Expr
	Limit   Expr
}

type With struct {
	Pos       int
	Recursive bool
	CTEs      []*CTE
}

type CTE struct {
	Pos          int
	Name         string
	Columns      []string // optional column alias list
	Materialized *bool    // nil = unspecified
	Query        *Query
}

type Select struct {
	Pos      int
	Distinct bool
	Items    []*SelectItem
	From     []FromItem
	Where    Expr
	GroupBy  []Expr
	Having   Expr
}

type SelectItem struct {
	Pos   int
	Expr  Expr // *Star for * / t.*
	Alias string
}

type SetOp struct {
	Pos  int
	Op   string // "union" | "intersect" | "except"
	All  bool
	L, R SetExpr
}

type Values struct {
	Pos  int
	Rows [][]Expr
}

type OrderItem struct {
	Pos        int
	Expr       Expr
	Desc       bool
	NullsFirst *bool // nil = default (NULLS LAST for ASC, NULLS FIRST for DESC)
}

// ---- FROM ----------------------------------------------------------------------------------

type TableRef struct {
	Pos        int
	Schema     string
	Name       string
	Alias      string
	ColAliases []string
}

type SubqueryRef struct {
	Pos        int
	Lateral    bool
	Query      *Query
	Alias      string
	ColAliases []string
}

type FuncRef struct {
	Pos            int
	Lateral        bool
	Call           *FuncCall
	WithOrdinality bool
	Alias          string
	ColAliases     []string
}

type Join struct {
	Pos   int
	Type  string // "inner" | "left" | "right" | "full" | "cross"
	L, R  FromItem
	On    Expr
	Using []string
}

// ---- DML -----------------------------------------------------------------------------------

type Insert struct {
	Pos        int
	Table      *TableRef
	Columns    []string
	Source     *Query // nil for DEFAULT VALUES
	OnConflict *OnConflict
	Returning  []*SelectItem
}

type OnConflict struct {
	Pos        int
	Columns    []string
	Constraint string
	DoNothing  bool
	Set        []*Assignment
	Where      Expr
}

type Assignment struct {
	Pos    int
	Column string
	Value  Expr
}

type Update struct {
	Pos       int
	Table     *TableRef
	Set       []*Assignment
	From      []FromItem
	Where     Expr
	Returning []*SelectItem
}

type Delete struct {
	Pos       int
	Table     *TableRef
	Using     []FromItem
	Where     Expr
	Returning []*SelectItem
}

type Merge struct {
	Pos     int
	Table   *TableRef
	Source  FromItem
	On      Expr
	Actions []*MergeAction
}

type MergeAction struct {
	Pos     int
	Matched bool
	And     Expr
	Kind    string // "update" | "delete" | "insert" | "nothing"
	Set     []*Assignment
	Columns []string
	Values  []Expr
}

// ---- expressions ---------------------------------------------------------------------------

type Literal struct {
	Pos  int
	Kind string // "int" | "numeric" | "string" | "bool" | "null"
	Text string // number text, or decoded string value
	Bool bool
}

// TypedLiteral is `typename 'text'` (e.g. interval 'P3D').
type TypedLiteral struct {
	Pos  int
	Type TypeName
	Text string
}

type ColumnRef struct {
	Pos   int
	Parts []string // a | t.a | s.t.a
}

// Star is * or t.* in a select list, count(*) uses FuncCall.Star instead.
type Star struct {
	Pos   int
	Table string
}

type Param struct {
	Pos  int
	Name string // @name
}

type Unary struct {
	Pos int
	Op  string // "not" | "-" | "+"
	X   Expr
}

// Binary covers every infix operator; Op is the operator text in lower case ("and", "or", "=",
// "<>" (also for !=), "||", "->", "like", "not like", "ilike", "not ilike", "~", …). OPERATOR(s.op)
// syntax is recorded in Schema.
type Binary struct {
	Pos    int
	Op     string
	Schema string
	L, R   Expr
}

// AnyAll is `L op ANY|ALL (R)` where R is an array expression or a sub-select.
type AnyAll struct {
	Pos    int
	Op     string
	Schema string
	All    bool
	L      Expr
	R      Expr // Expr or *SubqueryExpr
}

type IsExpr struct {
	Pos  int
	X    Expr
	Not  bool
	What string // "null" | "true" | "false" | "unknown" | "distinct from"
	R    Expr   // for IS [NOT] DISTINCT FROM
}

type InExpr struct {
	Pos   int
	X     Expr
	Not   bool
	List  []Expr
	Query *Query
}

type Between struct {
	Pos       int
	X, Lo, Hi Expr
	Not       bool
}

type Case struct {
	Pos     int
	Operand Expr
	Whens   []*When
	Else    Expr
}

type When struct {
	Pos        int
	Cond, Then Expr
}

type Exists struct {
	Pos   int
	Query *Query
}

// SubqueryExpr is a scalar sub-select `(select …)`.
type SubqueryExpr struct {
	Pos   int
	Query *Query
}

type ArrayCtor struct {
	Pos   int
	Elems []Expr
}

type ArraySubquery struct {
	Pos   int
	Query *Query
}

// RowCtor is (a, b, …) or ROW(a, …).
type RowCtor struct {
	Pos      int
	Explicit bool
	Elems    []Expr
}

type TypeName struct {
	Name      string // lower case, canonical spelling as written ("int8", "timestamp with time zone", …)
	Mods      []string
	ArrayDims int
}

type Cast struct {
	Pos  int
	X    Expr
	Type TypeName
}

// FieldSel is (X).Field; Field == "*" for (X).*.
type FieldSel struct {
	Pos   int
	X     Expr
	Field string
}

type Index struct {
	Pos int
	X   Expr
	Idx Expr
}

type Slice struct {
	Pos    int
	X      Expr
	Lo, Hi Expr // either may be nil
}

type FuncCall struct {
	Pos      int
	Schema   string
	Name     string
	Args     []Expr
	Star     bool // count(*)
	Distinct bool
	Variadic bool // last argument is VARIADIC
	OrderBy  []*OrderItem
	Filter   Expr
	Bare     bool   // keyword form without parentheses (current_date, localtime …)
	Special  string // "extract": Args = [field literal, source]; "" otherwise
}

// Paren keeps the source parentheses; the evaluator sees through it.
type Paren struct {
	Pos int
	X   Expr
}

func (*Query) node()         {}
func (*With) node()          {}
func (*CTE) node()           {}
func (*Select) node()        {}
func (*SelectItem) node()    {}
func (*SetOp) node()         {}
func (*Values) node()        {}
func (*OrderItem) node()     {}
func (*TableRef) node()      {}
func (*SubqueryRef) node()   {}
func (*FuncRef) node()       {}
func (*Join) node()          {}
func (*Insert) node()        {}
func (*OnConflict) node()    {}
func (*Assignment) node()    {}
func (*Update) node()        {}
func (*Delete) node()        {}
func (*Merge) node()         {}
func (*MergeAction) node()   {}
func (*Literal) node()       {}
func (*TypedLiteral) node()  {}
func (*ColumnRef) node()     {}
func (*Star) node()          {}
func (*Param) node()         {}
func (*Unary) node()         {}
func (*Binary) node()        {}
func (*AnyAll) node()        {}
func (*IsExpr) node()        {}
func (*InExpr) node()        {}
func (*Between) node()       {}
func (*Case) node()          {}
func (*When) node()          {}
func (*Exists) node()        {}
func (*SubqueryExpr) node()  {}
func (*ArrayCtor) node()     {}
func (*ArraySubquery) node() {}
func (*RowCtor) node()       {}
func (*Cast) node()          {}
func (*FieldSel) node()      {}
func (*Index) node()         {}
func (*Slice) node()         {}
func (*FuncCall) node()      {}
func (*Paren) node()         {}

func (*Literal) expr()       {}
func (*TypedLiteral) expr()  {}
func (*ColumnRef) expr()     {}
func (*Star) expr()          {}
func (*Param) expr()         {}
func (*Unary) expr()         {}
func (*Binary) expr()        {}
func (*AnyAll) expr()        {}
func (*IsExpr) expr()        {}
func (*InExpr) expr()        {}
func (*Between) expr()       {}
func (*Case) expr()          {}
func (*Exists) expr()        {}
func (*SubqueryExpr) expr()  {}
func (*ArrayCtor) expr()     {}
func (*ArraySubquery) expr() {}
func (*RowCtor) expr()       {}
func (*Cast) expr()          {}
func (*FieldSel) expr()      {}
func (*Index) expr()         {}
func (*Slice) expr()         {}
func (*FuncCall) expr()      {}
func (*Paren) expr()         {}

func (*Select) setExpr() {}
func (*SetOp) setExpr()  {}
func (*Values) setExpr() {}
func (*Query) setExpr()  {}
func (*Insert) setExpr() {}
func (*Update) setExpr() {}
func (*Delete) setExpr() {}
func (*Merge) setExpr()  {}

func (*TableRef) fromItem()    {}
func (*SubqueryRef) fromItem() {}
func (*FuncRef) fromItem()     {}
func (*Join) fromItem()        {}

// Walk calls f for n and, if f returns true, for every child of n in source order.
func Walk(n Node, f func(Node) bool) {
	if isNilNode(n) || !f(n) {
		return
	}
	for _, c := range Children(n) {
		Walk(c, f)
	}
}

func isNilNode(n Node) bool {
	if n == nil {
		return true
	}
	switch t := n.(type) {
	case *Query:
		return t == nil
	case *With:
		return t == nil
	case *OnConflict:
		return t == nil
	case *TableRef:
		return t == nil
	case *FuncCall:
		return t == nil
	}
	return false
}

// Children lists the direct children of a node in source order.
func Children(n Node) []Node {
	var out []Node
	add := func(c Node) {
		if !isNilNode(c) {
			out = append(out, c)
		}
	}
	addE := func(e Expr) {
		if e != nil {
			out = append(out, e)
		}
	}
	addItems := func(items []*SelectItem) {
		for _, it := range items {
			out = append(out, it)
		}
	}
	addFrom := func(items []FromItem) {
		for _, it := range items {
			out = append(out, it)
		}
	}
	addOrder := func(items []*OrderItem) {
		for _, it := range items {
			out = append(out, it)
		}
	}
	switch t := n.(type) {
	case *Query:
		if t.With != nil {
			add(t.With)
		}
		if t.Body != nil {
			out = append(out, t.Body)
		}
		addOrder(t.OrderBy)
		addE(t.Offset)
		addE(t.Limit)
	case *With:
		for _, c := range t.CTEs {
			out = append(out, c)
		}
	case *CTE:
		add(t.Query)
	case *Select:
		addItems(t.Items)
		addFrom(t.From)
		addE(t.Where)
		for _, g := range t.GroupBy {
			addE(g)
		}
		addE(t.Having)
	case *SelectItem:
		addE(t.Expr)
	case *SetOp:
		out = append(out, t.L, t.R)
	case *Values:
		for _, r := range t.Rows {
			for _, e := range r {
				addE(e)
			}
		}
	case *OrderItem:
		addE(t.Expr)
	case *TableRef:
	case *SubqueryRef:
		add(t.Query)
	case *FuncRef:
		add(t.Call)
	case *Join:
		out = append(out, t.L, t.R)
		addE(t.On)
	case *Insert:
		add(t.Table)
		add(t.Source)
		if t.OnConflict != nil {
			add(t.OnConflict)
		}
		addItems(t.Returning)
	case *OnConflict:
		for _, a := range t.Set {
			out = append(out, a)
		}
		addE(t.Where)
	case *Assignment:
		addE(t.Value)
	case *Update:
		add(t.Table)
		for _, a := range t.Set {
			out = append(out, a)
		}
		addFrom(t.From)
		addE(t.Where)
		addItems(t.Returning)
	case *Delete:
		add(t.Table)
		addFrom(t.Using)
		addE(t.Where)
		addItems(t.Returning)
	case *Merge:
		add(t.Table)
		if t.Source != nil {
			out = append(out, t.Source)
		}
		addE(t.On)
		for _, a := range t.Actions {
			out = append(out, a)
		}
	case *MergeAction:
		addE(t.And)
		for _, a := range t.Set {
			out = append(out, a)
		}
		for _, v := range t.Values {
			addE(v)
		}
	case *Unary:
		addE(t.X)
	case *Binary:
		addE(t.L)
		addE(t.R)
	case *AnyAll:
		addE(t.L)
		addE(t.R)
	case *IsExpr:
		addE(t.X)
		addE(t.R)
	case *InExpr:
		addE(t.X)
		for _, e := range t.List {
			addE(e)
		}
		add(t.Query)
	case *Between:
		addE(t.X)
		addE(t.Lo)
		addE(t.Hi)
	case *Case:
		addE(t.Operand)
		for _, w := range t.Whens {
			out = append(out, w)
		}
		addE(t.Else)
	case *When:
		addE(t.Cond)
		addE(t.Then)
	case *Exists:
		add(t.Query)
	case *SubqueryExpr:
		add(t.Query)
	case *ArrayCtor:
		for _, e := range t.Elems {
			addE(e)
		}
	case *ArraySubquery:
		add(t.Query)
	case *RowCtor:
		for _, e := range t.Elems {
			addE(e)
		}
	case *Cast:
		addE(t.X)
	case *FieldSel:
		addE(t.X)
	case *Index:
		addE(t.X)
		addE(t.Idx)
	case *Slice:
		addE(t.X)
		addE(t.Lo)
		addE(t.Hi)
	case *FuncCall:
		for _, e := range t.Args {
			addE(e)
		}
		addOrder(t.OrderBy)
		addE(t.Filter)
	case *Paren:
		addE(t.X)
	}
	return out
}

// String renders a type name as PostgreSQL would print the cast target.
func (t TypeName) String() string {
	s := t.Name
	if len(t.Mods) > 0 {
		s += "("
		for i, m := range t.Mods {
			if i > 0 {
				s += ","
			}
			s += m
		}
		s += ")"
	}
	for i := 0; i < t.ArrayDims; i++ {
		s += "[]"
	}
	return s
}

func stripParen(e Expr) Expr {
	for {
		p, ok := e.(*Paren)
		if !ok {
			return e
		}
		e = p.X
	}
}
