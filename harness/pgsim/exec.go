package pgsim

import (
	"sort"
	"strings"
)

// limits of the evaluator (exceeding them is reported as Unsupported, never as a result)
const (
	maxRecursiveIterations = 100_000
	maxRelationRows        = 2_000_000
)

func (x *executor) evalQuery(q *Query, parent *frame) *relation {
	fr := &frame{parent: parent, q: q}
	qi := x.b.query[q]
	if qi == nil {
		unsup("internal: query was not bound")
	}
	var rows [][]Value
	var keys [][]Value
	switch body := q.Body.(type) {
	case *Select:
		rows, keys = x.evalSelect(body, fr, q.OrderBy, qi.orderIdx)
	case *SetOp, *Values, *Query:
		rows = x.evalSetExpr(body, fr)
		if len(q.OrderBy) > 0 {
			keys = make([][]Value, len(rows))
			for i, r := range rows {
				k := make([]Value, len(q.OrderBy))
				for j, idx := range qi.orderIdx {
					if idx < 0 || idx >= len(r) {
						unsup("ORDER BY expression over a set operation")
					}
					k[j] = r[idx]
				}
				keys[i] = k
			}
		}
	default:
		unsup("data-modifying statement")
	}
	if len(q.OrderBy) > 0 {
		idx := make([]int, len(rows))
		for i := range idx {
			idx[i] = i
		}
		sort.SliceStable(idx, func(a, b int) bool { return orderLess(q.OrderBy, keys[idx[a]], keys[idx[b]]) })
		sorted := make([][]Value, len(rows))
		for i, j := range idx {
			sorted[i] = rows[j]
		}
		rows = sorted
	}
	if q.Offset != nil {
		n, isNull := x.evalCount(q.Offset, fr, "OFFSET")
		if !isNull {
			if n >= int64(len(rows)) {
				rows = nil
			} else {
				rows = rows[n:]
			}
		}
	}
	if q.Limit != nil {
		n, isNull := x.evalCount(q.Limit, fr, "LIMIT")
		if !isNull && n < int64(len(rows)) {
			rows = rows[:n]
		}
	}
	return &relation{rows: rows}
}

func (x *executor) evalCount(e Expr, fr *frame, what string) (int64, bool) {
	v := x.evalExpr(e, fr)
	if v == nil {
		return 0, true
	}
	if u, ok := v.(Unknown); ok {
		v = parseIntText(string(u), "int8")
	}
	switch t := v.(type) {
	case int16, int32, int64:
		n := asInt64(t)
		if n < 0 {
			rtErr("%s must not be negative", what)
		}
		return n, false
	case float32, float64, Numeric:
		n := asInt64(castValue(t, "int8"))
		if n < 0 {
			rtErr("%s must not be negative", what)
		}
		return n, false
	}
	bindErr("argument of %s must be type bigint, not type %s", what, displayType(dynType(v)))
	return 0, false
}

func (x *executor) evalSetExpr(s SetExpr, fr *frame) [][]Value {
	switch t := s.(type) {
	case *Select:
		rows, _ := x.evalSelect(t, fr, nil, nil)
		return rows
	case *Query:
		return x.evalQuery(t, fr).rows
	case *Values:
		var rows [][]Value
		for _, r := range t.Rows {
			row := make([]Value, len(r))
			for i, e := range r {
				row[i] = outputValue(x.evalExpr(e, fr))
			}
			rows = append(rows, row)
		}
		return rows
	case *SetOp:
		l := x.evalSetExpr(t.L, fr)
		r := x.evalSetExpr(t.R, fr)
		return setOperation(t, l, r)
	}
	unsup("set expression %T", s)
	return nil
}

func rowKey(r []Value) string {
	var sb strings.Builder
	for _, v := range r {
		writeGroupKey(&sb, v)
		sb.WriteByte('|')
	}
	return sb.String()
}

func setOperation(t *SetOp, l, r [][]Value) [][]Value {
	switch t.Op {
	case "union":
		all := append(append([][]Value(nil), l...), r...)
		if t.All {
			return all
		}
		return distinctRows(all)
	case "intersect", "except":
		rc := map[string]int{}
		for _, row := range r {
			rc[rowKey(row)]++
		}
		var out [][]Value
		if t.All {
			for _, row := range l {
				k := rowKey(row)
				if t.Op == "intersect" {
					if rc[k] > 0 {
						rc[k]--
						out = append(out, row)
					}
				} else {
					if rc[k] > 0 {
						rc[k]--
					} else {
						out = append(out, row)
					}
				}
			}
			return out
		}
		for _, row := range distinctRows(l) {
			k := rowKey(row)
			if (t.Op == "intersect") == (rc[k] > 0) {
				out = append(out, row)
			}
		}
		return out
	}
	unsup("set operation %s", t.Op)
	return nil
}

func distinctRows(rows [][]Value) [][]Value {
	seen := map[string]bool{}
	var out [][]Value
	for _, r := range rows {
		k := rowKey(r)
		if seen[k] {
			continue
		}
		seen[k] = true
		out = append(out, r)
	}
	return out
}

func outputValue(v Value) Value {
	if u, ok := v.(Unknown); ok {
		return string(u)
	}
	return v
}

// ---- CTEs ------------------------------------------------------------------------------------

// cteRelation finds (materialising on first use) the relation of a CTE referenced from frame fr.
func (x *executor) cteRelation(ci *cteInfo, fr *frame) *relation {
	for f := fr; f != nil; f = f.parent {
		if f.work != nil {
			if rel, ok := f.work[ci.cte]; ok {
				return rel
			}
		}
		if f.q != nil && f.q.With != nil {
			for _, c := range f.q.With.CTEs {
				if c == ci.cte {
					if f.ctes == nil {
						f.ctes = map[*CTE]*relation{}
					}
					if rel, ok := f.ctes[c]; ok {
						if rel == nil {
							unsup("CTE %q referenced while it is being evaluated", c.Name)
						}
						return rel
					}
					f.ctes[c] = nil
					rel := x.materializeCTE(ci, f)
					f.ctes[c] = rel
					return rel
				}
			}
		}
	}
	unsup("internal: CTE %q not found in any enclosing frame", ci.cte.Name)
	return nil
}

func (x *executor) materializeCTE(ci *cteInfo, owner *frame) *relation {
	c := ci.cte
	if !ci.recursive {
		return x.evalQuery(c.Query, owner)
	}
	so := c.Query.Body.(*SetOp)
	qfr := &frame{parent: owner, q: c.Query, work: map[*CTE]*relation{}}
	work := x.evalSetExpr(so.L, qfr)
	seen := map[string]bool{}
	if !so.All {
		work = distinctRows(work)
		for _, r := range work {
			seen[rowKey(r)] = true
		}
	}
	result := append([][]Value(nil), work...)
	for iter := 0; len(work) > 0; iter++ {
		if iter > maxRecursiveIterations {
			unsup("resource limit: recursive CTE %q did not finish in %d iterations", c.Name, maxRecursiveIterations)
		}
		qfr.work[c] = &relation{rows: work}
		next := x.evalSetExpr(so.R, qfr)
		if !so.All {
			var fresh [][]Value
			for _, r := range next {
				k := rowKey(r)
				if seen[k] {
					continue
				}
				seen[k] = true
				fresh = append(fresh, r)
			}
			next = fresh
		}
		result = append(result, next...)
		if len(result) > maxRelationRows {
			unsup("resource limit: recursive CTE %q produced more than %d rows", c.Name, maxRelationRows)
		}
		work = next
	}
	delete(qfr.work, c)
	return &relation{rows: result}
}

// ---- SELECT ----------------------------------------------------------------------------------

func (x *executor) evalSelect(s *Select, parent *frame, order []*OrderItem, orderIdx []int) ([][]Value, [][]Value) {
	si := x.b.sel[s]
	if si == nil {
		unsup("internal: select was not bound")
	}
	fr := &frame{parent: parent, si: si, rows: make([][]Value, si.nRTE)}
	combos := x.evalFromList(s.From, fr, si)
	if s.Where != nil {
		kept := combos[:0:0]
		for _, c := range combos {
			fr.rows = c
			if b, null := x.evalBool(s.Where, fr); !null && b {
				kept = append(kept, c)
			}
		}
		combos = kept
	}
	var outRows, outKeys [][]Value
	project := func() {
		row := make([]Value, len(si.out))
		for i, oc := range si.out {
			if oc.expr == nil {
				r := fr.rows[oc.rte]
				if r != nil {
					row[i] = r[oc.col]
				}
				continue
			}
			v := x.evalExpr(oc.expr, fr)
			if u, ok := v.(Unknown); ok {
				// an untyped literal in a select list becomes text
				v = string(u)
			}
			row[i] = v
		}
		outRows = append(outRows, row)
		if len(order) > 0 {
			k := make([]Value, len(order))
			for j, o := range order {
				if orderIdx[j] >= 0 {
					k[j] = row[orderIdx[j]]
				} else {
					k[j] = outputValue(x.evalExpr(o.Expr, fr))
				}
			}
			outKeys = append(outKeys, k)
		}
	}
	if si.hasAgg {
		type grp struct{ members [][][]Value }
		var groups []*grp
		if len(si.groupBy) == 0 {
			groups = []*grp{{members: combos}}
		} else {
			index := map[string]*grp{}
			for _, c := range combos {
				fr.rows = c
				var sb strings.Builder
				for _, g := range si.groupBy {
					var v Value
					if or, ok := g.(*outRef); ok {
						oc := si.out[or.Idx]
						if oc.expr == nil {
							if r := fr.rows[oc.rte]; r != nil {
								v = r[oc.col]
							}
						} else {
							v = x.evalExpr(oc.expr, fr)
						}
					} else {
						v = x.evalExpr(g, fr)
					}
					writeGroupKey(&sb, v)
					sb.WriteByte('|')
				}
				k := sb.String()
				g, ok := index[k]
				if !ok {
					g = &grp{}
					index[k] = g
					groups = append(groups, g)
				}
				g.members = append(g.members, c)
			}
		}
		for _, g := range groups {
			fr.group = g.members
			if fr.group == nil {
				fr.group = [][][]Value{}
			}
			if len(g.members) > 0 {
				fr.rows = g.members[0]
			} else {
				fr.rows = make([][]Value, si.nRTE)
			}
			if s.Having != nil {
				if b, null := x.evalBool(s.Having, fr); null || !b {
					continue
				}
			}
			project()
		}
		fr.group = nil
	} else {
		for _, c := range combos {
			fr.rows = c
			project()
		}
	}
	if s.Distinct {
		seen := map[string]bool{}
		var dr, dk [][]Value
		for i, r := range outRows {
			k := rowKey(r)
			if seen[k] {
				continue
			}
			seen[k] = true
			dr = append(dr, r)
			if outKeys != nil {
				dk = append(dk, outKeys[i])
			}
		}
		outRows, outKeys = dr, dk
	}
	return outRows, outKeys
}

// ---- FROM ------------------------------------------------------------------------------------

type fromCache map[FromItem][][]Value

func (x *executor) evalFromList(items []FromItem, fr *frame, si *selInfo) [][][]Value {
	combos := [][][]Value{make([][]Value, si.nRTE)}
	cache := fromCache{}
	for _, item := range items {
		var next [][][]Value
		for _, c := range combos {
			next = append(next, x.evalFromItem(item, fr, si, c, cache)...)
			if len(next) > maxRelationRows {
				unsup("resource limit: FROM clause produced more than %d rows", maxRelationRows)
			}
		}
		combos = next
	}
	return combos
}

func cloneCombo(c [][]Value) [][]Value {
	out := make([][]Value, len(c))
	copy(out, c)
	return out
}

// leafRows returns the rows a leaf FROM item produces given the rows bound so far (base).
func (x *executor) leafRows(item FromItem, fr *frame, base [][]Value, cache fromCache) [][]Value {
	switch t := item.(type) {
	case *TableRef:
		if rows, ok := cache[t]; ok {
			return rows
		}
		var rows [][]Value
		if ci, isCTE := x.b.tableCTE[t]; isCTE {
			rows = x.cteRelation(ci, fr).rows
		} else {
			tbl, ok := x.db.table(t.Name)
			if !ok {
				bindErr("relation %q does not exist", t.Name)
			}
			rows = tbl
		}
		// recursive working tables change between iterations: do not cache CTE rows across calls of
		// evalFromList (the cache lives for one FROM evaluation only, which is safe)
		cache[t] = rows
		return rows
	case *SubqueryRef:
		if !t.Lateral {
			if rows, ok := cache[t]; ok {
				return rows
			}
			saved := fr.rows
			fr.rows = make([][]Value, len(base))
			rows := x.evalQuery(t.Query, fr).rows
			fr.rows = saved
			cache[t] = rows
			return rows
		}
		saved := fr.rows
		fr.rows = base
		rows := x.evalQuery(t.Query, fr).rows
		fr.rows = saved
		return rows
	case *FuncRef:
		saved := fr.rows
		fr.rows = base
		defer func() { fr.rows = saved }()
		def, ok := lookupFunc(t.Call.Name)
		if !ok {
			bindErr("function %s does not exist", t.Call.Name)
		}
		if def.unsupported != "" {
			unsup("function %s: %s", t.Call.Name, def.unsupported)
		}
		var rows [][]Value
		if def.srf {
			args := make([]Value, len(t.Call.Args))
			for i, a := range t.Call.Args {
				args[i] = x.evalExpr(a, fr)
			}
			rows = def.rows(x, args)
		} else {
			// a scalar function in FROM yields one row
			v := x.evalFuncCall(t.Call, fr)
			if r, isRow := v.(*Row); isRow && r.Type != "" {
				rows = [][]Value{append([]Value(nil), r.F...)}
			} else {
				rows = [][]Value{{outputValue(v)}}
			}
		}
		if t.WithOrdinality {
			out := make([][]Value, len(rows))
			for i, r := range rows {
				out[i] = append(append([]Value(nil), r...), int64(i+1))
			}
			rows = out
		}
		return rows
	}
	unsup("FROM item %T", item)
	return nil
}

func isLateralItem(item FromItem) bool {
	switch t := item.(type) {
	case *SubqueryRef:
		return t.Lateral
	case *FuncRef:
		return true
	case *Join:
		return isLateralItem(t.L) || isLateralItem(t.R)
	}
	return false
}

func rteIndexes(item FromItem, si *selInfo, out []int) []int {
	switch t := item.(type) {
	case *Join:
		out = rteIndexes(t.L, si, out)
		return rteIndexes(t.R, si, out)
	default:
		return append(out, si.rteOf[item])
	}
}

// evalFromItem extends base (rows bound so far) with every row combination the item produces.
func (x *executor) evalFromItem(item FromItem, fr *frame, si *selInfo, base [][]Value, cache fromCache) [][][]Value {
	if j, ok := item.(*Join); ok {
		return x.evalJoin(j, fr, si, base, cache)
	}
	idx, ok := si.rteOf[item]
	if !ok {
		unsup("internal: FROM item without range-table index")
	}
	rows := x.leafRows(item, fr, base, cache)
	x.tick(len(rows))
	out := make([][][]Value, 0, len(rows))
	for _, r := range rows {
		c := cloneCombo(base)
		if r == nil {
			r = []Value{}
		}
		c[idx] = r
		out = append(out, c)
	}
	return out
}

func (x *executor) evalJoin(j *Join, fr *frame, si *selInfo, base [][]Value, cache fromCache) [][][]Value {
	lefts := x.evalFromItem(j.L, fr, si, base, cache)
	onTrue := func(c [][]Value) bool {
		if j.On == nil {
			return true
		}
		saved := fr.rows
		fr.rows = c
		b, null := x.evalBool(j.On, fr)
		fr.rows = saved
		return !null && b
	}
	var out [][][]Value
	switch j.Type {
	case "inner", "cross", "left":
		for _, l := range lefts {
			matched := false
			for _, c := range x.evalFromItem(j.R, fr, si, l, cache) {
				if onTrue(c) {
					matched = true
					out = append(out, c)
				}
			}
			if !matched && j.Type == "left" {
				out = append(out, l) // right side stays nil: NULL-extended
			}
			if len(out) > maxRelationRows {
				unsup("resource limit: join produced more than %d rows", maxRelationRows)
			}
		}
	case "right", "full":
		if isLateralItem(j.R) {
			bindErr("invalid reference to FROM-clause entry: the combining JOIN type must be INNER or LEFT for a LATERAL reference")
		}
		rights := x.evalFromItem(j.R, fr, si, base, cache)
		ridx := rteIndexes(j.R, si, nil)
		rightMatched := make([]bool, len(rights))
		for _, l := range lefts {
			matched := false
			for ri, r := range rights {
				c := cloneCombo(l)
				for _, k := range ridx {
					c[k] = r[k]
				}
				if onTrue(c) {
					matched = true
					rightMatched[ri] = true
					out = append(out, c)
				}
			}
			if !matched && j.Type == "full" {
				out = append(out, l)
			}
		}
		for ri, r := range rights {
			if !rightMatched[ri] {
				out = append(out, r) // left side stays as in base: NULL-extended
			}
		}
	default:
		unsup("join type %s", j.Type)
	}
	return out
}
