package pgsim

import (
	"fmt"
	"math/rand"
	"strings"
	"testing"

	"verif/sqltok"
)

// TestMutatedSQLNeverPanics feeds token-level mutations of the golden statements through
// Parse / Bind / Exec: every input must end in one of the three outcomes; a Go panic inside pgsim
// (reported as Unsupported "internal error") is a pgsim bug and fails the test.
func TestMutatedSQLNeverPanics(t *testing.T) {
	db := testDB()
	rng := rand.New(rand.NewSource(20260925))
	goldens := loadGoldens(t)
	perStmt := 20
	if testing.Short() {
		perStmt = 3
	}
	counts := map[string]int{}
	internal := 0
	for _, c := range goldens {
		toks := sqltok.Lex(c.SQL)
		if len(toks) < 3 {
			continue
		}
		for k := 0; k < perStmt; k++ {
			mut := mutateTokens(rng, c.SQL, toks)
			outcome := func() (o string) {
				defer func() {
					if r := recover(); r != nil {
						o = fmt.Sprintf("PANIC %v", r)
					}
				}()
				stmt, err := Parse(mut)
				if err != nil {
					if err.(*ParseError).Unsupported {
						return "parse-unsupported"
					}
					return "syntax"
				}
				params := map[string]any{}
				for _, p := range paramNames(stmt) {
					params[p] = "x"
				}
				for _, is := range Bind(stmt, params) {
					if is.Kind == "unsupported" && strings.HasPrefix(is.Msg, "internal error") {
						return "INTERNAL (bind) " + is.Msg
					}
				}
				_, out := db.Exec(stmt, params)
				switch {
				case out.OK:
					return "rows"
				case out.Err != nil:
					return "error:" + out.Err.Class
				}
				if strings.HasPrefix(out.Unsupported, "internal error") {
					return "INTERNAL " + out.Unsupported
				}
				return "unsupported"
			}()
			if strings.HasPrefix(outcome, "PANIC") || strings.HasPrefix(outcome, "INTERNAL") {
				internal++
				if internal <= 15 {
					t.Errorf("%s\n   sql: %s", outcome, mut)
				}
				continue
			}
			counts[outcome]++
		}
	}
	t.Logf("mutants: %v, internal errors: %d", counts, internal)
}

func mutateTokens(rng *rand.Rand, sql string, toks []sqltok.Token) string {
	i := rng.Intn(len(toks))
	t := toks[i]
	end := t.Pos + len(t.Text)
	switch rng.Intn(7) {
	case 0: // delete a token
		return sql[:t.Pos] + sql[end:]
	case 1: // duplicate a token
		return sql[:end] + " " + t.Text + sql[end:]
	case 2: // swap with the next token
		if i+1 < len(toks) {
			n := toks[i+1]
			nend := n.Pos + len(n.Text)
			return sql[:t.Pos] + n.Text + sql[end:n.Pos] + t.Text + sql[nend:]
		}
		return sql[:t.Pos] + sql[end:]
	case 3: // replace by another token of the statement
		o := toks[rng.Intn(len(toks))]
		return sql[:t.Pos] + o.Text + sql[end:]
	case 4: // replace by a hostile fragment
		frags := []string{"null", "''", "0", "-1", "9223372036854775807", "(", ")", "::int8", "::jsonb", "[1]", ".id", "array[]", "'{}'", "*", "select", "1.5", "'abc'", "@nope", "(select 1)", "row()", "not", "is null"}
		return sql[:t.Pos] + frags[rng.Intn(len(frags))] + sql[end:]
	case 5: // truncate
		return sql[:t.Pos]
	default: // insert a fragment after the token
		frags := []string{" and false", " or null", " || null", "::text", " is not null", " limit 0", " offset 1", " -> 'x'", " ->> 0", " = any (array[]::int8[])", "[0:1]", " desc"}
		return sql[:end] + frags[rng.Intn(len(frags))] + sql[end:]
	}
}
