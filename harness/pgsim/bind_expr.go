package pgsim

import (
	"encoding/json"
	"math"
	"strconv"
	"strings"
)

func literalIntType(text string) string {
	clean := strings.ReplaceAll(text, "_", "")
	v, err := strconv.ParseInt(clean, 10, 64)
	if err != nil {
		return "numeric"
	}
	if v >= math.MinInt32 && v <= math.MaxInt32 {
		return "int4"
	}
	return "int8"
}

func paramStaticType(v any) string {
	switch t := v.(type) {
	case nil:
		return "unknown"
	case string:
		return "unknown"
	case bool:
		return "bool"
	case int, int8, int16, int32, int64, uint, uint8, uint16, uint32, uint64:
		return "int8"
	case float32, float64:
		return "float8"
	case []string:
		return "text[]"
	case []int64, []int, []int32, []uint32, []uint64:
		return "int8[]"
	case []int16:
		return "int2[]"
	case []float64:
		return "float8[]"
	case []any:
		et := ""
		for _, e := range t {
			et = unifyTypes(et, paramStaticType(e))
		}
		if et == "unknown" || et == "" {
			et = "text"
		}
		return et + "[]"
	case map[string]any:
		return "jsonb"
	case json.Marshaler:
		return "jsonb"
	}
	return ""
}

func isNumType(t string) bool {
	switch t {
	case "int2", "int4", "int8", "numeric", "float4", "float8":
		return true
	}
	return false
}

func arithType(a, b string) string {
	if a == "unknown" || a == "" {
		a = b
	}
	if b == "unknown" || b == "" {
		b = a
	}
	if !isNumType(a) || !isNumType(b) {
		return ""
	}
	if a == "float8" || b == "float8" || a == "float4" || b == "float4" {
		if a == "float4" && b == "float4" {
			return "float4"
		}
		return "float8"
	}
	return unifyTypes(a, b)
}

func (b *binding) bindExpr(e Expr, sc *scope, aggOK bool) string {
	t := b.bindExpr1(e, sc, aggOK)
	if e != nil {
		b.types[e] = t
	}
	return t
}

func (b *binding) bindExpr1(e Expr, sc *scope, aggOK bool) string {
	switch t := e.(type) {
	case nil:
		return ""
	case *Paren:
		return b.bindExpr(t.X, sc, aggOK)
	case *Literal:
		switch t.Kind {
		case "int":
			return literalIntType(t.Text)
		case "numeric":
			return "numeric"
		case "string", "null":
			return "unknown"
		case "bool":
			return "bool"
		}
		return ""
	case *TypedLiteral:
		ct, ok := canonType(t.Type)
		if !ok {
			b.issue("undefined-type", t.Pos, true, "type %q does not exist", t.Type.String())
			return ""
		}
		return ct
	case *ColumnRef:
		typ, _ := b.lookupColumn(t, sc, false)
		return typ
	case *Star:
		b.issue("unsupported", t.Pos, false, "* outside of a select list")
		return ""
	case *outRef:
		return ""
	case *Param:
		b.stats.Params++
		v, ok := b.params[t.Name]
		if !ok {
			b.issue("missing-parameter", t.Pos, true, "no value for parameter @%s", t.Name)
			return ""
		}
		return paramStaticType(v)
	case *Unary:
		xt := b.bindExpr(t.X, sc, aggOK)
		if t.Op == "not" {
			return "bool"
		}
		if xt == "unknown" {
			return "float8"
		}
		return xt
	case *Binary:
		lt := b.bindExpr(t.L, sc, aggOK)
		rt := b.bindExpr(t.R, sc, aggOK)
		return binaryType(t.Op, lt, rt)
	case *AnyAll:
		b.bindExpr(t.L, sc, aggOK)
		if sq, ok := t.R.(*SubqueryExpr); ok {
			qi := b.bindQuery(sq.Query, sc)
			if len(qi.cols) != 1 {
				b.issue("arity-mismatch", sq.Pos, true, "subquery has too %s columns", fewMany(len(qi.cols), 1))
			}
			b.types[sq] = ""
		} else {
			b.bindExpr(t.R, sc, aggOK)
		}
		return "bool"
	case *IsExpr:
		b.bindExpr(t.X, sc, aggOK)
		if t.R != nil {
			b.bindExpr(t.R, sc, aggOK)
		}
		return "bool"
	case *InExpr:
		b.bindExpr(t.X, sc, aggOK)
		for _, x := range t.List {
			b.bindExpr(x, sc, aggOK)
		}
		if t.Query != nil {
			qi := b.bindQuery(t.Query, sc)
			want := 1
			if rc, ok := stripParen(t.X).(*RowCtor); ok {
				want = len(rc.Elems)
			}
			if len(qi.cols) != want {
				b.issue("arity-mismatch", t.Pos, true, "subquery has too %s columns", fewMany(len(qi.cols), want))
			}
		}
		return "bool"
	case *Between:
		b.bindExpr(t.X, sc, aggOK)
		b.bindExpr(t.Lo, sc, aggOK)
		b.bindExpr(t.Hi, sc, aggOK)
		return "bool"
	case *Case:
		if t.Operand != nil {
			b.bindExpr(t.Operand, sc, aggOK)
		}
		res := ""
		for _, w := range t.Whens {
			b.bindExpr(w.Cond, sc, aggOK)
			res = unifyTypes(res, b.bindExpr(w.Then, sc, aggOK))
		}
		if t.Else != nil {
			res = unifyTypes(res, b.bindExpr(t.Else, sc, aggOK))
		}
		if res == "unknown" {
			res = "text"
		}
		return res
	case *Exists:
		b.bindQuery(t.Query, sc)
		return "bool"
	case *SubqueryExpr:
		qi := b.bindQuery(t.Query, sc)
		if len(qi.cols) != 1 {
			b.issue("arity-mismatch", t.Pos, true, "subquery must return only one column")
			return ""
		}
		return qi.types[0]
	case *ArraySubquery:
		qi := b.bindQuery(t.Query, sc)
		if len(qi.cols) != 1 {
			b.issue("arity-mismatch", t.Pos, true, "subquery must return only one column")
			return ""
		}
		if qi.types[0] == "" {
			return ""
		}
		if isArrayType(qi.types[0]) {
			return qi.types[0]
		}
		return qi.types[0] + "[]"
	case *ArrayCtor:
		et := ""
		for _, x := range t.Elems {
			xt := b.bindExpr(x, sc, aggOK)
			if isArrayType(xt) {
				xt = elemType(xt) // nested array constructor: multi-dimensional
			}
			et = unifyTypes(et, xt)
		}
		if len(t.Elems) == 0 {
			b.issue("undefined-type", t.Pos, true, "cannot determine type of empty array")
			return ""
		}
		if et == "unknown" {
			et = "text"
		}
		if et == "" {
			return ""
		}
		return et + "[]"
	case *RowCtor:
		for _, x := range t.Elems {
			b.bindExpr(x, sc, aggOK)
		}
		return "record"
	case *Cast:
		ct, ok := canonType(t.Type)
		if ac, isCtor := t.X.(*ArrayCtor); isCtor && len(ac.Elems) == 0 {
			// ARRAY[]::T[] is the one place an empty array constructor is legal
			if ok && isArrayType(ct) {
				b.types[ac] = ct
				return ct
			}
		}
		xt := b.bindExpr(t.X, sc, aggOK)
		if !ok {
			b.issue("undefined-type", t.Pos, true, "type %q does not exist", t.Type.String())
			return ""
		}
		if ct == "anyarray" {
			return xt
		}
		return ct
	case *FieldSel:
		xt := b.bindExpr(t.X, sc, aggOK)
		if t.Field == "*" {
			b.issue("unsupported", t.Pos, false, "(expr).* outside of a select list")
			return ""
		}
		switch {
		case xt == "":
			b.stats.UnknownTyped++
			b.issue("unknown-type", t.Pos, false, "field %q selected from an expression of undetermined type", t.Field)
			return ""
		case xt == "record":
			// anonymous record: PostgreSQL cannot resolve names other than f1..fn statically
			if rc, ok := stripParen(t.X).(*RowCtor); ok && strings.HasPrefix(t.Field, "f") {
				if n, err := strconv.Atoi(t.Field[1:]); err == nil && n >= 1 && n <= len(rc.Elems) {
					return b.types[rc.Elems[n-1]]
				}
			}
			b.issue("undefined-field", t.Pos, true, "could not identify column %q in record data type", t.Field)
			return ""
		}
		def, ok := composites[xt]
		if !ok {
			b.issue("undefined-field", t.Pos, true, "column notation .%s applied to type %s, which is not a composite type", t.Field, displayType(xt))
			return ""
		}
		for i, f := range def.Fields {
			if f == t.Field {
				b.stats.FieldSelections++
				return def.Types[i]
			}
		}
		b.issue("undefined-field", t.Pos, true, "column %q not found in data type %s", t.Field, xt)
		return ""
	case *Index:
		xt := b.bindExpr(t.X, sc, aggOK)
		b.bindExpr(t.Idx, sc, aggOK)
		switch {
		case isArrayType(xt):
			return elemType(xt)
		case xt == "jsonb":
			return "jsonb"
		case xt == "":
			return ""
		}
		b.issue("undefined-field", t.Pos, true, "cannot subscript type %s because it does not support subscripting", displayType(xt))
		return ""
	case *Slice:
		xt := b.bindExpr(t.X, sc, aggOK)
		if t.Lo != nil {
			b.bindExpr(t.Lo, sc, aggOK)
		}
		if t.Hi != nil {
			b.bindExpr(t.Hi, sc, aggOK)
		}
		if xt != "" && !isArrayType(xt) && xt != "jsonb" {
			b.issue("undefined-field", t.Pos, true, "cannot subscript type %s because it does not support subscripting", displayType(xt))
			return ""
		}
		return xt
	case *FuncCall:
		return b.bindFuncCall(t, sc, aggOK)
	}
	b.issue("unsupported", 0, false, "expression node %T", e)
	return ""
}

func fewMany(got, want int) string {
	if got < want {
		return "few"
	}
	return "many"
}

func binaryType(op, lt, rt string) string {
	switch op {
	case "and", "or", "=", "<>", "<", ">", "<=", ">=", "like", "not like", "ilike", "not ilike", "similar to", "not similar to",
		"~", "~*", "!~", "!~*", "@>", "<@", "&&", "?", "?|", "?&", "@@":
		return "bool"
	case "->", "#>", "#-":
		return "jsonb"
	case "->>", "#>>":
		return "text"
	case "||":
		switch {
		case isArrayType(lt):
			return lt
		case isArrayType(rt):
			return rt
		case lt == "jsonb" || rt == "jsonb":
			return "jsonb"
		case lt == "" || rt == "":
			if lt == "text" || rt == "text" || lt == "unknown" || rt == "unknown" {
				return "text"
			}
			return ""
		}
		return "text"
	case "-":
		if lt == "jsonb" {
			return "jsonb"
		}
		if isArrayType(lt) {
			return lt
		}
		return arithType(lt, rt)
	case "+":
		if isArrayType(lt) {
			return lt
		}
		return arithType(lt, rt)
	case "*", "/", "%":
		return arithType(lt, rt)
	case "^":
		a := arithType(lt, rt)
		if a == "numeric" {
			return "numeric"
		}
		if a == "" {
			return ""
		}
		return "float8"
	case "|", "&", "#", "<<", ">>":
		return arithType(lt, rt)
	}
	return ""
}

func (b *binding) checkArgCount(fc *FuncCall, def *funcDef) bool {
	n := len(fc.Args)
	if fc.Star {
		if def.name != "count" {
			b.issue("undefined-function", fc.Pos, true, "%s(*) specified, but %s is not an aggregate function", fc.Name, fc.Name)
			return false
		}
		return true
	}
	if n < def.minArgs || (def.maxArgs >= 0 && n > def.maxArgs) {
		b.issue("undefined-function", fc.Pos, true, "function %s with %d argument(s) does not exist", fc.Name, n)
		return false
	}
	return true
}

func (b *binding) bindFuncCall(fc *FuncCall, sc *scope, aggOK bool) string {
	if fc.Schema != "" && fc.Schema != "public" && fc.Schema != "pg_catalog" {
		b.issue("undefined-function", fc.Pos, true, "schema %q does not exist", fc.Schema)
	}
	def, ok := lookupFunc(fc.Name)
	isAgg := ok && def.agg
	if isAgg {
		b.aggLevel[fc] = true
		if !aggOK {
			b.issue("aggregate-misuse", fc.Pos, true, "aggregate function %s is not allowed here", fc.Name)
		}
		if sc.inAgg {
			b.issue("aggregate-misuse", fc.Pos, true, "aggregate function calls cannot be nested")
		}
	} else if fc.Distinct || len(fc.OrderBy) > 0 || fc.Filter != nil || fc.Star {
		if ok {
			b.issue("undefined-function", fc.Pos, true, "DISTINCT / ORDER BY / FILTER / * specified, but %s is not an aggregate function", fc.Name)
		}
	}
	var argTypes []string
	saveAgg := sc.inAgg
	if isAgg {
		sc.inAgg = true
	}
	for _, a := range fc.Args {
		argTypes = append(argTypes, b.bindExpr(a, sc, aggOK && !isAgg))
	}
	for _, o := range fc.OrderBy {
		b.bindExpr(o.Expr, sc, false)
	}
	if fc.Filter != nil {
		b.bindExpr(fc.Filter, sc, false)
	}
	sc.inAgg = saveAgg
	if !ok {
		b.issue("undefined-function", fc.Pos, true, "function %s does not exist", fc.Name)
		return ""
	}
	if !b.checkArgCount(fc, def) {
		return ""
	}
	if fc.Variadic && !def.variadic {
		b.issue("undefined-function", fc.Pos, true, "VARIADIC argument passed to non-variadic function %s", fc.Name)
	}
	if def.ret == nil || fc.Star {
		if fc.Star {
			return "int8"
		}
		return ""
	}
	return def.ret(argTypes)
}

// ---- DML -----------------------------------------------------------------------------------

func (b *binding) dmlTarget(t *TableRef, sc *scope, si *selInfo) *rte {
	var r *rte
	if bt, ok := baseTables[t.Name]; ok && (t.Schema == "" || t.Schema == "public") {
		// a CTE of the same name does not shadow the target of a DML statement
		r = &rte{alias: t.Name, cols: append([]string(nil), bt.cols...), types: append([]string(nil), bt.types...), rowType: bt.rowType}
	} else if ht, ok := harnessTables[t.Name]; ok && b.harness && t.Schema == "" {
		r = &rte{alias: t.Name, cols: append([]string(nil), ht.cols...), types: append([]string(nil), ht.types...)}
	} else {
		b.issue("undefined-table", t.Pos, true, "relation %q does not exist", t.Name)
		r = &rte{alias: t.Name}
	}
	if t.Alias != "" {
		r.alias = t.Alias
	}
	si.rtes = append(si.rtes, r)
	si.rteOf[t] = 0
	return r
}

func (b *binding) hasColumn(r *rte, name string) (int, bool) {
	for i, c := range r.cols {
		if c == name {
			return i, true
		}
	}
	return -1, false
}

func (b *binding) bindReturning(items []*SelectItem, sc *scope, si *selInfo) ([]string, []string) {
	var cols, types []string
	for _, it := range items {
		if st, ok := it.Expr.(*Star); ok {
			before := len(si.out)
			b.expandStar(st, sc, si)
			for _, o := range si.out[before:] {
				cols = append(cols, o.name)
				types = append(types, o.typ)
			}
			continue
		}
		if containsAggregate(it.Expr) {
			b.issue("aggregate-misuse", it.Pos, true, "aggregate functions are not allowed in RETURNING")
		}
		t := b.bindExpr(it.Expr, sc, false)
		if t == "unknown" {
			t = "text"
		}
		name := it.Alias
		if name == "" {
			name = b.figureColname(it.Expr)
		}
		si.out = append(si.out, outCol{name: name, typ: t, expr: it.Expr})
		cols = append(cols, name)
		types = append(types, t)
	}
	return cols, types
}

func (b *binding) bindInsert(ins *Insert, parent *scope) ([]string, []string) {
	si := &selInfo{rteOf: map[FromItem]int{}}
	b.dml[ins] = si
	sc := &scope{parent: parent, sel: si}
	target := b.dmlTarget(ins.Table, sc, si)
	for _, c := range ins.Columns {
		if _, ok := b.hasColumn(target, c); !ok && len(target.cols) > 0 {
			b.issue("undefined-column", ins.Pos, true, "column %q of relation %q does not exist", c, ins.Table.Name)
		}
	}
	seen := map[string]bool{}
	for _, c := range ins.Columns {
		if seen[c] {
			b.issue("duplicate-alias", ins.Pos, true, "column %q specified more than once", c)
		}
		seen[c] = true
	}
	if ins.Source != nil {
		// the source query cannot see the target table
		qi := b.bindQuery(ins.Source, parent)
		want := len(ins.Columns)
		if want == 0 {
			want = len(target.cols)
			if len(qi.cols) > want && want > 0 {
				b.issue("arity-mismatch", ins.Pos, true, "INSERT has more expressions than target columns")
			}
		} else if len(qi.cols) != want {
			if len(qi.cols) > want {
				b.issue("arity-mismatch", ins.Pos, true, "INSERT has more expressions than target columns")
			} else {
				b.issue("arity-mismatch", ins.Pos, true, "INSERT has more target columns than expressions")
			}
		}
	}
	if oc := ins.OnConflict; oc != nil {
		for _, c := range oc.Columns {
			if _, ok := b.hasColumn(target, c); !ok && len(target.cols) > 0 {
				b.issue("undefined-column", oc.Pos, true, "column %q does not exist", c)
			}
		}
		if len(oc.Set) > 0 || oc.Where != nil {
			ex := &rte{alias: "excluded", cols: append([]string(nil), target.cols...), types: append([]string(nil), target.types...), rowType: target.rowType}
			si.rtes = append(si.rtes, ex)
			for _, a := range oc.Set {
				if _, ok := b.hasColumn(target, a.Column); !ok && len(target.cols) > 0 {
					b.issue("undefined-column", a.Pos, true, "column %q of relation %q does not exist", a.Column, ins.Table.Name)
				}
				b.bindExpr(a.Value, sc, false)
			}
			if oc.Where != nil {
				b.bindExpr(oc.Where, sc, false)
			}
			si.rtes = si.rtes[:len(si.rtes)-1]
		}
	}
	si.nRTE = len(si.rtes)
	return b.bindReturning(ins.Returning, sc, si)
}

func (b *binding) bindAssignments(set []*Assignment, target *rte, table string, sc *scope) {
	seen := map[string]bool{}
	for _, a := range set {
		if _, ok := b.hasColumn(target, a.Column); !ok && len(target.cols) > 0 {
			b.issue("undefined-column", a.Pos, true, "column %q of relation %q does not exist", a.Column, table)
		}
		if seen[a.Column] {
			b.issue("duplicate-alias", a.Pos, true, "multiple assignments to same column %q", a.Column)
		}
		seen[a.Column] = true
		if containsAggregate(a.Value) {
			b.issue("aggregate-misuse", a.Pos, true, "aggregate functions are not allowed in UPDATE")
		}
		b.bindExpr(a.Value, sc, false)
	}
}

func (b *binding) bindUpdate(u *Update, parent *scope) ([]string, []string) {
	si := &selInfo{rteOf: map[FromItem]int{}}
	b.dml[u] = si
	sc := &scope{parent: parent, sel: si}
	target := b.dmlTarget(u.Table, sc, si)
	acc := []int{}
	for _, item := range u.From {
		// FROM items of UPDATE cannot reference the target laterally
		idxs := b.bindFromItem(item, sc, acc)
		acc = append(acc, idxs...)
	}
	sc.ns, sc.nsLimited = nil, false
	si.nRTE = len(si.rtes)
	b.bindAssignments(u.Set, target, u.Table.Name, sc)
	if u.Where != nil {
		b.bindExpr(u.Where, sc, false)
	}
	return b.bindReturning(u.Returning, sc, si)
}

func (b *binding) bindDelete(d *Delete, parent *scope) ([]string, []string) {
	si := &selInfo{rteOf: map[FromItem]int{}}
	b.dml[d] = si
	sc := &scope{parent: parent, sel: si}
	b.dmlTarget(d.Table, sc, si)
	acc := []int{}
	for _, item := range d.Using {
		idxs := b.bindFromItem(item, sc, acc)
		acc = append(acc, idxs...)
	}
	sc.ns, sc.nsLimited = nil, false
	si.nRTE = len(si.rtes)
	if d.Where != nil {
		b.bindExpr(d.Where, sc, false)
	}
	return b.bindReturning(d.Returning, sc, si)
}

func (b *binding) bindMerge(m *Merge, parent *scope) {
	si := &selInfo{rteOf: map[FromItem]int{}}
	b.dml[m] = si
	sc := &scope{parent: parent, sel: si}
	target := b.dmlTarget(m.Table, sc, si)
	b.bindFromItem(m.Source, sc, []int{})
	sc.ns, sc.nsLimited = nil, false
	si.nRTE = len(si.rtes)
	b.bindExpr(m.On, sc, false)
	for _, a := range m.Actions {
		if a.And != nil {
			b.bindExpr(a.And, sc, false)
		}
		switch a.Kind {
		case "update":
			b.bindAssignments(a.Set, target, m.Table.Name, sc)
		case "insert":
			for _, c := range a.Columns {
				if _, ok := b.hasColumn(target, c); !ok && len(target.cols) > 0 {
					b.issue("undefined-column", a.Pos, true, "column %q of relation %q does not exist", c, m.Table.Name)
				}
			}
			if len(a.Columns) > 0 && len(a.Values) != len(a.Columns) {
				b.issue("arity-mismatch", a.Pos, true, "INSERT has %d target columns but %d expressions", len(a.Columns), len(a.Values))
			}
			// WHEN NOT MATCHED … INSERT cannot see the target row
			saveNs, saveLim := sc.ns, sc.nsLimited
			var ns []int
			for i := 1; i < len(si.rtes); i++ {
				ns = append(ns, i)
			}
			sc.ns, sc.nsLimited = ns, true
			for _, v := range a.Values {
				b.bindExpr(v, sc, false)
			}
			sc.ns, sc.nsLimited = saveNs, saveLim
		}
	}
}
