// Package evid is the shared plumbing of every property check: it drives rapid with the
// seed/tier the driver hands over, counts what the generators actually produced (classes,
// distinct non-trivial cases), keeps samples, serialises a shrunk failure as a plain replay
// file, consults known_findings.json, and writes the evidence file.
//
// Contract with /verif/check (the driver):
//
//	VERIF_ID        property id, e.g. C13 (set by the driver; default from Main)
//	VERIF_TIER      quick | thorough
//	VERIF_SEED      integer; 0 is remapped to the default
//	VERIF_SHARD     shard index (thorough tier runs several processes)
//	VERIF_OUT       where to write the (partial) evidence JSON
//	VERIF_REPLAY    replay file: run only the named check's oracle on the stored case
//	VERIF_ROOT      /verif
//
// stdout lines the driver looks for:
//
//	VIOLATION property=<id> replay=<path>
//	KNOWN-FINDING: property=<id> <what fails>
//	INCONCLUSIVE property=<id> <why>
package evid

import (
	"encoding/json"
	"flag"
	"fmt"
	"hash/fnv"
	"os"
	"path/filepath"
	"runtime/debug"
	"sort"
	"strconv"
	"strings"
	"sync"
	"testing"
	"time"

	"pgregory.net/rapid"
)

const DefaultSeed = 20260925

// Info is what an oracle reports about one passing case.
type Info struct {
	// NonTrivial is true when the case satisfies the property's stated non-trivial rule.
	NonTrivial bool
	// Key canonically identifies the case for distinct counting ("" ⇒ JSON of the case).
	Key string
	// Classes are labels for the distribution report.
	Classes []string
	// Skip marks a case that carries no verdict (rejected input, unsupported construct …).
	Skip string
}

type KnownFinding struct {
	ID       string          `json:"id"`
	Property string          `json:"property"`
	Status   string          `json:"status"` // open | fixed
	Title    string          `json:"title"`
	Check    string          `json:"check,omitempty"`
	Case     json.RawMessage `json:"case,omitempty"`
	Commit   string          `json:"commit,omitempty"`
	Note     string          `json:"note,omitempty"`
}

type subStats struct {
	Evaluations int            `json:"evaluations"`
	Requested   int            `json:"requested"`
	Skipped     map[string]int `json:"skipped,omitempty"`
	NonTrivial  int            `json:"nontrivial_evaluations"`
	Excluded    int            `json:"excluded_known,omitempty"`
}

type failure struct {
	Check string
	Case  any
	Msg   string
}

type Run struct {
	ID    string
	Tier  string
	Seed  int64
	Shard int
	Level string
	Root  string

	mu            sync.Mutex
	rule          string
	assumptions   []string
	classes       map[string]int
	hashes        map[uint64]struct{}
	samples       []any
	sampleByCls   map[string]int
	subs          map[string]*subStats
	extra         map[string]any
	failures      map[string]*failure
	violations    int
	inconclusive  []string
	known         []KnownFinding
	openElsewhere map[string]bool
	knownPrinted  map[string]bool
	start         time.Time
	replayFile    string
	replay        *replayCase
	frozen        bool
	// replayingKnown is set while the stored case of a listed finding is re-run
	replayingKnown bool
}

type replayCase struct {
	Property string          `json:"property"`
	Check    string          `json:"check"`
	Message  string          `json:"message,omitempty"`
	Case     json.RawMessage `json:"case"`
}

// R is the process-wide run; set by Main.
var R *Run

func envInt(name string, def int64) int64 {
	if v := os.Getenv(name); v != "" {
		if n, err := strconv.ParseInt(v, 10, 64); err == nil {
			return n
		}
	}
	return def
}

// Main is called from each property package's TestMain.
func Main(m *testing.M, id, level, rule string, assumptions ...string) {
	flag.Parse()
	r := &Run{
		ID: id, Level: level, rule: rule, assumptions: assumptions,
		Tier:          os.Getenv("VERIF_TIER"),
		Seed:          envInt("VERIF_SEED", DefaultSeed),
		Shard:         int(envInt("VERIF_SHARD", 0)),
		Root:          os.Getenv("VERIF_ROOT"),
		classes:       map[string]int{},
		hashes:        map[uint64]struct{}{},
		sampleByCls:   map[string]int{},
		subs:          map[string]*subStats{},
		openElsewhere: map[string]bool{},
		extra:         map[string]any{},
		failures:      map[string]*failure{},
		knownPrinted:  map[string]bool{},
		start:         time.Now(),
	}
	if r.Tier != "thorough" {
		r.Tier = "quick"
	}
	if r.Seed == 0 {
		r.Seed = DefaultSeed
	}
	if r.Root == "" {
		r.Root = "/verif"
	}
	r.loadKnown()
	if f := os.Getenv("VERIF_REPLAY"); f != "" {
		r.replayFile = f
		raw, err := os.ReadFile(f)
		if err != nil {
			fmt.Printf("INCONCLUSIVE property=%s cannot read replay file: %v\n", id, err)
			os.Exit(2)
		}
		var rc replayCase
		if err := json.Unmarshal(raw, &rc); err != nil {
			fmt.Printf("INCONCLUSIVE property=%s bad replay file: %v\n", id, err)
			os.Exit(2)
		}
		r.replay = &rc
	}
	// rapid: derive the PRNG value from VERIF_SEED and the shard; never 0 (0 = random).
	seed := uint64(r.Seed)*1000003 + uint64(r.Shard)*7919 + 1
	_ = flag.Set("rapid.seed", strconv.FormatUint(seed, 10))
	_ = flag.Set("rapid.nofailfile", "true")
	R = r
	code := m.Run()
	// a native fuzz campaign (coordinator and workers run TestMain too) must not write evidence
	if f := flag.Lookup("test.fuzz"); f != nil && f.Value.String() != "" {
		os.Exit(code)
	}
	if f := flag.Lookup("test.fuzzworker"); f != nil && f.Value.String() == "true" {
		os.Exit(code)
	}
	r.finish(code)
}

func (r *Run) loadKnown() {
	if os.Getenv("VERIF_NO_KNOWN") != "" {
		return // sensitivity experiments only: is a change caught by generated search alone?
	}
	files := []string{filepath.Join(r.Root, "known_findings.json")}
	staged, _ := filepath.Glob(filepath.Join(r.Root, "known_findings.d", "*.json"))
	sort.Strings(staged)
	files = append(files, staged...)
	for _, f := range files {
		raw, err := os.ReadFile(f)
		if err != nil {
			continue
		}
		var all struct {
			Findings []KnownFinding `json:"findings"`
		}
		if err := json.Unmarshal(raw, &all); err != nil {
			fmt.Printf("INCONCLUSIVE property=%s %s does not parse: %v\n", r.ID, f, err)
			os.Exit(2)
		}
		for _, k := range all.Findings {
			if k.Property == r.ID {
				r.known = append(r.known, k)
			} else if k.Status == "open" {
				r.openElsewhere[k.ID] = true
			}
		}
	}
}

// KnownOpen reports whether the finding with this id is listed as open; generators use it to
// exclude the finding's shape by construction (and call Excluded to count what was dropped).
func (r *Run) KnownOpen(findingID string) bool {
	if r.replayingKnown {
		return false // the stored case of a finding is judged without any exclusion
	}
	for _, k := range r.known {
		if k.ID == findingID && k.Status == "open" {
			return true
		}
	}
	return false
}

// OpenElsewhere reports whether another property lists the finding with this id as open (a check that uses another
// property's subject as its yardstick must stay away from that property's listed defects).
func (r *Run) OpenElsewhere(findingID string) bool {
	return !r.replayingKnown && r.openElsewhere[findingID]
}

func (r *Run) Excluded(check string) {
	r.mu.Lock()
	defer r.mu.Unlock()
	r.sub(check).Excluded++
}

func (r *Run) sub(name string) *subStats {
	s := r.subs[name]
	if s == nil {
		s = &subStats{Skipped: map[string]int{}}
		r.subs[name] = s
	}
	return s
}

// Thorough reports the tier.
func (r *Run) Thorough() bool { return r.Tier == "thorough" }

// N picks a case count by tier.
func (r *Run) N(quick, thorough int) int {
	if r.Thorough() {
		return thorough
	}
	return quick
}

// Extra attaches an additional key to coverage.
func (r *Run) Extra(key string, v any) {
	r.mu.Lock()
	defer r.mu.Unlock()
	r.extra[key] = v
}

func (r *Run) AddExtraCount(key string, n int) {
	r.mu.Lock()
	defer r.mu.Unlock()
	cur, _ := r.extra[key].(int)
	r.extra[key] = cur + n
}

func (r *Run) Inconclusive(format string, args ...any) {
	r.mu.Lock()
	defer r.mu.Unlock()
	r.inconclusive = append(r.inconclusive, fmt.Sprintf(format, args...))
}

func hashKey(s string) uint64 {
	h := fnv.New64a()
	_, _ = h.Write([]byte(s))
	return h.Sum64()
}

// Record books one evaluated case.
func (r *Run) Record(check string, c any, info Info) {
	r.mu.Lock()
	defer r.mu.Unlock()
	if r.frozen {
		return
	}
	s := r.sub(check)
	s.Evaluations++
	if info.Skip != "" {
		s.Skipped[info.Skip]++
		return
	}
	for _, cl := range info.Classes {
		r.classes[check+"/"+cl]++
	}
	if info.NonTrivial {
		s.NonTrivial++
		key := info.Key
		if key == "" {
			b, _ := json.Marshal(c)
			key = string(b)
		}
		h := hashKey(check + "\x00" + key)
		if _, seen := r.hashes[h]; !seen {
			r.hashes[h] = struct{}{}
			// keep a few samples per check, preferring distinct class signatures
			sig := check + "|" + strings.Join(info.Classes, ",")
			if r.sampleByCls[sig] < 1 && r.sampleByCls[check] < 6 {
				r.sampleByCls[sig]++
				r.sampleByCls[check]++
				r.samples = append(r.samples, map[string]any{"check": check, "classes": info.Classes, "case": c})
			}
		}
	}
}

// Violation records a failing case (the last one recorded per check is the shrunk one).
func (r *Run) Violation(check string, c any, msg string) {
	r.mu.Lock()
	defer r.mu.Unlock()
	r.frozen = true // shrinking re-runs the property; do not count those runs
	r.failures[check] = &failure{Check: check, Case: c, Msg: msg}
}

func (r *Run) unfreeze() {
	r.mu.Lock()
	r.frozen = false
	r.mu.Unlock()
}

// Oracle is a pure check of one case.
type Oracle[C any] func(c C) (Info, error)

func safely[C any](oracle Oracle[C], c C) (info Info, err error) {
	defer func() {
		if p := recover(); p != nil {
			err = fmt.Errorf("panic: %v\n%s", p, debug.Stack())
		}
	}()
	return oracle(c)
}

var registry = map[string]func(raw json.RawMessage) (Info, error){}

// Prop runs one generated check: gen draws a serialisable case, oracle decides it.
// In replay mode only the stored case is run.
func Prop[C any](t *testing.T, name string, checks int, gen func(*rapid.T) C, oracle Oracle[C]) {
	r := R
	registry[name] = func(raw json.RawMessage) (Info, error) {
		var c C
		if err := json.Unmarshal(raw, &c); err != nil {
			return Info{}, fmt.Errorf("replay decode: %w", err)
		}
		return safely(oracle, c)
	}
	r.replayKnown(t, name)
	if t.Failed() {
		return // a fixed finding regressed; rapid refuses to run on a failed T
	}
	if r.replay != nil {
		if r.replay.Check != name {
			return
		}
		_, err := registry[name](r.replay.Case)
		if err != nil {
			fmt.Printf("VIOLATION property=%s replay=%s\n", r.ID, r.replayFile)
			r.mu.Lock()
			r.violations++
			r.mu.Unlock()
			t.Fatalf("replay %s: %v", name, err)
		}
		fmt.Printf("REPLAY-OK property=%s check=%s\n", r.ID, name)
		return
	}
	if checks <= 0 {
		return
	}
	_ = flag.Set("rapid.checks", strconv.Itoa(checks))
	r.mu.Lock()
	r.sub(name).Requested += checks
	r.mu.Unlock()
	defer r.afterProp(t, name, checks)
	rapid.Check(t, func(rt *rapid.T) {
		c := gen(rt)
		info, err := safely(oracle, c)
		if err != nil {
			r.Violation(name, c, err.Error())
			rt.Fatalf("%s: %v", name, err)
		}
		r.Record(name, c, info)
	})
}

// Case runs the oracle on one fixed, enumerated case (used by exhaustive sub-spaces).
func Case[C any](t *testing.T, name string, c C, oracle Oracle[C]) bool {
	r := R
	info, err := safely(oracle, c)
	if err != nil {
		r.Violation(name, c, err.Error())
		r.afterProp(t, name, -1)
		return false
	}
	r.Record(name, c, info)
	return true
}

// Register makes a check replayable without running a generator (enumerated checks).
func Register[C any](t *testing.T, name string, oracle Oracle[C]) (replayOnly bool) {
	r := R
	registry[name] = func(raw json.RawMessage) (Info, error) {
		var c C
		if err := json.Unmarshal(raw, &c); err != nil {
			return Info{}, fmt.Errorf("replay decode: %w", err)
		}
		return safely(oracle, c)
	}
	r.replayKnown(t, name)
	if r.replay != nil {
		if r.replay.Check == name {
			if _, err := registry[name](r.replay.Case); err != nil {
				fmt.Printf("VIOLATION property=%s replay=%s\n", r.ID, r.replayFile)
				r.mu.Lock()
				r.violations++
				r.mu.Unlock()
				t.Fatalf("replay %s: %v", name, err)
			}
			fmt.Printf("REPLAY-OK property=%s check=%s\n", r.ID, name)
		}
		return true
	}
	return false
}

// replayKnown re-runs the stored case of every finding listed for this check.
func (r *Run) replayKnown(t *testing.T, name string) {
	if r.replay != nil {
		return
	}
	for _, k := range r.known {
		if k.Check != name || len(k.Case) == 0 || r.knownPrinted[k.ID] {
			continue
		}
		r.knownPrinted[k.ID] = true
		r.replayingKnown = true
		_, err := registry[name](k.Case)
		r.replayingKnown = false
		switch {
		case k.Status == "open" && err != nil:
			fmt.Printf("KNOWN-FINDING: property=%s %s [%s]\n", r.ID, k.Title, k.ID)
		case k.Status == "open" && err == nil:
			fmt.Printf("NOTE property=%s listed finding %s no longer reproduces\n", r.ID, k.ID)
		case k.Status == "fixed" && err != nil:
			// a fixed entry suppresses nothing: the regression is a violation
			r.Violation(name, json.RawMessage(k.Case), "regression of fixed finding "+k.ID+": "+err.Error())
			r.afterProp(t, name, -1)
		}
	}
}

func (r *Run) afterProp(t *testing.T, name string, requested int) {
	r.mu.Lock()
	f := r.failures[name]
	delete(r.failures, name)
	var got int
	if s := r.subs[name]; s != nil {
		got = s.Evaluations
	}
	r.mu.Unlock()
	r.unfreeze()
	if f != nil {
		path := r.writeReplay(f)
		r.mu.Lock()
		r.violations++
		r.mu.Unlock()
		fmt.Printf("VIOLATION property=%s replay=%s\n", r.ID, path)
		fmt.Printf("  check=%s: %s\n", name, firstLines(f.Msg, 12))
		if requested < 0 {
			t.Errorf("%s: %s", name, f.Msg)
		}
		return
	}
	if requested > 0 && got < requested && !t.Failed() {
		r.Inconclusive("%s ran %d of %d requested cases (deadline)", name, got, requested)
	}
}

func firstLines(s string, n int) string {
	lines := strings.Split(s, "\n")
	if len(lines) > n {
		lines = append(lines[:n], "…")
	}
	return strings.Join(lines, "\n    ")
}

func (r *Run) writeReplay(f *failure) string {
	raw, err := json.Marshal(f.Case)
	if err != nil {
		raw, _ = json.Marshal(fmt.Sprintf("%#v", f.Case))
	}
	rc := replayCase{Property: r.ID, Check: f.Check, Message: firstLines(f.Msg, 30), Case: raw}
	out, _ := json.MarshalIndent(rc, "", " ")
	dir := filepath.Join(r.Root, "replay", r.ID)
	_ = os.MkdirAll(dir, 0o755)
	path := filepath.Join(dir, fmt.Sprintf("%s-%016x.json", f.Check, hashKey(string(raw))))
	_ = os.WriteFile(path, out, 0o644)
	return path
}

type evidenceFile struct {
	PropertyID  string         `json:"property_id"`
	Tier        string         `json:"tier"`
	Seed        int64          `json:"seed"`
	Level       string         `json:"level"`
	Coverage    map[string]any `json:"coverage"`
	Assumptions []string       `json:"assumptions,omitempty"`
	WallS       float64        `json:"wall_s"`
	Violations  int            `json:"violations"`
	// not in the schema's required set; used by the driver when merging shards
	Hashes       []uint64 `json:"_hashes,omitempty"`
	Inconclusive []string `json:"_inconclusive,omitempty"`
}

func (r *Run) finish(code int) {
	if r.replay != nil {
		if code != 0 && r.violations == 0 {
			os.Exit(2)
		}
		if r.violations > 0 {
			os.Exit(1)
		}
		os.Exit(0)
	}
	r.mu.Lock()
	evals := 0
	for _, s := range r.subs {
		evals += s.Evaluations
	}
	hashes := make([]uint64, 0, len(r.hashes))
	for h := range r.hashes {
		hashes = append(hashes, h)
	}
	sort.Slice(hashes, func(i, j int) bool { return hashes[i] < hashes[j] })
	cov := map[string]any{
		"evaluations":         evals,
		"distinct_nontrivial": len(r.hashes),
		"rule":                r.rule,
		"samples":             r.samples,
		"classes":             r.classes,
		"checks":              r.subs,
	}
	if len(r.samples) == 0 {
		cov["samples"] = []any{}
	}
	for k, v := range r.extra {
		cov[k] = v
	}
	ev := evidenceFile{
		PropertyID: r.ID, Tier: r.Tier, Seed: r.Seed, Level: r.Level, Coverage: cov,
		Assumptions: r.assumptions, WallS: time.Since(r.start).Seconds(), Violations: r.violations,
		Hashes: hashes, Inconclusive: r.inconclusive,
	}
	r.mu.Unlock()
	out := os.Getenv("VERIF_OUT")
	if out == "" {
		out = filepath.Join(r.Root, "evidence", r.ID+".json")
		if r.Tier == "" {
			// not started by the driver (a development run of one test): never overwrite the registered evidence
			out = filepath.Join(r.Root, ".build", "dev-evidence", r.ID+".json")
		}
	}
	_ = os.MkdirAll(filepath.Dir(out), 0o755)
	b, _ := json.MarshalIndent(ev, "", " ")
	if err := os.WriteFile(out, b, 0o644); err != nil {
		fmt.Printf("INCONCLUSIVE property=%s cannot write evidence: %v\n", r.ID, err)
		os.Exit(2)
	}
	for _, m := range r.inconclusive {
		fmt.Printf("INCONCLUSIVE property=%s %s\n", r.ID, m)
	}
	switch {
	case r.violations > 0:
		os.Exit(1)
	case code != 0:
		// a test failed without a recorded violation: harness problem
		fmt.Printf("INCONCLUSIVE property=%s test process failed without a recorded violation\n", r.ID)
		os.Exit(2)
	case len(r.inconclusive) > 0:
		os.Exit(2)
	}
	os.Exit(0)
}

// Fuzzing reports whether this process is part of a native fuzz campaign (coordinator or worker).
func Fuzzing() bool {
	if f := flag.Lookup("test.fuzz"); f != nil && f.Value.String() != "" {
		return true
	}
	if f := flag.Lookup("test.fuzzworker"); f != nil && f.Value.String() == "true" {
		return true
	}
	return false
}

// FuzzFail is called by a native fuzz target when its oracle rejects a case. Inside a campaign it
// just fails the input (Go minimises it and writes it under testdata/fuzz/<target>/). When the
// saved inputs are re-run as ordinary tests - which `go test` does for every file in that
// directory, and which the driver's shards do after a campaign - the failure is recorded like any
// generated case: replay file + VIOLATION line. The check named `name` must also be registered by an
// ordinary test (evid.Register) so that --replay finds its oracle.
func FuzzFail[C any](t *testing.T, name string, c C, err error) {
	if Fuzzing() || R == nil {
		t.Fatal(err)
		return
	}
	R.Violation(name, c, err.Error())
	R.afterProp(t, name, -1)
}
