package sqltok

import (
	"fmt"
	"strings"
	"testing"
)

func TestLex(t *testing.T) {
	toks := Lex(`select 'it''s', "a""b", E'x\'y', $tag$ body ' $tag$, @p1, $2, a.b::int8[] -- c
/* x /* y */ z */ from t where a->>'k' = 1.5e3 and b operator(pg_catalog.@>) c`)
	for _, tk := range toks {
		t.Logf("%-12s %q %q", tk.Kind, tk.Text, tk.Value)
	}
	if toks[1].Value != "it's" || toks[3].Value != `a"b` || toks[5].Value != "x'y" {
		t.Fatal("decode")
	}
	for _, tk := range toks {
		if tk.Kind == Bad {
			t.Fatalf("bad token %q", tk.Text)
		}
	}
	if k := Lex("'abc")[0].Kind; k != Bad {
		t.Fatal("unterminated")
	}
}

func show(toks []Token) string {
	var parts []string
	for _, tk := range toks {
		switch tk.Kind {
		case Word, QuotedIdent, String, EString, UString, UIdent, DollarString, BitString, NamedParam, Param, Bad:
			parts = append(parts, fmt.Sprintf("%s(%s)", tk.Kind, tk.Value))
		default:
			parts = append(parts, fmt.Sprintf("%s(%s)", tk.Kind, tk.Text))
		}
	}
	return strings.Join(parts, " ")
}

// Each row is a rule of scan.l (PostgreSQL 16/17, standard_conforming_strings = on).
func TestRules(t *testing.T) {
	long := strings.Repeat("a", 70)
	rows := []struct{ in, want string }{
		// strings: no backslash escapes; '' is a quote
		{`'a\'`, `String(a\)`},
		{`'a\' 'b'`, `String(a\) String(b)`},
		{`'a''b'`, `String(a'b)`},
		{`''`, `String()`},
		{`'a`, `Bad(unterminated quoted string)`},
		{`'a\''`, `Bad(unterminated quoted string)`},
		// continuation across a newline (comments allowed), not across plain spaces
		{"'a'\n'b'", `String(ab)`},
		{"'a' -- c\n  -- d\n 'b'", `String(ab)`},
		{"'a' 'b'", `String(a) String(b)`},
		{"'a'\v\n'b'", `String(a) String(b)`},
		{"'a'\n-- c", `String(a) Comment(-- c)`},
		{"e'a'\n'\\n'", "EString(a\n)"},
		// E strings
		{`E'a\'b'`, `EString(a'b)`},
		{`e'\n\t\\\x41\101\u00e9\U0001F600\q'`, "EString(\n\t\\AA\u00e9\U0001F600q)"},
		{`E'\ud83d\ude00'`, "EString(\U0001F600)"},
		{`E'\ud83d'`, `Bad(invalid Unicode surrogate pair)`},
		{`E'\u12'`, `Bad(invalid Unicode escape)`},
		{`E'a\`, `Bad(unterminated quoted string)`},
		{`E'\0'`, `Bad(invalid byte sequence (NUL) in escape string)`},
		{`name'x'`, `Word(name) String(x)`},
		// U& forms
		{`U&'d\0061t\+000061\\'`, `UString(data\)`},
		{`u&"d\0061"`, `UIdent(da)`},
		{`U&'\zz'`, `Bad(invalid Unicode escape)`},
		{`U &'x'`, `Word(u) Operator(&) String(x)`},
		// national / bit strings
		{`N'x'`, `Word(nchar) String(x)`},
		{`B'01' x'ff'`, `BitString(01) BitString(ff)`},
		// quoted identifiers
		{`"a""b"`, `QuotedIdent(a"b)`},
		{`""`, `Bad(zero-length delimited identifier)`},
		{`"a`, `Bad(unterminated quoted identifier)`},
		{`"A b"`, `QuotedIdent(A b)`},
		{`"` + long + `"`, `QuotedIdent(` + long[:63] + `)`},
		{`"` + strings.Repeat("a", 62) + "\u00e9" + `"`, `QuotedIdent(` + strings.Repeat("a", 62) + `)`},
		// identifiers: ASCII-only folding, $ inside, high-bit bytes
		{`FooBar`, `Word(foobar)`},
		{"\u00c9t\u00e9", "Word(\u00c9t\u00e9)"},
		{`a$b$c`, `Word(a$b$c)`},
		{long, `Word(` + long[:63] + `)`},
		// dollar quoting
		{`$$a'b$$`, `DollarString(a'b)`},
		{`$t$ $$ $t$`, `DollarString( $$ )`},
		{`$t1$x$t1$`, `DollarString(x)`},
		{`$1t$`, `Bad(trailing junk after parameter)`},
		{`$t$x`, `Bad(unterminated dollar-quoted string)`},
		{`$ x`, `Bad(stray $) Word(x)`},
		{`$1 $23`, `Param(1) Param(23)`},
		// comments
		{"a -- x\rb", `Word(a) Comment(-- x) Word(b)`},
		{"a -- x\u2028b", "Word(a) Comment(-- x\u2028b)"},
		{`/* a /* b */ c */ d`, `Comment(/* a /* b */ c */) Word(d)`},
		{`/* a /* b */ c`, `Bad(unterminated /* comment)`},
		{`a */ b`, `Word(a) Operator(*/) Word(b)`},
		// operators
		{"a ` b", "Word(a) Operator(`) Word(b)"},
		{"as `x y`", "Word(as) Operator(`) Word(x) Word(y) Operator(`)"},
		{`a+-b`, `Word(a) Operator(+) Operator(-) Word(b)`},
		{`a@-b`, `Word(a) Operator(@-) Word(b)`},
		{`a=-1`, `Word(a) Operator(=) Operator(-) Number(1)`},
		{`a<=--c`, `Word(a) Operator(<=) Comment(--c)`},
		{`a*/*c*/b`, `Word(a) Operator(*) Comment(/*c*/) Word(b)`},
		{`a->>'k'`, `Word(a) Operator(->>) String(k)`},
		{`x @> y`, `Word(x) Operator(@>) Word(y)`},
		{`pg_catalog.@>`, `Word(pg_catalog) Punct(.) Operator(@>)`},
		{`a::int8[]`, `Word(a) Cast(::) Word(int8) Punct([) Punct(])`},
		{`a := b`, `Word(a) Punct(:=) Word(b)`},
		// pgx named arguments
		{`= @pi0::text`, `Operator(=) NamedParam(pi0) Cast(::) Word(text)`},
		{`@_x9 @9`, `NamedParam(_x9) Operator(@) Number(9)`},
		{"@\u00e9", "Operator(@) Word(\u00e9)"},
		// numbers
		{`1 1.5 .5 1. 1e5 1.5E-3 1_000 0x1F 0o17 0b101`, `Number(1) Number(1.5) Number(.5) Number(1.) Number(1e5) Number(1.5E-3) Number(1_000) Number(0x1F) Number(0o17) Number(0b101)`},
		{`1..2`, `Number(1) Punct(..) Number(2)`},
		{`1a`, `Bad(trailing junk after numeric literal)`},
		{`1e`, `Bad(trailing junk after numeric literal)`},
		{`1e+`, `Bad(trailing junk after numeric literal)`},
		{`0x`, `Bad(trailing junk after numeric literal)`},
		{`0b12`, `Bad(trailing junk after numeric literal)`},
		{`1__0`, `Bad(trailing junk after numeric literal)`},
		{`1e'x'`, `Bad(trailing junk after numeric literal) String(x)`},
		// other
		{"a \x01 b", "Word(a) Bad(stray byte) Word(b)"},
		{`a \ b`, `Word(a) Bad(stray byte) Word(b)`},
		{`{x}`, `Bad(stray byte) Word(x) Bad(stray byte)`},
	}
	for _, r := range rows {
		if got := show(Lex(r.in)); got != r.want {
			t.Errorf("%q:\n got  %s\n want %s", r.in, got, r.want)
		}
	}
}

func TestTruncatedFlag(t *testing.T) {
	tk := Lex(`"` + strings.Repeat("x", 64) + `"`)[0]
	if !tk.Truncated || len(tk.Value) != 63 {
		t.Fatalf("%+v", tk)
	}
	tk = Lex(`"` + strings.Repeat("x", 63) + `"`)[0]
	if tk.Truncated || len(tk.Value) != 63 {
		t.Fatalf("%+v", tk)
	}
}

// The lexer must consume every byte exactly once and never panic, whatever the input.
func FuzzLex(f *testing.F) {
	f.Add("select 'a''b', \"x\", E'\\u00e9', $t$ $t$, 1e5 /* /* */ */ -- x\n @p")
	f.Fuzz(func(t *testing.T, s string) {
		toks := Lex(s)
		pos := 0
		for _, tk := range toks {
			if tk.Pos < pos {
				t.Fatalf("overlap at %d", tk.Pos)
			}
			for _, c := range []byte(s[pos:tk.Pos]) {
				if !isSpace(c) {
					t.Fatalf("non-space byte %q skipped at %d", c, pos)
				}
			}
			if s[tk.Pos:tk.Pos+len(tk.Text)] != tk.Text {
				t.Fatal("text mismatch")
			}
			pos = tk.Pos + len(tk.Text)
		}
	})
}
