package sqltok

import "testing"

func TestLex(t *testing.T) {
	toks := Lex(`select 'it''s', "a""b", E'x\'y', $tag$ body ' $tag$, @p1, $2, a.b::int8[] -- c
/* x /* y */ z */ from t where a->>'k' = 1.5e3 and b operator(pg_catalog.@>) c`)
	for _, tk := range toks {
		t.Logf("%-12s %q %q", tk.Kind, tk.Text, tk.Value)
	}
	if toks[1].Value != "it's" || toks[3].Value != `a"b` || toks[5].Value != "x'y" {
		t.Fatal("decode")
	}
	for _, tk := range toks {
		if tk.Kind == Bad {
			t.Fatalf("bad token %q", tk.Text)
		}
	}
	if k := Lex("'abc")[0].Kind; k != Bad {
		t.Fatal("unterminated")
	}
}
