// Package sqltok is a lexer for PostgreSQL SQL text following src/backend/parser/scan.l (PostgreSQL
// 16/17 rules) with standard_conforming_strings = on (the server default since 9.1) and a UTF-8
// server encoding, plus the client-side `@name` named-argument form that pgx rewrites before the
// text reaches the server. It is written from the PostgreSQL lexical rules, not from DAWGS's
// formatter, so that it can act as an independent judge of what token structure the emitted text has.
//
// Rules of scan.l that are modelled (each is covered by sqltok_test.go):
//
//   - whitespace is [ \t\n\r\f\v]; `--` comments end at \n or \r only; /* */ comments nest;
//   - '...' with a doubled quote for a quote and NO backslash escapes; E'...' with backslash escapes (\b \f \n \r \t
//     \v, octal, \x hex, \uXXXX, \UXXXXXXXX incl. surrogate pairs, \c = c); B'..' / X'..'; U&'...' and
//     U&"..." with \XXXX, \+XXXXXX, \\ escapes (default escape character; a following UESCAPE clause is
//     the grammar's business); N'...' lexes as the keyword nchar followed by a plain string;
//   - string continuation: a literal followed by whitespace that contains a newline (comments
//     allowed) and another quote continues as ONE literal ('a'\n'b' is 'ab');
//   - "..." with "" for a quote; the zero-length identifier "" is an error;
//   - $tag$...$tag$ with tag = [A-Za-z\200-\377_][A-Za-z\200-\377_0-9]*; `$` inside an identifier
//     belongs to the identifier;
//   - identifiers [A-Za-z\200-\377_][A-Za-z\200-\377_0-9$]*, folded to lower case for ASCII letters
//     only and truncated to NAMEDATALEN-1 = 63 bytes at a character boundary (quoted identifiers are
//     truncated as well, not folded);
//   - operators: the longest run of + - * / < > = ~ ! @ # % ^ & | ` ? cut at an embedded -- or /*, and
//     with trailing + / - stripped unless the run contains one of ~ ! @ # % ^ & | ` ?;
//   - numbers: decimal / 0x / 0o / 0b integers with single underscores, numerics, reals; "1..2" lexes
//     as 1 .. 2; a number or a $n parameter immediately followed by an identifier is an error
//     ("trailing junk", PostgreSQL >= 15);
//   - any other byte is an error.
//
// Everything PostgreSQL rejects at the lexical level is returned as a Bad token.
package sqltok

import (
	"strings"
	"unicode/utf8"
)

type Kind int

const (
	Word         Kind = iota // unquoted identifier or keyword; Value is the folded, truncated name
	QuotedIdent              // "..." ; Value is the decoded (truncated) name
	String                   // '...' ; Value is the decoded value
	EString                  // E'...' ; Value decoded with backslash escapes
	UString                  // U&'...' ; Value decoded with the default escape character
	DollarString             // $tag$...$tag$ ; Value is the body
	BitString                // B'...' / X'...'
	Number
	Param      // $1
	NamedParam // @name (pgx named argument; Value is the name)
	Operator
	Punct   // ( ) [ ] , ; : . := ..
	Cast    // ::
	Comment // -- ... or /* ... */ (nested)
	Bad     // anything the PostgreSQL lexer rejects; Value says why
	UIdent  // U&"..." ; Value decoded with the default escape character
)

func (k Kind) String() string {
	return [...]string{"Word", "QuotedIdent", "String", "EString", "UString", "DollarString", "BitString", "Number", "Param", "NamedParam", "Operator", "Punct", "Cast", "Comment", "Bad", "UIdent"}[k]
}

type Token struct {
	Kind  Kind
	Text  string // raw text
	Value string // decoded value for literals / identifiers
	Pos   int
	// Truncated is set when an identifier was longer than NAMEDATALEN-1 bytes and PostgreSQL would
	// truncate it (Value holds the truncated name).
	Truncated bool
}

// NameDataLen is PostgreSQL's NAMEDATALEN.
const NameDataLen = 64

const opChars = "+-*/<>=~!@#%^&|`?"
const opNonSQL = "~!@#%^&|`?"

func isSpace(c byte) bool {
	return c == ' ' || c == '\t' || c == '\n' || c == '\r' || c == '\f' || c == '\v'
}

func isDigit(c byte) bool { return c >= '0' && c <= '9' }

func isHex(c byte) bool {
	return isDigit(c) || (c >= 'a' && c <= 'f') || (c >= 'A' && c <= 'F')
}

// ident_start [A-Za-z\200-\377_]
func isIdentStart(c byte) bool {
	return c == '_' || (c >= 'a' && c <= 'z') || (c >= 'A' && c <= 'Z') || c >= 0x80
}

// ident_cont [A-Za-z\200-\377_0-9\$]
func isIdentCont(c byte) bool { return isIdentStart(c) || isDigit(c) || c == '$' }

func isASCIILetter(c byte) bool { return (c >= 'a' && c <= 'z') || (c >= 'A' && c <= 'Z') }

// clip truncates to at most NAMEDATALEN-1 bytes at a UTF-8 character boundary (pg_mbcliplen).
func clip(s string) (string, bool) {
	if len(s) < NameDataLen {
		return s, false
	}
	n := NameDataLen - 1
	for n > 0 && !utf8.RuneStart(s[n]) {
		n--
	}
	return s[:n], true
}

// foldIdent is downcase_identifier for a multi-byte server encoding: ASCII letters only.
func foldIdent(s string) string {
	b := []byte(s)
	for i, c := range b {
		if c >= 'A' && c <= 'Z' {
			b[i] = c + 'a' - 'A'
		}
	}
	return string(b)
}

type lexer struct {
	s   string
	out []Token
}

func (l *lexer) emit(k Kind, start, end int, val string) *Token {
	l.out = append(l.out, Token{Kind: k, Text: l.s[start:end], Value: val, Pos: start})
	return &l.out[len(l.out)-1]
}

func (l *lexer) bad(start, end int, why string) { l.emit(Bad, start, end, why) }

// Lex tokenises the whole text; whitespace is dropped, comments are kept as tokens.
func Lex(s string) []Token {
	l := &lexer{s: s}
	i := 0
	n := len(s)
	for i < n {
		c := s[i]
		switch {
		case isSpace(c):
			i++
		case c == '-' && i+1 < n && s[i+1] == '-':
			j := i
			for j < n && s[j] != '\n' && s[j] != '\r' {
				j++
			}
			l.emit(Comment, i, j, "")
			i = j
		case c == '/' && i+1 < n && s[i+1] == '*':
			depth, j := 1, i+2
			for j < n && depth > 0 {
				if j+1 < n && s[j] == '/' && s[j+1] == '*' {
					depth++
					j += 2
				} else if j+1 < n && s[j] == '*' && s[j+1] == '/' {
					depth--
					j += 2
				} else {
					j++
				}
			}
			if depth > 0 {
				l.bad(i, n, "unterminated /* comment")
				i = n
			} else {
				l.emit(Comment, i, j, "")
				i = j
			}
		case c == '\'':
			i = l.quoted(i, i, String)
		case c == '"':
			i = l.quoted(i, i, QuotedIdent)
		case (c == 'E' || c == 'e') && i+1 < n && s[i+1] == '\'':
			i = l.quoted(i, i+1, EString)
		case (c == 'B' || c == 'b' || c == 'X' || c == 'x') && i+1 < n && s[i+1] == '\'':
			i = l.quoted(i, i+1, BitString)
		case (c == 'N' || c == 'n') && i+1 < n && s[i+1] == '\'':
			// xnstart: yyless(1), the keyword nchar is returned, then a plain string follows
			l.emit(Word, i, i+1, "nchar")
			i++
		case (c == 'U' || c == 'u') && i+2 < n && s[i+1] == '&' && s[i+2] == '\'':
			i = l.quoted(i, i+2, UString)
		case (c == 'U' || c == 'u') && i+2 < n && s[i+1] == '&' && s[i+2] == '"':
			i = l.quoted(i, i+2, UIdent)
		case c == '$':
			i = l.dollar(i)
		case isDigit(c) || (c == '.' && i+1 < n && isDigit(s[i+1])):
			i = l.number(i)
		case c == ':' && i+1 < n && s[i+1] == ':':
			l.emit(Cast, i, i+2, "")
			i += 2
		case c == ':' && i+1 < n && s[i+1] == '=':
			l.emit(Punct, i, i+2, "")
			i += 2
		case c == '.' && i+1 < n && s[i+1] == '.':
			l.emit(Punct, i, i+2, "")
			i += 2
		case strings.IndexByte("()[],;:.", c) >= 0:
			l.emit(Punct, i, i+1, "")
			i++
		case c == '@' && i+1 < n && (isASCIILetter(s[i+1]) || s[i+1] == '_'):
			// pgx named argument: @ followed by [A-Za-z_][A-Za-z0-9_]* (pgx/v5 named_args.go)
			j := i + 1
			for j < n && (isASCIILetter(s[j]) || isDigit(s[j]) || s[j] == '_') {
				j++
			}
			l.emit(NamedParam, i, j, s[i+1:j])
			i = j
		case strings.IndexByte(opChars, c) >= 0:
			j := i
			for j < n && strings.IndexByte(opChars, s[j]) >= 0 {
				// an embedded comment start ends the operator
				if j > i && ((s[j] == '-' && j+1 < n && s[j+1] == '-') || (s[j] == '/' && j+1 < n && s[j+1] == '*')) {
					break
				}
				j++
			}
			// a multi-char operator may not end in + or - unless it contains one of ~!@#%^&|`?
			op := s[i:j]
			if len(op) > 1 && (op[len(op)-1] == '+' || op[len(op)-1] == '-') && !strings.ContainsAny(op, opNonSQL) {
				for len(op) > 1 && (op[len(op)-1] == '+' || op[len(op)-1] == '-') {
					op = op[:len(op)-1]
				}
				j = i + len(op)
			}
			l.emit(Operator, i, j, "")
			i = j
		case isIdentStart(c):
			j := i + 1
			for j < n && isIdentCont(s[j]) {
				j++
			}
			v, tr := clip(foldIdent(s[i:j]))
			l.emit(Word, i, j, v).Truncated = tr
			i = j
		default:
			_, sz := utf8.DecodeRuneInString(s[i:])
			l.bad(i, i+sz, "stray byte")
			i += sz
		}
	}
	return l.out
}

// continuation implements {quotecontinue}: starting right after a closing quote at p, horizontal
// whitespace / comments, a newline, any whitespace / comment lines and then another quote continue
// the same literal. Returns the index of that quote.
func continuation(s string, p int) (int, bool) {
	n := len(s)
	j := p
	// {horiz_whitespace}* = ([ \t\f] | comment)*
	for j < n {
		if s[j] == ' ' || s[j] == '\t' || s[j] == '\f' {
			j++
		} else if s[j] == '-' && j+1 < n && s[j+1] == '-' {
			for j < n && s[j] != '\n' && s[j] != '\r' {
				j++
			}
		} else {
			break
		}
	}
	// {newline}
	if j >= n || (s[j] != '\n' && s[j] != '\r') {
		return 0, false
	}
	j++
	// {special_whitespace}* = (space+ | comment newline)*
	for j < n {
		if isSpace(s[j]) {
			j++
		} else if s[j] == '-' && j+1 < n && s[j+1] == '-' {
			k := j
			for k < n && s[k] != '\n' && s[k] != '\r' {
				k++
			}
			if k >= n {
				return 0, false // a comment that is not followed by a newline is not special_whitespace
			}
			j = k + 1
		} else {
			break
		}
	}
	if j < n && s[j] == '\'' {
		return j, true
	}
	return 0, false
}

// quoted scans a quoted literal whose token starts at tokStart and whose opening quote is at q.
func (l *lexer) quoted(tokStart, q int, kind Kind) int {
	s := l.s
	n := len(s)
	quote := s[q]
	var sb strings.Builder
	j := q + 1
	why := ""
	for {
		if j >= n {
			what := map[Kind]string{String: "quoted string", EString: "quoted string", UString: "quoted string", BitString: "bit/hexadecimal string literal", QuotedIdent: "quoted identifier", UIdent: "quoted identifier"}[kind]
			l.bad(tokStart, n, "unterminated "+what)
			return n
		}
		c := s[j]
		if c == quote {
			if j+1 < n && s[j+1] == quote {
				sb.WriteByte(quote)
				j += 2
				continue
			}
			// closing quote; string kinds may continue after whitespace with a newline
			if quote == '\'' {
				if nq, ok := continuation(s, j+1); ok {
					j = nq + 1
					continue
				}
			}
			j++
			break
		}
		if kind == EString && c == '\\' {
			if j+1 >= n {
				l.bad(tokStart, n, "unterminated quoted string")
				return n
			}
			adv, w := decodeEEscape(s, j, &sb)
			if w != "" && why == "" {
				why = w
			}
			j += adv
			continue
		}
		sb.WriteByte(c)
		j++
	}
	val := sb.String()
	if why != "" {
		l.bad(tokStart, j, why)
		return j
	}
	switch kind {
	case UString, UIdent:
		dec, err := decodeUnicodeEscapes(val)
		if err != "" {
			l.bad(tokStart, j, err)
			return j
		}
		val = dec
	}
	switch kind {
	case QuotedIdent, UIdent:
		if val == "" {
			l.bad(tokStart, j, "zero-length delimited identifier")
			return j
		}
		v, tr := clip(val)
		l.emit(kind, tokStart, j, v).Truncated = tr
		return j
	}
	l.emit(kind, tokStart, j, val)
	return j
}

// decodeEEscape decodes the backslash escape at s[j] (escape string); returns the bytes consumed.
func decodeEEscape(s string, j int, sb *strings.Builder) (int, string) {
	n := len(s)
	c := s[j+1]
	switch {
	case c >= '0' && c <= '7':
		k := j + 1
		v := 0
		for k < n && k < j+4 && s[k] >= '0' && s[k] <= '7' {
			v = v*8 + int(s[k]-'0')
			k++
		}
		sb.WriteByte(byte(v))
		if byte(v) == 0 {
			return k - j, "invalid byte sequence (NUL) in escape string"
		}
		return k - j, ""
	case c == 'x' && j+2 < n && isHex(s[j+2]):
		k := j + 2
		v := 0
		for k < n && k < j+4 && isHex(s[k]) {
			v = v*16 + hexVal(s[k])
			k++
		}
		sb.WriteByte(byte(v))
		if byte(v) == 0 {
			return k - j, "invalid byte sequence (NUL) in escape string"
		}
		return k - j, ""
	case c == 'u' || c == 'U':
		want := 4
		if c == 'U' {
			want = 8
		}
		if j+2+want > n {
			return 2, "invalid Unicode escape"
		}
		v := 0
		for k := j + 2; k < j+2+want; k++ {
			if !isHex(s[k]) {
				return 2, "invalid Unicode escape"
			}
			v = v*16 + hexVal(s[k])
		}
		adv := 2 + want
		if v >= 0xD800 && v <= 0xDBFF {
			// first half of a surrogate pair: a second \u / \U escape must follow
			k := j + adv
			if k+1 < n && s[k] == '\\' && (s[k+1] == 'u' || s[k+1] == 'U') {
				w2 := 4
				if s[k+1] == 'U' {
					w2 = 8
				}
				if k+2+w2 <= n {
					v2, ok := 0, true
					for m := k + 2; m < k+2+w2; m++ {
						if !isHex(s[m]) {
							ok = false
							break
						}
						v2 = v2*16 + hexVal(s[m])
					}
					if ok && v2 >= 0xDC00 && v2 <= 0xDFFF {
						sb.WriteRune(rune(0x10000 + (v-0xD800)<<10 + (v2 - 0xDC00)))
						return adv + 2 + w2, ""
					}
				}
			}
			return adv, "invalid Unicode surrogate pair"
		}
		if v == 0 || (v >= 0xDC00 && v <= 0xDFFF) || v > 0x10FFFF {
			return adv, "invalid Unicode escape value"
		}
		sb.WriteRune(rune(v))
		return adv, ""
	}
	switch c {
	case 'b':
		sb.WriteByte('\b')
	case 'f':
		sb.WriteByte('\f')
	case 'n':
		sb.WriteByte('\n')
	case 'r':
		sb.WriteByte('\r')
	case 't':
		sb.WriteByte('\t')
	case 'v':
		sb.WriteByte('\v')
	default:
		sb.WriteByte(c)
	}
	return 2, ""
}

func hexVal(c byte) int {
	switch {
	case c >= '0' && c <= '9':
		return int(c - '0')
	case c >= 'a' && c <= 'f':
		return int(c-'a') + 10
	default:
		return int(c-'A') + 10
	}
}

// decodeUnicodeEscapes is str_udeescape with the default escape character.
func decodeUnicodeEscapes(in string) (string, string) {
	var sb strings.Builder
	n := len(in)
	var pending int // pending first surrogate
	for i := 0; i < n; {
		c := in[i]
		if c != '\\' {
			if pending != 0 {
				return "", "invalid Unicode surrogate pair"
			}
			sb.WriteByte(c)
			i++
			continue
		}
		if i+1 < n && in[i+1] == '\\' {
			if pending != 0 {
				return "", "invalid Unicode surrogate pair"
			}
			sb.WriteByte('\\')
			i += 2
			continue
		}
		start, want := i+1, 4
		if i+1 < n && in[i+1] == '+' {
			start, want = i+2, 6
		}
		if start+want > n {
			return "", "invalid Unicode escape"
		}
		v := 0
		for k := start; k < start+want; k++ {
			if !isHex(in[k]) {
				return "", "invalid Unicode escape"
			}
			v = v*16 + hexVal(in[k])
		}
		i = start + want
		switch {
		case pending != 0:
			if v < 0xDC00 || v > 0xDFFF {
				return "", "invalid Unicode surrogate pair"
			}
			sb.WriteRune(rune(0x10000 + (pending-0xD800)<<10 + (v - 0xDC00)))
			pending = 0
		case v >= 0xD800 && v <= 0xDBFF:
			pending = v
		case v == 0 || (v >= 0xDC00 && v <= 0xDFFF) || v > 0x10FFFF:
			return "", "invalid Unicode escape value"
		default:
			sb.WriteRune(rune(v))
		}
	}
	if pending != 0 {
		return "", "invalid Unicode surrogate pair"
	}
	return sb.String(), ""
}

// dollar handles $n parameters, $tag$ dollar quotes and a stray $.
func (l *lexer) dollar(i int) int {
	s := l.s
	n := len(s)
	if i+1 < n && isDigit(s[i+1]) {
		j := i + 1
		for j < n && isDigit(s[j]) {
			j++
		}
		if j < n && isIdentStart(s[j]) {
			// param_junk
			k := j
			for k < n && isIdentCont(s[k]) {
				k++
			}
			l.bad(i, k, "trailing junk after parameter")
			return k
		}
		l.emit(Param, i, j, s[i+1:j])
		return j
	}
	// dolqdelim \$({dolq_start}{dolq_cont}*)?\$ ; dolq_cont has no $
	j := i + 1
	if j < n && isIdentStart(s[j]) {
		j++
		for j < n && (isIdentStart(s[j]) || isDigit(s[j])) {
			j++
		}
	}
	if j < n && s[j] == '$' {
		tag := s[i : j+1]
		end := strings.Index(s[j+1:], tag)
		if end < 0 {
			l.bad(i, n, "unterminated dollar-quoted string")
			return n
		}
		stop := j + 1 + end + len(tag)
		l.emit(DollarString, i, stop, s[j+1:j+1+end])
		return stop
	}
	// dolqfailed: the $ is returned on its own and no grammar rule accepts it
	l.bad(i, i+1, "stray $")
	return i + 1
}

// number handles integer / numeric / real literals and the "trailing junk" errors.
func (l *lexer) number(i int) int {
	s := l.s
	n := len(s)
	digits := func(j int, ok func(byte) bool) int {
		// {d}(_?{d})*
		for j < n {
			if ok(s[j]) {
				j++
			} else if s[j] == '_' && j+1 < n && ok(s[j+1]) {
				j += 2
			} else {
				break
			}
		}
		return j
	}
	junk := func(j int) int {
		k := j
		for k < n && isIdentCont(s[k]) {
			k++
		}
		l.bad(i, k, "trailing junk after numeric literal")
		return k
	}
	if s[i] == '0' && i+1 < n && strings.IndexByte("xXoObB", s[i+1]) >= 0 {
		var ok func(byte) bool
		switch s[i+1] {
		case 'x', 'X':
			ok = isHex
		case 'o', 'O':
			ok = func(c byte) bool { return c >= '0' && c <= '7' }
		default:
			ok = func(c byte) bool { return c == '0' || c == '1' }
		}
		j := i + 2
		if j < n && s[j] == '_' && j+1 < n && ok(s[j+1]) {
			j++
		}
		if j < n && ok(s[j]) {
			j = digits(j, ok)
			if j < n && isIdentCont(s[j]) {
				return junk(j)
			}
			l.emit(Number, i, j, "")
			return j
		}
		return junk(i + 1) // hexfail / octfail / binfail
	}
	j := i
	if isDigit(s[j]) {
		j = digits(j, isDigit)
	}
	if j < n && s[j] == '.' && !(j+1 < n && s[j+1] == '.') {
		// numeric: {decinteger}\.{decinteger}? | \.{decinteger}
		j++
		if j < n && isDigit(s[j]) {
			j = digits(j, isDigit)
		}
	}
	if j < n && (s[j] == 'e' || s[j] == 'E') {
		k := j + 1
		if k < n && (s[k] == '+' || s[k] == '-') {
			k++
		}
		if k < n && isDigit(s[k]) {
			j = digits(k, isDigit)
		} else if k > j+1 {
			// realfail: 1e+ without digits
			l.bad(i, k, "trailing junk after numeric literal")
			return k
		}
	}
	if j < n && isIdentStart(s[j]) {
		return junk(j)
	}
	l.emit(Number, i, j, "")
	return j
}

// Significant drops comments.
func Significant(toks []Token) []Token {
	out := toks[:0:0]
	for _, t := range toks {
		if t.Kind != Comment {
			out = append(out, t)
		}
	}
	return out
}

// FirstBad returns the first token PostgreSQL's lexer would reject, or nil.
func FirstBad(toks []Token) *Token {
	for i := range toks {
		if toks[i].Kind == Bad {
			return &toks[i]
		}
	}
	return nil
}
