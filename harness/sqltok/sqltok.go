// Package sqltok is a lexer for PostgreSQL SQL text following src/backend/parser/scan.l with
// standard_conforming_strings = on (the server default since 9.1), plus the client-side `@name`
// named-argument form that pgx rewrites before the text reaches the server. It is written from
// the PostgreSQL lexical rules, not from DAWGS's formatter, so that it can act as an independent
// judge of what token structure the emitted text has.
package sqltok

import (
	"strings"
	"unicode"
	"unicode/utf8"
)

type Kind int

const (
	Word        Kind = iota // unquoted identifier or keyword
	QuotedIdent             // "..." ; Value is the decoded name
	String                  // '...' ; Value is the decoded value
	EString                 // E'...' ; Value decoded with backslash escapes
	UString                 // U&'...'
	DollarString            // $tag$...$tag$ ; Value is the body
	BitString               // B'...' / X'...'
	Number
	Param      // $1
	NamedParam // @name (pgx named argument)
	Operator
	Punct   // ( ) [ ] , ; : .
	Cast    // ::
	Comment // -- ... or /* ... */ (nested)
	Bad     // unterminated literal / comment, stray byte
)

func (k Kind) String() string {
	return [...]string{"Word", "QuotedIdent", "String", "EString", "UString", "DollarString", "BitString", "Number", "Param", "NamedParam", "Operator", "Punct", "Cast", "Comment", "Bad"}[k]
}

type Token struct {
	Kind  Kind
	Text  string // raw text
	Value string // decoded value for literals / identifiers
	Pos   int
}

const opChars = "+-*/<>=~!@#%^&|`?"

func isIdentStart(r rune) bool {
	return r == '_' || unicode.IsLetter(r) || r >= 0x80
}

func isIdentCont(r rune) bool {
	return isIdentStart(r) || unicode.IsDigit(r) || r == '$'
}

// Lex tokenises the whole text; whitespace is dropped, comments are kept as tokens.
func Lex(s string) []Token {
	var out []Token
	i := 0
	n := len(s)
	emit := func(k Kind, start, end int, val string) {
		out = append(out, Token{Kind: k, Text: s[start:end], Value: val, Pos: start})
	}
	for i < n {
		c := s[i]
		switch {
		case c == ' ' || c == '\t' || c == '\n' || c == '\r' || c == '\f' || c == '\v':
			i++
		case c == '-' && i+1 < n && s[i+1] == '-':
			j := i
			for j < n && s[j] != '\n' && s[j] != '\r' {
				j++
			}
			emit(Comment, i, j, "")
			i = j
		case c == '/' && i+1 < n && s[i+1] == '*':
			depth, j := 1, i+2
			for j < n && depth > 0 {
				if j+1 < n && s[j] == '/' && s[j+1] == '*' {
					depth++
					j += 2
				} else if j+1 < n && s[j] == '*' && s[j+1] == '/' {
					depth--
					j += 2
				} else {
					j++
				}
			}
			if depth > 0 {
				emit(Bad, i, n, "unterminated comment")
				i = n
			} else {
				emit(Comment, i, j, "")
				i = j
			}
		case c == '\'':
			j, val, ok := scanQuoted(s, i, '\'', false)
			if !ok {
				emit(Bad, i, n, "unterminated string")
				i = n
			} else {
				emit(String, i, j, val)
				i = j
			}
		case c == '"':
			j, val, ok := scanQuoted(s, i, '"', false)
			if !ok {
				emit(Bad, i, n, "unterminated quoted identifier")
				i = n
			} else {
				emit(QuotedIdent, i, j, val)
				i = j
			}
		case (c == 'E' || c == 'e') && i+1 < n && s[i+1] == '\'':
			j, val, ok := scanQuoted(s, i+1, '\'', true)
			if !ok {
				emit(Bad, i, n, "unterminated E string")
				i = n
			} else {
				emit(EString, i, j, val)
				i = j
			}
		case (c == 'B' || c == 'b' || c == 'X' || c == 'x') && i+1 < n && s[i+1] == '\'':
			j, val, ok := scanQuoted(s, i+1, '\'', false)
			if !ok {
				emit(Bad, i, n, "unterminated bit string")
				i = n
			} else {
				emit(BitString, i, j, val)
				i = j
			}
		case (c == 'U' || c == 'u') && i+2 < n && s[i+1] == '&' && (s[i+2] == '\'' || s[i+2] == '"'):
			q := s[i+2]
			j, val, ok := scanQuoted(s, i+2, q, false)
			if !ok {
				emit(Bad, i, n, "unterminated unicode literal")
				i = n
			} else {
				emit(UString, i, j, val)
				i = j
			}
		case c == '$':
			// $1 parameter, $tag$ dollar quote, or stray
			if i+1 < n && s[i+1] >= '0' && s[i+1] <= '9' {
				j := i + 1
				for j < n && s[j] >= '0' && s[j] <= '9' {
					j++
				}
				emit(Param, i, j, s[i+1:j])
				i = j
				break
			}
			j := i + 1
			for j < n {
				r, sz := utf8.DecodeRuneInString(s[j:])
				if !(isIdentStart(r) || (j > i+1 && unicode.IsDigit(r))) || r == '$' {
					break
				}
				j += sz
			}
			if j < n && s[j] == '$' {
				tag := s[i : j+1]
				end := strings.Index(s[j+1:], tag)
				if end < 0 {
					emit(Bad, i, n, "unterminated dollar quote")
					i = n
				} else {
					emit(DollarString, i, j+1+end+len(tag), s[j+1:j+1+end])
					i = j + 1 + end + len(tag)
				}
				break
			}
			emit(Bad, i, i+1, "stray $")
			i++
		case c >= '0' && c <= '9' || (c == '.' && i+1 < n && s[i+1] >= '0' && s[i+1] <= '9'):
			j := i
			for j < n && (s[j] >= '0' && s[j] <= '9') {
				j++
			}
			if j < n && s[j] == '.' && !(j+1 < n && s[j+1] == '.') {
				j++
				for j < n && (s[j] >= '0' && s[j] <= '9') {
					j++
				}
			}
			if j < n && (s[j] == 'e' || s[j] == 'E') {
				k := j + 1
				if k < n && (s[k] == '+' || s[k] == '-') {
					k++
				}
				if k < n && s[k] >= '0' && s[k] <= '9' {
					for k < n && s[k] >= '0' && s[k] <= '9' {
						k++
					}
					j = k
				}
			}
			emit(Number, i, j, "")
			i = j
		case c == ':' && i+1 < n && s[i+1] == ':':
			emit(Cast, i, i+2, "")
			i += 2
		case strings.IndexByte("()[],;:.", c) >= 0:
			emit(Punct, i, i+1, "")
			i++
		case c == '@' && i+1 < n && func() bool { r, _ := utf8.DecodeRuneInString(s[i+1:]); return isIdentStart(r) }():
			j := i + 1
			for j < n {
				r, sz := utf8.DecodeRuneInString(s[j:])
				if !isIdentCont(r) || r == '$' {
					break
				}
				j += sz
			}
			emit(NamedParam, i, j, s[i+1:j])
			i = j
		case strings.IndexByte(opChars, c) >= 0:
			j := i
			for j < n && strings.IndexByte(opChars, s[j]) >= 0 {
				// a comment start ends the operator
				if j > i && ((s[j] == '-' && j+1 < n && s[j+1] == '-') || (s[j] == '/' && j+1 < n && s[j+1] == '*')) {
					break
				}
				j++
			}
			// scan.l: a multi-char operator may not end in + or - unless it contains one of ~!@#%^&|`?
			op := s[i:j]
			if len(op) > 1 && (op[len(op)-1] == '+' || op[len(op)-1] == '-') && !strings.ContainsAny(op, "~!@#%^&|`?") {
				for len(op) > 1 && (op[len(op)-1] == '+' || op[len(op)-1] == '-') {
					op = op[:len(op)-1]
				}
				j = i + len(op)
			}
			emit(Operator, i, j, "")
			i = j
		default:
			r, sz := utf8.DecodeRuneInString(s[i:])
			if isIdentStart(r) {
				j := i + sz
				for j < n {
					r2, sz2 := utf8.DecodeRuneInString(s[j:])
					if !isIdentCont(r2) {
						break
					}
					j += sz2
				}
				emit(Word, i, j, strings.ToLower(s[i:j]))
				i = j
			} else {
				emit(Bad, i, i+sz, "stray byte")
				i += sz
			}
		}
	}
	return out
}

// scanQuoted scans a literal that starts with quote at s[start]; doubled quotes escape; with
// backslash=true backslash escapes are honoured (E strings). Returns the index after the closing quote.
func scanQuoted(s string, start int, quote byte, backslash bool) (int, string, bool) {
	var sb strings.Builder
	j := start + 1
	for j < len(s) {
		c := s[j]
		switch {
		case c == quote:
			if j+1 < len(s) && s[j+1] == quote {
				sb.WriteByte(quote)
				j += 2
				continue
			}
			return j + 1, sb.String(), true
		case backslash && c == '\\' && j+1 < len(s):
			j++
			switch s[j] {
			case 'n':
				sb.WriteByte('\n')
			case 't':
				sb.WriteByte('\t')
			case 'r':
				sb.WriteByte('\r')
			case 'b':
				sb.WriteByte('\b')
			case 'f':
				sb.WriteByte('\f')
			default:
				sb.WriteByte(s[j])
			}
			j++
		default:
			sb.WriteByte(c)
			j++
		}
	}
	return len(s), "", false
}

// Significant drops comments.
func Significant(toks []Token) []Token {
	out := toks[:0:0]
	for _, t := range toks {
		if t.Kind != Comment {
			out = append(out, t)
		}
	}
	return out
}
