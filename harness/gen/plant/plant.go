// Package plant makes a generated graph answer a generated query: it reads the patterns and the simple
// property / kind predicates of a parsed query and adds (or amends) nodes and edges so that, with high
// probability, every MATCH pattern has at least one match. A query over an independent random graph rarely has a
// match once its pattern has three steps or a selective predicate; an empty result on both sides hides most
// translation defects. Planting is construction, not rejection: the random part of the graph stays, so rows that
// must not match are still there.
//
// Everything random is drawn from the rapid.T, so that a planted case shrinks and replays like any other.
package plant

import (
	"fmt"
	"reflect"
	"strings"

	"github.com/specterops/dawgs/cypher/models/cypher"
	"github.com/specterops/dawgs/graph"
	"pgregory.net/rapid"

	"verif/gmodel"
)

// Limits keep the planted graph inside the bounds the checks state (fewer than 15 edges).
const (
	MaxNodes = 12
	MaxEdges = 14
)

type constraint struct {
	prop string
	op   string
	val  any
}

type planter struct {
	t        *rapid.T
	g        *gmodel.Graph
	params   map[string]any
	bound    map[string]int64 // variable -> node id
	cons     map[string][]constraint
	kinds    map[string][]string
	edgeKind []string
	propsOf  func(*rapid.T) map[string]any
}

// Plant returns g extended by one planted instance per MATCH pattern of q (pattern predicates with probability
// one half). edgeKinds is the vocabulary for relationship patterns without a kind; newProps draws the properties
// of a new node or edge.
func Plant(t *rapid.T, g gmodel.Graph, q *cypher.RegularQuery, params map[string]any, edgeKinds []string, newProps func(*rapid.T) map[string]any) gmodel.Graph {
	out := gmodel.Graph{Nodes: append([]gmodel.Node(nil), g.Nodes...), Edges: append([]gmodel.Edge(nil), g.Edges...)}
	for i := range out.Nodes {
		out.Nodes[i].Props = cloneProps(out.Nodes[i].Props)
		out.Nodes[i].Kinds = append([]string(nil), out.Nodes[i].Kinds...)
	}
	for i := range out.Edges {
		out.Edges[i].Props = cloneProps(out.Edges[i].Props)
	}
	p := &planter{t: t, g: &out, params: params, bound: map[string]int64{}, cons: map[string][]constraint{}, kinds: map[string][]string{}, edgeKind: edgeKinds, propsOf: newProps}
	var patterns [][]*cypher.PatternElement
	visit(reflect.ValueOf(q), func(v any) {
		switch n := v.(type) {
		case *cypher.PatternPart:
			if n != nil {
				patterns = append(patterns, n.PatternElements)
			}
		case *cypher.PatternPredicate:
			if n != nil && rapid.IntRange(0, 1).Draw(t, "plant-predicate") == 0 {
				patterns = append(patterns, n.PatternElements)
			}
		case *cypher.Comparison:
			p.comparison(n)
		case *cypher.KindMatcher:
			if n != nil {
				if v, ok := n.Reference.(*cypher.Variable); ok && v != nil {
					for _, k := range n.Kinds {
						p.kinds[v.Symbol] = append(p.kinds[v.Symbol], k.String())
					}
				}
			}
		}
	})
	for _, els := range patterns {
		p.pattern(els)
	}
	return out
}

func cloneProps(m map[string]any) map[string]any {
	if m == nil {
		return nil
	}
	c := make(map[string]any, len(m))
	for k, v := range m {
		c[k] = v
	}
	return c
}

// visit walks the model in field order (a pre-order over pointers, slices, maps with string keys in sorted order,
// interfaces and structs).
func visit(v reflect.Value, f func(any)) {
	if !v.IsValid() {
		return
	}
	switch v.Kind() {
	case reflect.Interface:
		if !v.IsNil() {
			visit(v.Elem(), f)
		}
	case reflect.Pointer:
		if v.IsNil() {
			return
		}
		if v.CanInterface() {
			f(v.Interface())
		}
		visit(v.Elem(), f)
	case reflect.Struct:
		for i := 0; i < v.NumField(); i++ {
			// an embedded unexported struct (cypher.expressionList) still carries exported fields
			if sf := v.Type().Field(i); sf.IsExported() || sf.Anonymous {
				visit(v.Field(i), f)
			}
		}
	case reflect.Slice, reflect.Array:
		for i := 0; i < v.Len(); i++ {
			visit(v.Index(i), f)
		}
	case reflect.Map:
		keys := v.MapKeys()
		if v.Type().Key().Kind() == reflect.String {
			// deterministic order
			for i := 1; i < len(keys); i++ {
				for j := i; j > 0 && keys[j].String() < keys[j-1].String(); j-- {
					keys[j], keys[j-1] = keys[j-1], keys[j]
				}
			}
			for _, k := range keys {
				visit(v.MapIndex(k), f)
			}
		}
	}
}

func (p *planter) literal(e cypher.Expression) (any, bool) {
	switch l := e.(type) {
	case *cypher.Literal:
		if l == nil || l.Null {
			return nil, false
		}
		switch x := l.Value.(type) {
		case string:
			if len(x) >= 2 && (x[0] == '\'' || x[0] == '"') && x[len(x)-1] == x[0] {
				body := x[1 : len(x)-1]
				if strings.ContainsRune(body, '\\') {
					return nil, false
				}
				return body, true
			}
			return x, true
		case int64:
			return x, true
		case int:
			return int64(x), true
		case float64:
			return x, true
		case bool:
			return x, true
		}
	case *cypher.Parameter:
		if l == nil {
			return nil, false
		}
		if v, ok := p.params[l.Symbol]; ok {
			switch x := v.(type) {
			case string, int64, float64, bool:
				return x, true
			case int:
				return int64(x), true
			}
		}
	case *cypher.ListLiteral:
		if l != nil && len(*l) > 0 {
			// membership: any element will do, take the first
			return p.literal((*l)[0])
		}
	}
	return nil, false
}

func (p *planter) comparison(c *cypher.Comparison) {
	if c == nil || len(c.Partials) != 1 || c.Partials[0] == nil {
		return
	}
	look, ok := c.Left.(*cypher.PropertyLookup)
	if !ok || look == nil {
		return
	}
	v, ok := look.Atom.(*cypher.Variable)
	if !ok || v == nil {
		return
	}
	val, ok := p.literal(c.Partials[0].Right)
	if !ok {
		return
	}
	op := string(c.Partials[0].Operator)
	if op == "in" {
		if _, isList := c.Partials[0].Right.(*cypher.ListLiteral); !isList {
			return
		}
		op = "="
	}
	p.cons[v.Symbol] = append(p.cons[v.Symbol], constraint{prop: look.Symbol, op: op, val: val})
}

// satisfy makes props meet one constraint where a simple value does.
func satisfy(props map[string]any, c constraint) {
	switch c.op {
	case "=", "starts with", "ends with", "contains", ">=", "<=":
		props[c.prop] = c.val
	case ">":
		switch x := c.val.(type) {
		case int64:
			props[c.prop] = x + 1
		case float64:
			props[c.prop] = x + 0.5
		}
	case "<":
		switch x := c.val.(type) {
		case int64:
			props[c.prop] = x - 1
		case float64:
			props[c.prop] = x - 0.5
		}
	}
}

func (p *planter) applyProps(props map[string]any, variable *cypher.Variable, inline cypher.Expression) {
	if pr, ok := inline.(*cypher.Properties); ok && pr != nil {
		for _, k := range sortedKeys(pr.Map) {
			// (one time in five the entry is left to chance: near misses, e.g. a second hop that fails the map)
			if val, ok := p.literal(pr.Map[k]); ok && rapid.IntRange(0, 4).Draw(p.t, "plant-inline") != 0 {
				props[k] = val
			}
		}
	}
	if variable != nil {
		for _, c := range p.cons[variable.Symbol] {
			if rapid.IntRange(0, 3).Draw(p.t, "plant-constraint") != 0 {
				satisfy(props, c)
			}
		}
	}
}

func sortedKeys(m cypher.MapLiteral) []string {
	keys := make([]string, 0, len(m))
	for k := range m {
		keys = append(keys, k)
	}
	for i := 1; i < len(keys); i++ {
		for j := i; j > 0 && keys[j] < keys[j-1]; j-- {
			keys[j], keys[j-1] = keys[j-1], keys[j]
		}
	}
	return keys
}

func (p *planter) nodeIndex(id int64) int {
	for i := range p.g.Nodes {
		if p.g.Nodes[i].ID == id {
			return i
		}
	}
	return -1
}

func (p *planter) newNode() (int, bool) {
	if len(p.g.Nodes) >= MaxNodes {
		return 0, false
	}
	id := int64(0)
	for _, n := range p.g.Nodes {
		if n.ID > id {
			id = n.ID
		}
	}
	id += int64(rapid.IntRange(1, 2).Draw(p.t, "plant-idgap"))
	p.g.Nodes = append(p.g.Nodes, gmodel.Node{ID: id, Props: p.propsOf(p.t)})
	return len(p.g.Nodes) - 1, true
}

// anyNode: an existing node (one time in three, if there is one) or a new one.
func (p *planter) anyNode() (int, bool) {
	if len(p.g.Nodes) > 0 && (len(p.g.Nodes) >= MaxNodes || rapid.IntRange(0, 2).Draw(p.t, "plant-reuse") == 0) {
		return rapid.IntRange(0, len(p.g.Nodes)-1).Draw(p.t, "plant-node"), true
	}
	return p.newNode()
}

func addKind(n *gmodel.Node, k string) {
	for _, have := range n.Kinds {
		if have == k {
			return
		}
	}
	n.Kinds = append(n.Kinds, k)
}

// node resolves a node pattern to a graph node that satisfies it; fixed != -1 forces the node (a zero-length
// expansion ends where it starts).
func (p *planter) node(np *cypher.NodePattern, fixed int) (int, bool) {
	idx := fixed
	if np.Variable != nil {
		if id, ok := p.bound[np.Variable.Symbol]; ok {
			if i := p.nodeIndex(id); i >= 0 {
				if fixed >= 0 && fixed != i {
					return 0, false
				}
				idx = i
			}
		}
	}
	if idx < 0 {
		var ok bool
		if idx, ok = p.anyNode(); !ok {
			return 0, false
		}
	}
	n := &p.g.Nodes[idx]
	for _, k := range np.Kinds {
		addKind(n, k.String())
	}
	if np.Variable != nil {
		for _, k := range p.kinds[np.Variable.Symbol] {
			if rapid.IntRange(0, 3).Draw(p.t, "plant-kind") != 0 {
				addKind(n, k)
			}
		}
		p.bound[np.Variable.Symbol] = n.ID
	}
	if n.Props == nil {
		n.Props = map[string]any{}
	}
	p.applyProps(n.Props, np.Variable, np.Properties)
	return idx, true
}

func (p *planter) edge(from, to int64, rp *cypher.RelationshipPattern) bool {
	kind := ""
	if len(rp.Kinds) > 0 {
		kind = rp.Kinds[rapid.IntRange(0, len(rp.Kinds)-1).Draw(p.t, "plant-ekind")].String()
	} else {
		kind = rapid.SampledFrom(p.edgeKind).Draw(p.t, "plant-ekind-any")
	}
	switch rp.Direction {
	case graph.DirectionInbound:
		from, to = to, from
	case graph.DirectionBoth:
		if rapid.Bool().Draw(p.t, "plant-flip") {
			from, to = to, from
		}
	}
	for i := range p.g.Edges {
		e := &p.g.Edges[i]
		if e.Start == from && e.End == to && e.Kind == kind {
			if e.Props == nil {
				e.Props = map[string]any{}
			}
			p.applyProps(e.Props, rp.Variable, rp.Properties)
			return true
		}
	}
	if len(p.g.Edges) >= MaxEdges {
		return false
	}
	id := int64(0)
	for _, e := range p.g.Edges {
		if e.ID > id {
			id = e.ID
		}
	}
	e := gmodel.Edge{ID: id + int64(rapid.IntRange(1, 2).Draw(p.t, "plant-eidgap")), Start: from, End: to, Kind: kind, Props: p.propsOf(p.t)}
	variable := rp.Variable
	if rp.Range != nil {
		variable = nil // a variable-length relationship variable is a list; its constraints are not the edge's
	}
	p.applyProps(e.Props, variable, rp.Properties)
	p.g.Edges = append(p.g.Edges, e)
	return true
}

func (p *planter) pattern(els []*cypher.PatternElement) {
	prev := -1
	var pending *cypher.RelationshipPattern
	for _, el := range els {
		if el == nil {
			return
		}
		switch x := el.Element.(type) {
		case *cypher.NodePattern:
			if x == nil {
				return
			}
			if pending == nil {
				idx, ok := p.node(x, -1)
				if !ok {
					return
				}
				prev = idx
				continue
			}
			hops := 1
			if r := pending.Range; r != nil {
				lo, hi := int64(1), int64(3)
				if r.StartIndex != nil {
					lo = *r.StartIndex
				}
				if r.EndIndex != nil {
					hi = *r.EndIndex
				} else if lo+2 > hi {
					hi = lo + 2
				}
				if hi > lo+2 {
					hi = lo + 2
				}
				if lo < 0 || hi < lo || hi > 4 {
					return
				}
				hops = rapid.IntRange(int(lo), int(hi)).Draw(p.t, "plant-hops")
			}
			fixed := -1
			if hops == 0 {
				fixed = prev
			}
			idx, ok := p.node(x, fixed)
			if !ok {
				if hops != 0 {
					return
				}
				// the end is bound elsewhere: one hop instead, if the range allows it
				if pending.Range.EndIndex != nil && *pending.Range.EndIndex < 1 {
					return
				}
				hops = 1
				if idx, ok = p.node(x, -1); !ok {
					return
				}
			}
			at := p.g.Nodes[prev].ID
			for h := 0; h < hops; h++ {
				next := p.g.Nodes[idx].ID
				if h < hops-1 {
					mid, ok := p.anyNode()
					if !ok {
						return
					}
					next = p.g.Nodes[mid].ID
				}
				if !p.edge(at, next, pending) {
					return
				}
				at = next
			}
			prev, pending = idx, nil
		case *cypher.RelationshipPattern:
			if x == nil || prev < 0 || pending != nil {
				return
			}
			pending = x
		default:
			return
		}
	}
}

var _ = fmt.Sprintf
