package cy

import (
	"sort"
	"testing"

	"pgregory.net/rapid"

	"verif/xlate"
)

func TestGenerate(t *testing.T) {
	n, parsed, translated := 0, 0, 0
	errs := map[string]int{}
	feats := map[string]int{}
	rapid.Check(t, func(rt *rapid.T) {
		q := Generate(rt, DefaultOptions())
		n++
		if n <= 25 {
			t.Logf("%s   %v", q.Text, q.Params)
		}
		m, err := xlate.Parse(q.Text)
		if err != nil {
			errs["PARSE: "+q.Text+" :: "+err.Error()]++
			return
		}
		parsed++
		if _, err := xlate.Translate(m, q.Params); err != nil {
			msg := err.Error()
			if len(msg) > 90 {
				msg = msg[:90]
			}
			errs[msg]++
			return
		}
		translated++
		for _, f := range q.Features {
			feats[f]++
		}
	})
	t.Logf("generated %d parsed %d translated %d", n, parsed, translated)
	type kv struct {
		k string
		v int
	}
	var list []kv
	for k, v := range errs {
		list = append(list, kv{k, v})
	}
	sort.Slice(list, func(i, j int) bool { return list[i].v > list[j].v })
	for i, e := range list {
		if i > 25 {
			break
		}
		t.Logf("%4d %s", e.v, e.k)
	}
	var fl []kv
	for k, v := range feats {
		fl = append(fl, kv{k, v})
	}
	sort.Slice(fl, func(i, j int) bool { return fl[i].k < fl[j].k })
	for _, e := range fl {
		t.Logf("feat %-32s %d", e.k, e.v)
	}
}
