// Package cy generates typed read-only Cypher queries (text + parameters) and small property
// graphs over one fixed property schema, for the translation properties (C01, C02, C03). Every
// expression is generated *at a type*, so comparisons are type-correct: DAWGS documents stricter
// typing than openCypher as a known difference, and the checks stay inside the common fragment.
//
// Schema: node kinds {A,B,C}, edge kinds {R,S,T}; properties name:string ([a-z0-9]*), value:int,
// score:float, flag:bool, tags:list<string>, opt:string (missing on ~40% of entities), mix: string | int | bool |
// missing (only ever compared with string literals by = and <>).
package cy

import (
	"fmt"
	"sort"
	"strings"

	"pgregory.net/rapid"

	"verif/gmodel"
)

var (
	NodeKinds = []string{"A", "B", "C"}
	EdgeKinds = []string{"R", "S", "T"}
	names     = []string{"a", "b", "ab", "abc", "b1", "c", "a1", "zz"}
	tagVals   = []string{"x", "y", "z"}
	// pathVals: strings with the characters a LIKE pattern gives a meaning to. Only ever compared by =, STARTS WITH,
	// ENDS WITH and CONTAINS (never ordered: collation).
	pathVals = []string{`a\b`, "a_b", "a%b", "axb", "ab", `a\`, "%", "_x", `c\d\e`}
)

// Graph draws a small property graph: ids with gaps, kind-less and multi-kind nodes, self loops,
// cycles, antiparallel edges, parallel edges of different kinds (unique per start,end,kind),
// isolated nodes, duplicate property values on purpose.
func Graph(t *rapid.T) gmodel.Graph {
	var g gmodel.Graph
	nn := max2(rapid.IntRange(0, 6).Draw(t, "nn1"), rapid.IntRange(0, 5).Draw(t, "nn2"))
	id := int64(0)
	for i := 0; i < nn; i++ {
		id += int64(rapid.IntRange(1, 3).Draw(t, "idgap"))
		n := gmodel.Node{ID: id, Props: props(t)}
		for _, k := range NodeKinds {
			if rapid.IntRange(0, 2).Draw(t, "haskind") == 0 {
				n.Kinds = append(n.Kinds, k)
			}
		}
		g.Nodes = append(g.Nodes, n)
	}
	if nn == 0 {
		return g
	}
	ne := max2(rapid.IntRange(0, 8).Draw(t, "ne1"), rapid.IntRange(0, 6).Draw(t, "ne2"))
	seen := map[string]bool{}
	eid := int64(0)
	for i := 0; i < ne; i++ {
		s := g.Nodes[rapid.IntRange(0, nn-1).Draw(t, "es")].ID
		e := g.Nodes[rapid.IntRange(0, nn-1).Draw(t, "ee")].ID
		k := rapid.SampledFrom(EdgeKinds).Draw(t, "ek")
		key := fmt.Sprintf("%d-%d-%s", s, e, k)
		if seen[key] {
			continue
		}
		seen[key] = true
		eid += int64(rapid.IntRange(1, 2).Draw(t, "eidgap"))
		g.Edges = append(g.Edges, gmodel.Edge{ID: eid, Start: s, End: e, Kind: k, Props: props(t)})
	}
	return g
}

// RankedGraph draws a graph for ranking queries (count per source, ORDER BY the count, LIMIT): three or four source
// nodes that carry every kind, source i with i outgoing relationships of kind R and of kind S to terminals of its
// own, so that the counts per source are pairwise different and a ranking is a total order.
func RankedGraph(t *rapid.T) gmodel.Graph {
	var g gmodel.Graph
	id, eid := int64(0), int64(0)
	// every node answers the usual anchors alike (flag = true, value = 4, one shared name), so that a WHERE on the
	// source keeps all of them or none
	shared := rapid.SampledFrom(names).Draw(t, "rname")
	node := func() int64 {
		id += int64(rapid.IntRange(1, 2).Draw(t, "ridgap"))
		p := props(t)
		p["name"], p["value"], p["flag"] = shared, int64(4), true
		g.Nodes = append(g.Nodes, gmodel.Node{ID: id, Kinds: append([]string(nil), NodeKinds...), Props: p})
		return id
	}
	sources := rapid.IntRange(3, 4).Draw(t, "rsources")
	fan := rapid.Permutation([]int{1, 2, 3, 0}[:sources]).Draw(t, "rfan")
	for i := 0; i < sources; i++ {
		src := node()
		for j := 0; j < fan[i]; j++ {
			dst := node()
			for _, k := range []string{"R", "S"} {
				eid++
				g.Edges = append(g.Edges, gmodel.Edge{ID: eid, Start: src, End: dst, Kind: k, Props: props(t)})
			}
		}
	}
	return g
}

func max2(a, b int) int {
	if a > b {
		return a
	}
	return b
}

// Props draws the properties of a node or an edge.
func Props(t *rapid.T) map[string]any { return props(t) }

func props(t *rapid.T) map[string]any {
	p := map[string]any{
		"name":  rapid.SampledFrom(names).Draw(t, "pname"),
		"value": int64(rapid.IntRange(0, 4).Draw(t, "pvalue")),
		"score": float64(rapid.IntRange(0, 6).Draw(t, "pscore")) / 2,
		"flag":  rapid.Bool().Draw(t, "pflag"),
	}
	if rapid.IntRange(0, 3).Draw(t, "haspath") != 0 {
		p["path"] = rapid.SampledFrom(pathVals).Draw(t, "ppath")
	}
	nt := rapid.IntRange(0, 2).Draw(t, "ntags")
	tags := make([]any, 0, nt)
	for i := 0; i < nt; i++ {
		tags = append(tags, rapid.SampledFrom(tagVals).Draw(t, "tag"))
	}
	p["tags"] = tags
	if rapid.IntRange(0, 4).Draw(t, "hasopt") < 3 {
		p["opt"] = rapid.SampledFrom(names).Draw(t, "popt")
	}
	// mix: the one key without a fixed type (string / integer / boolean, or missing); queries only compare it with
	// string literals by = and <>, which DAWGS guards with jsonb_typeof(...) = 'string'
	switch rapid.IntRange(0, 5).Draw(t, "pmix") {
	case 0:
		p["mix"] = "1"
	case 1:
		p["mix"] = "a"
	case 2:
		p["mix"] = int64(1)
	case 3:
		p["mix"] = true
	case 4:
		p["mix"] = "true"
	}
	return p
}

type Type string

const (
	TNode    Type = "node"
	TRel     Type = "rel"
	TPath    Type = "path"
	TInt     Type = "int"
	TFloat   Type = "float"
	TString  Type = "string"
	TBool    Type = "bool"
	TListStr Type = "list<string>"
	TListInt Type = "list<int>"
	TListRel Type = "list<rel>"
	TListNod Type = "list<node>"
)

type Var struct {
	Name string
	Type Type
}

// Options tune the shape weights (C02 shifts them towards what the lowerings look for).
type Options struct {
	MaxClauses     int  // reading clauses before RETURN (default 3)
	AllowParams    bool // replace some literals by $parameters
	AllowAggregate bool
	AllowVarLength bool
	AllowOptional  bool
	AllowWith      bool
	AllowUnwind    bool
	AllowQuant     bool
	AllowPatternPr bool
	AllowPaths     bool
	AllowOrderLim  bool
	Exclude        map[string]bool // feature names to avoid (known-finding exclusions by construction)
	Bias           string          // "lowerings": shift weights towards the shapes the optimiser's lowerings look for
}

func DefaultOptions() Options {
	return Options{MaxClauses: 3, AllowParams: true, AllowAggregate: true, AllowVarLength: true, AllowOptional: true,
		AllowWith: true, AllowUnwind: true, AllowQuant: true, AllowPatternPr: true, AllowPaths: true, AllowOrderLim: true}
}

// Query is one generated query.
type Query struct {
	Text     string         `json:"text"`
	Params   map[string]any `json:"params,omitempty"`
	Features []string       `json:"features"`
}

type gen struct {
	t      *rapid.T
	o      Options
	feats  map[string]bool
	params map[string]any
	nvar   int
	scope  []Var

	// before: the node variables bound before the MATCH clause that is being generated (an inline property map may
	// read them: `match (a)-->(b) match (c {rid: id(b)})`)
	before []string
}

func (g *gen) feat(f string) { g.feats[f] = true }

func (g *gen) chance(label string, num, den int) bool {
	return rapid.IntRange(0, den-1).Draw(g.t, label) < num
}

func (g *gen) pick(label string, n int) int { return rapid.IntRange(0, n-1).Draw(g.t, label) }

func (g *gen) fresh(prefix string) string {
	g.nvar++
	return fmt.Sprintf("%s%d", prefix, g.nvar)
}

func (g *gen) varsOf(types ...Type) []Var {
	var out []Var
	for _, v := range g.scope {
		for _, ty := range types {
			if v.Type == ty {
				out = append(out, v)
			}
		}
	}
	return out
}

// Generate draws one query.
func Generate(t *rapid.T, o Options) Query {
	if o.MaxClauses == 0 {
		o.MaxClauses = 3
	}
	g := &gen{t: t, o: o, feats: map[string]bool{}, params: map[string]any{}}
	if o.Bias == "lowerings" && g.chance("template", 1, 2) {
		text := g.loweringTemplate()
		feats := make([]string, 0, len(g.feats))
		for f := range g.feats {
			feats = append(feats, f)
		}
		sort.Strings(feats)
		return Query{Text: text, Features: feats}
	}
	if o.AllowPaths && g.chance("multipath", 1, 20) {
		// several path variables, each used whole and through nodes()/relationships(): staging of path composites
		g.feat("multi-path-projection")
		np := 2 + g.pick("npaths", 2)
		var pats, items []string
		for i := 1; i <= np; i++ {
			pv := fmt.Sprintf("p%d", i)
			rel := "[:" + g.eks() + "]"
			if o.AllowVarLength && g.chance("mpvar", 1, 3) {
				rel = "[:" + g.ek() + g.rng() + "]"
			}
			pats = append(pats, fmt.Sprintf("%s = (a%d%s)-%s->(b%d)", pv, i, g.optKind("mpk"), rel, i))
			uses := []string{pv, "nodes(" + pv + ")", "relationships(" + pv + ")", "size(relationships(" + pv + "))"}
			perm := rapid.Permutation(uses).Draw(g.t, "mpuses")
			items = append(items, perm[:2+g.pick("mpn", 2)]...)
		}
		sep := ", "
		if g.chance("mpsepmatch", 1, 3) {
			sep = " match "
		}
		text := "match " + strings.Join(pats, sep)
		if g.chance("mpwhere", 1, 2) {
			text += " where " + g.anchor("a1")
		}
		text += " return " + strings.Join(rapid.Permutation(items).Draw(g.t, "mpitems"), ", ")
		feats := make([]string, 0, len(g.feats))
		for f := range g.feats {
			feats = append(feats, f)
		}
		sort.Strings(feats)
		return Query{Text: text, Features: feats}
	}
	var sb strings.Builder
	nclauses := 1 + g.pick("nclauses", o.MaxClauses)
	if nclauses > 1 && g.chance("fewer", 1, 2) {
		nclauses--
	}
	for i := 0; i < nclauses; i++ {
		kind := g.pick("clause", 10)
		switch {
		case i == 0 || kind < 5:
			sb.WriteString(g.match(i > 0 && o.AllowOptional && g.chance("optional", 1, 4)))
		case kind < 7 && o.AllowWith && len(g.scope) > 0:
			sb.WriteString(g.with())
		case kind < 8 && o.AllowUnwind:
			sb.WriteString(g.unwind())
		case kind == 8 && o.AllowWith && o.AllowUnwind && o.AllowAggregate && len(g.varsOf(TNode)) > 0 && g.chance("collectunwind", 1, 2):
			sb.WriteString(g.collectThenUnwind())
		default:
			sb.WriteString(g.match(false))
		}
		sb.WriteString(" ")
	}
	sb.WriteString(g.projection("return", true))
	feats := make([]string, 0, len(g.feats))
	for f := range g.feats {
		feats = append(feats, f)
	}
	sort.Strings(feats)
	q := Query{Text: sb.String(), Features: feats}
	if len(g.params) > 0 {
		q.Params = g.params
	}
	return q
}

// ---------- patterns

func (g *gen) nodePattern(allowReuse bool, bound map[string]bool) string {
	var name string
	nodes := g.varsOf(TNode)
	if allowReuse && len(nodes) > 0 && g.chance("reuse", 1, 3) {
		name = nodes[g.pick("reusei", len(nodes))].Name
		g.feat("join-on-bound-node")
		if g.chance("barereuse", 2, 3) {
			return "(" + name + ")"
		}
	} else if g.chance("anon", 1, 4) {
		name = ""
	} else {
		name = g.fresh("n")
		g.scope = append(g.scope, Var{name, TNode})
	}
	var sb strings.Builder
	sb.WriteString("(" + name)
	if g.chance("nkinds", 1, 3) {
		k := 1
		if g.chance("twokinds", 1, 5) {
			k = 2
			g.feat("multi-kind-node-pattern")
		}
		perm := rapid.Permutation(NodeKinds).Draw(g.t, "kperm")
		for _, kn := range perm[:k] {
			sb.WriteString(":" + kn)
		}
		g.feat("node-kind")
	}
	if g.chance("nprops", 1, 12) {
		sb.WriteString(" {" + g.inlineProp() + "}")
		g.feat("inline-props")
	}
	sb.WriteString(")")
	return sb.String()
}

func (g *gen) inlineProp() string {
	if len(g.before) > 0 && g.chance("iprop-ref", 1, 4) {
		// the value reads a node bound by an earlier clause
		b := g.before[g.pick("iprop-refv", len(g.before))]
		g.feat("inline-props-read-variable")
		switch g.pick("iprop-refk", 3) {
		case 0:
			return "value: id(" + b + ")"
		case 1:
			return "name: " + b + ".name"
		default:
			return "value: " + b + ".value"
		}
	}
	if g.chance("iprop-two", 1, 6) {
		// two entries, one of them the key the selectivity model knows as unique
		g.feat("inline-props-two-entries")
		first := rapid.SampledFrom([]string{"objectid: 'S-1-5-21'", "objectid: " + g.strLit(), "name: " + g.strLit(), "value: " + g.intLit()}).Draw(g.t, "iprop-first")
		second := rapid.SampledFrom([]string{"name: " + g.strLit(), "flag: " + g.boolLit(), "value: " + g.intLit(), "objectid: 'S-1-5-21'"}).Draw(g.t, "iprop-second")
		if strings.SplitN(first, ":", 2)[0] != strings.SplitN(second, ":", 2)[0] {
			return first + ", " + second
		}
		return first
	}
	switch g.pick("iprop", 3) {
	case 0:
		return "name: " + g.strLit()
	case 1:
		return "value: " + g.intLit()
	default:
		return "flag: " + g.boolLit()
	}
}

func (g *gen) relPattern(pathCtx bool) string {
	dir := g.pick("dir", 5) // 0,1 out; 2,3 in; 4 both
	var sb strings.Builder
	inner := ""
	name := ""
	varlen := g.o.AllowVarLength && g.chance("varlen", 1, 5)
	if varlen && dir == 4 && !g.chance("undirected-varlen", 1, 8) {
		dir = g.pick("dir2", 4) // DAWGS rejects undirected expansions: keep them rare
	}
	if !varlen && g.chance("relvar", 1, 2) {
		name = g.fresh("r")
		g.scope = append(g.scope, Var{name, TRel})
	}
	inner += name
	if g.chance("rkinds", 1, 2) {
		k := 1 + g.pick("nrk", 2)
		perm := rapid.Permutation(EdgeKinds).Draw(g.t, "rkperm")
		inner += ":" + strings.Join(perm[:k], "|")
		if k > 1 {
			g.feat("multi-type-rel")
		}
		g.feat("rel-kind")
	}
	if varlen {
		g.feat("var-length")
		lo := g.pick("vlo", 3) // 0..2
		hi := lo + g.pick("vhi", 3)
		if hi == 0 {
			hi = 1
		}
		if hi > 3 {
			hi = 3
		}
		switch g.pick("vform", 6) {
		case 0:
			if lo == 0 {
				lo = 1
			}
			inner += fmt.Sprintf("*%d..%d", lo, hi)
		case 1:
			inner += fmt.Sprintf("*..%d", hi)
		case 2:
			if lo == 0 {
				lo = 1
			}
			inner += fmt.Sprintf("*%d..", lo)
			g.feat("var-length-unbounded")
		case 3:
			inner += "*"
			g.feat("var-length-unbounded")
		case 4:
			if lo == 0 && !g.chance("zero-range", 1, 3) {
				lo = 1
			}
			inner += fmt.Sprintf("*%d", lo)
			g.feat("var-length-exact")
			if lo == 0 {
				g.feat("var-length-zero")
			}
		default:
			if lo == 0 && !g.chance("zero-range2", 1, 3) {
				lo = 1
			}
			inner += fmt.Sprintf("*%d..%d", lo, lo)
			g.feat("var-length-exact")
			if lo == 0 {
				g.feat("var-length-zero")
			}
		}
	} else if g.chance("rprops", 1, 14) {
		inner += " {" + g.inlineProp() + "}"
		g.feat("inline-props")
	}
	if varlen && g.chance("varlenprops", 1, 5) {
		inner += " {" + g.inlineProp() + "}"
		g.feat("var-length-inline-props")
	}
	body := ""
	if inner != "" {
		body = "[" + inner + "]"
	}
	switch {
	case dir <= 1:
		sb.WriteString("-" + body + "->")
		g.feat("dir-out")
	case dir <= 3:
		sb.WriteString("<-" + body + "-")
		g.feat("dir-in")
	default:
		sb.WriteString("-" + body + "-")
		g.feat("dir-both")
	}
	return sb.String()
}

func (g *gen) patternPart(allowPath bool) string {
	var sb strings.Builder
	pathVar := ""
	steps := []int{1, 0, 1, 2, 1, 0, 2, 3, 1, 4}[g.pick("steps", 10)]
	if allowPath && g.o.AllowPaths && steps > 0 && g.chance("pathvar", 1, 4) {
		pathVar = g.fresh("p")
		g.feat("path-var")
	}
	sb.WriteString(g.nodePattern(true, nil))
	for i := 0; i < steps; i++ {
		sb.WriteString(g.relPattern(pathVar != ""))
		sb.WriteString(g.nodePattern(true, nil))
	}
	if steps >= 2 {
		g.feat("multi-step")
	}
	if steps == 0 {
		g.feat("node-only-pattern")
	}
	if pathVar != "" {
		g.scope = append(g.scope, Var{pathVar, TPath})
		return pathVar + " = " + sb.String()
	}
	return sb.String()
}

func (g *gen) match(optional bool) string {
	var sb strings.Builder
	if optional {
		sb.WriteString("optional ")
		g.feat("optional-match")
	}
	sb.WriteString("match ")
	g.before = g.before[:0]
	for _, v := range g.varsOf(TNode) {
		g.before = append(g.before, v.Name)
	}
	defer func() { g.before = g.before[:0] }()
	nparts := 1
	if g.chance("twoparts", 1, 5) {
		nparts = 2
		g.feat("multi-pattern")
	}
	for i := 0; i < nparts; i++ {
		if i > 0 {
			sb.WriteString(", ")
		}
		sb.WriteString(g.patternPart(true))
	}
	if g.chance("where", 1, 2) {
		sb.WriteString(" where ")
		if ps := g.varsOf(TPath); len(ps) > 0 && g.o.AllowQuant && g.chance("wherequant", 1, 4) {
			sb.WriteString(g.pathQuantifier(ps[g.pick("wqp", len(ps))].Name) + " and ")
		}
		sb.WriteString(g.boolExpr(1 + g.pick("wheredepth", 2)))
		g.feat("where")
	}
	return sb.String()
}

// pathQuantifier renders any/all/none/single over nodes(p) or relationships(p).
func (g *gen) pathQuantifier(p string) string {
	g.feat("quantifier")
	q := rapid.SampledFrom([]string{"any", "all", "none", "single"}).Draw(g.t, "pquant")
	g.feat("quantifier-" + q)
	x := g.fresh("x")
	if g.chance("pqnodes", 1, 2) {
		g.feat("quantifier-over-nodes")
		return fmt.Sprintf("%s(%s in nodes(%s) where %s.value %s %s)", q, x, p, x, rapid.SampledFrom(cmpOps).Draw(g.t, "pqcmp"), g.intLit())
	}
	g.feat("quantifier-over-rels")
	return fmt.Sprintf("%s(%s in relationships(%s) where %s.value %s %s)", q, x, p, x, rapid.SampledFrom(cmpOps).Draw(g.t, "pqcmp"), g.intLit())
}

// ---------- literals & parameters

func (g *gen) maybeParam(val any, lit string) string {
	if g.o.AllowParams && g.chance("asparam", 1, 8) {
		name := fmt.Sprintf("p%d", len(g.params))
		g.params[name] = val
		g.feat("parameter")
		return "$" + name
	}
	return lit
}

func (g *gen) strLit() string {
	s := rapid.SampledFrom(names).Draw(g.t, "strlit")
	return g.maybeParam(s, "'"+s+"'")
}

func (g *gen) intLit() string {
	i := rapid.IntRange(0, 4).Draw(g.t, "intlit")
	return g.maybeParam(int64(i), fmt.Sprintf("%d", i))
}

func (g *gen) floatLit() string {
	f := float64(rapid.IntRange(0, 6).Draw(g.t, "floatlit")) / 2
	return fmt.Sprintf("%.1f", f)
}

func (g *gen) boolLit() string {
	if rapid.Bool().Draw(g.t, "boollit") {
		return "true"
	}
	return "false"
}

// ---------- typed expressions

func (g *gen) entity() (Var, bool) {
	vs := g.varsOf(TNode, TRel)
	if len(vs) == 0 {
		return Var{}, false
	}
	return vs[g.pick("entity", len(vs))], true
}

func (g *gen) strExpr(depth int) string {
	e, ok := g.entity()
	opts := 3
	if ok {
		opts = 8
	}
	if vs := g.varsOf(TString); len(vs) > 0 && g.chance("strvar", 1, 3) {
		return vs[g.pick("strvari", len(vs))].Name
	}
	if ok && depth > 0 && g.chance("strfn", 1, 8) {
		switch g.pick("strfnk", 3) {
		case 0:
			g.feat("fn-coalesce")
			return "coalesce(" + e.Name + ".opt, " + g.strLit() + ")"
		case 1:
			g.feat("fn-tostring")
			return "toString(" + e.Name + ".value)"
		default:
			g.feat("fn-head")
			return "head(" + e.Name + ".tags)"
		}
	}
	switch g.pick("strk", opts) {
	case 0, 1:
		return g.strLit()
	case 2:
		if depth > 0 {
			g.feat("fn-tolower")
			return "toLower(" + g.strExpr(depth-1) + ")"
		}
		return g.strLit()
	case 3, 4, 5:
		g.feat("prop-string")
		return e.Name + ".name"
	case 6:
		g.feat("prop-missing-possible")
		return e.Name + ".opt"
	default:
		if e.Type == TRel {
			g.feat("fn-type")
			return "type(" + e.Name + ")"
		}
		if depth > 0 {
			g.feat("fn-toupper")
			return "toUpper(" + e.Name + ".name)"
		}
		return e.Name + ".name"
	}
}

func (g *gen) intExpr(depth int) string {
	e, ok := g.entity()
	if vs := g.varsOf(TInt); len(vs) > 0 && g.chance("intvar", 1, 3) {
		return vs[g.pick("intvari", len(vs))].Name
	}
	opts := 2
	if ok {
		opts = 7
	}
	switch g.pick("intk", opts) {
	case 0:
		return g.intLit()
	case 1:
		if depth > 0 {
			op := rapid.SampledFrom([]string{"+", "-", "*"}).Draw(g.t, "arith")
			g.feat("arithmetic")
			l, r := g.intExpr(depth-1), g.intExpr(depth-1)
			if op == "+" && isPropertyLookupText(l) && isPropertyLookupText(r) {
				// DAWGS reads `a.x + b.y` on two untyped properties as string concatenation on purpose
				// (translate/expression.go isConcatenationOperation): outside the typed common fragment
				r = g.intLit()
			}
			return "(" + l + " " + op + " " + r + ")"
		}
		return g.intLit()
	case 2, 3, 4:
		g.feat("prop-int")
		return e.Name + ".value"
	case 5:
		if e.Type == TNode {
			g.feat("fn-id")
			return "id(" + e.Name + ")"
		}
		return e.Name + ".value"
	default:
		if ps := g.varsOf(TPath); len(ps) > 0 {
			g.feat("fn-size-relationships")
			return "size(relationships(" + ps[g.pick("pathi", len(ps))].Name + "))"
		}
		g.feat("fn-size-list")
		return "size(" + e.Name + ".tags)"
	}
}

// isPropertyLookupText reports whether the rendered expression is a bare property lookup (v.key).
func isPropertyLookupText(e string) bool {
	dot := strings.IndexByte(e, '.')
	if dot <= 0 || dot == len(e)-1 {
		return false
	}
	for i, c := range e {
		if i == dot {
			continue
		}
		if !(c >= 'a' && c <= 'z' || c >= '0' && c <= '9' || c == '_') {
			return false
		}
	}
	return true
}

func (g *gen) listStrExpr() string {
	e, ok := g.entity()
	if vs := g.varsOf(TListStr); len(vs) > 0 && g.chance("lsvar", 1, 2) {
		return vs[g.pick("lsvari", len(vs))].Name
	}
	if ok && g.chance("tags", 1, 2) {
		g.feat("prop-list")
		return e.Name + ".tags"
	}
	if ok && e.Type == TNode && g.chance("labels", 1, 3) {
		g.feat("fn-labels")
		return "labels(" + e.Name + ")"
	}
	n := 1 + g.pick("lslen", 3)
	items := make([]string, n)
	for i := range items {
		items[i] = "'" + rapid.SampledFrom(append(append([]string{}, names...), "A", "x")).Draw(g.t, "lsitem") + "'"
	}
	g.feat("list-literal")
	return "[" + strings.Join(items, ", ") + "]"
}

func (g *gen) listIntExpr() string {
	if vs := g.varsOf(TListInt); len(vs) > 0 && g.chance("livar", 1, 2) {
		return vs[g.pick("livari", len(vs))].Name
	}
	n := 1 + g.pick("lilen", 3)
	items := make([]string, n)
	for i := range items {
		items[i] = fmt.Sprintf("%d", rapid.IntRange(0, 4).Draw(g.t, "liitem"))
	}
	g.feat("list-literal")
	return "[" + strings.Join(items, ", ") + "]"
}

var cmpOps = []string{"=", "<>", "<", "<=", ">", ">="}

func (g *gen) boolAtom(depth int) string {
	e, ok := g.entity()
	k := g.pick("boolk", 16)
	switch {
	case k == 0:
		return g.boolLit()
	case k <= 2:
		g.feat("cmp-int")
		return g.intExpr(depth) + " " + rapid.SampledFrom(cmpOps).Draw(g.t, "cmp") + " " + g.intExpr(depth)
	case k <= 4:
		g.feat("cmp-string")
		return g.strExpr(depth) + " " + rapid.SampledFrom([]string{"=", "<>", "=", "<", ">"}).Draw(g.t, "scmp") + " " + g.strExpr(depth)
	case k == 5 && ok && g.chance("pathpred", 1, 3):
		// a string predicate whose literal holds %, _ or a backslash
		g.feat("string-predicate-special-characters")
		return e.Name + ".path " + rapid.SampledFrom([]string{"starts with", "ends with", "contains", "="}).Draw(g.t, "pop") + " " + g.pathLit()
	case k == 5:
		g.feat("string-predicate")
		op := rapid.SampledFrom([]string{"starts with", "ends with", "contains"}).Draw(g.t, "sop")
		return g.strExpr(depth) + " " + op + " " + g.strExpr(0)
	case k == 6 && ok:
		g.feat("null-test")
		if g.chance("notnull", 1, 2) {
			return e.Name + ".opt is not null"
		}
		return e.Name + ".opt is null"
	case k == 7 && ok:
		if e.Type == TNode {
			g.feat("kind-predicate")
			kn := rapid.SampledFrom(NodeKinds).Draw(g.t, "kp")
			if g.chance("kp2", 1, 5) {
				g.feat("kind-predicate-multi")
				kn += ":" + rapid.SampledFrom(NodeKinds).Draw(g.t, "kp2v")
			}
			return e.Name + ":" + kn
		}
		g.feat("type-eq")
		return "type(" + e.Name + ") = '" + rapid.SampledFrom(EdgeKinds).Draw(g.t, "tk") + "'"
	case k == 8:
		g.feat("in-list")
		if g.chance("instr", 1, 2) {
			return g.strExpr(0) + " in " + g.listStrExpr()
		}
		return g.intExpr(0) + " in " + g.listIntExpr()
	case k == 9 && ok:
		g.feat("prop-bool")
		return e.Name + ".flag"
	case k == 10 && ok:
		g.feat("cmp-float")
		return e.Name + ".score " + rapid.SampledFrom(cmpOps).Draw(g.t, "fcmp") + " " + g.floatLit()
	case k == 11 && g.o.AllowQuant && depth > 0:
		g.feat("quantifier")
		q := rapid.SampledFrom([]string{"any", "all", "none", "single"}).Draw(g.t, "quant")
		g.feat("quantifier-" + q)
		x := g.fresh("x")
		if ps := g.varsOf(TPath); len(ps) > 0 && g.chance("qpath", 1, 2) {
			p := ps[g.pick("qpi", len(ps))].Name
			if g.chance("qnodes", 1, 2) {
				g.feat("quantifier-over-nodes")
				return fmt.Sprintf("%s(%s in nodes(%s) where %s.value %s %s)", q, x, p, x, rapid.SampledFrom(cmpOps).Draw(g.t, "qcmp"), g.intLit())
			}
			g.feat("quantifier-over-rels")
			return fmt.Sprintf("%s(%s in relationships(%s) where %s.value %s %s)", q, x, p, x, rapid.SampledFrom(cmpOps).Draw(g.t, "qcmp"), g.intLit())
		}
		return fmt.Sprintf("%s(%s in %s where %s %s %s)", q, x, g.listStrExpr(), x, rapid.SampledFrom([]string{"=", "<>", "starts with"}).Draw(g.t, "qsop"), g.strLit())
	case k == 12 && g.o.AllowPatternPr && depth > 0:
		if ns := g.varsOf(TNode); len(ns) > 0 {
			g.feat("pattern-predicate")
			n := ns[g.pick("ppn", len(ns))].Name
			rel := ""
			if g.chance("pprk", 2, 3) {
				rel = "[:" + rapid.SampledFrom(EdgeKinds).Draw(g.t, "pprkv") + "]"
			}
			other := "()"
			if g.chance("ppok", 1, 3) {
				other = "(:" + rapid.SampledFrom(NodeKinds).Draw(g.t, "ppokv") + ")"
			}
			if len(ns) > 1 && g.chance("ppbound", 1, 4) {
				other = "(" + ns[g.pick("ppn2", len(ns))].Name + ")"
				g.feat("pattern-predicate-bound-both")
				if g.chance("ppboundconstraint", 1, 3) {
					// the bound endpoint restated with a constraint of its own: part of the predicate, not of the MATCH
					b := ns[g.pick("ppn3", len(ns))].Name
					if g.chance("ppboundkind", 1, 2) {
						other = "(" + b + ":" + rapid.SampledFrom(NodeKinds).Draw(g.t, "ppbk") + ")"
					} else {
						other = "(" + b + " {" + g.inlineProp() + "})"
					}
					g.feat("pattern-predicate-constrains-bound-variable")
				}
			}
			switch g.pick("ppdir", 3) {
			case 0:
				return "(" + n + ")-" + rel + "->" + other
			case 1:
				return "(" + n + ")<-" + rel + "-" + other
			default:
				return "(" + n + ")-" + rel + "-" + other
			}
		}
		fallthrough
	case k == 14 && ok:
		g.feat("cmp-mixed-type-property")
		lit := "'" + rapid.SampledFrom([]string{"1", "a", "true"}).Draw(g.t, "mixlit") + "'"
		op := rapid.SampledFrom([]string{"=", "<>"}).Draw(g.t, "mixop")
		if g.chance("mixrev", 1, 2) {
			return lit + " " + op + " " + e.Name + ".mix"
		}
		return e.Name + ".mix " + op + " " + lit
	case k == 13 && ok:
		if e.Type == TNode {
			g.feat("label-in-labels")
			return "'" + rapid.SampledFrom(NodeKinds).Draw(g.t, "lil") + "' in labels(" + e.Name + ")"
		}
		fallthrough
	default:
		if vs := g.varsOf(TBool); len(vs) > 0 {
			return vs[g.pick("boolvari", len(vs))].Name
		}
		g.feat("cmp-int")
		return g.intExpr(0) + " " + rapid.SampledFrom(cmpOps).Draw(g.t, "cmp2") + " " + g.intLit()
	}
}

func (g *gen) boolExpr(depth int) string {
	if depth <= 0 || g.chance("atom", 1, 2) {
		return g.boolAtom(depth)
	}
	switch g.pick("boolop", 7) {
	case 0, 1:
		g.feat("and")
		return g.boolExpr(depth-1) + " and " + g.boolExpr(depth-1)
	case 2, 3:
		g.feat("or")
		return "(" + g.boolExpr(depth-1) + " or " + g.boolExpr(depth-1) + ")"
	case 4:
		g.feat("xor")
		return "(" + g.boolExpr(depth-1) + " xor " + g.boolExpr(depth-1) + ")"
	default:
		g.feat("not")
		return "not (" + g.boolExpr(depth-1) + ")"
	}
}

// ---------- projections

type item struct {
	expr  string
	alias string
	typ   Type
	agg   bool
}

func (g *gen) scalarItem() item {
	e, ok := g.entity()
	k := g.pick("itemk", 12)
	switch {
	case k <= 2 && ok:
		return item{expr: e.Name, typ: e.Type}
	case k <= 4:
		return item{expr: g.strExpr(1), typ: TString}
	case k <= 6:
		return item{expr: g.intExpr(1), typ: TInt}
	case k == 7 && ok:
		g.feat("prop-float")
		return item{expr: e.Name + ".score", typ: TFloat}
	case k == 8:
		return item{expr: g.boolAtom(1), typ: TBool}
	case k == 9:
		if ps := g.varsOf(TPath); len(ps) > 0 {
			g.feat("return-path")
			return item{expr: ps[g.pick("rpi", len(ps))].Name, typ: TPath}
		}
		return item{expr: g.listStrExpr(), typ: TListStr}
	case k == 10:
		if ps := g.varsOf(TPath); len(ps) > 0 {
			p := ps[g.pick("rpi2", len(ps))].Name
			if g.chance("pnodes", 1, 2) {
				g.feat("fn-nodes")
				return item{expr: "nodes(" + p + ")", typ: TListNod}
			}
			g.feat("fn-relationships")
			return item{expr: "relationships(" + p + ")", typ: TListRel}
		}
		if ok && e.Type == TRel {
			g.feat("fn-startnode")
			if g.chance("endnode", 1, 2) {
				return item{expr: "endNode(" + e.Name + ")", typ: TNode}
			}
			return item{expr: "startNode(" + e.Name + ")", typ: TNode}
		}
		return item{expr: g.intExpr(1), typ: TInt}
	default:
		if vs := g.scope; len(vs) > 0 {
			v := vs[g.pick("anyvar", len(vs))]
			return item{expr: v.Name, typ: v.Type}
		}
		return item{expr: g.intLit(), typ: TInt}
	}
}

func (g *gen) aggItem() item {
	e, ok := g.entity()
	k := g.pick("aggk", 9)
	switch {
	case k == 0 || !ok:
		g.feat("agg-count-star")
		return item{expr: "count(*)", typ: TInt, agg: true}
	case k <= 2:
		g.feat("agg-count")
		if g.chance("cdist", 1, 3) {
			g.feat("agg-distinct")
			return item{expr: "count(distinct " + e.Name + ".name)", typ: TInt, agg: true}
		}
		if g.chance("copt", 1, 3) {
			return item{expr: "count(" + e.Name + ".opt)", typ: TInt, agg: true}
		}
		return item{expr: "count(" + e.Name + ")", typ: TInt, agg: true}
	case k == 3:
		g.feat("agg-collect")
		if g.chance("collnode", 1, 3) && e.Type == TNode {
			return item{expr: "collect(" + e.Name + ")", typ: TListNod, agg: true}
		}
		if g.chance("collint", 1, 2) {
			return item{expr: "collect(" + e.Name + ".value)", typ: TListInt, agg: true}
		}
		return item{expr: "collect(" + e.Name + ".name)", typ: TListStr, agg: true}
	case k == 4:
		g.feat("agg-sum")
		return item{expr: "sum(" + e.Name + ".value)", typ: TInt, agg: true}
	case k == 5:
		g.feat("agg-minmax")
		return item{expr: rapid.SampledFrom([]string{"min", "max"}).Draw(g.t, "mm") + "(" + e.Name + ".value)", typ: TInt, agg: true}
	case k == 6:
		g.feat("agg-minmax")
		return item{expr: rapid.SampledFrom([]string{"min", "max"}).Draw(g.t, "mm2") + "(" + e.Name + ".name)", typ: TString, agg: true}
	case k == 7:
		g.feat("agg-avg")
		return item{expr: "avg(" + e.Name + ".value)", typ: TFloat, agg: true}
	default:
		g.feat("agg-count")
		return item{expr: "count(" + e.Name + ")", typ: TInt, agg: true}
	}
}

// projection renders a WITH or RETURN body and, for WITH, replaces the scope.
func (g *gen) projection(keyword string, final bool) string {
	var sb strings.Builder
	sb.WriteString(keyword + " ")
	distinct := g.chance("distinct", 1, 6)
	if distinct {
		sb.WriteString("distinct ")
		g.feat("distinct")
	}
	var items []item
	useAgg := g.o.AllowAggregate && g.chance("useagg", 1, 4)
	n := 1 + g.pick("nitems", 3)
	if len(g.scope) == 0 && !useAgg {
		items = append(items, item{expr: g.intLit(), typ: TInt})
		n = 0
	}
	for i := 0; i < n; i++ {
		if useAgg && (i == n-1 || g.chance("aggitem", 1, 2)) {
			items = append(items, g.aggItem())
		} else if e, ok := g.entity(); useAgg && ok && g.chance("collidingkey", 1, 3) {
			// a computed grouping key that takes the same value for different operand values
			g.feat("agg-colliding-key")
			var it item
			switch g.pick("ckey", 4) {
			case 0:
				it = item{expr: e.Name + ".value * 0", typ: TInt}
			case 1:
				it = item{expr: e.Name + ".value > 1", typ: TBool}
			case 2:
				it = item{expr: "0 * " + e.Name + ".value", typ: TInt}
			default:
				it = item{expr: e.Name + ".value < 3", typ: TBool}
			}
			if g.chance("ckeyparen", 1, 3) {
				it.expr = "(" + it.expr + ")"
			}
			items = append(items, it)
		} else {
			items = append(items, g.scalarItem())
		}
	}
	if useAgg {
		g.feat("aggregation")
		hasKey := false
		for _, it := range items {
			if !it.agg {
				hasKey = true
			}
		}
		if hasKey {
			g.feat("aggregation-grouped")
		}
	}
	// aliases: always alias non-variable expressions in WITH; sometimes in RETURN
	var newScope []Var
	seenAlias := map[string]bool{}
	for i := range items {
		it := &items[i]
		isVar := false
		for _, v := range g.scope {
			if v.Name == it.expr {
				isVar = true
			}
		}
		needAlias := keyword == "with" && !isVar
		if needAlias || (!isVar && g.chance("alias", 1, 2)) || (isVar && g.chance("aliasvar", 1, 8)) {
			it.alias = g.fresh("a")
		}
		name := it.alias
		if name == "" && isVar {
			name = it.expr
		}
		if name != "" {
			if seenAlias[name] {
				// the same variable twice: alias the second
				it.alias = g.fresh("a")
				name = it.alias
			}
			seenAlias[name] = true
			newScope = append(newScope, Var{name, it.typ})
		} else {
			// an unaliased expression is named by its text; openCypher rejects two columns with one name
			if seenAlias["\x00"+it.expr] {
				it.alias = g.fresh("a")
				newScope = append(newScope, Var{it.alias, it.typ})
			}
			seenAlias["\x00"+it.expr] = true
		}
	}
	for i, it := range items {
		if i > 0 {
			sb.WriteString(", ")
		}
		sb.WriteString(it.expr)
		if it.alias != "" {
			sb.WriteString(" as " + it.alias)
		}
	}
	// ORDER BY / SKIP / LIMIT
	if g.o.AllowOrderLim && g.chance("orderby", 1, 3) {
		var keys []string
		for _, it := range items {
			switch it.typ {
			case TInt, TString, TFloat:
				k := it.alias
				if k == "" {
					k = it.expr
				}
				keys = append(keys, k)
			case TNode, TRel:
				// a property (or the id) of a projected entity as sort key
				k := it.alias
				if k == "" {
					k = it.expr
				}
				if g.chance("okentity", 1, 3) {
					keys = append(keys, rapid.SampledFrom([]string{k + ".name", k + ".value", "id(" + k + ")"}).Draw(g.t, "okentitykey"))
					g.feat("order-by-entity-property")
				}
			}
		}
		if len(keys) > 0 {
			g.feat("order-by")
			nk := 1 + g.pick("nkeys", len(keys))
			perm := rapid.Permutation(keys).Draw(g.t, "okperm")
			parts := make([]string, 0, nk)
			for _, k := range perm[:nk] {
				if g.chance("okexpr", 1, 6) {
					// a sort key computed from a projected column
					g.feat("order-by-expression")
					typ := TInt
					for _, it := range items {
						if it.alias == k || (it.alias == "" && it.expr == k) {
							typ = it.typ
						}
					}
					form := "%s + 1"
					if typ == TString {
						form = rapid.SampledFrom([]string{"toLower(%s)", "toUpper(%s)", "size(%s)"}).Draw(g.t, "okfn")
					} else {
						form = rapid.SampledFrom([]string{"%s + 1", "-%s", "%s * 2"}).Draw(g.t, "okfn")
					}
					k = strings.Replace(form, "%s", k, 1)
				}
				if g.chance("desc", 1, 3) {
					k += " desc"
					g.feat("order-desc")
				}
				parts = append(parts, k)
			}
			sb.WriteString(" order by " + strings.Join(parts, ", "))
		}
	}
	if g.o.AllowOrderLim && g.chance("skip", 1, 8) {
		g.feat("skip")
		sb.WriteString(fmt.Sprintf(" skip %d", g.pick("skipn", 3)))
	}
	if g.o.AllowOrderLim && g.chance("limit", 1, 5) {
		g.feat("limit")
		sb.WriteString(fmt.Sprintf(" limit %d", 1+g.pick("limitn", 3)))
	}
	if keyword == "with" {
		g.scope = newScope
	}
	return sb.String()
}

func (g *gen) with() string {
	g.feat("with")
	s := g.projection("with", false)
	if g.chance("withwhere", 1, 3) && len(g.scope) > 0 {
		// a WHERE over the new scope
		if vs := g.varsOf(TInt); len(vs) > 0 {
			g.feat("with-where")
			s += " where " + vs[g.pick("wwi", len(vs))].Name + " " + rapid.SampledFrom(cmpOps).Draw(g.t, "wwcmp") + " " + g.intLit()
		} else if len(g.varsOf(TNode, TRel)) > 0 {
			g.feat("with-where")
			s += " where " + g.boolAtom(1)
		}
	}
	return s
}

// collectThenUnwind renders WITH collect(n) AS a UNWIND a AS u: the nodes come back one per row.
func (g *gen) collectThenUnwind() string {
	nodes := g.varsOf(TNode)
	n := nodes[g.pick("cun", len(nodes))].Name
	a, u := g.fresh("a"), g.fresh("u")
	g.feat("with")
	g.feat("aggregation")
	g.feat("agg-collect")
	g.feat("unwind")
	g.feat("unwind-collected-nodes")
	g.scope = []Var{{u, TNode}}
	return "with collect(" + n + ") as " + a + " unwind " + a + " as " + u
}

func (g *gen) unwind() string {
	g.feat("unwind")
	x := g.fresh("u")
	var src string
	var typ Type
	switch g.pick("unwk", 4) {
	case 0:
		src, typ = g.listIntExpr(), TInt
	case 1:
		src, typ = g.listStrExpr(), TString
	case 2:
		if vs := g.varsOf(TListNod); len(vs) > 0 {
			src, typ = vs[g.pick("unwln", len(vs))].Name, TNode
			g.feat("unwind-collected-nodes")
			break
		}
		fallthrough
	default:
		src, typ = g.listStrExpr(), TString
	}
	g.scope = append(g.scope, Var{x, typ})
	return "unwind " + src + " as " + x
}

// ---------- shapes the optimiser's lowerings look for (C02)

func (g *gen) nk() string { return rapid.SampledFrom(NodeKinds).Draw(g.t, "tnk") }
func (g *gen) ek() string { return rapid.SampledFrom(EdgeKinds).Draw(g.t, "tek") }
func (g *gen) optKind(label string) string {
	if g.chance(label, 1, 2) {
		return ":" + g.nk()
	}
	return ""
}
func (g *gen) eks() string {
	if g.chance("teks2", 1, 3) {
		perm := rapid.Permutation(EdgeKinds).Draw(g.t, "teksp")
		return perm[0] + "|" + perm[1]
	}
	return g.ek()
}
func (g *gen) rng() string {
	return rapid.SampledFrom([]string{"*1..", "*1..2", "*0..", "*..2", "*", "*2..2", "*1..1", "*2", "*1..3", "*0..1", "*0..0", "*0"}).Draw(g.t, "trng")
}
func (g *gen) anchor(v string) string {
	switch g.pick("tanchor", 5) {
	case 0:
		return v + ".name = '" + rapid.SampledFrom(names).Draw(g.t, "tan") + "'"
	case 1:
		return v + ".name ends with '" + rapid.SampledFrom([]string{"a", "b", "1", "c"}).Draw(g.t, "tae") + "'"
	case 2:
		return v + ".value = " + fmt.Sprintf("%d", g.pick("tav", 5))
	case 3:
		return v + ".flag = true"
	default:
		return v + ".value > " + fmt.Sprintf("%d", g.pick("tav2", 4))
	}
}

// pathLit: a Cypher string literal for a piece of a path value (backslashes doubled for the Cypher lexer).
func (g *gen) pathLit() string {
	v := rapid.SampledFrom([]string{`a\\`, `\\b`, `a\\b`, "a_", "_b", "a_b", "a%", "%b", "%", "_", "a", "b", `\\`, `\\d\\`, "x"}).Draw(g.t, "pathlit")
	return "'" + v + "'"
}

// terminalVar / whereTerminal: helpers of the aggregate-traversal-count template (the terminal is (c…) or the source (u)).
func terminalVar(terminal string) string {
	if terminal == "(u)" {
		return "u"
	}
	return "c"
}

func whereTerminal(terminal string, where func(v, label string) string) string {
	if terminal == "(u)" {
		return ""
	}
	return where("c", "t5w2")
}

func (g *gen) lim() string {
	if g.chance("tlim", 2, 3) {
		return fmt.Sprintf(" limit %d", 1+g.pick("tlimn", 4))
	}
	return ""
}

func (g *gen) loweringTemplate() string {
	k := g.pick("tmpl", 27)
	if k >= 25 {
		k = 5 // the aggregate traversal count shape has the narrowest eligibility of all: drawn three times as often
	}
	g.feat(fmt.Sprintf("template-%d", k))
	switch k {
	case 0: // count fast paths
		switch g.pick("t0", 8) {
		case 6:
			// no direction written: every relationship is seen from both ends
			return "match ()-[r:" + g.eks() + "]-() return " + rapid.SampledFrom([]string{"count(r)", "count(*)"}).Draw(g.t, "t0ur")
		case 7:
			return "match (a" + g.optKind("t0k") + ")-[r]-(b) return " + rapid.SampledFrom([]string{"count(r)", "count(*)", "count(b)"}).Draw(g.t, "t0ur2")
		case 0:
			return "match (n" + g.optKind("t0k") + ") return count(n)"
		case 1:
			return "match (n" + g.optKind("t0k") + ") return count(*)"
		case 2:
			return "match ()-[r:" + g.eks() + "]->() return count(r)"
		case 3:
			return "match (a" + g.optKind("t0k") + ")-[r" + ":" + g.ek() + "]->(b" + g.optKind("t0k2") + ") return count(r)"
		case 4:
			return "match ()-[r]->() return count(*)"
		default:
			// the same variable at both ends: only self loops count
			rel := "r"
			if g.chance("t0sk", 1, 2) {
				rel += ":" + g.eks()
			}
			return "match (a)-[" + rel + "]->(a) return " + rapid.SampledFrom([]string{"count(r)", "count(*)", "count(a)"}).Draw(g.t, "t0sr")
		}
	case 1: // anchored expansion, either end
		if g.chance("t1in", 1, 2) {
			return "match (a)<-[:" + g.eks() + g.rng() + "]-(b" + g.optKind("t1k") + ") where " + g.anchor("b") + " return a"
		}
		return "match (a" + g.optKind("t1k") + ")-[:" + g.eks() + g.rng() + "]->(b) where " + g.anchor("a") + " return b"
	case 2: // terminal anchor: direction selection
		return "match p = (a)-[:" + g.eks() + g.rng() + "]->(b" + g.optKind("t2k") + ") where " + g.anchor("b") + " return p" + g.lim()
	case 3: // suffix after expansion + limit
		return "match p = (a" + g.optKind("t3k") + ")-[:" + g.ek() + g.rng() + "]->(b)-[:" + g.eks() + "]->(c" + g.optKind("t3k2") + ") return p" + g.lim()
	case 4: // collect + IN membership
		neg := ""
		if g.chance("t4not", 2, 3) {
			neg = "not "
		}
		ret := rapid.SampledFrom([]string{"c, d", "c, d", "c, ex", "ex", "c, size(ex)", "d, ex"}).Draw(g.t, "t4ret")
		if g.chance("t4simple", 1, 3) {
			return "match (s" + g.optKind("t4k0") + ") with collect(s) as ex match (c" + g.optKind("t4k1") + ") where " + neg + "c in ex return " + strings.ReplaceAll(ret, "d", "c")
		}
		return "match (s)-[:" + g.ek() + g.rng() + "]->(g" + g.optKind("t4k") + ") with collect(s) as ex match (c)-[:" + g.eks() + "]->(d) where " + neg + "c in ex return " + ret
	case 5: // aggregate traversal count
		// the two WHEREs of the shape: none, a plain predicate, a pattern predicate, a quantifier over a list property
		where := func(v, label string) string {
			switch g.pick(label, 8) {
			case 0, 6, 7:
				return ""
			case 1:
				return " where (" + v + ")-[:" + g.eks() + "]->()"
			case 2:
				return " where not (" + v + ")<-[:" + g.eks() + "]-() and " + g.anchor(v)
			case 3:
				return " where any(x in " + v + ".tags where x = 'x')"
			default:
				return " where " + g.anchor(v)
			}
		}
		distinct := rapid.SampledFrom([]string{"distinct ", "distinct ", ""}).Draw(g.t, "t5d")
		ret := rapid.SampledFrom([]string{"u order by cnt desc", "u order by cnt desc", "u, cnt order by cnt desc", "u.name, cnt order by cnt desc", "u, cnt order by cnt", "u, cnt order by cnt asc", "u order by cnt asc"}).Draw(g.t, "t5ret")
		second := "(u)"
		if g.chance("t5restate", 1, 5) {
			second = "(u:" + rapid.SampledFrom(NodeKinds).Draw(g.t, "t5rk") + ")" // kinds restated (or added) on the source
		}
		terminal := "(c" + g.optKind("t5k2") + ")"
		if g.chance("t5self", 1, 8) {
			terminal = "(u)" // the traversal must return to its source
		}
		return "match (u" + g.optKind("t5k") + ")" + where("u", "t5w1") + " match " + second + "-[:" + g.eks() + rapid.SampledFrom([]string{"*1..", "*0..", "*0..", "*1..2", "*0..2", "*", "*..2", "*1..3", "*0..1", "*2..2"}).Draw(g.t, "t5rng") + "]->" + terminal + whereTerminal(terminal, where) + " with " + distinct + "u, count(" + terminalVar(terminal) + ") as cnt return " + ret + g.lim()
	case 6: // quantifier over relationships(p)
		q := rapid.SampledFrom([]string{"all", "any", "none"}).Draw(g.t, "t6q")
		pred := rapid.SampledFrom([]string{"r.value > 0", "r.flag = true", "r.name = 'a'", "type(r) = 'R'", "r.value <= 2"}).Draw(g.t, "t6p")
		step := g.rng()
		if g.chance("t6fixed", 1, 3) {
			step = ""
		}
		return "match p = (a" + g.optKind("t6k") + ")-[:" + g.eks() + step + "]->(b" + g.optKind("t6k2") + ") where " + q + "(r in relationships(p) where " + pred + ") return " + rapid.SampledFrom([]string{"p", "b", "a, b", "p"}).Draw(g.t, "t6ret") + g.lim()
	case 7: // typed edge with negated type
		return "match p = (s" + g.optKind("t7k") + ")-[r:" + EdgeKinds[0] + "|" + EdgeKinds[1] + "]->(t) where not r:" + EdgeKinds[g.pick("t7n", 2)] + " return p" + g.lim()
	case 8: // exact ranges
		return "match (a)-[:" + g.ek() + rapid.SampledFrom([]string{"*1..1", "*2..2", "*2", "*3..3", "*1"}).Draw(g.t, "t8r") + "]->(b" + g.optKind("t8k") + ") return a, b"
	case 9: // shared endpoints fan-out
		return "match (n" + g.optKind("t9k") + ") where " + g.anchor("n") + " match p1 = (n)-[:" + g.ek() + "]->(x)-[:" + g.ek() + "]->(d) match p2 = (n)-[:" + g.ek() + "]->(y)-[:" + g.ek() + "]->(d) return p1, p2"
	case 10: // expand into
		if g.chance("t10two", 1, 2) {
			return "match (a)-[:" + g.ek() + "]->(b), (a)-[:" + g.ek() + "]->(b) return a, b"
		}
		return "match (a" + g.optKind("t10k") + ")-[:" + g.ek() + "]->(b) match (b)-[:" + g.ek() + "]->(a) return a, b"
	case 11: // distinct + limit, order + limit
		switch g.pick("t11", 3) {
		case 0:
			return "match (a)-[:" + g.eks() + "]->(b) return distinct b" + g.lim()
		case 1:
			return "match (a)-[:" + g.eks() + "]->(b) return b.name order by b.name" + g.lim()
		default:
			return "match (a" + g.optKind("t11k") + ")-[:" + g.eks() + g.rng() + "]->(b) return distinct a.name, b.value order by a.name, b.value" + g.lim()
		}
	case 12: // pattern predicate placement
		return "match p = (n" + g.optKind("t12k") + ")-[:" + g.eks() + "]-(m" + g.optKind("t12k2") + ") where (n)-[:" + g.eks() + "]-(m) return p" + g.lim()
	case 13: // leading unbounded expansion, selective terminal: inbound traversal reversal
		w := g.anchor("d")
		if g.chance("t14s", 1, 2) {
			w += " and " + g.anchor("s")
		}
		return "match p = (s" + g.optKind("t14k") + ")-[:" + g.ek() + rapid.SampledFrom([]string{"*0..", "*1..", "*"}).Draw(g.t, "t14r") + "]->(" + g.optKind("t14k2") + ")-[:" + g.eks() + "]->(d" + g.optKind("t14k3") + ") where " + w + rapid.SampledFrom([]string{" return p", " return p", " return s, d", " return nodes(p)", " return relationships(p)", " with relationships(p) as rs return rs", " return size(relationships(p)), nodes(p)", " with nodes(p) as ns return ns"}).Draw(g.t, "t14ret")
	case 14: // windowed WITH: ORDER BY / SKIP / LIMIT and a WHERE on the same WITH
		key := rapid.SampledFrom([]string{"n.name, id(n)", "n.value, id(n) desc", "n.name desc, id(n)", "n.value desc, n.name", "id(n)", "id(n) desc", "n.name"}).Draw(g.t, "t15key")
		win := ""
		if g.chance("t15skip", 2, 3) {
			win += fmt.Sprintf(" skip %d", g.pick("t15skipn", 3))
		}
		if g.chance("t15lim", 1, 2) {
			win += fmt.Sprintf(" limit %d", 1+g.pick("t15limn", 3))
		}
		where := ""
		if g.chance("t15where", 2, 3) {
			where = " where " + g.anchor("n")
		}
		return "match (n" + g.optKind("t15k") + ") with n order by " + key + win + where + " return " + rapid.SampledFrom([]string{"n", "n.name", "count(*)", "n.value"}).Draw(g.t, "t15ret")
	case 15: // a MATCH that restates a variable an OPTIONAL MATCH may have left null, with a null-tolerant predicate
		pred := rapid.SampledFrom([]string{"coalesce(m.opt, 'zz') = 'zz'", "m.opt is null", "coalesce(m.name, '') = ''", "not (m.flag = true)", "coalesce(m.value, 0) = 0", "m.name = 'a'", "true"}).Draw(g.t, "t16pred")
		mid := ""
		if g.chance("t16with", 1, 3) {
			mid = " with n, m"
		}
		return "match (n" + g.optKind("t16k") + ") optional match (n)-[r:" + g.eks() + "]->(m" + g.optKind("t16k2") + ")" + mid + " match (m) where " + pred + " return n, m"
	case 16: // a leading unbounded expansion followed by two or three fixed steps, selective far end (reversal over an odd / even number of relationships)
		chain := "(s" + g.optKind("t17k") + ")-[:" + g.ek() + rapid.SampledFrom([]string{"*0..", "*1..", "*"}).Draw(g.t, "t17r") + "]->(a" + g.optKind("t17ka") + ")"
		steps := 2 + g.pick("t17n", 2)
		last := "a"
		for i := 0; i < steps; i++ {
			last = fmt.Sprintf("x%d", i)
			if i == steps-1 {
				last = "d"
			}
			arrowL, arrowR := "-", "->"
			if g.chance("t17dir", 1, 5) {
				arrowL, arrowR = "<-", "-"
			}
			node := "(" + last + g.optKind("t17kn") + ")"
			if i == steps-1 && g.chance("t17inline", 1, 2) {
				node = "(" + last + g.optKind("t17kn") + " {name: '" + rapid.SampledFrom(names).Draw(g.t, "t17name") + "'})"
			}
			chain += arrowL + "[:" + g.eks() + "]" + arrowR + node
		}
		where := ""
		if !strings.Contains(chain, "{name:") || g.chance("t17w", 1, 3) {
			where = " where " + g.anchor("d")
		}
		return "match " + rapid.SampledFrom([]string{"", "", "p = "}).Draw(g.t, "t17p") + chain + where + " return " + rapid.SampledFrom([]string{"s", "s, d", "s, a, d", "count(*)", "distinct s"}).Draw(g.t, "t17ret")
	case 17: // an expansion whose fixed suffix passes through (or ends on) a node bound by an earlier MATCH
		bound := "(c" + g.optKind("t18k") + ")"
		first := "match " + bound + " where " + g.anchor("c")
		if g.chance("t18inline", 1, 2) {
			first = "match (c" + g.optKind("t18k") + " {name: '" + rapid.SampledFrom(names).Draw(g.t, "t18name") + "'})"
		}
		exp := "(n" + g.optKind("t18kn") + ")-[:" + g.ek() + rapid.SampledFrom([]string{"*1..", "*0..", "*", "*1..2"}).Draw(g.t, "t18r") + "]->(m)"
		var tail string
		switch g.pick("t18shape", 3) {
		case 0:
			tail = "-[:" + g.eks() + "]->(c)-[:" + g.eks() + "]->(u" + g.optKind("t18ku") + ")"
		case 1:
			tail = "-[:" + g.eks() + "]->(x)-[:" + g.eks() + "]->(c)-[:" + g.eks() + "]->(u)"
		default:
			tail = "-[:" + g.eks() + "]->(u" + g.optKind("t18ku") + ")-[:" + g.eks() + "]->(c)"
		}
		return first + " match " + exp + tail + " return " + rapid.SampledFrom([]string{"n, u", "distinct n, u", "n", "count(*)", "m, u"}).Draw(g.t, "t18ret")
	case 18: // an exact range with an inline property map (only translatable through the exact-range lowering)
		rng := rapid.SampledFrom([]string{"*2..2", "*2", "*1..1", "*1", "*2..2"}).Draw(g.t, "t19r")
		arrowL, arrowR := "-", "->"
		if g.chance("t19dir", 1, 4) {
			arrowL, arrowR = "<-", "-"
		}
		pat := "(a" + g.optKind("t19ka") + ")" + arrowL + "[:" + g.eks() + rng + " {" + g.inlineProp() + "}]" + arrowR + "(b" + g.optKind("t19kb") + ")"
		where := ""
		if g.chance("t19w", 1, 3) {
			where = " where " + g.anchor(rapid.SampledFrom([]string{"a", "b"}).Draw(g.t, "t19wv"))
		}
		return "match " + rapid.SampledFrom([]string{"", "", "p = "}).Draw(g.t, "t19p") + pat + where + " return " + rapid.SampledFrom([]string{"a, b", "a", "count(*)", "distinct b", "a.name, b.name"}).Draw(g.t, "t19ret")
	case 19: // UNWIND variables read by the root predicate of an expansion that follows another clause
		lead := rapid.SampledFrom([]string{"match (q" + g.optKind("t20kq") + ") ", "match (q" + g.optKind("t20kq") + ") with q ", "match (q)-[:" + g.ek() + "]->() "}).Draw(g.t, "t20lead")
		unwinds := "unwind [0, 1, 2] as x "
		pred := "m.value = x"
		if g.chance("t20two", 2, 3) {
			unwinds += "unwind ['a', 'b', 'ab'] as y "
			pred = rapid.SampledFrom([]string{"m.name = y", "m.name = y", "m.value = x and m.name = y", "m.name = y and t.value = x", "t.name = y"}).Draw(g.t, "t20pred")
		}
		if g.chance("t20three", 1, 4) {
			unwinds += "unwind [true, false] as z "
			pred += " and m.flag = z"
		}
		rng := rapid.SampledFrom([]string{"*1..", "*0..", "*", "*1..2", ""}).Draw(g.t, "t20r")
		return lead + unwinds + "match (m" + g.optKind("t20km") + ")-[:" + g.ek() + rng + "]->(t" + g.optKind("t20kt") + ") where " + pred + " return " + rapid.SampledFrom([]string{"t, x", "t, q", "m, t, x", "count(*)", "distinct t"}).Draw(g.t, "t20ret")
	case 20: // an expansion with a fixed suffix step and a predicate that relates the suffix node to a node the expansion carries
		rel := rapid.SampledFrom([]string{"c.name = b.name", "not c.name = b.name", "c.value <> b.value", "not (c.value > b.value)", "not c.name = a.name", "c.value >= a.value", "not (c.flag = b.flag)", "not c.flag"}).Draw(g.t, "t21rel")
		if g.chance("t21and", 1, 3) {
			rel += " and " + g.anchor(rapid.SampledFrom([]string{"a", "c"}).Draw(g.t, "t21av"))
		}
		second := ""
		if g.chance("t21two", 1, 4) {
			second = "-[:" + g.eks() + "]->(d)"
		}
		return "match (a" + g.optKind("t21ka") + ")-[:" + g.ek() + rapid.SampledFrom([]string{"*1..", "*0..", "*", "*1..3"}).Draw(g.t, "t21r") + "]->(b)-[:" + g.eks() + "]->(c" + g.optKind("t21kc") + ")" + second + " where " + rel + " return " + rapid.SampledFrom([]string{"a", "a, c", "distinct a", "count(*)", "b, c"}).Draw(g.t, "t21ret")
	case 21: // a reversed pattern (leading unbounded expansion, selective far end) whose path is observed: a second
		// variable-length segment, a pattern predicate in the same WHERE, the path or its relationships returned
		lead := "(s" + g.optKind("t22ks") + ")-[:" + g.ek() + rapid.SampledFrom([]string{"*0..", "*1..", "*"}).Draw(g.t, "t22r") + "]->(g" + g.optKind("t22kg") + ")"
		mid := "-[:" + g.eks() + "]->(m" + g.optKind("t22km") + ")"
		tail := ""
		if g.chance("t22second", 2, 3) {
			tail = "-[:" + g.ek() + rapid.SampledFrom([]string{"*1..", "*1..2", "*2..3", "*"}).Draw(g.t, "t22r2") + "]->(d" + g.optKind("t22kd") + ")"
		}
		last := "m"
		if tail != "" {
			last = "d"
		}
		where := " where " + g.anchor(last)
		if g.chance("t22pp", 1, 2) {
			where += " and " + rapid.SampledFrom([]string{"not ", ""}).Draw(g.t, "t22not") + "(s)-[:" + g.eks() + "]->(" + rapid.SampledFrom([]string{"", ":A", ":B"}).Draw(g.t, "t22ppk") + ")"
		}
		return "match p = " + lead + mid + tail + where + " return " + rapid.SampledFrom([]string{"p", "relationships(p)", "relationships(p)", "nodes(p)", "p, s", "relationships(p), nodes(p)", "size(relationships(p)), p"}).Draw(g.t, "t22ret")
	case 23: // an OPTIONAL MATCH whose incoming rows carry a scalar next to the entity it extends from
		opt := "optional match (n)-[r:" + g.eks() + "]->(m" + g.optKind("t23km") + ")"
		if g.chance("t23where", 1, 3) {
			opt += " where " + rapid.SampledFrom([]string{"m.value > 1", "r.flag = true", "m.name <> n.name"}).Draw(g.t, "t23w")
		}
		ret := rapid.SampledFrom([]string{"n, w, m", "w, m", "n.name, w, m.name", "w, count(m)", "n, w, r"}).Draw(g.t, "t23ret")
		switch g.pick("t23", 4) {
		case 0:
			return "match (a)-[q:" + g.eks() + "]->(n" + g.optKind("t23kn") + ") with n, q." + rapid.SampledFrom([]string{"value", "name", "flag"}).Draw(g.t, "t23p") + " as w " + opt + " return " + ret
		case 1:
			return "match (a" + g.optKind("t23ka") + ")-[:" + g.eks() + "]->(n) with n, a." + rapid.SampledFrom([]string{"value", "name"}).Draw(g.t, "t23p2") + " as w " + opt + " return " + ret
		case 2:
			return "unwind [1, 2" + rapid.SampledFrom([]string{"", ", 2", ", 3"}).Draw(g.t, "t23u") + "] as w match (n" + g.optKind("t23kn") + ") " + opt + " return " + ret
		default:
			return "match (n" + g.optKind("t23kn") + ") unwind n.tags as w " + opt + " return " + ret
		}
	case 24: // an UNWIND of a carried list followed by a WITH that may reference no binding at all
		first := "match (n" + g.optKind("t24k") + ") with " + rapid.SampledFrom([]string{"collect(n.name) as l", "collect(n.value) as l", "n.tags as l", "collect(n.name) as l, count(n) as total"}).Draw(g.t, "t24l")
		second := rapid.SampledFrom([]string{"count(*) as c", "1 as c", "'seen' as c", "count(x) as c", "x as c", "x as c, 1 as one", "count(*) as c, 2 as two"}).Draw(g.t, "t24w")
		ret := "c"
		if strings.Contains(second, " one") {
			ret = "c, one"
		} else if strings.Contains(second, " two") {
			ret = "c, two"
		}
		mid := ""
		if g.chance("t24mid", 1, 4) {
			mid = " match (m" + g.optKind("t24km") + ") with l, count(m) as cm"
		}
		return first + mid + " unwind l as x with " + second + " return " + ret
	default: // path functions, late path materialisation
		return "match p = (a" + g.optKind("t13k") + ")-[:" + g.eks() + g.rng() + "]->(b) where " + g.anchor("a") + " return " + rapid.SampledFrom([]string{"nodes(p)", "relationships(p)", "size(relationships(p))", "b, size(nodes(p))", "p, a.name"}).Draw(g.t, "t13f")
	}
}
