package cy

// Wide fragment (C03: binding only, nothing is executed, so the fragment can be wider than what the
// reference evaluator covers): the typed read fragment of Generate plus updating clauses (SET,
// REMOVE, DELETE / DETACH DELETE, CREATE, rarely MERGE), shortestPath / allShortestPaths pattern
// parts (also with endpoints bound by an earlier clause) and deeper nesting (longer clause
// pipelines, deeper boolean / arithmetic expressions, quantifiers and pattern predicates below
// boolean operators). Additive: nothing here is reachable from Generate.

import (
	"fmt"
	"sort"
	"strings"

	"pgregory.net/rapid"
)

type WideOptions struct {
	Updates       bool
	ShortestPaths bool
	Deep          bool
	Exclude       map[string]bool
}

func DefaultWideOptions() WideOptions {
	return WideOptions{Updates: true, ShortestPaths: true, Deep: true}
}

// GenerateWide draws one query of the wide fragment.
func GenerateWide(t *rapid.T, w WideOptions) Query {
	o := DefaultOptions()
	o.Exclude = w.Exclude
	g := &gen{t: t, o: o, feats: map[string]bool{}, params: map[string]any{}}
	var sb strings.Builder
	maxClauses := 3
	if w.Deep {
		maxClauses = 5
	}
	nclauses := 1 + max2(g.pick("wnclauses1", maxClauses), g.pick("wnclauses2", maxClauses-1))
	whereDepth := func() int {
		if w.Deep {
			return 1 + g.pick("wwheredepth", 4)
		}
		return 1 + g.pick("wwheredepth", 2)
	}
	updating := w.Updates && g.chance("wupdating", 2, 5)
	if updating && g.chance("wupdnopaths", 3, 4) {
		// path variables next to updating clauses are a listed finding (C03-path-with-update): keep the
		// combination, but rare, so that most updating queries reach the oracle
		g.o.AllowPaths = false
	}
	leadingCreate := updating && g.chance("wleadingcreate", 1, 6)
	if leadingCreate {
		// CREATE as the first clause of the query
		sb.WriteString(g.createClause() + " ")
		nclauses = 0
	}
	for i := 0; i < nclauses; i++ {
		kind := g.pick("wclause", 12)
		switch {
		case w.ShortestPaths && (kind == 11 || (i == 0 && kind == 10)):
			sb.WriteString(g.shortestPathMatch(whereDepth()))
		case i == 0 || kind < 5:
			sb.WriteString(g.wideMatch(i > 0 && g.chance("woptional", 1, 4), whereDepth()))
		case kind < 8 && len(g.scope) > 0:
			sb.WriteString(g.with())
		case kind < 9:
			sb.WriteString(g.unwind())
		default:
			sb.WriteString(g.wideMatch(false, whereDepth()))
		}
		sb.WriteString(" ")
	}
	if updating && !leadingCreate {
		n := 1 + g.pick("wnupd", 3)
		for i := 0; i < n; i++ {
			if s := g.updatingClause(); s != "" {
				sb.WriteString(s + " ")
			}
		}
	}
	if !updating || g.chance("wreturn", 1, 2) {
		sb.WriteString(g.projection("return", true))
	}
	feats := make([]string, 0, len(g.feats))
	for f := range g.feats {
		feats = append(feats, f)
	}
	sort.Strings(feats)
	q := Query{Text: strings.TrimSpace(sb.String()), Features: feats}
	if len(g.params) > 0 {
		q.Params = g.params
	}
	return q
}

func (g *gen) wideMatch(optional bool, depth int) string {
	var sb strings.Builder
	if optional {
		sb.WriteString("optional ")
		g.feat("optional-match")
	}
	sb.WriteString("match ")
	nparts := 1 + []int{0, 0, 0, 0, 1, 1, 2}[g.pick("wnparts", 7)]
	if nparts > 1 {
		g.feat("multi-pattern")
	}
	for i := 0; i < nparts; i++ {
		if i > 0 {
			sb.WriteString(", ")
		}
		sb.WriteString(g.patternPart(true))
	}
	if g.chance("wwhere", 2, 3) {
		if depth >= 3 {
			g.feat("deep-where")
		}
		sb.WriteString(" where " + g.boolExpr(depth))
		g.feat("where")
	}
	return sb.String()
}

// shortestPathMatch renders MATCH p = shortestPath((a)-[:K*..]->(b)) [WHERE …]; either endpoint may
// be a node variable bound by an earlier clause.
func (g *gen) shortestPathMatch(depth int) string {
	fn := "shortestPath"
	if g.chance("wallsp", 1, 3) {
		fn = "allShortestPaths"
		g.feat("all-shortest-paths")
	} else {
		g.feat("shortest-path")
	}
	endpoint := func(label string) (string, string) {
		nodes := g.varsOf(TNode)
		if len(nodes) > 0 && g.chance(label+"bound", 1, 5) {
			g.feat("shortest-path-bound-endpoint")
			n := nodes[g.pick(label+"boundi", len(nodes))].Name
			return "(" + n + ")", n
		}
		if g.chance(label+"anon", 1, 6) {
			k := ""
			if g.chance(label+"anonk", 1, 2) {
				k = ":" + g.nk()
			}
			return "(" + k + ")", ""
		}
		name := g.fresh("n")
		pat := "(" + name
		if g.chance(label+"k", 1, 2) {
			pat += ":" + g.nk()
		}
		if g.chance(label+"props", 1, 8) {
			pat += " {" + g.inlineProp() + "}"
			g.feat("inline-props")
		}
		return pat + ")", name
	}
	left, ln := endpoint("wspl")
	right, rn := endpoint("wspr")
	rel := ""
	if g.chance("wspk", 2, 3) {
		rel = ":" + g.eks()
	}
	rel += rapid.SampledFrom([]string{"*", "*1..", "*..", "*..3", "*1..4", "*2..", "*0.."}).Draw(g.t, "wsprange")
	arrow := "-[" + rel + "]->"
	switch g.pick("wspdir", 6) {
	case 0, 1:
		arrow = "<-[" + rel + "]-"
		g.feat("dir-in")
	case 2:
		if g.chance("wspboth", 1, 3) {
			arrow = "-[" + rel + "]-"
			g.feat("dir-both")
		}
	default:
		g.feat("dir-out")
	}
	p := g.fresh("p")
	// the new endpoint variables come into scope with the pattern
	for _, n := range []string{ln, rn} {
		if n == "" {
			continue
		}
		known := false
		for _, v := range g.scope {
			if v.Name == n {
				known = true
			}
		}
		if !known {
			g.scope = append(g.scope, Var{n, TNode})
		}
	}
	g.scope = append(g.scope, Var{p, TPath})
	g.feat("path-var")
	s := "match " + p + " = " + fn + "(" + left + arrow + right + ")"
	if g.chance("wspwhere", 1, 2) {
		s += " where " + g.boolExpr(depth)
		g.feat("where")
	}
	return s
}

// propValueExpr is a right-hand side for SET n.p = …
func (g *gen) propValueExpr() string {
	switch g.pick("wsetval", 10) {
	case 0, 1, 2:
		return g.strLit()
	case 3, 4:
		return g.intLit()
	case 5, 6:
		return g.boolLit()
	case 7:
		return g.intExpr(1)
	case 8:
		return g.strExpr(1)
	default:
		return g.floatLit()
	}
}

func (g *gen) kindList(label string, pool []string) string {
	n := 1
	if g.chance(label+"two", 1, 3) {
		n = 2
	}
	perm := rapid.Permutation(pool).Draw(g.t, label+"perm")
	return ":" + strings.Join(perm[:n], ":")
}

var setProps = []string{"name", "value", "flag", "opt", "score", "fresh"}

func (g *gen) updatingClause() string {
	ents := g.varsOf(TNode, TRel)
	nodes := g.varsOf(TNode)
	rels := g.varsOf(TRel)
	k := g.pick("wupd", 14)
	switch {
	case k <= 3 && len(ents) > 0:
		g.feat("upd-set-property")
		n := 1
		if g.chance("wset2", 1, 4) {
			n = 2
		}
		items := make([]string, n)
		for i := range items {
			e := ents[g.pick("wsetent", len(ents))]
			items[i] = e.Name + "." + rapid.SampledFrom(setProps).Draw(g.t, "wsetprop") + " = " + g.propValueExpr()
		}
		return "set " + strings.Join(items, ", ")
	case k == 4 && len(nodes) > 0:
		g.feat("upd-set-kind")
		return "set " + nodes[g.pick("wsetkn", len(nodes))].Name + g.kindList("wsetk", NodeKinds)
	case k == 5 && len(nodes) > 0:
		g.feat("upd-remove-kind")
		return "remove " + nodes[g.pick("wremkn", len(nodes))].Name + g.kindList("wremk", NodeKinds)
	case k <= 7 && len(ents) > 0:
		g.feat("upd-remove-property")
		e := ents[g.pick("wrement", len(ents))]
		return "remove " + e.Name + "." + rapid.SampledFrom(setProps).Draw(g.t, "wremprop")
	case k == 8 && len(rels) > 0:
		g.feat("upd-delete-rel")
		return "delete " + rels[g.pick("wdelrel", len(rels))].Name
	case k == 9 && len(nodes) > 0:
		g.feat("upd-detach-delete")
		return "detach delete " + nodes[g.pick("wddnode", len(nodes))].Name
	case k == 10 && len(nodes) > 0:
		g.feat("upd-delete-node")
		return "delete " + nodes[g.pick("wdelnode", len(nodes))].Name
	case k == 11 && len(ents) > 0:
		g.feat("upd-set-map")
		e := ents[g.pick("wsetmapent", len(ents))]
		op := "="
		if g.chance("wsetmapadd", 1, 2) {
			op = "+="
		}
		return "set " + e.Name + " " + op + " {name: " + g.strLit() + ", value: " + g.intLit() + "}"
	case k == 12 && g.chance("wmerge", 1, 3):
		g.feat("upd-merge")
		return "merge (" + g.fresh("m") + ":" + g.nk() + " {name: " + g.strLit() + "})"
	default:
		return g.createClause()
	}
}

func (g *gen) createProps() string {
	if !g.chance("wcprops", 1, 2) {
		return ""
	}
	parts := []string{"name: " + g.strLit()}
	if g.chance("wcprops2", 1, 2) {
		parts = append(parts, "value: "+g.intLit())
	}
	if ns := g.varsOf(TNode); len(ns) > 0 && g.chance("wcpropsref", 1, 4) {
		g.feat("upd-create-props-from-binding")
		parts = append(parts, "opt: "+ns[g.pick("wcpropsrefi", len(ns))].Name+".name")
	}
	return " {" + strings.Join(parts, ", ") + "}"
}

func (g *gen) createNode(allowBound bool) string {
	nodes := g.varsOf(TNode)
	if allowBound && len(nodes) > 0 && g.chance("wcbound", 1, 2) {
		g.feat("upd-create-from-bound-node")
		return "(" + nodes[g.pick("wcboundi", len(nodes))].Name + ")"
	}
	name := ""
	if g.chance("wcnamed", 2, 3) {
		name = g.fresh("c")
		g.scope = append(g.scope, Var{name, TNode})
	}
	kinds := ""
	if g.chance("wckinds", 3, 4) {
		kinds = g.kindList("wck", NodeKinds)
	}
	return "(" + name + kinds + g.createProps() + ")"
}

func (g *gen) createClause() string {
	g.feat("upd-create")
	var sb strings.Builder
	sb.WriteString("create ")
	pathVar := ""
	steps := []int{0, 0, 1, 1, 1, 2}[g.pick("wcsteps", 6)]
	if steps > 0 && g.chance("wcpath", 1, 8) {
		pathVar = g.fresh("p")
		sb.WriteString(pathVar + " = ")
		g.feat("upd-create-path")
	}
	sb.WriteString(g.createNode(steps > 0))
	for i := 0; i < steps; i++ {
		g.feat("upd-create-relationship")
		name := ""
		if g.chance("wcrelnamed", 1, 3) {
			name = g.fresh("r")
			g.scope = append(g.scope, Var{name, TRel})
		}
		body := "[" + name + ":" + g.ek() + g.createProps() + "]"
		if g.chance("wcin", 1, 3) {
			sb.WriteString("<-" + body + "-")
		} else {
			sb.WriteString("-" + body + "->")
		}
		sb.WriteString(g.createNode(true))
	}
	if pathVar != "" {
		g.scope = append(g.scope, Var{pathVar, TPath})
	}
	return sb.String()
}

var _ = fmt.Sprintf
