// Package g4 reads the ANTLR 4 grammar shipped with DAWGS (cypher/grammar/Cypher.g4, plain ANTLR
// with explicit SP tokens) and produces random derivations of it with rapid. It is a *biased
// string source*: the checks that use it judge the produced text only through DAWGS's own lexer
// and parser, never through the derivation, so an imprecision here can cost coverage but cannot
// cause a verdict.
package g4

import (
	"fmt"
	"os"
	"path/filepath"
	"sort"
	"strings"
	"unicode"

	"pgregory.net/rapid"
)

type Node interface{}

type (
	Seq []Node
	Alt []Node
	Ref string
	Lit string
	Set struct {
		Neg  bool
		Spec string
	}
	Rep struct {
		N        Node
		Min, Max int // Max -1 = unbounded
	}
	EOF struct{}
	Not struct{ N Node }
)

type Grammar struct {
	Rules  map[string]Node
	Order  []string
	height map[string]int
	// Weight of a rule reference when it appears at the top level of an alternative (default 1).
	Weight map[string]float64
	// Size is the soft budget of derivation steps (default 350).
	Size int
	// Fuse=true writes tokens exactly as derived (adjacent words may fuse into one lexeme).
	Fuse bool
}

// Unsupported lists the parser rules DAWGS documents or implements as unsupported; UseDefaultWeights
// makes derivations reach them rarely (not never) so that most texts have a chance to be accepted.
var Unsupported = []string{"oC_Command", "oC_BulkImportQuery", "oC_LoadCSV", "oC_Start", "oC_Foreach", "oC_CaseExpression",
	"oC_Reduce", "oC_LegacyListExpression", "oC_ExistentialSubquery", "oC_LegacyParameter", "oC_Explain", "oC_Profile",
	"oC_Union", "oC_PeriodicCommitHint", "oC_CypherOption", "oC_AnyCypherOption", "oC_StandaloneCall", "oC_InQueryCall",
	"oC_Hint", "oC_CreateUnique", "oC_ListComprehension", "oC_PatternComprehension", "oC_LegacyParameter"}

func (g *Grammar) UseDefaultWeights(w float64) {
	for _, r := range Unsupported {
		g.Weight[r] = w
	}
}

func RepoRoot() string {
	if r := os.Getenv("VERIF_REPO"); r != "" {
		return r
	}
	return "/repo"
}

func Load() (*Grammar, error) {
	raw, err := os.ReadFile(filepath.Join(RepoRoot(), "cypher", "grammar", "Cypher.g4"))
	if err != nil {
		return nil, err
	}
	return Parse(string(raw))
}

type tok struct {
	k string // id lit set sym
	v string
}

func lex(src string) ([]tok, error) {
	var out []tok
	rs := []rune(src)
	for i := 0; i < len(rs); {
		c := rs[i]
		switch {
		case unicode.IsSpace(c):
			i++
		case c == '/' && i+1 < len(rs) && rs[i+1] == '*':
			j := i + 2
			for j+1 < len(rs) && !(rs[j] == '*' && rs[j+1] == '/') {
				j++
			}
			i = j + 2
		case c == '/' && i+1 < len(rs) && rs[i+1] == '/':
			for i < len(rs) && rs[i] != '\n' {
				i++
			}
		case c == '\'':
			j := i + 1
			var sb strings.Builder
			for j < len(rs) && rs[j] != '\'' {
				if rs[j] == '\\' && j+1 < len(rs) {
					j++
					switch rs[j] {
					case 'n':
						sb.WriteRune('\n')
					case 'r':
						sb.WriteRune('\r')
					case 't':
						sb.WriteRune('\t')
					case 'f':
						sb.WriteRune('\f')
					case 'b':
						sb.WriteRune('\b')
					case 'u':
						var v rune
						fmt.Sscanf(string(rs[j+1:j+5]), "%x", &v)
						sb.WriteRune(v)
						j += 4
					default:
						sb.WriteRune(rs[j])
					}
					j++
					continue
				}
				sb.WriteRune(rs[j])
				j++
			}
			out = append(out, tok{"lit", sb.String()})
			i = j + 1
		case c == '[':
			j := i + 1
			for j < len(rs) && rs[j] != ']' {
				if rs[j] == '\\' {
					j++
				}
				j++
			}
			out = append(out, tok{"set", string(rs[i+1 : j])})
			i = j + 1
		case unicode.IsLetter(c) || c == '_':
			j := i
			for j < len(rs) && (unicode.IsLetter(rs[j]) || unicode.IsDigit(rs[j]) || rs[j] == '_') {
				j++
			}
			out = append(out, tok{"id", string(rs[i:j])})
			i = j
		case strings.ContainsRune(":;|()?*+~", c):
			out = append(out, tok{"sym", string(c)})
			i++
		default:
			return nil, fmt.Errorf("g4: unexpected %q at rune %d", c, i)
		}
	}
	return out, nil
}

type parser struct {
	t []tok
	p int
}

func (p *parser) peek() tok {
	if p.p < len(p.t) {
		return p.t[p.p]
	}
	return tok{"eof", ""}
}
func (p *parser) next() tok { t := p.peek(); p.p++; return t }

func Parse(src string) (*Grammar, error) {
	toks, err := lex(src)
	if err != nil {
		return nil, err
	}
	p := &parser{t: toks}
	g := &Grammar{Rules: map[string]Node{}, Weight: map[string]float64{}}
	if t := p.next(); t.v != "grammar" {
		return nil, fmt.Errorf("g4: expected 'grammar'")
	}
	p.next() // name
	p.next() // ;
	for p.peek().k != "eof" {
		t := p.next()
		if t.k == "id" && t.v == "fragment" {
			t = p.next()
		}
		if t.k != "id" {
			return nil, fmt.Errorf("g4: expected rule name, got %v", t)
		}
		if c := p.next(); c.v != ":" {
			return nil, fmt.Errorf("g4: expected ':' after %s", t.v)
		}
		body, err := p.alt()
		if err != nil {
			return nil, fmt.Errorf("g4: rule %s: %w", t.v, err)
		}
		if c := p.next(); c.v != ";" {
			return nil, fmt.Errorf("g4: expected ';' after rule %s, got %v", t.v, c)
		}
		g.Rules[t.v] = body
		g.Order = append(g.Order, t.v)
	}
	g.computeHeights()
	return g, nil
}

func (p *parser) alt() (Node, error) {
	var alts Alt
	for {
		s, err := p.seq()
		if err != nil {
			return nil, err
		}
		alts = append(alts, s)
		if p.peek().v == "|" && p.peek().k == "sym" {
			p.next()
			continue
		}
		break
	}
	if len(alts) == 1 {
		return alts[0], nil
	}
	return alts, nil
}

func (p *parser) seq() (Node, error) {
	var s Seq
	for {
		t := p.peek()
		if t.k == "eof" || (t.k == "sym" && (t.v == "|" || t.v == ")" || t.v == ";")) {
			break
		}
		a, err := p.atom()
		if err != nil {
			return nil, err
		}
		for {
			n := p.peek()
			if n.k != "sym" {
				break
			}
			switch n.v {
			case "?":
				a = Rep{a, 0, 1}
			case "*":
				a = Rep{a, 0, -1}
			case "+":
				a = Rep{a, 1, -1}
			default:
				goto done
			}
			p.next()
		}
	done:
		s = append(s, a)
	}
	if len(s) == 1 {
		return s[0], nil
	}
	return s, nil
}

func (p *parser) atom() (Node, error) {
	t := p.next()
	switch {
	case t.k == "id" && t.v == "EOF":
		return EOF{}, nil
	case t.k == "id":
		return Ref(t.v), nil
	case t.k == "lit":
		return Lit(t.v), nil
	case t.k == "set":
		return Set{false, t.v}, nil
	case t.k == "sym" && t.v == "~":
		a, err := p.atom()
		if err != nil {
			return nil, err
		}
		if s, ok := a.(Set); ok {
			s.Neg = true
			return s, nil
		}
		return Not{a}, nil
	case t.k == "sym" && t.v == "(":
		a, err := p.alt()
		if err != nil {
			return nil, err
		}
		if c := p.next(); c.v != ")" {
			return nil, fmt.Errorf("expected ')' got %v", c)
		}
		return a, nil
	}
	return nil, fmt.Errorf("unexpected token %v", t)
}

const inf = 1 << 20

func (g *Grammar) computeHeights() {
	g.height = map[string]int{}
	for name := range g.Rules {
		g.height[name] = inf
	}
	for changed := true; changed; {
		changed = false
		for _, name := range g.Order {
			h := g.nodeHeight(g.Rules[name])
			if h < inf {
				h++
			}
			if h < g.height[name] {
				g.height[name] = h
				changed = true
			}
		}
	}
}

func (g *Grammar) nodeHeight(n Node) int {
	switch v := n.(type) {
	case Seq:
		m := 0
		for _, e := range v {
			if h := g.nodeHeight(e); h > m {
				m = h
			}
		}
		return m
	case Alt:
		m := inf
		for _, e := range v {
			if h := g.nodeHeight(e); h < m {
				m = h
			}
		}
		return m
	case Ref:
		if IsLexerRule(string(v)) {
			return 0
		}
		h, ok := g.height[string(v)]
		if !ok {
			return inf
		}
		return h
	case Rep:
		if v.Min == 0 {
			return 0
		}
		return g.nodeHeight(v.N)
	default:
		return 0
	}
}

func IsLexerRule(name string) bool {
	return name != "" && unicode.IsUpper([]rune(name)[0])
}

// ParserRules lists the parser (lower-case) rule names.
func (g *Grammar) ParserRules() []string {
	var out []string
	for _, n := range g.Order {
		if !IsLexerRule(n) {
			out = append(out, n)
		}
	}
	sort.Strings(out)
	return out
}

// Derivation is one generated text with the parser rules its derivation used.
type Derivation struct {
	Text  string
	Rules map[string]int
}

type genState struct {
	g     *Grammar
	t     *rapid.T
	sb    strings.Builder
	rules map[string]int
	steps int
	size  int // soft size budget: beyond it only minimal choices are made
}

// Generate derives `rule` with the given depth budget.
func (g *Grammar) Generate(t *rapid.T, rule string, depth int) Derivation {
	if h := g.height[rule]; depth < h {
		depth = h
	}
	st := &genState{g: g, t: t, rules: map[string]int{}, size: g.Size}
	if st.size <= 0 {
		st.size = 350
	}
	st.gen(Ref(rule), depth)
	return Derivation{Text: st.sb.String(), Rules: st.rules}
}

func (st *genState) weightOf(n Node) float64 {
	w := 1.0
	visit := func(e Node) {
		if r, ok := e.(Ref); ok {
			if x, ok := st.g.Weight[string(r)]; ok {
				w *= x
			}
		}
	}
	switch v := n.(type) {
	case Seq:
		for _, e := range v {
			visit(e)
		}
	default:
		visit(n)
	}
	return w
}

func (st *genState) gen(n Node, depth int) {
	st.steps++
	switch v := n.(type) {
	case Seq:
		for _, e := range v {
			st.gen(e, depth)
		}
	case Alt:
		type cand struct {
			n Node
			w int
		}
		var cands []cand
		best, bestH := Node(nil), inf+1
		for _, a := range v {
			h := st.g.nodeHeight(a)
			if h < bestH {
				best, bestH = a, h
			}
			if h <= depth {
				wf := st.weightOf(a)
				if h == 0 && len(v) > 1 {
					wf *= 0.4 // pure-token alternatives ('*', literals) would otherwise dominate
				}
				w := int(wf * 100)
				if w < 1 {
					w = 1
				}
				cands = append(cands, cand{a, w})
			}
		}
		if len(cands) == 0 || st.steps > st.size {
			st.gen(best, depth)
			return
		}
		// rapid's integer draws favour small values: put the heavy alternatives first
		sort.SliceStable(cands, func(i, j int) bool { return cands[i].w > cands[j].w })
		total := 0
		for _, c := range cands {
			total += c.w
		}
		pick := rapid.IntRange(0, total-1).Draw(st.t, "alt")
		for _, c := range cands {
			if pick < c.w {
				st.gen(c.n, depth)
				return
			}
			pick -= c.w
		}
	case Rep:
		h := st.g.nodeHeight(v.N)
		max := v.Max
		if max < 0 {
			max = v.Min + 2
		}
		if h > depth || st.steps > st.size {
			max = v.Min
		}
		n := v.Min
		if w := st.weightOf(v.N); w < 1 && max > v.Min {
			if rapid.IntRange(0, 99).Draw(st.t, "wrep") >= int(w*100) {
				max = v.Min
			}
		}
		if max > v.Min {
			// bias towards few repetitions
			r := rapid.IntRange(0, 5).Draw(st.t, "rep")
			switch {
			case r <= 2:
				n = v.Min
			case r <= 4:
				n = v.Min + 1
			default:
				n = max
			}
			if n > max {
				n = max
			}
		}
		for i := 0; i < n; i++ {
			st.gen(v.N, depth)
		}
	case Ref:
		name := string(v)
		if IsLexerRule(name) {
			st.write(st.lexeme(name))
			return
		}
		st.rules[name]++
		body, ok := st.g.Rules[name]
		if !ok {
			return
		}
		st.gen(body, depth-1)
	case Lit:
		st.write(string(v))
	case Set:
		st.sb.WriteString(st.fromSet(v))
	case Not:
		st.sb.WriteString("a")
	case EOF:
	}
}

func identRune(r rune) bool {
	return r == '_' || unicode.IsLetter(r) || unicode.IsDigit(r)
}

// write appends a token; when the grammar allowed the optional SP to be dropped between two
// word-like tokens (MATCH SP? p=…) a blank keeps them from fusing into one lexeme.
func (st *genState) write(s string) {
	if s == "" {
		return
	}
	if st.sb.Len() > 0 && !st.g.Fuse {
		cur := st.sb.String()
		last := []rune(cur[len(cur)-1:])
		if len(cur) >= 2 {
			rs := []rune(cur)
			last = rs[len(rs)-1:]
		}
		first := []rune(s)[0]
		if identRune(last[0]) && (identRune(first) || first == '.' && unicode.IsDigit(last[0])) {
			st.sb.WriteByte(' ')
		}
	}
	st.sb.WriteString(s)
}

func (st *genState) fromSet(s Set) string {
	if s.Neg {
		// a character that is in none of the negated sets used by this grammar
		return rapid.SampledFrom([]string{"a", "z", " ", "0", "é", "_"}).Draw(st.t, "negset")
	}
	rs := []rune(s.Spec)
	if len(rs) == 1 {
		return string(rs)
	}
	if len(rs) == 2 && rs[0] == '\\' {
		switch rs[1] {
		case 'n':
			return "\n"
		case 'r':
			return "\r"
		case 't':
			return "\t"
		case 'f':
			return "\f"
		}
		return string(rs[1])
	}
	if strings.HasPrefix(s.Spec, "\\u") {
		var v rune
		fmt.Sscanf(s.Spec[2:], "%x", &v)
		return string(v)
	}
	return "a"
}

var (
	names   = []string{"n", "m", "a", "b", "r", "p", "x", "e", "name", "value", "n0", "s0", "path", "_k", "Person", "R", "énom", "count1"}
	escaped = []string{"`n`", "`a b`", "`we``ird`", "`1x`", "`match`", "`é ü`", "`a.b`"}
	strs    = []string{"'abc'", "\"abc\"", "''", "'it\\'s'", "\"q\\\"q\"", "'a\\\\b'", "'\\u00e9'", "'line\\nbreak'", "'100%'", "'a''", "'x y'", "\"it's\"", "'\\t'"}
	ints    = []string{"0", "1", "2", "7", "42", "100", "9223372036854775807", "9223372036854775808", "99999999999999999999999"}
	hexes   = []string{"0x0", "0x1F", "0xff", "0x7fffffffffffffff", "0xffffffffffffffffff"}
	octs    = []string{"00", "017", "0777"}
	reals   = []string{"1.5", ".5", "0.0", "3.14159", "123456789.123456789"}
	expos   = []string{"1e3", "1.5E-2", "2e+10", "1e400", ".5e1"}
	spaces  = []string{" ", " ", " ", " ", " ", "  ", "\n", "\t", " /* c */ ", " ", " // c\n"}
)

func (st *genState) lexeme(name string) string {
	t := st.t
	switch name {
	case "SP", "WHITESPACE":
		return rapid.SampledFrom(spaces).Draw(t, "sp")
	case "UnescapedSymbolicName":
		return rapid.SampledFrom(names).Draw(t, "name")
	case "EscapedSymbolicName":
		return rapid.SampledFrom(escaped).Draw(t, "ename")
	case "StringLiteral":
		return rapid.SampledFrom(strs).Draw(t, "str")
	case "DecimalInteger":
		return rapid.SampledFrom(ints).Draw(t, "int")
	case "HexInteger":
		return rapid.SampledFrom(hexes).Draw(t, "hex")
	case "OctalInteger":
		return rapid.SampledFrom(octs).Draw(t, "oct")
	case "RegularDecimalReal":
		return rapid.SampledFrom(reals).Draw(t, "real")
	case "ExponentDecimalReal":
		return rapid.SampledFrom(expos).Draw(t, "expo")
	case "HexLetter":
		return rapid.SampledFrom([]string{"a", "b", "c", "d", "e", "f", "A", "F"}).Draw(t, "hexl")
	case "Comment":
		return "/* c */"
	}
	body, ok := st.g.Rules[name]
	if !ok {
		return ""
	}
	if kw, ok := keyword(body); ok {
		switch rapid.IntRange(0, 9).Draw(t, "kwcase") {
		case 0:
			return strings.ToUpper(kw)
		case 1:
			// mixed case
			rs := []rune(kw)
			for i := range rs {
				if i%2 == 0 {
					rs[i] = unicode.ToUpper(rs[i])
				}
			}
			return string(rs)
		default:
			return kw
		}
	}
	// generic lexer rule derivation
	sub := &genState{g: st.g, t: st.t, rules: map[string]int{}}
	sub.genLex(body, 6)
	return sub.sb.String()
}

func (st *genState) genLex(n Node, depth int) {
	switch v := n.(type) {
	case Seq:
		for _, e := range v {
			st.genLex(e, depth)
		}
	case Alt:
		st.genLex(v[rapid.IntRange(0, len(v)-1).Draw(st.t, "lalt")], depth)
	case Rep:
		k := v.Min
		if depth > 0 && (v.Max < 0 || v.Max > v.Min) {
			k += rapid.IntRange(0, 2).Draw(st.t, "lrep")
			if v.Max >= 0 && k > v.Max {
				k = v.Max
			}
		}
		for i := 0; i < k; i++ {
			st.genLex(v.N, depth-1)
		}
	case Ref:
		if depth <= 0 {
			return
		}
		if IsLexerRule(string(v)) {
			st.sb.WriteString(st.lexeme(string(v)))
		}
	case Lit:
		st.sb.WriteString(string(v))
	case Set:
		st.sb.WriteString(st.fromSet(v))
	}
}

// keyword recognises the ( 'A' | 'a' ) ( 'B' | 'b' ) … shape and returns the lower-case keyword.
func keyword(body Node) (string, bool) {
	seq, ok := body.(Seq)
	if !ok {
		if a, ok := body.(Alt); ok {
			seq = Seq{a}
		} else {
			return "", false
		}
	}
	var sb strings.Builder
	for _, e := range seq {
		a, ok := e.(Alt)
		if !ok || len(a) != 2 {
			return "", false
		}
		l0, ok0 := a[0].(Lit)
		l1, ok1 := a[1].(Lit)
		if !ok0 || !ok1 || !strings.EqualFold(string(l0), string(l1)) {
			return "", false
		}
		sb.WriteString(strings.ToLower(string(l0)))
	}
	return sb.String(), sb.Len() > 0
}

// Query produces a whole query text: either a derivation of oC_Cypher or a derivation of a
// sub-rule (expression, pattern, projection body) embedded in a fixed frame, which puts the
// interesting rules under acceptance-friendly clauses far more often.
func (g *Grammar) Query(t *rapid.T) Derivation {
	depth := rapid.IntRange(16, 48).Draw(t, "depth")
	switch rapid.IntRange(0, 9).Draw(t, "frame") {
	case 0, 1:
		d := g.Generate(t, "oC_Expression", depth)
		d.Text = "match (n) where " + d.Text + " return n"
		return d
	case 2:
		d := g.Generate(t, "oC_Expression", depth)
		d.Text = "return " + d.Text
		return d
	case 3, 4:
		d := g.Generate(t, "oC_Pattern", depth)
		d.Text = "match " + d.Text + " return *"
		return d
	case 5:
		d := g.Generate(t, "oC_ProjectionBody", depth)
		d.Text = "match (n)-[r]->(m) return" + d.Text
		return d
	case 6:
		d := g.Generate(t, "oC_SingleQuery", depth)
		return d
	default:
		return g.Generate(t, "oC_Cypher", depth)
	}
}

// Keywords returns rule name -> lower-case keyword for every keyword lexer rule.
func (g *Grammar) Keywords() map[string]string {
	out := map[string]string{}
	for name, body := range g.Rules {
		if IsLexerRule(name) {
			if kw, ok := keyword(body); ok {
				out[name] = kw
			}
		}
	}
	return out
}
