package g4

import (
	"testing"

	"pgregory.net/rapid"
)

func TestLoadAndGenerate(t *testing.T) {
	g, err := Load()
	if err != nil {
		t.Fatal(err)
	}
	if len(g.ParserRules()) < 100 {
		t.Fatalf("only %d parser rules", len(g.ParserRules()))
	}
	t.Logf("parser rules %d keywords %d height(oC_Cypher)=%d", len(g.ParserRules()), len(g.Keywords()), g.height["oC_Cypher"])
	g.UseDefaultWeights(0.05)
	n := 0
	rapid.Check(t, func(rt *rapid.T) {
		d := g.Generate(rt, "oC_Cypher", rapid.IntRange(10, 45).Draw(rt, "depth"))
		if n < 15 {
			t.Logf("%q", d.Text)
		}
		n++
	})
}

func TestHeights(t *testing.T) {
	g, _ := Load()
	for _, r := range []string{"oC_Cypher", "oC_RegularQuery", "oC_Expression", "oC_Match", "oC_Atom", "oC_Return", "oC_Pattern", "oC_StandaloneCall"} {
		t.Logf("%s %d", r, g.height[r])
	}
}
