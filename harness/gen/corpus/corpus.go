// Package corpus loads the Cypher query texts that ship with DAWGS's own tests (parser cases,
// translation golden files, integration cases and templates) from the tree under test, and offers
// token-level tools built on DAWGS's own ANTLR lexer.
package corpus

import (
	"bufio"
	"encoding/json"
	"os"
	"path/filepath"
	"sort"
	"strings"
	"sync"

	"github.com/antlr4-go/antlr/v4"
	"github.com/specterops/dawgs/cypher/parser"
)

func RepoRoot() string {
	if r := os.Getenv("VERIF_REPO"); r != "" {
		return r
	}
	return "/repo"
}

var (
	once    sync.Once
	queries []string
)

func collectStrings(v any, keys map[string]bool, out *[]string) {
	switch t := v.(type) {
	case map[string]any:
		ks := make([]string, 0, len(t))
		for k := range t {
			ks = append(ks, k)
		}
		sort.Strings(ks)
		for _, k := range ks {
			val := t[k]
			if keys[k] {
				switch s := val.(type) {
				case string:
					*out = append(*out, s)
				case []any:
					for _, e := range s {
						if str, ok := e.(string); ok {
							*out = append(*out, str)
						}
					}
				}
			}
			collectStrings(val, keys, out)
		}
	case []any:
		for _, e := range t {
			collectStrings(e, keys, out)
		}
	}
}

type templateFile struct {
	Families []struct {
		Template string `json:"template"`
		Variants []struct {
			Vars map[string]string `json:"vars"`
		} `json:"variants"`
	} `json:"families"`
}

// Queries returns the de-duplicated, sorted list of query texts found in the tree under test.
func Queries() []string {
	once.Do(func() {
		root := RepoRoot()
		set := map[string]struct{}{}
		add := func(s string) {
			s = strings.TrimSpace(s)
			if s != "" {
				set[s] = struct{}{}
			}
		}
		jsonGlobs := []string{"cypher/test/cases/*.json", "integration/testdata/cases/*.json"}
		for _, g := range jsonGlobs {
			files, _ := filepath.Glob(filepath.Join(root, g))
			for _, f := range files {
				raw, err := os.ReadFile(f)
				if err != nil {
					continue
				}
				var v any
				if json.Unmarshal(raw, &v) != nil {
					continue
				}
				var out []string
				collectStrings(v, map[string]bool{"query": true, "queries": true, "cypher": true}, &out)
				for _, s := range out {
					add(s)
				}
			}
		}
		files, _ := filepath.Glob(filepath.Join(root, "integration/testdata/templates/*.json"))
		for _, f := range files {
			raw, err := os.ReadFile(f)
			if err != nil {
				continue
			}
			var tf templateFile
			if json.Unmarshal(raw, &tf) != nil {
				continue
			}
			for _, fam := range tf.Families {
				for _, v := range fam.Variants {
					q := fam.Template
					for k, val := range v.Vars {
						q = strings.ReplaceAll(q, "{{"+k+"}}", val)
					}
					if !strings.Contains(q, "{{") {
						add(q)
					}
				}
			}
		}
		files, _ = filepath.Glob(filepath.Join(root, "cypher/models/pgsql/test/translation_cases/*.sql"))
		for _, f := range files {
			fh, err := os.Open(f)
			if err != nil {
				continue
			}
			sc := bufio.NewScanner(fh)
			sc.Buffer(make([]byte, 1<<20), 1<<24)
			for sc.Scan() {
				line := sc.Text()
				if strings.HasPrefix(line, "-- case:") {
					add(strings.TrimPrefix(line, "-- case:"))
				}
			}
			fh.Close()
		}
		for q := range set {
			queries = append(queries, q)
		}
		sort.Strings(queries)
	})
	return queries
}

// Token is one lexeme as DAWGS's ANTLR lexer sees it.
type Token struct {
	Type int    `json:"type"`
	Name string `json:"name"` // symbolic (or literal) token name
	Text string `json:"text"`
}

type quietListener struct {
	antlr.DefaultErrorListener
	errs int
}

func (q *quietListener) SyntaxError(antlr.Recognizer, any, int, int, string, antlr.RecognitionException) {
	q.errs++
}

// Lex tokenises with DAWGS's own lexer. lexErrs counts lexer errors.
func Lex(s string) (toks []Token, lexErrs int) {
	lexer := parser.NewCypherLexer(antlr.NewInputStream(s))
	lexer.RemoveErrorListeners()
	ql := &quietListener{}
	lexer.AddErrorListener(ql)
	for {
		t := lexer.NextToken()
		if t.GetTokenType() == antlr.TokenEOF {
			break
		}
		name := ""
		tt := t.GetTokenType()
		if tt >= 0 && tt < len(lexer.SymbolicNames) {
			name = lexer.SymbolicNames[tt]
		}
		if name == "" && tt >= 0 && tt < len(lexer.LiteralNames) {
			name = lexer.LiteralNames[tt]
		}
		toks = append(toks, Token{Type: tt, Name: name, Text: t.GetText()})
	}
	return toks, ql.errs
}

func Join(toks []Token) string {
	var sb strings.Builder
	for _, t := range toks {
		sb.WriteString(t.Text)
	}
	return sb.String()
}

var oddTexts int

// ResetParserCache drops the adaptive-prediction DFAs of DAWGS's generated parser. They live in
// package-level static data shared by every parser instance and only grow: odd texts (grammar
// derivations, token mutations) add states no later text reuses - megabytes per text, gigabytes per
// process over a long run, times the shards of the thorough tier. The DFAs are a cache; the slice the
// interpreter hands out is the static one, so replacing its elements resets it. Call only between
// cases, from the goroutine that parses.
func ResetParserCache() {
	p := parser.NewCypherParser(antlr.NewCommonTokenStream(parser.NewCypherLexer(antlr.NewInputStream("")), antlr.TokenDefaultChannel))
	atn, dfas := p.GetATN(), p.GetInterpreter().DecisionToDFA()
	for i := range dfas {
		dfas[i] = antlr.NewDFA(atn.DecisionToState[i], i)
	}
}

// OddTextParsed is called by generators of unusual texts once per case; every 400th call resets the
// parser's DFA cache so that long runs stay within memory.
func OddTextParsed() {
	if oddTexts++; oddTexts%400 == 0 {
		ResetParserCache()
	}
}
