package corpus

import "testing"

func TestCorpus(t *testing.T) {
	qs := Queries()
	t.Logf("%d queries", len(qs))
	if len(qs) < 500 {
		t.Fatalf("corpus too small: %d", len(qs))
	}
	toks, errs := Lex("match (n:User) where n.name = 'x' return n")
	t.Logf("%v %d", toks, errs)
	if Join(toks) != "match (n:User) where n.name = 'x' return n" {
		t.Fatal("join")
	}
}
