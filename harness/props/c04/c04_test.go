// C04 — user-controlled text cannot change the token structure of emitted SQL.
//
// Metamorphic check on PostgreSQL tokens: a query template is instantiated once with a hostile value v
// and once with a benign value b in the same syntactic position (string literal, property key, kind
// name, variable, result alias, supplied parameter value), both are translated, and the two SQL texts
// are lexed with verif/sqltok (PostgreSQL's scan.l rules). The significant token sequences must be
// identical except at tokens that carry the value; each of those must be ONE string literal / quoted
// identifier token whose decoded value is the value the Cypher text denotes (or a bound parameter whose
// entry in Result.Parameters is the supplied value). SQL text that DAWGS hands to its server-side
// shortest-path functions — as a string literal or as a parameter value — is decoded and judged by the
// same rule, recursively.
package c04

import (
	"context"
	"encoding/json"
	"fmt"
	"reflect"
	"sort"
	"strings"
	"sync"
	"testing"

	"github.com/jackc/pgtype"
	"github.com/jackc/pgx/v5"
	"github.com/specterops/dawgs/cypher/models/pgsql/translate"
	"github.com/specterops/dawgs/graph"
	"pgregory.net/rapid"

	"verif/evid"
	"verif/sqltok"
	"verif/xlate"
)

const (
	findingAliasFold     = "C04-alias-case-fold"
	findingAliasTruncate = "C04-alias-truncation"
	findingKindBackticks = "C04-kind-backticks"
	findingPgxFFFD       = "C04-pgx-replacement-char"
	findingLikeFn        = "C04-like-backslash-function-operand"
)

func TestMain(m *testing.M) {
	evid.Main(m, "C04", "exploration",
		"case = (position, shape, value, rendering): position in {string literal (WHERE =/<>/<, CONTAINS/STARTS WITH/ENDS WITH on a property and on a function result, =~, RETURN, function argument incl. date/datetime/duration, list element, IN list, quantifier, pattern predicate, inline property map, SET / CREATE / DELETE, type()/labels() comparison), property key (lookup, map key, SET/REMOVE/CREATE), kind name (node label, relationship type, n:Label predicate, SET/REMOVE label, CREATE), variable name, result alias, supplied parameter value (string, []string, []any, nested list, map value, map key)}; shape = one of the query templates of that position (single MATCH, WHERE, WITH pipeline, OPTIONAL MATCH, variable length, shortestPath / allShortestPaths whose filters are materialised into harness SQL text); value = concatenation of up to 6 fragments from a table of lexically significant pieces (quotes, doubled quotes, backslashes, `--`, `/*`, `*/`, `;`, `$$`, `$x$`, backticks, control characters, CR/LF, U+2028/2029/0085, U+FFFD, E'/U&'/N' look-alikes, `\\'`, `@pi0`, non-BMP runes, injection idioms) and arbitrary runes, optionally padded up to 64 KiB; rendering = Cypher quote character and escaping style (minimal: raw newlines, or every EscapedChar) for literals, backticked (` doubled) or bare for names. Non-trivial = the value contains at least one of ' \" \\ ; -- /* */ $ ` or a control / non-BMP rune AND both variants translated; distinct by (position, shape, rendering, set of character classes of the value).",
		"the denoted value of a rendered literal / backticked name is computed by the generator from Cypher.g4 (StringLiteral, EscapedChar, EscapedSymbolicName) and cross-checked by an independent decoder",
		"PostgreSQL's token structure is judged by verif/sqltok (scan.l rules, standard_conforming_strings=on, UTF-8 server encoding); `@name` is the pgx named argument and the real pgx NamedArgs rewriter is run on the emitted text to confirm it sees the same placeholders",
		"LIKE patterns: the decoded literal is read with PostgreSQL's LIKE rules (backslash escapes the next character); it must be well formed, the template's own wildcards must still read as wildcards, and between them the pattern must carry the value either as literal text (escaped) or verbatim; % _ \\ of a verbatim value acting as pattern syntax inside the value's own span is a change of meaning (C01), recorded as a class and not judged here",
		"a backtick outside any literal is a violation (PostgreSQL has no such operator; it is Cypher's quoting leaking through)",
		"kind names never reach SQL text (they are mapped to int2 ids); what the check compares is the name the kind mapper is asked to resolve",
		"queries the parser or translator rejects, and translations that panic, carry no verdict (counted as skipped)")
}

// ---- shapes ----------------------------------------------------------------------------------

type shape struct {
	Pos    string   // lit | like | litkind | key | kind | var | alias | param
	Name   string   // unique within the position
	Tpl    string   // <V> marks the user text
	PTypes []string // param shapes: which parameter types make sense
}

const mark = "<V>"

var shapes = []shape{
	// string literals
	{"lit", "where-eq", "match (n) where n.name = <V> return n", nil},
	{"lit", "where-ne-rel", "match (n)-[r]->(m) where r.tag <> <V> return m", nil},
	{"lit", "where-not", "match (n) where not (n.name = <V>) return n", nil},
	{"lit", "where-or", "match (n) where n.name = <V> or n.other = 'x' return n", nil},
	{"lit", "with-pipe", "match (n) with n where n.name = <V> return n", nil},
	{"lit", "with-collect", "match (n) with collect(n.name) as names match (m) where m.name in names and m.tag = <V> return m", nil},
	{"lit", "with-value", "match (n) with n, <V> as tag where n.name = tag return n", nil},
	{"lit", "varlen", "match (n)-[*1..3]->(m) where m.name = <V> return m", nil},
	{"lit", "optional", "match (n) optional match (n)-[r]->(m) where m.name = <V> return n, m", nil},
	{"lit", "two-match", "match (n:A) match (m) where m.name = <V> return n, m", nil},
	{"lit", "regex", "match (n) where n.name =~ <V> return n", nil},
	{"lit", "return", "match (n) return <V> as x", nil},
	{"lit", "return-fn", "match (n) return toLower(<V>) as x", nil},
	{"lit", "return-concat", "match (n) return n.name + <V> as x", nil},
	{"lit", "list-return", "match (n) return [<V>, 'b'] as l", nil},
	{"lit", "unwind", "unwind [<V>, 'q'] as x return x", nil},
	{"lit", "in-list", "match (n) where n.name in ['a', <V>] return n", nil},
	{"lit", "quantifier", "match (n) where any(x in n.tags where x = <V>) return n", nil},
	{"lit", "map-node", "match (n {name: <V>}) return n", nil},
	{"lit", "map-rel", "match (n)-[r {tag: <V>}]->(m) return r", nil},
	{"lit", "in-labels", "match (n) where <V> in labels(n) return n", nil},
	{"lit", "order-by", "match (n) return n order by n.name + <V>", nil},
	{"lit", "sp-where", "match p = shortestPath((a)-[*..]->(b)) where a.name = <V> and b.name = 'end' return p", nil},
	{"lit", "sp-map", "match p = shortestPath((a:A)-[*..]->(b {name: <V>})) return p", nil},
	{"lit", "asp-where", "match p = allShortestPaths((a)-[*..]->(b)) where a.name = 'start' and b.name = <V> return p", nil},
	{"lit", "asp-map", "match p = allShortestPaths((a {name: <V>})-[:R*..]->(b:B)) return p", nil},
	{"lit", "sp-in", "match p = shortestPath((a:A)-[*..]->(b)) where b.name in [<V>, 'x'] return p", nil},
	{"lit", "coalesce", "match (n) return coalesce(n.name, <V>) as x", nil},
	{"lit", "split", "match (n) return split(n.name, <V>) as x", nil},
	{"lit", "date", "match (n) where n.when = date(<V>) return n", nil},
	{"lit", "datetime", "match (n) where n.when = datetime(<V>) return n", nil},
	{"lit", "duration", "match (n) where n.when < datetime() - duration(<V>) return n", nil},
	{"lit", "tostring", "match (n) return toString(<V>) as x", nil},
	{"lit", "pattern-pred", "match (n) where (n)-[:R]->({name: <V>}) return n", nil},
	{"lit", "type-in", "match (n)-[r]->(m) where type(r) in [<V>, 'y'] return r", nil},
	{"lit", "less-than", "match (n) where n.name < <V> return n", nil},
	{"lit", "list-eq", "match (n) where n.list = [<V>] return n", nil},
	{"lit", "size-ne", "match (n) where size(n.name) > 1 and n.name <> <V> return n", nil},
	{"lit", "not-in", "match (n) where not n.name in [<V>] return n", nil},
	{"lit", "set-prop", "match (n) set n.name = <V> return n", nil},
	{"lit", "create-node", "create (n:A {name: <V>}) return n", nil},
	{"lit", "create-rel", "match (a), (b) create (a)-[r:T {tag: <V>}]->(b) return r", nil},
	{"lit", "delete-where", "match (n) where n.name = <V> delete n", nil},
	{"lit", "with-tick-alias", "match (n) with n, <V> as `t y` return n, `t y`", nil},
	{"like", "contains", "match (n) where n.name contains <V> return n", nil},
	{"like", "starts", "match (n) where n.name starts with <V> return n", nil},
	{"like", "ends", "match (n) where n.name ends with <V> return n", nil},
	{"like", "not-contains", "match (n) where not n.name contains <V> return n", nil},
	{"like", "varlen-contains", "match (n)-[*1..2]->(m) where m.name contains <V> return m", nil},
	{"like", "sp-contains", "match p = shortestPath((a)-[*..]->(b:B)) where a.name contains <V> return p", nil},
	{"like", "asp-starts", "match p = allShortestPaths((a)-[*..]->(b)) where a.name starts with <V> and b.name ends with 'z' return p", nil},
	{"likefn", "lower-contains", "match (n) where toLower(n.name) contains <V> return n", nil},
	{"likefn", "coalesce-starts", "match (n) where coalesce(n.name, '') starts with <V> return n", nil},
	{"likefn", "type-ends", "match (n)-[r]->(m) where type(r) ends with <V> return r", nil},
	{"likefn", "asp-coalesce-contains", "match p = allShortestPaths((a:A)<-[:R*..]-(b)) where coalesce(a.tags, '') contains <V> and b.name = '123' return p", nil},
	{"litkind", "type-eq", "match (n)-[r]->(m) where type(r) = <V> return r", nil},
	// property keys
	{"key", "where", "match (n) where n.<V> = 1 return n", nil},
	{"key", "where-str", "match (n) where n.<V> = 'x' return n", nil},
	{"key", "return", "match (n) return n.<V> as x", nil},
	{"key", "contains", "match (n) where n.<V> contains 'x' return n", nil},
	{"key", "order", "match (n) return n order by n.<V>", nil},
	{"key", "not-null", "match (n) where n.<V> is not null return n", nil},
	{"key", "with", "match (n) with n.<V> as v where v = 1 return v", nil},
	{"key", "rel", "match (n)-[r]->(m) where r.<V> = 1 return r", nil},
	{"key", "varlen", "match (n)-[*1..2]->(m) where m.<V> = 1 return m", nil},
	{"key", "map-node", "match (n {<V>: 1}) return n", nil},
	{"key", "map-str", "match (n {<V>: 'x'}) return n", nil},
	{"key", "map-rel", "match ()-[r {<V>: 1}]->() return r", nil},
	{"key", "sp-where", "match p = shortestPath((a)-[*..]->(b)) where a.<V> = 'x' and b.name = 'y' return p", nil},
	{"key", "asp-map", "match p = allShortestPaths((a {<V>: 'x'})-[*..]->(b:B)) return p", nil},
	{"key", "set", "match (n) set n.<V> = 1 return n", nil},
	{"key", "remove", "match (n) remove n.<V> return n", nil},
	{"key", "create", "create (n:A {<V>: 1}) return n", nil},
	// kinds
	{"kind", "node-label", "match (n:<V>) return n", nil},
	{"kind", "rel-type", "match (n)-[r:<V>]->(m) return r", nil},
	{"kind", "label-pred", "match (n) where n:<V> return n", nil},
	{"kind", "rel-alt", "match (n)-[r:Other|<V>]->(m) return r", nil},
	{"kind", "varlen", "match (n)-[:<V>*1..2]->(m) return m", nil},
	{"kind", "sp", "match p = shortestPath((a:<V>)-[*..]->(b:B)) return p", nil},
	{"kind", "set-label", "match (n) set n:<V> return n", nil},
	{"kind", "remove-label", "match (n) remove n:<V> return n", nil},
	{"kind", "create-node", "create (n:<V>) return n", nil},
	{"kind", "create-rel", "match (a), (b) create (a)-[r:<V>]->(b) return r", nil},
	// variables
	{"var", "node", "match (<V>) return <V>", nil},
	{"var", "node-prop", "match (<V>) where <V>.name = 'x' return <V>.name as x", nil},
	{"var", "rel", "match (n)-[<V>]->(m) return <V>", nil},
	{"var", "path", "match <V> = (n)-[]->(m) return <V>", nil},
	{"var", "with", "match (n) with n as <V> return <V>", nil},
	{"var", "unwind", "unwind [1, 2] as <V> return <V>", nil},
	{"var", "quantifier", "match (n) where any(<V> in n.tags where <V> = 'x') return n", nil},
	{"var", "param-name", "match (n) where n.name = $<V> return n", nil},
	// result aliases
	{"alias", "return-node", "match (n) return n as <V>", nil},
	{"alias", "return-prop", "match (n) return n.name as <V>", nil},
	{"alias", "return-count", "match (n) return count(n) as <V>", nil},
	{"alias", "return-order", "match (n) return n.name as <V> order by <V>", nil},
	{"alias", "with-return", "match (n) with n.name as <V> return <V>", nil},
	{"alias", "return-two", "match (n) return n.name as a, n.age as <V>", nil},
	{"alias", "distinct-limit", "match (n) return distinct n.name as <V> limit 5", nil},
	{"alias", "sp", "match p = shortestPath((a:A)-[*..]->(b:B)) return p as <V>", nil},
	// lowerings that carry a user alias into other places of the statement (CTE column lists, ranking selects)
	{"alias", "agg-traversal-count", "match (n:A) match (n)-[:R*1..]->(c:B) with distinct n, count(c) as <V> return n order by <V> desc limit 5", nil},
	{"alias", "agg-traversal-count-where", "match (n:A) where n.name = 'x' match (n)-[:R*1..3]->(c) with n, count(c) as <V> return n, <V> order by <V> desc limit 3", nil},
	{"alias", "with-count-order", "match (n)-[r]->(m) with n, count(m) as <V> return n, <V> order by <V> desc", nil},
	{"alias", "with-collect", "match (n)-[r]->(m) with n, collect(m) as <V> return n, size(<V>)", nil},
	// supplied parameter values
	{"param", "where-eq", "match (n) where n.name = $q return n", []string{"string"}},
	{"param", "contains", "match (n) where n.name contains $q return n", []string{"string"}},
	{"param", "in", "match (n) where n.name in $q return n", []string{"strings", "anylist", "nested"}},
	{"param", "return", "match (n) return $q as x", []string{"string", "strings", "anylist", "mapval", "mapkey"}},
	{"param", "node-props", "match (n $q) return n", []string{"mapval", "mapkey"}},
	{"param", "where-map", "match (n) where n.prop = $q return n", []string{"mapval", "mapkey"}},
	{"param", "unwind", "unwind $q as x return x", []string{"strings", "anylist", "nested"}},
	{"param", "varlen", "match (n)-[*1..2]->(m) where m.name = $q return m", []string{"string"}},
	{"param", "sp-where", "match p = shortestPath((a)-[*..]->(b)) where a.name = $q and b.name = 'y' return p", []string{"string"}},
	{"param", "sp-contains", "match p = shortestPath((a)-[*..]->(b:B)) where a.name contains $q return p", []string{"string"}},
	{"param", "asp-starts", "match p = allShortestPaths((a:A)-[*..]->(b)) where b.name starts with $q return p", []string{"string"}},
	{"param", "asp-in", "match p = allShortestPaths((a)-[*..]->(b)) where a.name = 'x' and b.name in $q return p", []string{"strings", "anylist"}},
	{"param", "regex", "match (n) where n.name =~ $q return n", []string{"string"}},
	{"param", "concat", "match (n) return n.name + $q as x", []string{"string"}},
	{"param", "starts", "match (n) where n.name starts with $q return n", []string{"string"}},
	{"param", "lower-eq", "match (n) where toLower(n.name) = toLower($q) return n", []string{"string"}},
	{"param", "set-prop", "match (n) set n.name = $q return n", []string{"string"}},
	{"param", "create", "create (n:A {name: $q}) return n", []string{"string"}},
}

var (
	shapeIndex = map[string]*shape{}
	shapesOf   = map[string][]*shape{}
)

func init() {
	for i := range shapes {
		s := &shapes[i]
		id := s.Pos + "/" + s.Name
		if shapeIndex[id] != nil {
			panic("duplicate shape " + id)
		}
		shapeIndex[id] = s
		shapesOf[s.Pos] = append(shapesOf[s.Pos], s)
	}
}

// ---- case ------------------------------------------------------------------------------------

// Case is the replay format.
type Case struct {
	Shape string `json:"shape"` // "<pos>/<name>"
	V     string `json:"v"`
	Pad   string `json:"pad,omitempty"`
	PadN  int    `json:"pad_n,omitempty"`
	// literals: Quote is ' or " and Style is min|esc; names: Style is tick|bare; parameters: PType
	Quote string `json:"quote,omitempty"`
	Style string `json:"style,omitempty"`
	PType string `json:"ptype,omitempty"`
	// KindLax is set by the generator while finding C04-kind-backticks is open: the kind mapper may be
	// asked for the backticked source text instead of the denoted name.
	KindLax bool `json:"kind_lax,omitempty"`
}

const benign = "zqbenignqz"

type variant struct {
	text   string
	params map[string]any
	user   any // the supplied parameter value (nil unless a param shape)
	raw    string
}

func paramValue(ptype, v string) any {
	switch ptype {
	case "string":
		return v
	case "strings":
		return []string{v, "b"}
	case "anylist":
		return []any{"a", v}
	case "nested":
		return []any{[]any{v}, []any{"b"}}
	case "mapval":
		return map[string]any{"name": v}
	case "mapkey":
		return map[string]any{v: "x"}
	}
	return nil
}

func build(sh *shape, c Case, v string) (variant, error) {
	switch sh.Pos {
	case "lit", "like", "likefn", "litkind":
		q := byte('\'')
		if c.Quote == "\"" {
			q = '"'
		}
		style := c.Style
		if style != "esc" {
			style = "min"
		}
		lit := renderString(v, q, style)
		if back, err := decodeCypherString(lit); err != nil || back != v {
			return variant{}, fmt.Errorf("harness: literal renderer and decoder disagree on %q: %q %v", v, back, err)
		}
		return variant{text: strings.ReplaceAll(sh.Tpl, mark, lit), raw: lit}, nil
	case "key", "kind", "var", "alias":
		name := v
		if c.Style != "bare" {
			name = renderName(v)
			if back, err := decodeName(name); err != nil || back != v {
				return variant{}, fmt.Errorf("harness: name renderer and decoder disagree on %q: %q %v", v, back, err)
			}
		}
		return variant{text: strings.ReplaceAll(sh.Tpl, mark, name), raw: name}, nil
	case "param":
		pv := paramValue(c.PType, v)
		if pv == nil {
			return variant{}, fmt.Errorf("harness: unknown parameter type %q", c.PType)
		}
		return variant{text: sh.Tpl, params: map[string]any{"q": pv}, user: pv}, nil
	}
	return variant{}, fmt.Errorf("harness: unknown position %q", sh.Pos)
}

// ---- recording kind mapper -------------------------------------------------------------------

type recMapper struct {
	mu    sync.Mutex
	inner *xlate.AutoMapper
	names []string
}

func newRecMapper() *recMapper { return &recMapper{inner: xlate.NewAutoMapper()} }

func (s *recMapper) note(kinds graph.Kinds) {
	s.mu.Lock()
	for _, k := range kinds {
		s.names = append(s.names, k.String())
	}
	s.mu.Unlock()
}

func (s *recMapper) MapKinds(ctx context.Context, kinds graph.Kinds) ([]int16, error) {
	s.note(kinds)
	return s.inner.MapKinds(ctx, kinds)
}

func (s *recMapper) AssertKinds(ctx context.Context, kinds graph.Kinds) ([]int16, error) {
	s.note(kinds)
	return s.inner.AssertKinds(ctx, kinds)
}

// ---- token comparison ------------------------------------------------------------------------

type cmpCtx struct {
	v, b      string
	slots     int
	innerSQL  int
	likeSlots int
	// likeExact: the value reads back as literal text; likeVerbatim: the value was copied into the pattern
	// unescaped and contains pattern syntax (meaning changes, token structure does not)
	likeExact, likeVerbatim int
	identSlot               int
}

func clipStr(s string, n int) string {
	if len(s) > n {
		return fmt.Sprintf("%q… (%d bytes)", s[:n], len(s))
	}
	return fmt.Sprintf("%q", s)
}

func around(toks []sqltok.Token, i int) string {
	lo, hi := i-4, i+5
	if lo < 0 {
		lo = 0
	}
	if hi > len(toks) {
		hi = len(toks)
	}
	var parts []string
	for k := lo; k < hi; k++ {
		txt := toks[k].Text
		if len(txt) > 60 {
			txt = txt[:60] + "…"
		}
		if k == i {
			parts = append(parts, fmt.Sprintf(">>>%s:%s<<<", toks[k].Kind, txt))
		} else {
			parts = append(parts, txt)
		}
	}
	return strings.Join(parts, " ")
}

func isStringKind(k sqltok.Kind) bool {
	return k == sqltok.String || k == sqltok.EString || k == sqltok.UString
}

func isIdentKind(k sqltok.Kind) bool {
	return k == sqltok.Word || k == sqltok.QuotedIdent || k == sqltok.UIdent
}

// likeElems reads a LIKE pattern the way PostgreSQL does (default escape character backslash).
type likeElem struct {
	wild byte // '%', '_' or 0 for a literal byte
	lit  byte
}

func likeElems(p string) ([]likeElem, error) {
	var out []likeElem
	for i := 0; i < len(p); i++ {
		switch p[i] {
		case '\\':
			i++
			if i >= len(p) {
				return nil, fmt.Errorf("LIKE pattern ends with the escape character")
			}
			out = append(out, likeElem{lit: p[i]})
		case '%', '_':
			out = append(out, likeElem{wild: p[i]})
		default:
			out = append(out, likeElem{lit: p[i]})
		}
	}
	return out, nil
}

// compareSQL checks hostile against benign SQL text. where names the text (main statement, parameter, …).
func (cc *cmpCtx) compareSQL(where, hsql, bsql string, depth int) error {
	if depth > 4 {
		return fmt.Errorf("%s: SQL nested deeper than 4 levels", where)
	}
	hall, ball := sqltok.Lex(hsql), sqltok.Lex(bsql)
	if bad := sqltok.FirstBad(ball); bad != nil {
		return fmt.Errorf("%s: the BENIGN SQL does not lex (%s at %d): %s", where, bad.Value, bad.Pos, clipStr(bsql, 400))
	}
	if bad := sqltok.FirstBad(hall); bad != nil {
		lo := bad.Pos - 80
		if lo < 0 {
			lo = 0
		}
		return fmt.Errorf("%s: PostgreSQL's lexer rejects the emitted text (%s at byte %d): …%s", where, bad.Value, bad.Pos, clipStr(hsql[lo:], 300))
	}
	ht, bt := sqltok.Significant(hall), sqltok.Significant(ball)
	// PostgreSQL has no operator containing a backtick and DAWGS emits none: a backtick outside a literal is
	// Cypher's name quoting leaking into the SQL text (it lexes as an operator, so it is not a Bad token)
	for i, tk := range ht {
		if tk.Kind == sqltok.Operator && strings.Contains(tk.Text, "`") {
			return fmt.Errorf("%s: token %d: a backtick reached the SQL text outside any literal (an operator character to PostgreSQL, not a quote): %s", where, i, around(ht, i))
		}
	}
	n := len(ht)
	if len(bt) < n {
		n = len(bt)
	}
	for i := 0; i < n; i++ {
		h, b := ht[i], bt[i]
		if h.Kind == b.Kind && h.Text == b.Text {
			continue
		}
		if err := cc.slot(where, ht, bt, i, depth); err != nil {
			return err
		}
	}
	if len(ht) != len(bt) {
		return fmt.Errorf("%s: the value changed the number of SQL tokens: %d with the hostile value, %d with the benign one; first extra/missing token near: %s", where, len(ht), len(bt), aroundLonger(ht, bt, n))
	}
	return nil
}

func aroundLonger(ht, bt []sqltok.Token, n int) string {
	if len(ht) > n {
		return "hostile " + around(ht, n)
	}
	return "benign " + around(bt, n)
}

func (cc *cmpCtx) slot(where string, ht, bt []sqltok.Token, i, depth int) error {
	h, b := ht[i], bt[i]
	fail := func(format string, args ...any) error {
		return fmt.Errorf("%s: token %d: %s\n  hostile: %s\n  benign : %s", where, i, fmt.Sprintf(format, args...), around(ht, i), around(bt, i))
	}
	switch {
	case isStringKind(b.Kind):
		if !isStringKind(h.Kind) {
			return fail("the benign value is a string literal here but the hostile text lexes as %s", h.Kind)
		}
		prevLike := i > 0 && ht[i-1].Kind == sqltok.Word && (ht[i-1].Value == "like" || ht[i-1].Value == "ilike") &&
			bt[i-1].Kind == sqltok.Word && bt[i-1].Value == ht[i-1].Value
		switch {
		case prevLike:
			// The benign pattern is P + b + S. With PostgreSQL's LIKE reading (backslash escapes the next
			// character) the hostile pattern must be well formed, P and S must still read as they did (the value
			// may not turn a wildcard of the template into text or swallow it), and what lies between must be the
			// value: either escaped so that it reads back as literal text, or verbatim (then % _ \ of the value act
			// as pattern syntax inside the value's own span: a change of MEANING, which is C01's business).
			idx := strings.Index(b.Value, cc.b)
			if idx < 0 {
				return fail("LIKE pattern differs but the benign pattern %q does not contain the benign value", b.Value)
			}
			P, S := b.Value[:idx], b.Value[idx+len(cc.b):]
			if strings.Contains(P+S, "\\") {
				return fail("harness: benign LIKE affixes contain an escape: %q", b.Value)
			}
			he, err := likeElems(h.Value)
			if err != nil {
				return fail("the LIKE pattern PostgreSQL reads back is invalid: %v (pattern %s)", err, clipStr(h.Value, 200))
			}
			if len(he) < len(P)+len(S) || len(h.Value) < len(P)+len(S) {
				return fail("the LIKE pattern %s is shorter than the template %q", clipStr(h.Value, 200), b.Value)
			}
			for k := 0; k < len(P); k++ {
				if (he[k] != likeElem{wild: P[k]}) && (he[k] != likeElem{lit: P[k]} || P[k] == '%' || P[k] == '_') {
					return fail("the value changed how the LIKE template before it is read: pattern %s, template %q", clipStr(h.Value, 200), b.Value)
				}
			}
			for k := 0; k < len(S); k++ {
				e := he[len(he)-len(S)+k]
				if (e != likeElem{wild: S[k]}) && (e != likeElem{lit: S[k]} || S[k] == '%' || S[k] == '_') {
					return fail("the value changed how the LIKE template after it is read (a wildcard of the template is now literal text or was swallowed): pattern %s, template %q", clipStr(h.Value, 200), b.Value)
				}
			}
			mid := he[len(P) : len(he)-len(S)]
			exact := len(mid) == len(cc.v)
			if exact {
				for k, e := range mid {
					if e.wild != 0 || e.lit != cc.v[k] {
						exact = false
						break
					}
				}
			}
			if exact {
				cc.likeExact++
			} else if !strings.HasPrefix(h.Value, P) || !strings.HasSuffix(h.Value, S) || h.Value[len(P):len(h.Value)-len(S)] != cc.v {
				return fail("the LIKE pattern PostgreSQL reads back (%s) carries neither the value as literal text nor the value verbatim; template %q", clipStr(h.Value, 200), b.Value)
			} else {
				cc.likeVerbatim++
			}
			cc.likeSlots++
		case b.Value == cc.b:
			if h.Value != cc.v {
				return fail("the string literal PostgreSQL reads back is %s, the Cypher text denotes %s", clipStr(h.Value, 200), clipStr(cc.v, 200))
			}
		case strings.Contains(b.Value, cc.b):
			// SQL text passed to a server-side function: the same rule applies to the decoded text
			cc.innerSQL++
			if err := cc.compareSQL(fmt.Sprintf("%s > text argument at token %d", where, i), h.Value, b.Value, depth+1); err != nil {
				return err
			}
			return nil // slots were counted inside
		default:
			return fail("string literals differ (%s vs %q) at a position that does not carry the value", clipStr(h.Value, 120), b.Value)
		}
		cc.slots++
		return nil
	case isIdentKind(b.Kind) && b.Value == cc.b:
		if !isIdentKind(h.Kind) {
			return fail("the benign value is an identifier here but the hostile text lexes as %s", h.Kind)
		}
		if h.Truncated {
			return fail("PostgreSQL truncates the identifier to %d bytes: it reads back %s, the Cypher text denotes %s", sqltok.NameDataLen-1, clipStr(h.Value, 80), clipStr(cc.v, 80))
		}
		if h.Value != cc.v {
			return fail("the identifier PostgreSQL reads back is %s, the Cypher text denotes %s", clipStr(h.Value, 200), clipStr(cc.v, 200))
		}
		cc.slots++
		cc.identSlot++
		return nil
	}
	return fail("tokens differ (%s %s vs %s %s) at a position that does not carry the value", h.Kind, clipStr(h.Text, 80), b.Kind, clipStr(b.Text, 80))
}

// norm makes parameter values comparable (jsonb documents are compared as documents).
func norm(v any) any {
	switch t := v.(type) {
	case pgtype.JSONB:
		var out any
		if err := json.Unmarshal(t.Bytes, &out); err != nil {
			return fmt.Sprintf("invalid json: %v: %q", err, t.Bytes)
		}
		return out
	case *pgtype.JSONB:
		if t == nil {
			return nil
		}
		return norm(*t)
	case map[string]any:
		out := map[string]any{}
		for k, e := range t {
			out[k] = norm(e)
		}
		return out
	case []string:
		out := make([]any, len(t))
		for i, e := range t {
			out[i] = e
		}
		return out
	case []any:
		out := make([]any, len(t))
		for i, e := range t {
			out[i] = norm(e)
		}
		return out
	}
	return v
}

func (cc *cmpCtx) compareParams(hres, bres xlate.Result, hv, bv variant) (bound bool, err error) {
	var keys []string
	for k := range bres.Params {
		keys = append(keys, k)
	}
	sort.Strings(keys)
	if len(hres.Params) != len(bres.Params) {
		return false, fmt.Errorf("the value changed the set of bound parameters: %d vs %d", len(hres.Params), len(bres.Params))
	}
	for _, k := range keys {
		bp := bres.Params[k]
		hp, ok := hres.Params[k]
		if !ok {
			return false, fmt.Errorf("parameter %s is bound for the benign value only", k)
		}
		if bv.user != nil && reflect.DeepEqual(norm(bp), norm(bv.user)) {
			// this entry carries the caller's value: it must arrive unchanged
			if !reflect.DeepEqual(norm(hp), norm(hv.user)) {
				return false, fmt.Errorf("bound parameter %s does not carry the supplied value unchanged: got %s", k, clipStr(fmt.Sprintf("%#v", hp), 300))
			}
			if reflect.TypeOf(hp) != reflect.TypeOf(bp) {
				return false, fmt.Errorf("bound parameter %s changed its Go type with the value: %T vs %T", k, hp, bp)
			}
			bound = true
			continue
		}
		hs, hok := hp.(string)
		bs, bok := bp.(string)
		if hok && bok {
			if hs == bs {
				continue
			}
			// text generated by the translator: SQL for a server-side function
			cc.innerSQL++
			if err := cc.compareSQL("parameter "+k, hs, bs, 1); err != nil {
				return false, err
			}
			continue
		}
		if !reflect.DeepEqual(norm(hp), norm(bp)) {
			return false, fmt.Errorf("parameter %s differs between the variants but does not carry the supplied value: %s vs %s", k, clipStr(fmt.Sprintf("%#v", hp), 200), clipStr(fmt.Sprintf("%#v", bp), 200))
		}
	}
	return bound, nil
}

// namedParamsBound: every @name in the text has an entry.
func namedParamsBound(sql string, params map[string]any) error {
	for _, t := range sqltok.Lex(sql) {
		if t.Kind == sqltok.NamedParam {
			if _, ok := params[t.Value]; !ok {
				return fmt.Errorf("the SQL refers to @%s but Result.Parameters has no such entry", t.Value)
			}
		}
	}
	return nil
}

// pgxView runs the real pgx named-argument rewriter (what drivers/pg does when parameters exist) and
// requires that it rewrites exactly the placeholders PostgreSQL's rules see and leaves the rest alone.
func pgxView(where, sql string, params map[string]any) error {
	if len(params) == 0 {
		return nil // drivers/pg passes NamedArgs only when there are parameters
	}
	newSQL, args, err := pgx.NamedArgs(params).RewriteQuery(context.Background(), nil, sql, nil)
	if err != nil {
		return fmt.Errorf("%s: pgx named-argument rewriting failed: %v", where, err)
	}
	orig := sqltok.Significant(sqltok.Lex(sql))
	got := sqltok.Significant(sqltok.Lex(newSQL))
	if len(orig) != len(got) {
		return fmt.Errorf("%s: after pgx's named-argument rewriting (drivers/pg transaction.query) PostgreSQL receives %d tokens instead of %d; text sent: %s", where, len(got), len(orig), clipStr(tail(newSQL, 160), 200))
	}
	for i := range orig {
		o, g := orig[i], got[i]
		if o.Kind == sqltok.NamedParam {
			if g.Kind != sqltok.Param {
				return fmt.Errorf("%s: pgx did not rewrite @%s (token %d): %s", where, o.Value, i, around(got, i))
			}
			var idx int
			fmt.Sscanf(g.Value, "%d", &idx)
			if idx < 1 || idx > len(args) || !reflect.DeepEqual(args[idx-1], params[o.Value]) {
				return fmt.Errorf("%s: pgx bound a different value to @%s", where, o.Value)
			}
			continue
		}
		if o.Kind != g.Kind || o.Text != g.Text {
			return fmt.Errorf("%s: pgx's named-argument rewriting changed token %d: %s → %s", where, i, around(orig, i), around(got, i))
		}
	}
	return nil
}

func tail(s string, n int) string {
	if len(s) > n {
		return s[len(s)-n:]
	}
	return s
}

func sameTokens(a, b []sqltok.Token) (int, bool) {
	n := len(a)
	if len(b) < n {
		n = len(b)
	}
	for i := 0; i < n; i++ {
		if a[i].Kind != b[i].Kind || a[i].Text != b[i].Text {
			return i, false
		}
	}
	if len(a) != len(b) {
		return n, false
	}
	return 0, true
}

// headerCheck: translate.FromCypher prefixes the statement with the Cypher text as `--` comments.
func headerCheck(text string, noParamSQL string) (string, error) {
	m, err := xlate.Parse(text)
	if err != nil {
		return "fromcypher=parse-rejected", nil
	}
	var f struct {
		Statement  string
		Parameters map[string]any
	}
	func() {
		defer func() {
			if p := recover(); p != nil {
				err = fmt.Errorf("panic: %v", p)
			}
		}()
		ff, e := translate.FromCypher(context.Background(), m, xlate.NewAutoMapper(), false, 0)
		f.Statement, f.Parameters, err = ff.Statement, ff.Parameters, e
	}()
	if err != nil {
		return "fromcypher=rejected", nil
	}
	all := sqltok.Lex(f.Statement)
	if bad := sqltok.FirstBad(all); bad != nil {
		return "", fmt.Errorf("FromCypher: PostgreSQL's lexer rejects the statement (%s at byte %d): %s", bad.Value, bad.Pos, clipStr(f.Statement, 300))
	}
	if len(all) == 0 || all[0].Kind != sqltok.Comment || !strings.HasPrefix(all[0].Text, "-- ") {
		return "", fmt.Errorf("FromCypher: the statement does not start with the `-- ` header: %s", clipStr(f.Statement, 200))
	}
	sig := sqltok.Significant(all)
	base := sqltok.Significant(sqltok.Lex(noParamSQL))
	if i, ok := sameTokens(sig, base); !ok {
		return "", fmt.Errorf("FromCypher: text escaped the `-- ` comment header: outside comments the statement has %d tokens, the translation alone %d; first difference at token %d: %s\n  statement: %s", len(sig), len(base), i, around(sig, minInt(i, len(sig)-1)), clipStr(f.Statement, 400))
	}
	if err := pgxView("FromCypher", f.Statement, f.Parameters); err != nil {
		return "", err
	}
	ncomments := 0
	for _, t := range all {
		if t.Kind == sqltok.Comment {
			ncomments++
		}
	}
	if ncomments > 1 {
		return "fromcypher=multi-line-header", nil
	}
	return "fromcypher=ok", nil
}

func minInt(a, b int) int {
	if a < b {
		return a
	}
	if b < 0 {
		return 0
	}
	return b
}

// ---- oracle ----------------------------------------------------------------------------------

func translateVariant(v variant) (xlate.Result, []string, string) {
	m, err := xlate.Parse(v.text)
	if err != nil {
		return xlate.Result{}, nil, "parse-rejected"
	}
	rec := newRecMapper()
	res, err := xlate.TranslateWith(m, v.params, rec)
	if err != nil {
		if _, isPanic := err.(*xlate.Panic); isPanic {
			return xlate.Result{}, nil, "translate-panic"
		}
		return xlate.Result{}, nil, "translate-rejected"
	}
	return res, rec.names, ""
}

// templateNames: the bare words of a shape's template (variables, aliases, keywords).
func templateNames(sh *shape) map[string]bool {
	out := map[string]bool{}
	word := ""
	flush := func() {
		if word != "" {
			out[word] = true
			word = ""
		}
	}
	for _, r := range strings.ReplaceAll(sh.Tpl, mark, " ") {
		if r == '_' || r >= '0' && r <= '9' || r >= 'a' && r <= 'z' || r >= 'A' && r <= 'Z' {
			word += string(r)
		} else {
			flush()
		}
	}
	flush()
	return out
}

func oracle(c Case) (evid.Info, error) {
	sh := shapeIndex[c.Shape]
	if sh == nil {
		return evid.Info{}, fmt.Errorf("harness: unknown shape %q", c.Shape)
	}
	v := c.value()
	info := evid.Info{Classes: []string{"pos=" + sh.Pos, "shape=" + c.Shape}}
	if !validDomain(v) {
		info.Skip = "value outside the domain (invalid UTF-8 or NUL)"
		return info, nil
	}
	switch sh.Pos {
	case "key", "kind", "var", "alias":
		if v == "" {
			info.Skip = "empty name"
			return info, nil
		}
		if c.Style == "bare" && !isBareName(v) {
			info.Skip = "not a bare name"
			return info, nil
		}
		if templateNames(sh)[v] {
			// a name spelled like another name of the template is another query (a duplicate column, a shadowed
			// variable, two kinds that share one kind id, a shape that no longer qualifies for a lowering), not the same
			// query with another name
			info.Skip = "value is a name the template already uses"
			return info, nil
		}
	}
	hv, err := build(sh, c, v)
	if err != nil {
		return info, err
	}
	bv, err := build(sh, c, benign)
	if err != nil {
		return info, err
	}
	bres, bkinds, why := translateVariant(bv)
	if why != "" {
		info.Skip = "benign variant " + why
		return info, nil
	}
	hres, hkinds, why := translateVariant(hv)
	if why != "" {
		info.Skip = "hostile variant " + why
		return info, nil
	}
	nt, cls := classesOf(v)
	for _, k := range cls {
		info.Classes = append(info.Classes, "has="+k)
	}
	render := c.Style
	switch sh.Pos {
	case "lit", "like", "likefn", "litkind":
		if render != "esc" {
			render = "min"
		}
		if c.Quote == "\"" {
			render += "-dq"
		} else {
			render += "-sq"
		}
	case "param":
		render = c.PType
	default:
		if render != "bare" {
			render = "tick"
		}
	}
	info.Classes = append(info.Classes, "render="+render)

	cc := &cmpCtx{v: v, b: benign}
	// 1. the statement
	if err := cc.compareSQL("statement", hres.SQL, bres.SQL, 0); err != nil {
		return info, fmt.Errorf("%v\n  cypher: %s", err, clipStr(hv.text, 300))
	}
	// 2. parameters: the caller's value arrives unchanged; generated SQL text obeys the same rule
	bound, err := cc.compareParams(hres, bres, hv, bv)
	if err != nil {
		return info, fmt.Errorf("%v\n  cypher: %s", err, clipStr(hv.text, 300))
	}
	if err := namedParamsBound(hres.SQL, hres.Params); err != nil {
		return info, err
	}
	// 3. kind names: what the mapper is asked to resolve
	if len(hkinds) != len(bkinds) {
		return info, fmt.Errorf("the value changed how many kinds are resolved: %q vs %q", hkinds, bkinds)
	}
	kindCarried := false
	for i := range bkinds {
		switch {
		case bkinds[i] == benign || (bv.raw != "" && bkinds[i] == bv.raw):
			kindCarried = true
			if hkinds[i] == v {
				continue
			}
			if c.KindLax && hkinds[i] == hv.raw {
				info.Classes = append(info.Classes, "kind-name=source-text(open finding)")
				continue
			}
			return info, fmt.Errorf("the kind mapper is asked to resolve %s, the Cypher text %s denotes the kind %s", clipStr(hkinds[i], 120), clipStr(hv.raw, 120), clipStr(v, 120))
		case bkinds[i] != hkinds[i]:
			return info, fmt.Errorf("kind %d resolved differs (%q vs %q) though it does not carry the value", i, hkinds[i], bkinds[i])
		}
	}
	// 4. the client-side view: pgx rewrites exactly the placeholders
	if err := pgxView("statement", hres.SQL, hres.Params); err != nil {
		return info, fmt.Errorf("%v\n  cypher: %s", err, clipStr(hv.text, 300))
	}
	// 5. the `-- cypher` header of translate.FromCypher
	base := hres.SQL
	if len(hv.params) > 0 {
		if m, err := xlate.Parse(hv.text); err == nil {
			if r, err := xlate.Translate(m, nil); err == nil {
				base = r.SQL
			} else {
				base = ""
			}
		}
	}
	if base != "" {
		hc, err := headerCheck(hv.text, base)
		if err != nil {
			return info, fmt.Errorf("%v\n  cypher: %s", err, clipStr(hv.text, 300))
		}
		info.Classes = append(info.Classes, hc)
	}

	switch {
	case cc.slots == 0 && !bound && !kindCarried:
		info.Classes = append(info.Classes, "carried-by=nothing(value does not reach SQL)")
	default:
		if cc.slots > 0 {
			if cc.identSlot > 0 {
				info.Classes = append(info.Classes, "carried-by=identifier")
			}
			if cc.likeExact > 0 {
				info.Classes = append(info.Classes, "carried-by=like-pattern(escaped)")
			}
			if cc.likeVerbatim > 0 {
				info.Classes = append(info.Classes, "carried-by=like-pattern(verbatim; wildcards in the value act as wildcards: C01)")
			}
			if cc.slots > cc.identSlot+cc.likeSlots {
				info.Classes = append(info.Classes, "carried-by=string-literal")
			}
		}
		if bound {
			info.Classes = append(info.Classes, "carried-by=bound-parameter")
		}
		if kindCarried {
			info.Classes = append(info.Classes, "carried-by=kind-mapper")
		}
	}
	if cc.innerSQL > 0 {
		info.Classes = append(info.Classes, "inner-sql-texts="+bucket(cc.innerSQL))
	}
	info.Classes = append(info.Classes, "slots="+bucket(cc.slots))
	info.NonTrivial = nt
	info.Key = c.Shape + "|" + render + "|" + strings.Join(cls, ",")
	return info, nil
}

func bucket(n int) string {
	switch {
	case n == 0:
		return "0"
	case n == 1:
		return "1"
	case n == 2:
		return "2"
	case n <= 4:
		return "3-4"
	}
	return "5+"
}

// ---- generators ------------------------------------------------------------------------------

func asciiLower(s string) string {
	b := []byte(s)
	for i, c := range b {
		if c >= 'A' && c <= 'Z' {
			b[i] = c + 32
		}
	}
	return string(b)
}

func clipRunes(s string, max int) string {
	if len(s) <= max {
		return s
	}
	n := max
	for n > 0 && s[n]&0xC0 == 0x80 {
		n--
	}
	return s[:n]
}

// applyExclusions rewrites a case so that it avoids the shapes of the findings listed as open (exclusion by
// construction); it reports whether it changed the value.
func applyExclusions(c *Case, sh *shape) bool {
	changed := false
	if sh.Pos == "var" || sh.Pos == "alias" {
		if evid.R.KnownOpen(findingAliasTruncate) && len(c.value()) >= sqltok.NameDataLen {
			c.V = clipRunes(c.value(), sqltok.NameDataLen-1)
			c.Pad, c.PadN = "", 0
			changed = true
		}
		if evid.R.KnownOpen(findingAliasFold) && c.Style == "bare" && asciiLower(c.V) != c.V {
			c.V = asciiLower(c.V)
			changed = true
		}
	}
	if sh.Pos == "likefn" && evid.R.KnownOpen(findingLikeFn) && strings.Contains(c.value(), "\\") {
		c.V = strings.ReplaceAll(c.V, "\\", "/")
		c.Pad = strings.ReplaceAll(c.Pad, "\\", "/")
		changed = true
	}
	if sh.Pos == "kind" && c.Style != "bare" && evid.R.KnownOpen(findingKindBackticks) {
		c.KindLax = true
	}
	if evid.R.KnownOpen(findingPgxFFFD) && strings.ContainsRune(c.value(), 0xFFFD) && sh.Pos != "kind" {
		c.V = strings.ReplaceAll(c.V, "\ufffd", "\ufffc")
		c.Pad = strings.ReplaceAll(c.Pad, "\ufffd", "\ufffc")
		changed = true
	}
	return changed
}

func genFor(check string, positions ...string) func(t *rapid.T) Case {
	var pool []*shape
	for _, p := range positions {
		pool = append(pool, shapesOf[p]...)
	}
	return func(t *rapid.T) Case {
		// (a wide range folded onto the pool: close to uniform, still shrinks towards the first shape)
		sh := pool[rapid.IntRange(0, 1<<20).Draw(t, "shape")%len(pool)]
		c := Case{Shape: sh.Pos + "/" + sh.Name}
		switch sh.Pos {
		case "lit", "like", "likefn", "litkind":
			c.Quote = rapid.SampledFrom([]string{"'", "\""}).Draw(t, "quote")
			c.Style = rapid.SampledFrom([]string{"min", "esc"}).Draw(t, "style")
			c.V, c.Pad, c.PadN = genHostile(t, evid.R.Thorough())
		case "param":
			c.PType = rapid.SampledFrom(sh.PTypes).Draw(t, "ptype")
			c.V, c.Pad, c.PadN = genHostile(t, evid.R.Thorough())
		default:
			if rapid.IntRange(0, 7).Draw(t, "bare") == 0 {
				c.Style = "bare"
				c.V = genBare(t)
			} else {
				c.Style = "tick"
				c.V, c.Pad, c.PadN = genHostile(t, evid.R.Thorough())
				if c.V == "" && c.PadN == 0 {
					c.V = "`"
				}
			}
		}
		if applyExclusions(&c, sh) {
			evid.R.Excluded(check)
		}
		return c
	}
}

func TestC04Literals(t *testing.T) {
	evid.Prop(t, "literal", evid.R.N(6000, 12000), genFor("literal", "lit", "like", "likefn", "litkind"), oracle)
}

func TestC04Names(t *testing.T) {
	evid.Prop(t, "name", evid.R.N(3000, 6000), genFor("name", "key", "kind"), oracle)
}

func TestC04Identifiers(t *testing.T) {
	evid.Prop(t, "identifier", evid.R.N(2500, 5000), genFor("identifier", "var", "alias"), oracle)
}

func TestC04Parameters(t *testing.T) {
	evid.Prop(t, "parameter", evid.R.N(2500, 5000), genFor("parameter", "param"), oracle)
}
