package c04

import (
	"fmt"
	"os"
	"testing"

	"verif/xlate"
)

// TestShapes lists the templates DAWGS rejects for the benign value (C04_SHAPES=1); a debugging aid.
func TestShapes(t *testing.T) {
	if os.Getenv("C04_SHAPES") == "" {
		return
	}
	for i := range shapes {
		sh := &shapes[i]
		ptypes := sh.PTypes
		if len(ptypes) == 0 {
			ptypes = []string{""}
		}
		for _, pt := range ptypes {
			c := Case{Shape: sh.Pos + "/" + sh.Name, Quote: "'", Style: "tick", PType: pt}
			v, err := build(sh, c, benign)
			if err != nil {
				t.Fatal(err)
			}
			m, err := xlate.Parse(v.text)
			if err != nil {
				fmt.Printf("%-22s %-8s PARSE  %v\n", c.Shape, pt, err)
				continue
			}
			if _, err := xlate.Translate(m, v.params); err != nil {
				msg := err.Error()
				if len(msg) > 150 {
					msg = msg[:150]
				}
				fmt.Printf("%-22s %-8s XLATE  %s\n", c.Shape, pt, msg)
			}
		}
	}
}
