package c04

import (
	"strings"
	"testing"

	"verif/evid"
)

// TestC04FuzzReplay registers the fuzz check's oracle for --replay of cases recorded from fuzz crashers.
func TestC04FuzzReplay(t *testing.T) { evid.Register(t, "fuzz", oracle) }

// FuzzC04 is the native-fuzzing entry (thorough-tier supplement; the driver does not run it yet):
//
//	cd /verif/harness && VERIF_OUT=/tmp/c04-fuzz-evidence.json GOFLAGS=-mod=mod GOPROXY=off \
//	    go test -tags verif -run '^$' -fuzz '^FuzzC04$' -fuzztime 5m ./props/c04/
//
// (VERIF_OUT keeps the run from overwriting /verif/evidence/C04.json.) position selects the template,
// render the quoting / escaping style or the parameter type, data is the user value. Invalid UTF-8 is
// replaced and NUL bytes are removed (outside the property's domain); shapes of findings listed as open
// are excluded the same way the generators exclude them. A failing input is stored by the Go tool under
// testdata/fuzz/FuzzC04 and can be turned into a replay case with the Case printed in the failure.
func FuzzC04(f *testing.F) {
	seeds := []string{"it's", `a\`, `a\'b`, "x\ny", "x\ry", "$$;--/*", "`", "\"", "E'\\'", "U&'\\0027'", "%_\\", "@pi0", "a b", "\U0001F600", "a\ufffdb", "*/ select 1 /*", "' -- x\n'"}
	for i := range shapes {
		f.Add(uint16(i), uint8(i), []byte(seeds[i%len(seeds)]))
	}
	f.Fuzz(func(t *testing.T, position uint16, render uint8, data []byte) {
		if len(data) > 64<<10 {
			data = data[:64<<10]
		}
		sh := &shapes[int(position)%len(shapes)]
		v := strings.ReplaceAll(strings.ToValidUTF8(string(data), "\ufffd"), "\x00", "")
		c := Case{Shape: sh.Pos + "/" + sh.Name, V: v}
		switch sh.Pos {
		case "lit", "like", "likefn", "litkind":
			c.Quote = []string{"'", "\""}[render&1]
			c.Style = []string{"min", "esc"}[(render>>1)&1]
		case "param":
			c.PType = sh.PTypes[int(render)%len(sh.PTypes)]
		default:
			c.Style = "tick"
			if render&1 == 1 && isBareName(v) {
				c.Style = "bare"
			}
		}
		applyExclusions(&c, sh)
		if _, err := oracle(c); err != nil {
			evid.FuzzFail(t, "fuzz", c, err)
		}
	})
}
