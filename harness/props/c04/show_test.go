package c04

import (
	"fmt"
	"os"
	"sort"
	"strings"
	"testing"

	"verif/xlate"
)

// TestShow prints the translation of the queries in the file named by C04_SHOW (one per line; <NL>
// stands for a newline). A debugging aid; does nothing in a check run.
func TestShow(t *testing.T) {
	file := os.Getenv("C04_SHOW")
	if file == "" {
		return
	}
	raw, err := os.ReadFile(file)
	if err != nil {
		t.Fatal(err)
	}
	for _, q := range strings.Split(string(raw), "\n") {
		if strings.TrimSpace(q) == "" {
			continue
		}
		q = strings.ReplaceAll(q, "<NL>", "\n")
		fmt.Printf("CYPHER: %s\n", q)
		m, err := xlate.Parse(q)
		if err != nil {
			fmt.Println("  PARSE ERR:", err)
			continue
		}
		res, err := xlate.Translate(m, map[string]any{"q": "it's", "l": []string{"a'b", "c"}})
		if err != nil {
			fmt.Println("  XLATE ERR:", strings.SplitN(err.Error(), "\n", 2)[0])
			continue
		}
		fmt.Println("  SQL:", res.SQL)
		var keys []string
		for k := range res.Params {
			keys = append(keys, k)
		}
		sort.Strings(keys)
		for _, k := range keys {
			fmt.Printf("  PARAM %s = %#v\n", k, res.Params[k])
		}
	}
}
