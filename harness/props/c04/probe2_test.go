package c04

import (
	"context"
	"fmt"
	"testing"

	"github.com/jackc/pgx/v5"
	"github.com/specterops/dawgs/cypher/models/pgsql/translate"
	"verif/xlate"
)

func TestProbe2(t *testing.T) {
	for _, q := range []string{
		"match (n) where n.a = 'x�y' and n.b = $q return n",
		"match (n) where n.a = 'xy' and n.b = $q return n",
		"match (n) where n.`a\\\nb` = 'xy' and n.b = $q return n",
	} {
		m, err := xlate.Parse(q)
		if err != nil {
			fmt.Println("PARSE", err)
			continue
		}
		res, err := xlate.Translate(m, map[string]any{"q": "v"})
		if err != nil {
			fmt.Println("XLATE", err)
			continue
		}
		sql, args, err := pgx.NamedArgs(res.Params).RewriteQuery(context.Background(), nil, res.SQL, nil)
		fmt.Println("SQL  :", res.SQL)
		fmt.Println("PGX  :", sql, args, err)
		f, err := translate.FromCypher(context.Background(), m, xlate.NewAutoMapper(), false, 0)
		fmt.Printf("FROMCYPHER: %q %v %v\n", f.Statement, f.Parameters, err)
		sql, args, err = pgx.NamedArgs(f.Parameters).RewriteQuery(context.Background(), nil, f.Statement, nil)
		fmt.Printf("PGX  : %q %v %v\n", sql, args, err)
	}
}
