package c04

import (
	"fmt"
	"sort"
	"strings"
	"unicode"
	"unicode/utf8"

	"pgregory.net/rapid"
)

// ---- hostile strings -------------------------------------------------------------------------

// fragments are the building blocks of hostile values: every character PostgreSQL's lexer (and the
// client-side pgx named-argument scanner) gives a meaning to, Cypher's own delimiters, and the
// usual injection idioms. rapid shrinks towards the front of the table.
var fragments = []string{
	"a", "'", "\"", "\\", "`", ";", "--", "/*", "*/", "$$", "$x$", "$1", "\n", "\r", "\r\n",
	"''", "\"\"", "``", "\\\\", "\\'", "\\\"", "\\`", "'\\", "\\n", "\\u0027",
	"\t", "\x01", "\x1b", "\x1f", "\x7f", "\v", "\f", "\b",
	"E'", "e'", "U&'", "U&\"", "N'", "B'", "X'", "%", "_", "\\%", "@pi0", "@p", "$pi0", "::text", "||", "?", "{", "}", "(", ")", "[", "]", ",", " ", ".", ":", "=",
	"Z", "0", "\u00e9", "\u65e5\u672c", "\U0001F600", "\U0001D4B3", "\U0010FFFF", "\u2028", "\u2029", "\u0085", "\u00a0", "\ufeff", "\u200b", "\u0301", "\ufffd",
	"' or 1=1 --", "'; drop table node; --", "\\'; select 1; --", "$$; select 1; $$", "*/ select 1 /*",
	"x' || (select 1) || '", "\" from s0; delete from node; --", "` from s0; delete from node; --",
	"\n; delete from node;", "\r-- ", "\n-- ", "-- cypher", "'\n'", "' -- x\n'", "null", "true", "zqbenignqz",
	"')::text)) select 1; --", "'')::text", "insert into next_front", "%' or '1' like '%", "\\", "'", "\"", "`",
}

// Value is the generated user value: V followed by PadN repetitions of Pad (keeps long strings small
// in replay files and lets rapid shrink the length independently of the content).
func (c Case) value() string {
	if c.PadN <= 0 || c.Pad == "" {
		return c.V
	}
	return c.V + strings.Repeat(c.Pad, c.PadN)
}

func genHostile(t *rapid.T, thorough bool) (v, pad string, padN int) {
	a := rapid.IntRange(0, 6).Draw(t, "nfragA")
	b := rapid.IntRange(0, 6).Draw(t, "nfragB")
	n := a
	if b > n {
		n = b
	}
	var sb strings.Builder
	for i := 0; i < n; i++ {
		if rapid.IntRange(0, 9).Draw(t, "rawrune") == 9 {
			// an arbitrary rune (no NUL, no surrogates)
			r := rune(rapid.IntRange(1, 0x10FFFF).Draw(t, "rune"))
			if r >= 0xD800 && r <= 0xDFFF {
				r = 0xFFFD
			}
			sb.WriteRune(r)
			continue
		}
		sb.WriteString(rapid.SampledFrom(fragments).Draw(t, "frag"))
	}
	v = sb.String()
	// long strings: rare in the quick tier
	longOdds := 40
	if thorough {
		longOdds = 12
	}
	if rapid.IntRange(0, longOdds).Draw(t, "long") == 0 {
		pad = rapid.SampledFrom(fragments).Draw(t, "pad")
		size := rapid.SampledFrom([]int{200, 1 << 10, 16 << 10, 64 << 10}).Draw(t, "size")
		limit := size / len(pad)
		if limit*len(pad)+len(v) > 64<<10 {
			limit = (64<<10 - len(v)) / len(pad)
		}
		if limit < 1 {
			limit = 1
		}
		// the larger of two draws: mostly close to the chosen size, and it shrinks to a short pad
		padN = rapid.IntRange(1, limit).Draw(t, "padA")
		if o := rapid.IntRange(1, limit).Draw(t, "padB"); o > padN {
			padN = o
		}
	}
	return v, pad, padN
}

// genBare draws a name that Cypher accepts without backticks (UnescapedSymbolicName that is not a keyword).
func genBare(t *rapid.T) string {
	starts := []string{"a", "x", "Q", "_", "\u00e9", "\u00c9", "\u65e5", "\U0001D4B3", "N", "e", "E", "u", "U", "b", "B"}
	parts := []string{"a", "Z", "0", "9", "_", "$", "\u00e9", "\u00df", "\u0130", "\u65e5", "\U0001D4B3", "\u0301", "\u0661", "\u203f", "\u20ac", "Select", "from", "x"}
	var sb strings.Builder
	sb.WriteString(rapid.SampledFrom(starts).Draw(t, "bstart"))
	n := rapid.IntRange(0, 6).Draw(t, "bn")
	for i := 0; i < n; i++ {
		sb.WriteString(rapid.SampledFrom(parts).Draw(t, "bpart"))
	}
	s := sb.String() + "q" // never a Cypher or PostgreSQL keyword, never a bare hex letter
	if rapid.IntRange(0, 15).Draw(t, "blong") == 0 {
		s += strings.Repeat(rapid.SampledFrom([]string{"a", "\u00e9", "\U0001D4B3"}).Draw(t, "bpad"), rapid.IntRange(20, 70).Draw(t, "bpadn"))
	}
	return s
}

// isBareName: IdentifierStart (ID_Start | Pc) then IdentifierPart (ID_Continue | Sc), approximated with
// the unicode tables the openCypher grammar refers to; conservative (a name it accepts is accepted by
// the grammar; the parser has the last word and a rejection is a skipped case).
func isBareName(s string) bool {
	if s == "" {
		return false
	}
	for i, r := range s {
		start := unicode.IsLetter(r) || unicode.Is(unicode.Nl, r) || unicode.Is(unicode.Pc, r)
		if i == 0 {
			if !start {
				return false
			}
			continue
		}
		if !(start || unicode.In(r, unicode.Mn, unicode.Mc, unicode.Nd, unicode.Sc)) {
			return false
		}
	}
	return true
}

// ---- character classes -----------------------------------------------------------------------

// classesOf labels what is in v; the first return value says whether v meets the non-trivial rule.
func classesOf(v string) (bool, []string) {
	set := map[string]bool{}
	for _, r := range v {
		switch {
		case r == '\'':
			set["squote"] = true
		case r == '"':
			set["dquote"] = true
		case r == '\\':
			set["backslash"] = true
		case r == ';':
			set["semicolon"] = true
		case r == '$':
			set["dollar"] = true
		case r == '`':
			set["backtick"] = true
		case r == '\n' || r == '\r':
			set["newline"] = true
		case r < 0x20 || r == 0x7f:
			set["control"] = true
		case r == 0x2028 || r == 0x2029 || r == 0x85:
			set["unicode-newline"] = true
		case r == 0xFFFD:
			set["replacement-char"] = true
		case r > 0xFFFF:
			set["non-bmp"] = true
		case r == '%' || r == '_':
			set["like-wildcard"] = true
		case r == '@':
			set["at"] = true
		case r > 0x7f:
			set["non-ascii"] = true
		}
	}
	if strings.Contains(v, "--") {
		set["dashdash"] = true
	}
	if strings.Contains(v, "/*") || strings.Contains(v, "*/") {
		set["block-comment"] = true
	}
	for _, p := range []string{"E'", "e'", "U&'", "U&\"", "N'", "B'", "X'"} {
		if strings.Contains(v, p) {
			set["prefix-lookalike"] = true
		}
	}
	switch {
	case len(v) > 16<<10:
		set["len>16K"] = true
	case len(v) > 1<<10:
		set["len>1K"] = true
	case len(v) >= 64:
		set["len>=64"] = true
	}
	nt := false
	for _, k := range []string{"squote", "dquote", "backslash", "semicolon", "dashdash", "block-comment", "dollar", "backtick", "newline", "control", "non-bmp"} {
		if set[k] {
			nt = true
		}
	}
	out := make([]string, 0, len(set))
	for k := range set {
		out = append(out, k)
	}
	sort.Strings(out)
	return nt, out
}

// ---- rendering a value into Cypher source (Cypher.g4: StringLiteral, EscapedChar, EscapedSymbolicName)

// renderString writes v as a Cypher string literal delimited by quote. style "min" escapes only what the
// grammar requires (the backslash and the delimiter; everything else, newlines included, is written
// raw); style "esc" uses every EscapedChar the grammar offers except \uXXXX (DAWGS's translator rejects
// those literals, so they never form an accepted query).
func renderString(v string, quote byte, style string) string {
	var sb strings.Builder
	sb.WriteByte(quote)
	for i := 0; i < len(v); i++ {
		c := v[i]
		switch {
		case c == '\\':
			sb.WriteString(`\\`)
		case c == quote:
			sb.WriteByte('\\')
			sb.WriteByte(c)
		case style == "esc" && (c == '\'' || c == '"'):
			sb.WriteByte('\\')
			sb.WriteByte(c)
		case style == "esc" && c == '\n':
			sb.WriteString(`\n`)
		case style == "esc" && c == '\r':
			sb.WriteString(`\R`)
		case style == "esc" && c == '\t':
			sb.WriteString(`\t`)
		case style == "esc" && c == '\b':
			sb.WriteString(`\B`)
		case style == "esc" && c == '\f':
			sb.WriteString(`\f`)
		default:
			sb.WriteByte(c)
		}
	}
	sb.WriteByte(quote)
	return sb.String()
}

// decodeCypherString is the reading direction of the same grammar rule, written separately; it is used
// to self-check the renderer (a disagreement is a harness error, not a verdict).
func decodeCypherString(lit string) (string, error) {
	if len(lit) < 2 || (lit[0] != '\'' && lit[0] != '"') || lit[len(lit)-1] != lit[0] {
		return "", fmt.Errorf("not a string literal")
	}
	q := lit[0]
	body := lit[1 : len(lit)-1]
	var sb strings.Builder
	for i := 0; i < len(body); i++ {
		c := body[i]
		if c == q {
			return "", fmt.Errorf("unescaped delimiter at %d", i)
		}
		if c != '\\' {
			sb.WriteByte(c)
			continue
		}
		i++
		if i >= len(body) {
			return "", fmt.Errorf("dangling backslash")
		}
		switch body[i] {
		case '\\', '\'', '"':
			sb.WriteByte(body[i])
		case 'b', 'B':
			sb.WriteByte('\b')
		case 'f', 'F':
			sb.WriteByte('\f')
		case 'n', 'N':
			sb.WriteByte('\n')
		case 'r', 'R':
			sb.WriteByte('\r')
		case 't', 'T':
			sb.WriteByte('\t')
		default:
			return "", fmt.Errorf("escape \\%c not produced by the renderer", body[i])
		}
	}
	return sb.String(), nil
}

// renderName writes v as an EscapedSymbolicName: backticks around, a backtick inside is doubled.
func renderName(v string) string {
	return "`" + strings.ReplaceAll(v, "`", "``") + "`"
}

func decodeName(tok string) (string, error) {
	if len(tok) < 2 || tok[0] != '`' || tok[len(tok)-1] != '`' {
		return "", fmt.Errorf("not an escaped name")
	}
	body := tok[1 : len(tok)-1]
	var sb strings.Builder
	for i := 0; i < len(body); i++ {
		if body[i] == '`' {
			if i+1 >= len(body) || body[i+1] != '`' {
				return "", fmt.Errorf("single backtick inside")
			}
			i++
		}
		sb.WriteByte(body[i])
	}
	return sb.String(), nil
}

func validDomain(v string) bool {
	return utf8.ValidString(v) && !strings.ContainsRune(v, 0)
}
