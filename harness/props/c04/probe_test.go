package c04

import (
	"fmt"
	"os"
	"sort"
	"strings"
	"testing"

	"verif/xlate"
)

func TestProbe(t *testing.T) {
	raw, _ := os.ReadFile(os.Getenv("PROBE"))
	for _, q := range strings.Split(string(raw), "\n") {
		if strings.TrimSpace(q) == "" {
			continue
		}
		q = strings.ReplaceAll(q, "<NL>", "\n")
		fmt.Println("CYPHER:", q)
		m, err := xlate.Parse(q)
		if err != nil {
			fmt.Println("  PARSE ERR:", err)
			continue
		}
		res, err := xlate.Translate(m, map[string]any{"q": "it's", "l": []string{"a'b", "c"}, "a": []any{"x'", []any{"y"}}, "m": map[string]any{"k'": "v'"}})
		if err != nil {
			fmt.Println("  XLATE ERR:", strings.SplitN(err.Error(), "\n", 2)[0])
			continue
		}
		fmt.Println("  SQL:", res.SQL)
		keys := []string{}
		for k := range res.Params {
			keys = append(keys, k)
		}
		sort.Strings(keys)
		for _, k := range keys {
			fmt.Printf("  PARAM %s = %#v\n", k, res.Params[k])
		}
	}
}
