// C09 — the default parse context admits read-only queries only.
package c09

import (
	"fmt"
	"reflect"
	"sort"
	"strings"
	"testing"

	"github.com/specterops/dawgs/cypher/frontend"
	"github.com/specterops/dawgs/cypher/models/cypher"
	"pgregory.net/rapid"

	"verif/evid"
	"verif/gen/corpus"
	"verif/gen/g4"
	"verif/sqltok"
	"verif/xlate"
)

func TestMain(m *testing.M) {
	evid.Main(m, "C09", "exploration",
		"(insert) a corpus query accepted by DefaultCypherContext() x one inserted construct from {CREATE, MERGE (+ON CREATE/MATCH SET), SET =,+=,:label, REMOVE, DELETE, DETACH DELETE, FOREACH, CREATE UNIQUE, in-query CALL..YIELD, standalone CALL, $param, {legacy param}} x every clause boundary of the token stream (before each MATCH/OPTIONAL/WITH/UNWIND/RETURN, at the end); (g4) grammar derivations (all rules, updating clauses at natural frequency); (accept) everything either generator produces that the default context accepts is walked by reflection for updating clauses / parameters and, when it translates, its SQL is scanned for data-modifying statements. Non-trivial = the variant is accepted by the unfiltered NewContext() (so the rejection is the filter's doing) or, for accepted inputs, the model has >= 2 clauses; distinct by (construct, position class, base query).",
		"the reflection walk treats every value of type *cypher.UpdatingClause/Create/Merge/Set/Remove/Delete/Parameter reachable from the model as the forbidden construct",
		"SQL is scanned with a PostgreSQL-conformant lexer for the statement keywords INSERT/UPDATE/DELETE/MERGE outside literals and quoted identifiers")
}

type Case struct {
	Src       string `json:"src"`
	Base      string `json:"base,omitempty"`
	Construct string `json:"construct,omitempty"`
	Pos       int    `json:"pos,omitempty"`
	Text      string `json:"text"`
}

func parse(ctx *frontend.Context, s string) (q *cypher.RegularQuery, err error) {
	defer func() {
		if p := recover(); p != nil {
			err = fmt.Errorf("panic: %v", p)
			q = nil
		}
	}()
	return frontend.ParseCypher(ctx, s)
}

var forbiddenTypes = map[string]bool{
	"UpdatingClause": true, "Create": true, "Merge": true, "MergeAction": true, "Set": true, "SetItem": true,
	"Remove": true, "RemoveItem": true, "Delete": true, "Parameter": true,
}

// forbidden walks the model by reflection (independent of DAWGS's walkers) and lists forbidden node types.
func forbidden(v reflect.Value, seen map[uintptr]bool, out map[string]int) {
	switch v.Kind() {
	case reflect.Ptr:
		if v.IsNil() {
			return
		}
		if seen[v.Pointer()] {
			return
		}
		seen[v.Pointer()] = true
		forbidden(v.Elem(), seen, out)
	case reflect.Interface:
		if !v.IsNil() {
			forbidden(v.Elem(), seen, out)
		}
	case reflect.Struct:
		t := v.Type()
		if strings.HasSuffix(t.PkgPath(), "cypher/models/cypher") && forbiddenTypes[t.Name()] {
			// an empty container (e.g. a Set with no items) still counts: it is an updating clause
			out[t.Name()]++
		}
		for i := 0; i < v.NumField(); i++ {
			forbidden(v.Field(i), seen, out)
		}
	case reflect.Slice, reflect.Array:
		for i := 0; i < v.Len(); i++ {
			forbidden(v.Index(i), seen, out)
		}
	case reflect.Map:
		it := v.MapRange()
		for it.Next() {
			forbidden(it.Value(), seen, out)
		}
	}
}

func oracle(c Case) (evid.Info, error) {
	info := evid.Info{Classes: []string{"src=" + c.Src}}
	if c.Construct != "" {
		info.Classes = append(info.Classes, "construct="+c.Construct)
	}
	// The context under test is created first; further default contexts are created and used before it
	// is (contexts must not share filter state: an application keeps several alive, e.g. one per request).
	ctx := frontend.DefaultCypherContext()
	_, _ = parse(frontend.DefaultCypherContext(), "match (n) return n")
	_ = frontend.DefaultCypherContext()
	qDefault, errDefault := parse(ctx, c.Text)
	_, errPlain := parse(frontend.NewContext(), c.Text)
	acceptedPlain := errPlain == nil
	if c.Construct != "" {
		// a variant with an inserted updating clause / call / parameter must be rejected
		if errDefault == nil {
			return info, fmt.Errorf("the default context accepted a query with an inserted %s: %q (base %q)", c.Construct, c.Text, c.Base)
		}
		if acceptedPlain {
			info.NonTrivial = true
			info.Key = fmt.Sprintf("%s|%d|%s", c.Construct, c.Pos, c.Base)
			info.Classes = append(info.Classes, "plain-accepts")
		} else {
			info.Classes = append(info.Classes, "plain-rejects")
		}
		return info, nil
	}
	if errDefault != nil || qDefault == nil {
		info.Skip = "rejected"
		return info, nil
	}
	// accepted under the default context: nothing that can modify data, no call, no parameter
	found := map[string]int{}
	forbidden(reflect.ValueOf(qDefault), map[uintptr]bool{}, found)
	// an empty UpdatingClauses slice is fine; only instances count
	if len(found) > 0 {
		keys := make([]string, 0, len(found))
		for k := range found {
			keys = append(keys, k)
		}
		sort.Strings(keys)
		return info, fmt.Errorf("the default context accepted %q but its model contains %v", c.Text, keys)
	}
	// the lexical view: no updating keyword, CALL or parameter token outside names/strings
	for _, tk := range tokens(c.Text) {
		switch tk {
		case "kw:create", "kw:merge", "kw:set", "kw:delete", "kw:detach", "kw:remove", "kw:foreach", "kw:call", "op:$":
			return info, fmt.Errorf("the default context accepted %q which contains the token %s", c.Text, tk)
		}
	}
	if res, err := xlate.Translate(qDefault, nil); err == nil {
		info.Classes = append(info.Classes, "translated")
		for _, t := range sqltok.Lex(res.SQL) {
			if t.Kind == sqltok.Word {
				switch strings.ToLower(t.Text) {
				case "insert", "update", "delete", "merge":
					return info, fmt.Errorf("the default context accepted %q but its SQL contains a data-modifying statement (%s): %s", c.Text, t.Text, res.SQL)
				}
			}
		}
	}
	if strings.Count(strings.ToLower(c.Text), "match")+strings.Count(strings.ToLower(c.Text), "with ") >= 2 {
		info.NonTrivial = true
		info.Key = c.Text
	}
	return info, nil
}

var kwNames map[string]string

// tokens: keyword tokens (not in schema-name position) and '$'.
func tokens(text string) []string {
	if kwNames == nil {
		g, err := g4.Load()
		if err != nil {
			panic(err)
		}
		kwNames = g.Keywords()
	}
	toks, _ := corpus.Lex(text)
	var ns []corpus.Token
	for _, t := range toks {
		if t.Name != "SP" {
			ns = append(ns, t)
		}
	}
	var out []string
	for i, t := range ns {
		if t.Text == "$" {
			out = append(out, "op:$")
			continue
		}
		if k, ok := kwNames[t.Name]; ok {
			// reserved words may be used as property keys / labels / map keys
			if i > 0 && (ns[i-1].Text == "." || ns[i-1].Text == ":" || ns[i-1].Text == "|") {
				continue
			}
			if i+1 < len(ns) && ns[i+1].Text == ":" {
				continue
			}
			out = append(out, "kw:"+k)
		}
	}
	return out
}

var bases []string

func baseQueries() []string {
	if bases == nil {
		for _, q := range corpus.Queries() {
			if _, err := parse(frontend.DefaultCypherContext(), q); err == nil {
				bases = append(bases, q)
			}
		}
	}
	return bases
}

var constructs = map[string]string{
	"create":         "CREATE (zz:New {a: 1})",
	"create-rel":     "CREATE (zz)-[:R]->(yy)",
	"merge":          "MERGE (zz:New)",
	"merge-actions":  "MERGE (zz:New) ON CREATE SET zz.a = 1 ON MATCH SET zz.b = 2",
	"set-prop":       "SET %v.p = 1",
	"set-map":        "SET %v = {a: 1}",
	"set-add":        "SET %v += {a: 1}",
	"set-label":      "SET %v:Label",
	"remove-prop":    "REMOVE %v.p",
	"remove-label":   "REMOVE %v:Label",
	"delete":         "DELETE %v",
	"detach-delete":  "DETACH DELETE %v",
	"foreach":        "FOREACH (x IN [1] | SET %v.p = x)",
	"create-unique":  "CREATE UNIQUE (%v)-[:R]->(ww)",
	"call-yield":     "CALL db.labels() YIELD label",
	"call-bare":      "CALL db.labels()",
	"param":          "$p",
	"param-num":      "$0",
	"legacy-param":   "{p}",
	"where-param":    "WITH * WHERE %v.p = $p",
	"unwind-param":   "UNWIND $list AS uu",
	"match-param-map": "MATCH (pp $props)",
}

// rapid favours low indices: the constructs that can pass the unfiltered parser come first
var constructOrder = []string{"set-prop", "delete", "create", "merge", "remove-prop", "set-label", "detach-delete", "set-map", "set-add",
	"remove-label", "merge-actions", "create-rel", "param", "where-param", "unwind-param", "param-num", "match-param-map",
	"create-unique", "foreach", "legacy-param", "call-yield", "call-bare"}

func constructNames() []string {
	if len(constructOrder) != len(constructs) {
		panic("constructOrder out of date")
	}
	return constructOrder
}

// boundaries returns token indices before which a clause may be inserted (depth 0), plus len(toks).
func boundaries(toks []corpus.Token) []int {
	var out []int
	depth := 0
	for i, t := range toks {
		switch t.Text {
		case "(", "[", "{":
			depth++
		case ")", "]", "}":
			depth--
		}
		if depth == 0 {
			switch strings.ToLower(t.Text) {
			case "match", "optional", "with", "unwind", "return":
				if strings.ToLower(t.Text) == "match" && i >= 2 && strings.ToLower(toks[i-2].Text) == "optional" {
					continue
				}
				// "starts with" / "ends with" are not clause starts
				if strings.ToLower(t.Text) == "with" && i >= 2 && (strings.ToLower(toks[i-2].Text) == "starts" || strings.ToLower(toks[i-2].Text) == "ends") {
					continue
				}
				out = append(out, i)
			}
		}
	}
	out = append(out, len(toks))
	return out
}

func genInsert(t *rapid.T) Case {
	corpus.OddTextParsed()
	bs := baseQueries()
	base := bs[rapid.IntRange(0, len(bs)-1).Draw(t, "base")]
	name := rapid.SampledFrom(constructNames()).Draw(t, "construct")
	toks, _ := corpus.Lex(base)
	// a variable of the base query to aim the update at
	v := "n"
	var vars []string
	for i, tk := range toks {
		if tk.Name == "UnescapedSymbolicName" && i > 0 && (toks[i-1].Text == "(" || toks[i-1].Text == "[") {
			vars = append(vars, tk.Text)
		}
	}
	if len(vars) > 0 {
		v = vars[rapid.IntRange(0, len(vars)-1).Draw(t, "var")]
	}
	text := strings.ReplaceAll(constructs[name], "%v", v)
	c := Case{Src: "insert", Base: base, Construct: name}
	switch name {
	case "param", "param-num", "legacy-param":
		// replace a literal token
		var lits []int
		for i, tk := range toks {
			if tk.Name == "StringLiteral" || tk.Name == "DecimalInteger" {
				lits = append(lits, i)
			}
		}
		if len(lits) == 0 {
			c.Text = base + " WITH * WHERE 1 = " + text + " RETURN 1"
			c.Pos = -1
			return c
		}
		i := lits[rapid.IntRange(0, len(lits)-1).Draw(t, "lit")]
		toks[i].Text = text
		c.Pos = i
		c.Text = corpus.Join(toks)
		return c
	}
	bnd := boundaries(toks)
	// an updating clause is grammatical after the reading clauses of a part, i.e. right before RETURN/WITH
	// or at the very end; other boundaries are tried less often
	var good []int
	for i, b := range bnd {
		if b == len(toks) || strings.EqualFold(toks[b].Text, "return") || strings.EqualFold(toks[b].Text, "with") {
			good = append(good, i)
		}
	}
	bi := rapid.IntRange(0, len(bnd)-1).Draw(t, "pos")
	if len(good) > 0 && rapid.IntRange(0, 9).Draw(t, "goodpos") < 7 {
		bi = good[rapid.IntRange(0, len(good)-1).Draw(t, "good")]
	}
	pos := bnd[bi]
	c.Pos = bi
	head, tail := corpus.Join(toks[:pos]), corpus.Join(toks[pos:])
	c.Text = strings.TrimSpace(head + " " + text + " " + tail)
	return c
}

var grammar *g4.Grammar

func genG4(t *rapid.T) Case {
	corpus.OddTextParsed()
	if grammar == nil {
		g, err := g4.Load()
		if err != nil {
			panic(err)
		}
		g.UseDefaultWeights(0.1)
		// updating clauses and parameters at elevated frequency
		g.Weight["oC_UpdatingClause"] = 1.5
		grammar = g
	}
	return Case{Src: "g4", Text: grammar.Query(t).Text}
}

// concurrent default contexts: every goroutine creates its own context and parses its own variant;
// each must be rejected whatever the interleaving of context creation and use.
type concCase struct {
	Variants []Case `json:"variants"`
}

func genConc(t *rapid.T) concCase {
	n := rapid.IntRange(2, 6).Draw(t, "n")
	var c concCase
	for i := 0; i < n; i++ {
		c.Variants = append(c.Variants, genInsert(t))
	}
	return c
}

func concOracle(c concCase) (evid.Info, error) {
	errs := make([]error, len(c.Variants))
	start := make(chan struct{})
	done := make(chan int, len(c.Variants))
	for i := range c.Variants {
		go func(i int) {
			ctx := frontend.DefaultCypherContext()
			<-start
			_, err := parse(ctx, c.Variants[i].Text)
			if err == nil {
				errs[i] = fmt.Errorf("under concurrent use of %d default contexts the query with an inserted %s was accepted: %q", len(c.Variants), c.Variants[i].Construct, c.Variants[i].Text)
			}
			done <- i
		}(i)
	}
	close(start)
	for range c.Variants {
		<-done
	}
	for _, e := range errs {
		if e != nil {
			return evid.Info{}, e
		}
	}
	return evid.Info{NonTrivial: true, Classes: []string{fmt.Sprintf("goroutines=%d", len(c.Variants))}}, nil
}

func TestC09Concurrent(t *testing.T) {
	evid.Prop(t, "conc", evid.R.N(1500, 5000), genConc, concOracle)
}

func TestC09Insert(t *testing.T) {
	evid.Prop(t, "insert", evid.R.N(8000, 25000), genInsert, oracle)
}

func TestC09Grammar(t *testing.T) {
	evid.Prop(t, "g4", evid.R.N(6000, 20000), genG4, oracle)
}

// every corpus query, as is
func TestC09Corpus(t *testing.T) {
	if evid.Register(t, "corpus", oracle) {
		return
	}
	for _, q := range corpus.Queries() {
		if !evid.Case(t, "corpus", Case{Src: "corpus", Text: q}, oracle) {
			return
		}
	}
}
