// C14 — all directed-graph containers present the same graph.
//
// model_test.go: the case format shared by every sub-check, the generators, the naive
// reference model on the edge list, and the builders of the real containers.
package c14

import (
	"fmt"
	"sort"
	"strings"

	"github.com/specterops/dawgs/cardinality"
	"github.com/specterops/dawgs/container"
	"github.com/specterops/dawgs/graph"
	"pgregory.net/rapid"

	"verif/evid"
)

// Finding ids whose shapes are excluded while the finding is listed as open.
const (
	findingTSBoth    = "C14-triplestore-both"
	findingProjBoth  = "C14-projection-both"
	findingToSegment = "C14-tosegment-index"
	findingReadEach  = "C14-bfstreefile-readeach"
)

// Op is one build step: K=="n" adds node S explicitly; K=="e" adds edge ID: S -> T.
type Op struct {
	K  string `json:"k"`
	ID uint64 `json:"id,omitempty"`
	S  uint64 `json:"s"`
	T  uint64 `json:"t,omitempty"`
}

// Proj is one Projection(deletedNodes, deletedEdges) call.
type Proj struct {
	DN []uint64 `json:"dn,omitempty"`
	DE []uint64 `json:"de,omitempty"`
}

// Build is the graph part of every case: the operations in insertion order and a chain of
// projections (projection of projection of …) applied to the triplestore.
type Build struct {
	Ops   []Op   `json:"ops"`
	Projs []Proj `json:"projs,omitempty"`
}

type edge struct{ id, s, t uint64 }

type model struct {
	nodes map[uint64]struct{}
	edges []edge
}

func newModel() *model { return &model{nodes: map[uint64]struct{}{}} }

func modelOf(ops []Op) *model {
	m := newModel()
	for _, op := range ops {
		switch op.K {
		case "n":
			m.nodes[op.S] = struct{}{}
		case "e":
			m.nodes[op.S] = struct{}{}
			m.nodes[op.T] = struct{}{}
			m.edges = append(m.edges, edge{op.ID, op.S, op.T})
		}
	}
	return m
}

// project is the naive meaning of a deletion projection: deleted nodes disappear together with
// every edge that touches them; deleted edges disappear.
func (m *model) project(dn, de map[uint64]struct{}) *model {
	p := newModel()
	for n := range m.nodes {
		if _, del := dn[n]; !del {
			p.nodes[n] = struct{}{}
		}
	}
	for _, e := range m.edges {
		_, d1 := de[e.id]
		_, d2 := dn[e.s]
		_, d3 := dn[e.t]
		if !d1 && !d2 && !d3 {
			p.edges = append(p.edges, e)
		}
	}
	return p
}

func (m *model) sortedNodes() []uint64 {
	out := make([]uint64, 0, len(m.nodes))
	for n := range m.nodes {
		out = append(out, n)
	}
	sort.Slice(out, func(i, j int) bool { return out[i] < out[j] })
	return out
}

func (m *model) has(n uint64) bool { _, ok := m.nodes[n]; return ok }

// adj is the SET of adjacent nodes. Both = in ∪ out, so n itself appears only with a self loop.
func (m *model) adj(n uint64, dir graph.Direction) []uint64 {
	set := map[uint64]struct{}{}
	if !m.has(n) {
		return nil
	}
	for _, e := range m.edges {
		if (dir == graph.DirectionOutbound || dir == graph.DirectionBoth) && e.s == n {
			set[e.t] = struct{}{}
		}
		if (dir == graph.DirectionInbound || dir == graph.DirectionBoth) && e.t == n {
			set[e.s] = struct{}{}
		}
	}
	return sortedKeys(set)
}

// incident edges in a direction (outbound: start == n; inbound: end == n; both: either).
func (m *model) incident(n uint64, dir graph.Direction) []edge {
	var out []edge
	if !m.has(n) {
		return nil
	}
	for _, e := range m.edges {
		switch {
		case (dir == graph.DirectionOutbound || dir == graph.DirectionBoth) && e.s == n:
			out = append(out, e)
		case (dir == graph.DirectionInbound || dir == graph.DirectionBoth) && e.t == n:
			out = append(out, e)
		}
	}
	return out
}

// bfs: level-by-level distances over adj; the start node is NOT pre-visited (it is reported only
// when a cycle leads back to it, with the length of the shortest such cycle) — this is what the
// pinned unit tests of Reach expect (Reach(1) of a tree rooted at 1 does not contain 1).
func (m *model) bfs(start uint64, dir graph.Direction) map[uint64]int {
	dist := map[uint64]int{}
	frontier := []uint64{start}
	for d := 1; len(frontier) > 0; d++ {
		var next []uint64
		for _, n := range frontier {
			for _, a := range m.adj(n, dir) {
				if _, seen := dist[a]; !seen {
					dist[a] = d
					next = append(next, a)
				}
			}
		}
		frontier = next
	}
	return dist
}

func (m *model) rename(to map[uint64]uint64) *model {
	r := newModel()
	for n := range m.nodes {
		r.nodes[to[n]] = struct{}{}
	}
	for _, e := range m.edges {
		r.edges = append(r.edges, edge{e.id, to[e.s], to[e.t]})
	}
	return r
}

func sortedKeys(set map[uint64]struct{}) []uint64 {
	out := make([]uint64, 0, len(set))
	for k := range set {
		out = append(out, k)
	}
	sort.Slice(out, func(i, j int) bool { return out[i] < out[j] })
	return out
}

func setOf(vs []uint64) map[uint64]struct{} {
	s := make(map[uint64]struct{}, len(vs))
	for _, v := range vs {
		s[v] = struct{}{}
	}
	return s
}

func sortedSet(vs []uint64) []uint64 { return sortedKeys(setOf(vs)) }

func equalU64(a, b []uint64) bool {
	if len(a) != len(b) {
		return false
	}
	for i := range a {
		if a[i] != b[i] {
			return false
		}
	}
	return true
}

func dirName(d graph.Direction) string { return d.String() }

var allDirs = []graph.Direction{graph.DirectionOutbound, graph.DirectionInbound, graph.DirectionBoth}

// ---------------------------------------------------------------------------------------------
// real containers

type nodeAdder interface{ AddNode(node uint64) }

func buildAdjMap(ops []Op) container.DirectedGraph {
	g := container.NewAdjacencyMapGraph()
	for _, op := range ops {
		if op.K == "n" {
			g.AddNode(op.S)
		} else {
			g.AddEdge(op.S, op.T)
		}
	}
	return g
}

// BuildAdjacencyMapGraph takes a map src -> []dst; isolated nodes are keys with no targets.
func buildAdjMapFromMap(m *model) container.DirectedGraph {
	adj := map[uint64][]uint64{}
	for n := range m.nodes {
		adj[n] = nil
	}
	for _, e := range m.edges {
		adj[e.s] = append(adj[e.s], e.t)
	}
	return container.BuildAdjacencyMapGraph(adj)
}

func buildCSR(ops []Op) container.DirectedGraph {
	b := container.NewCSRDigraphBuilder()
	for _, op := range ops {
		if op.K == "n" {
			b.AddNode(op.S)
		} else {
			b.AddEdge(op.S, op.T)
		}
	}
	return b.Build()
}

// buildTS builds the triplestore; isolated nodes go through the exported AddNode method of the
// concrete type (it is not part of MutableTriplestore). ok=false when a node op cannot be
// expressed.
func buildTS(ops []Op) (container.MutableTriplestore, bool) {
	ts := container.NewTriplestore()
	for _, op := range ops {
		if op.K == "n" {
			na, ok := ts.(nodeAdder)
			if !ok {
				return ts, false
			}
			na.AddNode(op.S)
		} else {
			ts.AddTriple(op.ID, op.S, op.T)
		}
	}
	return ts, true
}

func bm(vs []uint64) cardinality.Duplex[uint64] { return cardinality.NewBitmap64With(vs...) }

// ---------------------------------------------------------------------------------------------
// generators

var idBases = []uint64{0, 1, 2, 5, 9, 10, 13, 255, 1 << 16, 1<<32 - 2, 1 << 32, 1<<32 + 10, 1<<40 + 0x0a0a, 0x0a0a0a0a0a0a0a0a, 0x0d00000000000001, 1<<63 - 2, 1 << 63, ^uint64(0) - 3}

func genID() *rapid.Generator[uint64] {
	return rapid.Custom(func(t *rapid.T) uint64 {
		switch rapid.IntRange(0, 9).Draw(t, "idk") {
		case 0:
			return rapid.Uint64().Draw(t, "r64")
		case 1, 2, 3:
			return uint64(rapid.IntRange(0, 12).Draw(t, "small"))
		default:
			return rapid.SampledFrom(idBases).Draw(t, "base") + uint64(rapid.IntRange(0, 3).Draw(t, "off"))
		}
	})
}

func ident(v uint64) uint64 { return v }

// genBuild draws a multigraph: a pool of distinct node ids, edges with distinct ids between pool
// members (biased towards self loops, parallel and antiparallel pairs), explicit AddNode calls at
// random positions (nodes without any edge become isolated nodes; pool members that are never
// added stay absent and serve as probes). dag=true orients every edge from the lower to the
// higher pool index (no self loops) so that unbounded walks terminate.
func genBuild(t *rapid.T, maxN, maxE, maxProj int, dag bool) (Build, []uint64) {
	var b Build
	// sizes are drawn explicitly (rapid's slice lengths are geometric and its integers favour
	// small values, which would make most graphs empty) as the larger of two draws: mid and
	// large sizes dominate, 0 and 1 stay in the domain, and shrinking still goes towards 0
	np := max(rapid.IntRange(0, maxN).Draw(t, "npool"), rapid.IntRange(0, maxN).Draw(t, "npool2"))
	pool := rapid.SliceOfNDistinct(genID(), np, np, ident).Draw(t, "pool")
	ne := 0
	if len(pool) > 0 && !(dag && len(pool) < 2) {
		ne = max(rapid.IntRange(0, maxE).Draw(t, "ne"), rapid.IntRange(0, min(maxE, np+2)).Draw(t, "ne2"))
	}
	eids := rapid.SliceOfNDistinct(genID(), ne, ne, ident).Draw(t, "eids")
	var edges []Op
	for i := 0; i < ne; i++ {
		var s, d int
		switch k := rapid.IntRange(0, 9).Draw(t, "ek"); {
		case k == 9 && !dag:
			s = rapid.IntRange(0, len(pool)-1).Draw(t, "loop")
			d = s
		case k >= 7 && len(edges) > 0:
			prev := edges[rapid.IntRange(0, len(edges)-1).Draw(t, "par")]
			s, d = indexOf(pool, prev.S), indexOf(pool, prev.T)
		case k == 6 && len(edges) > 0 && !dag:
			prev := edges[rapid.IntRange(0, len(edges)-1).Draw(t, "anti")]
			s, d = indexOf(pool, prev.T), indexOf(pool, prev.S)
		default:
			// shrinks towards the edge pool[1] -> pool[0]
			s = (rapid.IntRange(0, len(pool)-1).Draw(t, "s") + 1) % len(pool)
			d = rapid.IntRange(0, len(pool)-1).Draw(t, "d")
		}
		if dag {
			if s == d {
				d = (s + 1) % len(pool)
			}
			if s > d {
				s, d = d, s
			}
		}
		edges = append(edges, Op{K: "e", ID: eids[i], S: pool[s], T: pool[d]})
	}
	// explicit AddNode: position -1 = never, otherwise before edge #pos (len(edges) = at the end)
	at := make([][]uint64, len(edges)+1)
	for _, n := range pool {
		// half of the pool is added explicitly (position = before edge #pos); the rest exists
		// only through its edges, or not at all
		if rapid.Bool().Draw(t, "explicit") {
			pos := rapid.IntRange(0, len(edges)).Draw(t, "addnode")
			at[pos] = append(at[pos], n)
		}
	}
	for i := 0; i <= len(edges); i++ {
		for _, n := range at[i] {
			b.Ops = append(b.Ops, Op{K: "n", S: n})
		}
		if i < len(edges) {
			b.Ops = append(b.Ops, edges[i])
		}
	}
	nproj := 0
	if maxProj > 0 {
		nproj = rapid.IntRange(0, maxProj).Draw(t, "nproj")
	}
	for i := 0; i < nproj; i++ {
		var p Proj
		nodeCands := append(append([]uint64{}, pool...), 77, 1<<33+1)
		edgeCands := append(append([]uint64{}, eids...), 78, 1<<33+2)
		p.DN = subset(t, nodeCands, "dn")
		p.DE = subset(t, edgeCands, "de")
		b.Projs = append(b.Projs, p)
	}
	return b, pool
}

func subset(t *rapid.T, cands []uint64, label string) []uint64 {
	var out []uint64
	// mostly small deletion sets; sometimes everything
	mode := rapid.IntRange(0, 9).Draw(t, label+"mode")
	for _, c := range cands {
		var take bool
		switch {
		case mode <= 2:
			take = false
		case mode == 9:
			take = true
		default:
			take = rapid.IntRange(0, 5).Draw(t, label) == 0
		}
		if take {
			out = append(out, c)
		}
	}
	return out
}

func indexOf(pool []uint64, v uint64) int {
	for i, p := range pool {
		if p == v {
			return i
		}
	}
	return 0
}

// ---------------------------------------------------------------------------------------------
// features of a case (for the non-trivial rule and the class histogram)

type features struct {
	nodes, edges                                    int
	selfLoop, parallel, antiparallel, isolated, big bool
	projDepth                                       int
	projHits                                        bool // a projection actually removes something
}

func featuresOf(b Build) features {
	m := modelOf(b.Ops)
	f := features{nodes: len(m.nodes), edges: len(m.edges), projDepth: len(b.Projs)}
	touched := map[uint64]struct{}{}
	pairs := map[[2]uint64]int{}
	for _, e := range m.edges {
		touched[e.s] = struct{}{}
		touched[e.t] = struct{}{}
		if e.s == e.t {
			f.selfLoop = true
		}
		pairs[[2]uint64{e.s, e.t}]++
		if e.id > 1<<32 {
			f.big = true
		}
	}
	for p, n := range pairs {
		if n > 1 {
			f.parallel = true
		}
		if p[0] != p[1] && pairs[[2]uint64{p[1], p[0]}] > 0 {
			f.antiparallel = true
		}
	}
	for n := range m.nodes {
		if _, ok := touched[n]; !ok {
			f.isolated = true
		}
		if n > 1<<32 {
			f.big = true
		}
	}
	dn, de := map[uint64]struct{}{}, map[uint64]struct{}{}
	for _, p := range b.Projs {
		for _, n := range p.DN {
			dn[n] = struct{}{}
		}
		for _, e := range p.DE {
			de[e] = struct{}{}
		}
	}
	pm := m.project(dn, de)
	f.projHits = len(pm.nodes) != len(m.nodes) || len(pm.edges) != len(m.edges)
	return f
}

// nonTrivial: >= 3 nodes and at least one of: self loop, parallel or antiparallel pair, isolated
// node, non-empty projection (one that removes something).
func (f features) nonTrivial() bool {
	return f.nodes >= 3 && (f.selfLoop || f.parallel || f.antiparallel || f.isolated || f.projHits)
}

func (f features) classes() []string {
	var cls []string
	switch {
	case f.nodes == 0:
		cls = append(cls, "nodes=0")
	case f.nodes <= 2:
		cls = append(cls, "nodes=1-2")
	case f.nodes <= 4:
		cls = append(cls, "nodes=3-4")
	default:
		cls = append(cls, "nodes>=5")
	}
	add := func(b bool, s string) {
		if b {
			cls = append(cls, s)
		}
	}
	add(f.edges == 0, "edges=0")
	add(f.selfLoop, "selfloop")
	add(f.parallel, "parallel")
	add(f.antiparallel, "antiparallel")
	add(f.isolated, "isolated")
	add(f.big, "id>2^32")
	add(f.projDepth == 1, "proj-depth=1")
	add(f.projDepth >= 2, "proj-of-proj")
	add(f.projHits, "proj-removes")
	return cls
}

func caseKey(parts ...any) string {
	var sb strings.Builder
	for _, p := range parts {
		fmt.Fprintf(&sb, "%v|", p)
	}
	return sb.String()
}

// excluded reports whether the open finding's shape must be left out, and books the exclusion.
func excluded(finding, check string, noExcl bool) bool {
	if noExcl || !evid.R.KnownOpen(finding) {
		return false
	}
	evid.R.Excluded(check)
	return true
}
