package c14

import (
	"fmt"
	"sort"
	"testing"

	"github.com/specterops/dawgs/container"
	"github.com/specterops/dawgs/graph"
	"pgregory.net/rapid"

	"verif/evid"
)

// The adjacency-map graph is a MutableDirectedGraph: observations and mutations may interleave.
// This check drives one graph through a history of AddNode / AddEdge / observe steps and compares
// every observation with the naive edge-list model built so far (an observation must never depend
// on what was observed before a later mutation).
type incOp struct {
	K   string `json:"k"` // node | edge | adj | reach | count
	A   uint64 `json:"a"`
	B   uint64 `json:"b,omitempty"`
	Dir int    `json:"dir,omitempty"` // 0 out, 1 in, 2 both
}

type incCase struct {
	Ops []incOp `json:"ops"`
}

var incIDs = []uint64{1, 2, 3, 4, 5, 1 << 33, 1<<33 + 1}

func genInc(t *rapid.T) incCase {
	n := 3 + max2(rapid.IntRange(0, 14).Draw(t, "n1"), rapid.IntRange(0, 10).Draw(t, "n2"))
	var c incCase
	for i := 0; i < n; i++ {
		op := incOp{A: rapid.SampledFrom(incIDs).Draw(t, "a"), B: rapid.SampledFrom(incIDs).Draw(t, "b"), Dir: rapid.IntRange(0, 2).Draw(t, "dir")}
		switch rapid.IntRange(0, 9).Draw(t, "k") {
		case 0:
			op.K = "node"
		case 1, 2, 3, 4:
			op.K = "edge"
		case 5, 6, 7:
			op.K = "adj"
		case 8:
			op.K = "reach"
		default:
			op.K = "count"
		}
		c.Ops = append(c.Ops, op)
	}
	return c
}

func max2(a, b int) int {
	if a > b {
		return a
	}
	return b
}

func dirOf(d int) graph.Direction {
	switch d {
	case 0:
		return graph.DirectionOutbound
	case 1:
		return graph.DirectionInbound
	}
	return graph.DirectionBoth
}

func incOracle(c incCase) (evid.Info, error) {
	g := container.NewAdjacencyMapGraph()
	nodes := map[uint64]bool{}
	type e struct{ s, t uint64 }
	var edges []e
	adj := func(n uint64, d int) []uint64 {
		set := map[uint64]bool{}
		for _, ed := range edges {
			if (d == 0 || d == 2) && ed.s == n {
				set[ed.t] = true
			}
			if (d == 1 || d == 2) && ed.t == n {
				set[ed.s] = true
			}
		}
		out := make([]uint64, 0, len(set))
		for k := range set {
			out = append(out, k)
		}
		sort.Slice(out, func(i, j int) bool { return out[i] < out[j] })
		return out
	}
	observedThenMutated := false
	observed := map[uint64]bool{}
	for i, op := range c.Ops {
		switch op.K {
		case "node":
			g.AddNode(op.A)
			nodes[op.A] = true
		case "edge":
			g.AddEdge(op.A, op.B)
			nodes[op.A], nodes[op.B] = true, true
			edges = append(edges, e{op.A, op.B})
			if observed[op.A] || observed[op.B] {
				observedThenMutated = true
			}
		case "adj":
			observed[op.A] = true
			got := map[uint64]bool{}
			g.EachAdjacentNode(op.A, dirOf(op.Dir), func(a uint64) bool { got[a] = true; return true })
			gl := make([]uint64, 0, len(got))
			for k := range got {
				gl = append(gl, k)
			}
			sort.Slice(gl, func(i, j int) bool { return gl[i] < gl[j] })
			want := adj(op.A, op.Dir)
			if fmt.Sprint(gl) != fmt.Sprint(want) {
				return evid.Info{}, fmt.Errorf("step %d: adjacency map EachAdjacentNode(%d, %s) = %v after the history so far, the edge list says %v", i, op.A, dirOf(op.Dir), gl, want)
			}
			gl2 := append([]uint64(nil), container.AdjacentNodes(g, op.A, dirOf(op.Dir))...)
			sort.Slice(gl2, func(i, j int) bool { return gl2[i] < gl2[j] })
			set2 := map[uint64]bool{}
			for _, v := range gl2 {
				set2[v] = true
			}
			if len(set2) != len(want) {
				return evid.Info{}, fmt.Errorf("step %d: container.AdjacentNodes(%d, %s) = %v, the edge list says %v", i, op.A, dirOf(op.Dir), gl2, want)
			}
		case "reach":
			if !nodes[op.A] {
				continue
			}
			observed[op.A] = true
			// naive reach in the given direction (start node itself not pre-visited, as the repo's tests pin)
			seen := map[uint64]bool{}
			queue := []uint64{op.A}
			first := true
			for len(queue) > 0 {
				n := queue[0]
				queue = queue[1:]
				if !first && seen[n] {
					continue
				}
				if !first {
					seen[n] = true
				}
				first = false
				for _, a := range adj(n, op.Dir) {
					if !seen[a] {
						queue = append(queue, a)
					}
				}
			}
			got := container.Reach(g, op.A, dirOf(op.Dir))
			for k := range seen {
				observed[k] = true
				if !got.Contains(k) {
					return evid.Info{}, fmt.Errorf("step %d: Reach(%d, %s) misses node %d (history so far has %d edges)", i, op.A, dirOf(op.Dir), k, len(edges))
				}
			}
			if int(got.Cardinality()) != len(seen) {
				return evid.Info{}, fmt.Errorf("step %d: Reach(%d, %s) has %d nodes, naive BFS %d", i, op.A, dirOf(op.Dir), got.Cardinality(), len(seen))
			}
		case "count":
			if got := g.NumNodes(); got != uint64(len(nodes)) {
				return evid.Info{}, fmt.Errorf("step %d: NumNodes() = %d, %d nodes were added", i, got, len(nodes))
			}
		}
	}
	info := evid.Info{NonTrivial: observedThenMutated && len(edges) >= 2}
	if observedThenMutated {
		info.Classes = append(info.Classes, "mutated-after-observation")
	}
	return info, nil
}

func TestC14Incremental(t *testing.T) {
	evid.Prop(t, "incremental", evid.R.N(5000, 40000), genInc, incOracle)
}
