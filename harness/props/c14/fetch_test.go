package c14

import (
	"context"
	"fmt"

	"github.com/specterops/dawgs/container"
	"github.com/specterops/dawgs/graph"
	"github.com/specterops/dawgs/query"
)

// A minimal graph.Database that serves exactly what container.FetchDirectedGraph asks for: one
// read transaction, one relationship query, rows of (start id, end id). Every other method of
// the embedded nil interfaces panics, which the oracle would report.

type fetchDB struct {
	graph.Database
	rows [][2]uint64
}

func (s fetchDB) ReadTransaction(ctx context.Context, txDelegate graph.TransactionDelegate, options ...graph.TransactionOption) error {
	return txDelegate(fetchTx{rows: s.rows})
}

type fetchTx struct {
	graph.Transaction
	rows [][2]uint64
}

func (s fetchTx) Relationships() graph.RelationshipQuery { return fetchQuery{rows: s.rows} }

type fetchQuery struct {
	graph.RelationshipQuery
	rows [][2]uint64
}

func (s fetchQuery) Filter(criteria graph.Criteria) graph.RelationshipQuery { return s }

func (s fetchQuery) Query(delegate func(results graph.Result) error, finalCriteria ...graph.Criteria) error {
	return delegate(&fetchResult{rows: s.rows, at: -1})
}

type fetchResult struct {
	graph.Result
	rows [][2]uint64
	at   int
}

func (s *fetchResult) Next() bool   { s.at++; return s.at < len(s.rows) }
func (s *fetchResult) Error() error { return nil }
func (s *fetchResult) Close()       {}
func (s *fetchResult) Scan(targets ...any) error {
	if len(targets) != 2 {
		return fmt.Errorf("fake result: %d scan targets", len(targets))
	}
	for i, target := range targets {
		id, ok := target.(*graph.ID)
		if !ok {
			return fmt.Errorf("fake result: scan target %T", target)
		}
		*id = graph.ID(s.rows[s.at][i])
	}
	return nil
}

// buildFetched runs FetchDirectedGraph over the edge rows (a fetched graph has no isolated
// nodes: its node set is the set of edge endpoints).
func buildFetched(m *model) (container.DirectedGraph, *model, error) {
	var rows [][2]uint64
	em := newModel()
	for _, e := range m.edges {
		rows = append(rows, [2]uint64{e.s, e.t})
		em.nodes[e.s] = struct{}{}
		em.nodes[e.t] = struct{}{}
		em.edges = append(em.edges, e)
	}
	g, err := container.FetchDirectedGraph(context.Background(), fetchDB{rows: rows}, query.KindIn(query.Relationship()))
	return g, em, err
}
