package c14

import (
	"fmt"
	"io"
	"log/slog"
	"sort"
	"testing"

	"github.com/specterops/dawgs/container"
	"github.com/specterops/dawgs/graph"
	"pgregory.net/rapid"

	"verif/evid"
)

func TestMain(m *testing.M) {
	// WriteZoneBFSTree logs through slog.Info; keep the driver's stdout clean
	slog.SetDefault(slog.New(slog.NewTextHandler(io.Discard, nil)))
	evid.Main(m, "C14", "exploration",
		"rapid-generated directed multigraphs as insertion histories (AddNode/AddEdge/AddTriple in drawn order; node and edge ids drawn from small values, the 2^16/2^32/2^63/max boundaries, ids whose little-endian bytes contain 0x0a/0x0d, and random uint64; edges biased towards self loops, parallel copies and antiparallel copies of earlier edges; explicit AddNode calls make isolated nodes; never-added pool ids are probed as absent nodes) plus a chain of 0..3 Projection(deletedNodes, deletedEdges) calls with deletion sets drawn from present and absent ids. Every case is built into NewAdjacencyMapGraph, BuildAdjacencyMapGraph, CSRDigraphBuilder, FetchDirectedGraph (over a fake database that serves the edge rows), NewTriplestore, the empty projection, every prefix of the projection chain and the flat projection with the union of the deletion sets, and both Normalize() results; each is compared with a naive model on the edge list. Sub-checks: graph (node set/count, adjacency sets in 3 directions, early stop, Reach, BFSTree, Normalize, Triplestore edge observers), walk (TSBFS/TSDFS vs recursive enumeration; segment round trips), segment (Marshal/Unmarshal/ToSegment on arbitrary ids), bfsfile (WriteZoneBFSTree -> ReadEach). Non-trivial = the built graph has >= 3 nodes and at least one of: self loop, parallel pair, antiparallel pair, isolated node, projection chain that removes at least one node or edge (walk/bfsfile additionally require at least one reported walk; segment requires >= 1 edge); distinct = hash of the whole case. Thorough tier enumerates ALL labelled graphs on <= 3 nodes (567) x all 8 deleted-node sets x (no deleted edge | each single deleted edge).",
		"edge ids are unique within one graph (an id identifies one edge; projections delete by id)",
		"TSBFS/TSDFS are driven the way their callers drive them: direction inbound or outbound (Edge.Pick has no meaning for 'both'), and either maxDepth >= 1 or an acyclic walkable graph (maxDepth = 0 on a cycle does not terminate by design)",
		"adjacency is compared as a SET: CSR and projections may report a neighbour more than once (parallel/antiparallel edges); degrees and edge counts of the non-triplestore containers are not part of the property",
		"triplestore.DeleteEdge (exported method of the unexported type, no caller, not in any interface) is not exercised: the property quantifies over projections",
		"Reach/BFSTree do not pre-visit the start node: it is reported only when a cycle returns to it (pinned by the repository's own Reach tests)")
}

// Case of the "graph" sub-check (also used by the exhaustive enumeration).
type Case struct {
	Build
	Probes []uint64 `json:"probes,omitempty"` // extra node ids to query (absent or deleted)
	Stop   int      `json:"stop"`             // early stop: delegate returns false on its Stop-th call (>=1)
	NoExcl bool     `json:"noexcl,omitempty"` // stored finding cases: do not apply known-finding exclusions
	Only   string   `json:"only,omitempty"`   // stored finding cases: check only containers of this kind ("ts", "proj", "adjmap", "csr")
}

func genCase(t *rapid.T) Case {
	maxN, maxE := 7, 12
	if evid.R.Thorough() {
		maxN, maxE = 10, 24
	}
	b, pool := genBuild(t, maxN, maxE, 3, false)
	return Case{Build: b, Probes: pool, Stop: rapid.IntRange(1, 3).Draw(t, "stop")}
}

// variant is one real container together with the model it must present.
type variant struct {
	name string
	g    container.DirectedGraph
	m    *model
	kind string // "ts" (the store) or "proj" (a projection): subject to the DirectionBoth findings
}

type normalizer interface {
	Normalize() ([]uint64, container.DirectedGraph)
}

func collectNodes(g container.DirectedGraph) []uint64 {
	var out []uint64
	g.EachNode(func(n uint64) bool { out = append(out, n); return true })
	return out
}

func collectAdj(g container.DirectedGraph, n uint64, d graph.Direction) []uint64 {
	var out []uint64
	g.EachAdjacentNode(n, d, func(a uint64) bool { out = append(out, a); return true })
	return out
}

// checkDigraph compares everything the DirectedGraph interface (and the generic algorithms on
// top of it) shows with the model.
func checkDigraph(v variant, probes []uint64, stop int, skipBoth bool) error {
	want := v.m.sortedNodes()
	if got := v.g.NumNodes(); got != uint64(len(want)) {
		return fmt.Errorf("%s: NumNodes()=%d, edge list has %d nodes %v", v.name, got, len(want), want)
	}
	all := collectNodes(v.g)
	if got := sortedSet(all); !equalU64(got, want) {
		return fmt.Errorf("%s: EachNode enumerated %v, edge list has %v", v.name, got, want)
	}
	// early stop of EachNode
	calls := 0
	v.g.EachNode(func(uint64) bool { calls++; return calls < stop })
	if w := min(stop, len(all)); calls != w {
		return fmt.Errorf("%s: EachNode delegate returned false on call %d but was called %d times (of %d)", v.name, stop, calls, len(all))
	}
	for _, n := range probes {
		for _, d := range allDirs {
			if skipBoth && d == graph.DirectionBoth {
				continue
			}
			wantAdj := v.m.adj(n, d)
			raw := collectAdj(v.g, n, d)
			if got := sortedSet(raw); !equalU64(got, wantAdj) {
				return fmt.Errorf("%s: EachAdjacentNode(%d, %s) = %v, edge list says %v", v.name, n, dirName(d), got, wantAdj)
			}
			if got := sortedSet(container.AdjacentNodes(v.g, n, d)); !equalU64(got, wantAdj) {
				return fmt.Errorf("%s: container.AdjacentNodes(%d, %s) = %v, edge list says %v", v.name, n, dirName(d), got, wantAdj)
			}
			// a container may answer the question itself (the CSR graph does); reached through an interface assertion
			if own, ok := v.g.(interface {
				AdjacentNodes(uint64, graph.Direction) []uint64
			}); ok {
				if got := sortedSet(own.AdjacentNodes(n, d)); !equalU64(got, wantAdj) {
					return fmt.Errorf("%s: its own AdjacentNodes(%d, %s) = %v, edge list says %v", v.name, n, dirName(d), got, wantAdj)
				}
				// ... and a read must leave the graph as it was: every node's rows once more
				for _, m := range all {
					for _, d2 := range []graph.Direction{graph.DirectionOutbound, graph.DirectionInbound} {
						if got, want := sortedSet(collectAdj(v.g, m, d2)), v.m.adj(m, d2); !equalU64(got, want) {
							return fmt.Errorf("%s: after its own AdjacentNodes(%d, %s), EachAdjacentNode(%d, %s) = %v, edge list says %v", v.name, n, dirName(d), m, dirName(d2), got, want)
						}
					}
				}
			}
			calls := 0
			v.g.EachAdjacentNode(n, d, func(uint64) bool { calls++; return calls < stop })
			if w := min(stop, len(raw)); calls != w {
				return fmt.Errorf("%s: EachAdjacentNode(%d, %s) delegate returned false on call %d but was called %d times (of %d)", v.name, n, dirName(d), stop, calls, len(raw))
			}
			// reachability and BFS distances
			dist := v.m.bfs(n, d)
			wantReach := make([]uint64, 0, len(dist))
			for k := range dist {
				wantReach = append(wantReach, k)
			}
			sort.Slice(wantReach, func(i, j int) bool { return wantReach[i] < wantReach[j] })
			gotReach := container.Reach(v.g, n, d).Slice()
			if got := sortedSet(gotReach); !equalU64(got, wantReach) || len(gotReach) != len(wantReach) {
				return fmt.Errorf("%s: Reach(%d, %s) = %v, naive BFS reaches %v", v.name, n, dirName(d), gotReach, wantReach)
			}
			tree := container.BFSTree(v.g, n, d)
			seen := map[uint64]struct{}{}
			for _, term := range tree {
				if _, dup := seen[term.Node]; dup {
					return fmt.Errorf("%s: BFSTree(%d, %s) reports node %d twice: %v", v.name, n, dirName(d), term.Node, tree)
				}
				seen[term.Node] = struct{}{}
				if wd, ok := dist[term.Node]; !ok || wd != term.Distance {
					return fmt.Errorf("%s: BFSTree(%d, %s) reports node %d at distance %d, naive BFS says %d (reachable=%v)", v.name, n, dirName(d), term.Node, term.Distance, wd, ok)
				}
			}
			if len(tree) != len(dist) {
				return fmt.Errorf("%s: BFSTree(%d, %s) reports %d terminals %v, naive BFS reaches %v", v.name, n, dirName(d), len(tree), tree, wantReach)
			}
		}
	}
	return nil
}

// checkNormalize: the reverse index is a bijection between 0..n-1 and the node set, and the
// renumbered graph is the same graph (it is then checked as a container of its own).
func checkNormalize(v variant, probes []uint64, stop int) (variant, error) {
	nz, ok := v.g.(normalizer)
	if !ok {
		return variant{}, nil
	}
	reverse, ng := nz.Normalize()
	want := v.m.sortedNodes()
	if len(reverse) != len(want) {
		return variant{}, fmt.Errorf("%s: Normalize() reverse index has %d entries for %d nodes", v.name, len(reverse), len(want))
	}
	if got := sortedSet(reverse); !equalU64(got, want) {
		return variant{}, fmt.Errorf("%s: Normalize() reverse index %v is not a bijection onto the node set %v", v.name, reverse, want)
	}
	to := map[uint64]uint64{}
	for normal, orig := range reverse {
		to[orig] = uint64(normal)
	}
	return variant{name: v.name + ".Normalize()", g: ng, m: v.m.rename(to)}, nil
}

type tripleKey [3]uint64

func tripleSet(es []container.Edge) map[tripleKey]int {
	s := map[tripleKey]int{}
	for _, e := range es {
		s[tripleKey{e.ID, e.Start, e.End}]++
	}
	return s
}

func modelTripleSet(es []edge) map[tripleKey]int {
	s := map[tripleKey]int{}
	for _, e := range es {
		s[tripleKey{e.id, e.s, e.t}]++
	}
	return s
}

func sameTriples(a, b map[tripleKey]int, multiset bool) bool {
	if len(a) != len(b) {
		return false
	}
	for k, n := range a {
		m, ok := b[k]
		if !ok || (multiset && m != n) {
			return false
		}
	}
	return true
}

// checkTriplestore compares the edge observers of the Triplestore interface (the walks of
// TSBFS/TSDFS/WriteZoneBFSTree are built on them).
func checkTriplestore(name string, ts container.Triplestore, m *model, probes []uint64, stop int) error {
	if got := ts.NumEdges(); got != uint64(len(m.edges)) {
		return fmt.Errorf("%s: NumEdges()=%d, edge list has %d", name, got, len(m.edges))
	}
	var all []container.Edge
	ts.EachEdge(func(e container.Edge) bool { all = append(all, e); return true })
	if !sameTriples(tripleSet(all), modelTripleSet(m.edges), true) {
		return fmt.Errorf("%s: EachEdge enumerated %v, edge list is %v", name, all, m.edges)
	}
	calls := 0
	ts.EachEdge(func(container.Edge) bool { calls++; return calls < stop })
	if w := min(stop, len(all)); calls != w {
		return fmt.Errorf("%s: EachEdge delegate returned false on call %d but was called %d times (of %d)", name, stop, calls, len(all))
	}
	for _, n := range probes {
		for _, d := range allDirs {
			var inc []container.Edge
			ts.EachAdjacentEdge(n, d, func(e container.Edge) bool { inc = append(inc, e); return true })
			if want := m.incident(n, d); !sameTriples(tripleSet(inc), modelTripleSet(want), false) {
				return fmt.Errorf("%s: EachAdjacentEdge(%d, %s) = %v, edge list says %v", name, n, dirName(d), inc, want)
			}
			calls := 0
			ts.EachAdjacentEdge(n, d, func(container.Edge) bool { calls++; return calls < stop })
			if w := min(stop, len(inc)); calls != w {
				return fmt.Errorf("%s: EachAdjacentEdge(%d, %s) delegate returned false on call %d but was called %d times (of %d)", name, n, dirName(d), stop, calls, len(inc))
			}
		}
	}
	return nil
}

type tsVariant struct {
	name string
	ts   container.Triplestore
	m    *model
}

// tsVariants builds the triplestore family of one Build: the store itself, its empty
// projection, every prefix of the projection chain and the flat projection with the union.
func tsVariants(b Build, base *model) ([]tsVariant, bool) {
	ts, ok := buildTS(b.Ops)
	if !ok {
		return nil, false
	}
	out := []tsVariant{
		{"triplestore", ts, base},
		{"triplestore.Projection({},{})", ts.Projection(bm(nil), bm(nil)), base},
	}
	var cur container.Triplestore = ts
	dn, de := map[uint64]struct{}{}, map[uint64]struct{}{}
	name := "triplestore"
	for i, p := range b.Projs {
		cur = cur.Projection(bm(p.DN), bm(p.DE))
		for _, n := range p.DN {
			dn[n] = struct{}{}
		}
		for _, e := range p.DE {
			de[e] = struct{}{}
		}
		name += fmt.Sprintf(".Projection#%d", i+1)
		out = append(out, tsVariant{name, cur, base.project(dn, de)})
	}
	if len(b.Projs) > 1 {
		out = append(out, tsVariant{"triplestore.Projection(union)", ts.Projection(bm(sortedKeys(dn)), bm(sortedKeys(de))), base.project(dn, de)})
	}
	return out, true
}

func oracle(c Case) (evid.Info, error) {
	info := evid.Info{}
	if c.Stop < 1 {
		c.Stop = 1
	}
	base := modelOf(c.Ops)
	f := featuresOf(c.Build)
	cls := f.classes()

	probes := append([]uint64{}, c.Probes...)
	probes = append(probes, base.sortedNodes()...)
	for _, p := range c.Projs {
		probes = append(probes, p.DN...)
	}
	probes = sortedSet(probes)

	skipBoth := map[string]bool{
		"ts":   excluded(findingTSBoth, "graph", c.NoExcl),
		"proj": excluded(findingProjBoth, "graph", c.NoExcl),
	}

	variants := []variant{
		{name: "NewAdjacencyMapGraph", g: buildAdjMap(c.Ops), m: base, kind: "adjmap"},
		{name: "BuildAdjacencyMapGraph", g: buildAdjMapFromMap(base), m: base, kind: "adjmap"},
		{name: "CSRDigraphBuilder", g: buildCSR(c.Ops), m: base, kind: "csr"},
	}
	if fg, fm, err := buildFetched(base); err != nil {
		return info, fmt.Errorf("FetchDirectedGraph: %v", err)
	} else {
		variants = append(variants, variant{name: "FetchDirectedGraph", g: fg, m: fm, kind: "csr"})
	}
	tsv, ok := tsVariants(c.Build, base)
	if !ok {
		return evid.Info{Skip: "triplestore has no exported AddNode: isolated nodes cannot be built"}, nil
	}
	for _, tv := range tsv {
		kind := "proj"
		if tv.name == "triplestore" {
			kind = "ts"
		}
		variants = append(variants, variant{name: tv.name, g: tv.ts, m: tv.m, kind: kind})
	}
	for _, v := range variants {
		if c.Only != "" && v.kind != c.Only {
			continue
		}
		if err := checkDigraph(v, probes, c.Stop, skipBoth[v.kind]); err != nil {
			return info, err
		}
		nv, err := checkNormalize(v, probes, c.Stop)
		if err != nil {
			return info, err
		}
		if nv.g != nil {
			np := make([]uint64, 0, len(nv.m.nodes)+1)
			np = append(np, nv.m.sortedNodes()...)
			np = append(np, uint64(len(nv.m.nodes))) // first id outside 0..n-1
			if err := checkDigraph(nv, np, c.Stop, false); err != nil {
				return info, err
			}
			if v.name == "NewAdjacencyMapGraph" {
				cls = append(cls, "impl:adjmap.Normalize")
			} else if v.name == "CSRDigraphBuilder" {
				cls = append(cls, "impl:csr.Normalize")
			}
		}
	}
	for _, tv := range tsv {
		if c.Only != "" {
			break
		}
		if err := checkTriplestore(tv.name, tv.ts, tv.m, probes, c.Stop); err != nil {
			return info, err
		}
	}
	cls = append(cls, "impl:adjmap", "impl:adjmap-frommap", "impl:csr", "impl:csr-fetched", "impl:triplestore", "impl:projection-empty")
	if len(c.Projs) >= 1 {
		cls = append(cls, "impl:projection")
	}
	if len(c.Projs) >= 2 {
		cls = append(cls, "impl:projection-of-projection", "impl:projection-union")
	}
	info.Classes = cls
	info.NonTrivial = f.nonTrivial()
	return info, nil
}

func TestC14Graph(t *testing.T) {
	evid.Prop(t, "graph", evid.R.N(6000, 20000), genCase, oracle)
}

// TestC14Exhaustive3 enumerates every labelled directed graph on at most three nodes (each of
// the 9 ordered pairs incl. self loops present or not; every choice of untouched nodes present
// as isolated nodes or absent: 567 graphs) and, for each, every set of deleted nodes combined
// with no deleted edge or one deleted edge. Thorough tier, first shard only.
func TestC14Exhaustive3(t *testing.T) {
	if evid.Register(t, "exhaustive3", oracle) {
		return
	}
	if !evid.R.Thorough() || evid.R.Shard != 0 {
		return
	}
	graphs, cases := 0, 0
	ok := enumerateSmallGraphs(func(ops []Op, eids []uint64) bool {
		graphs++
		for dnMask := 0; dnMask < 8; dnMask++ {
			var dn []uint64
			for i, n := range smallNodes {
				if dnMask&(1<<i) != 0 {
					dn = append(dn, n)
				}
			}
			for de := -1; de < len(eids); de++ {
				c := Case{Build: Build{Ops: ops}, Probes: append([]uint64{4}, smallNodes[:]...), Stop: 1 + (cases % 2)}
				if dnMask != 0 || de >= 0 {
					p := Proj{DN: dn}
					if de >= 0 {
						p.DE = []uint64{eids[de]}
					}
					c.Projs = []Proj{p}
				}
				cases++
				if !evid.Case(t, "exhaustive3", c, oracle) {
					return false
				}
			}
		}
		return true
	})
	if ok {
		evid.R.Extra("exhaustive_graphs_le3_nodes", true)
		evid.R.Extra("exhaustive_graphs_le3_nodes_count", graphs)
		evid.R.Extra("exhaustive_graphs_le3_nodes_cases", cases)
	}
}

// one small id, one beyond 2^32, the largest
var smallNodes = [3]uint64{1, 1<<32 + 7, ^uint64(0)}

// enumerateSmallGraphs calls f for every labelled graph on a subset of smallNodes.
func enumerateSmallGraphs(f func(ops []Op, eids []uint64) bool) bool {
	for mask := 0; mask < 512; mask++ {
		var edges []Op
		var eids []uint64
		touched := [3]bool{}
		for k := 0; k < 9; k++ {
			if mask&(1<<k) == 0 {
				continue
			}
			s, d := k/3, k%3
			id := uint64(100 + k)
			if k%2 == 1 {
				id += 1 << 33
			}
			edges = append(edges, Op{K: "e", ID: id, S: smallNodes[s], T: smallNodes[d]})
			eids = append(eids, id)
			touched[s], touched[d] = true, true
		}
		var free []int
		for i := range touched {
			if !touched[i] {
				free = append(free, i)
			}
		}
		for iso := 0; iso < 1<<len(free); iso++ {
			var ops []Op
			for j, i := range free {
				if iso&(1<<j) != 0 {
					ops = append(ops, Op{K: "n", S: smallNodes[i]})
				}
			}
			// isolated nodes first for even masks, last for odd ones
			if mask%2 == 0 {
				ops = append(ops, edges...)
			} else {
				ops = append(append([]Op{}, edges...), ops...)
			}
			if !f(ops, eids) {
				return false
			}
		}
	}
	return true
}

// TestC14Exhaustive4 enumerates every edge subset (incl. self loops) on four nodes: 65536
// graphs, untouched nodes added as isolated nodes, no deletions (the store and its empty
// projection). Thorough tier, second shard only.
func TestC14Exhaustive4(t *testing.T) {
	if evid.Register(t, "exhaustive4", oracle) {
		return
	}
	if !evid.R.Thorough() || evid.R.Shard != 1 {
		return
	}
	nodes := [4]uint64{0, 10, 1<<32 + 7, ^uint64(0)}
	for mask := 0; mask < 1<<16; mask++ {
		var ops []Op
		touched := [4]bool{}
		for k := 0; k < 16; k++ {
			if mask&(1<<k) != 0 {
				ops = append(ops, Op{K: "e", ID: uint64(1<<33 + k), S: nodes[k/4], T: nodes[k%4]})
				touched[k/4], touched[k%4] = true, true
			}
		}
		for i, was := range touched {
			if !was {
				ops = append(ops, Op{K: "n", S: nodes[i]})
			}
		}
		if !evid.Case(t, "exhaustive4", Case{Build: Build{Ops: ops}, Probes: []uint64{4}, Stop: 1 + mask%3}, oracle) {
			return
		}
	}
	evid.R.Extra("exhaustive_graphs_4_nodes_no_deletion", true)
	evid.R.Extra("exhaustive_graphs_4_nodes_count", 1<<16)
}
