package c14

import (
	"bytes"
	"context"
	"fmt"
	"os"
	"sort"
	"strings"
	"testing"

	"github.com/specterops/dawgs/container"
	"github.com/specterops/dawgs/graph"
	"pgregory.net/rapid"

	"verif/evid"
)

// ---------------------------------------------------------------------------------------------
// walks: TSBFS / TSDFS against a recursive enumeration

// WalkCase drives TSBFS and TSDFS. The descent filter is a pure function of the edge: it refuses
// edges whose id is in BlockE and edges that lead to a node in BlockN.
type WalkCase struct {
	Build
	Start    uint64   `json:"start"`
	Outbound bool     `json:"outbound"`
	MaxDepth int      `json:"maxdepth"` // 0 = unbounded (only on acyclic walkable graphs)
	BlockE   []uint64 `json:"blocke,omitempty"`
	BlockN   []uint64 `json:"blockn,omitempty"`
	Stop     int      `json:"stop,omitempty"` // >0: handler returns false on its Stop-th call
	NoExcl   bool     `json:"noexcl,omitempty"`
}

func genWalkCase(t *rapid.T) WalkCase {
	maxDepth := rapid.IntRange(0, 4).Draw(t, "maxdepth")
	b, pool := genBuild(t, 6, 9, 2, maxDepth == 0)
	c := WalkCase{Build: b, MaxDepth: maxDepth, Outbound: rapid.Bool().Draw(t, "outbound")}
	var eids, ends []uint64
	for _, op := range b.Ops {
		if op.K == "e" {
			eids = append(eids, op.ID)
			if c.Outbound {
				ends = append(ends, op.S)
			} else {
				ends = append(ends, op.T)
			}
		}
	}
	// mostly start where an edge can be followed; sometimes anywhere in the pool (isolated,
	// absent or dead-end nodes)
	if len(ends) > 0 && rapid.IntRange(0, 4).Draw(t, "startk") > 0 {
		c.Start = rapid.SampledFrom(ends).Draw(t, "start")
	} else if len(pool) > 0 {
		c.Start = rapid.SampledFrom(pool).Draw(t, "start")
	}
	if rapid.IntRange(0, 2).Draw(t, "filter") == 0 {
		c.BlockE = subset(t, eids, "blocke")
		c.BlockN = subset(t, pool, "blockn")
	}
	if rapid.IntRange(0, 3).Draw(t, "stopping") == 0 {
		c.Stop = rapid.IntRange(1, 3).Draw(t, "stop")
	}
	return c
}

type walk struct {
	nodes []uint64 // root first
	edges []uint64 // edges[i] joins nodes[i] and nodes[i+1]
}

func (w walk) key() string {
	var sb strings.Builder
	for i, n := range w.nodes {
		if i > 0 {
			fmt.Fprintf(&sb, "-[%d]-", w.edges[i-1])
		}
		fmt.Fprintf(&sb, "(%d)", n)
	}
	return sb.String()
}

func reverse(in []uint64) []uint64 {
	out := make([]uint64, len(in))
	for i, v := range in {
		out[len(in)-1-i] = v
	}
	return out
}

func walkOfSegment(s *container.Segment) walk {
	return walk{nodes: reverse(s.Nodes()), edges: reverse(s.Edges())}
}

func pick(e edge, outbound bool) uint64 {
	if outbound {
		return e.t
	}
	return e.s
}

// enumerate lists, by plain recursion over the edge list, every maximal walk from start that
// follows accepted edges in the given direction: a walk ends where no accepted edge continues it
// or where it has maxDepth edges (maxDepth > 0); the latter are counted as incomplete. The bare
// start node is not a walk.
func enumerate(m *model, start uint64, outbound bool, maxDepth int, accept func(edge) bool) (walks []walk, incomplete int) {
	dir := graph.DirectionInbound
	if outbound {
		dir = graph.DirectionOutbound
	}
	var rec func(w walk)
	rec = func(w walk) {
		at := w.nodes[len(w.nodes)-1]
		if maxDepth > 0 && len(w.edges) >= maxDepth {
			incomplete++
			walks = append(walks, w)
			return
		}
		extended := false
		for _, e := range m.incident(at, dir) {
			if !accept(e) {
				continue
			}
			extended = true
			rec(walk{
				nodes: append(append([]uint64{}, w.nodes...), pick(e, outbound)),
				edges: append(append([]uint64{}, w.edges...), e.id),
			})
		}
		if !extended && len(w.edges) > 0 {
			walks = append(walks, w)
		}
	}
	rec(walk{nodes: []uint64{start}})
	return walks, incomplete
}

// cyclic reports whether the accepted edges contain a directed cycle.
func cyclic(m *model, accept func(edge) bool) bool {
	state := map[uint64]int{}
	var visit func(n uint64) bool
	visit = func(n uint64) bool {
		state[n] = 1
		for _, e := range m.incident(n, graph.DirectionOutbound) {
			if !accept(e) {
				continue
			}
			switch state[e.t] {
			case 1:
				return true
			case 0:
				if visit(e.t) {
					return true
				}
			}
		}
		state[n] = 2
		return false
	}
	for _, n := range m.sortedNodes() {
		if state[n] == 0 && visit(n) {
			return true
		}
	}
	return false
}

func sortedKeysOfWalks(ws []walk) []string {
	out := make([]string, len(ws))
	for i, w := range ws {
		out[i] = w.key()
	}
	sort.Strings(out)
	return out
}

func equalStrings(a, b []string) bool {
	if len(a) != len(b) {
		return false
	}
	for i := range a {
		if a[i] != b[i] {
			return false
		}
	}
	return true
}

// roundTripSegment: MarshalSegment/UnmarshalSegment and SerializedSegment.ToSegment must
// reproduce the segment (nodes and edges in order).
func roundTripSegment(what string, seg *container.Segment, skipToSegment bool) error {
	w := walkOfSegment(seg)
	var buf bytes.Buffer
	if err := container.MarshalSegment(seg, &buf); err != nil {
		return fmt.Errorf("%s: MarshalSegment: %v", what, err)
	}
	if want := (2*len(w.nodes) - 1) * 8; buf.Len() != want {
		return fmt.Errorf("%s: MarshalSegment wrote %d bytes for %d nodes and %d edges", what, buf.Len(), len(w.nodes), len(w.edges))
	}
	back := container.UnmarshalSegment(buf.Bytes())
	if got := walkOfSegment(back); got.key() != w.key() {
		return fmt.Errorf("%s: UnmarshalSegment(MarshalSegment(%s)) = %s", what, w.key(), got.key())
	}
	if got, want := back.Depth(), len(w.nodes); got != want {
		return fmt.Errorf("%s: unmarshalled segment has depth %d, want %d", what, got, want)
	}
	if back.Root() != w.nodes[0] {
		return fmt.Errorf("%s: unmarshalled segment has root %d, want %d", what, back.Root(), w.nodes[0])
	}
	if skipToSegment && len(w.edges) > 0 {
		return nil
	}
	// SerializedSegment lists nodes root first (ToSegment links every later node to the earlier
	// one through Previous) and Edges[i] joins Nodes[i] and Nodes[i+1].
	ser := container.SerializedSegment{Nodes: w.nodes, Edges: w.edges}
	if got := walkOfSegment(ser.ToSegment()); got.key() != w.key() {
		return fmt.Errorf("%s: SerializedSegment%v.ToSegment() = %s, want %s", what, ser, got.key(), w.key())
	}
	return nil
}

type traversal func(ts container.Triplestore, nodeID uint64, direction graph.Direction, maxDepth int, descentFilter func(edge container.Edge) bool, handler func(segment *container.Segment) bool) int

func walkOracle(c WalkCase) (evid.Info, error) {
	info := evid.Info{}
	base := modelOf(c.Ops)
	tsv, ok := tsVariants(c.Build, base)
	if !ok {
		return evid.Info{Skip: "triplestore has no exported AddNode"}, nil
	}
	// variants: without a projection chain the store and its empty projection; otherwise the
	// full chain and the flat union projection
	var use []tsVariant
	if len(c.Projs) == 0 {
		use = tsv[:2]
	} else {
		use = tsv[1+len(c.Projs):]
	}
	blockE, blockN := setOf(c.BlockE), setOf(c.BlockN)
	accept := func(e edge) bool {
		if _, b := blockE[e.id]; b {
			return false
		}
		_, b := blockN[pick(e, c.Outbound)]
		return !b
	}
	dir := graph.DirectionInbound
	if c.Outbound {
		dir = graph.DirectionOutbound
	}
	filter := func(e container.Edge) bool {
		return accept(edge{e.ID, e.Start, e.End})
	}
	skipToSegment := excluded(findingToSegment, "walk", c.NoExcl)
	f := featuresOf(c.Build)
	cls := f.classes()
	total := 0
	for _, v := range use {
		if c.MaxDepth <= 0 && cyclic(v.m, accept) {
			return evid.Info{Skip: "unbounded walk on a cyclic graph does not terminate (outside the callers' domain)"}, nil
		}
		want, wantIncomplete := enumerate(v.m, c.Start, c.Outbound, c.MaxDepth, accept)
		wantKeys := sortedKeysOfWalks(want)
		total += len(want)
		for _, tr := range []struct {
			name string
			f    traversal
		}{{"TSBFS", container.TSBFS}, {"TSDFS", container.TSDFS}} {
			name, trav := tr.name, tr.f
			what := fmt.Sprintf("%s(%s, start=%d, %s, maxDepth=%d)", name, v.name, c.Start, dirName(dir), c.MaxDepth)
			var got []walk
			var segs []*container.Segment
			incomplete := trav(v.ts, c.Start, dir, c.MaxDepth, filter, func(s *container.Segment) bool {
				got = append(got, walkOfSegment(s))
				segs = append(segs, s)
				return true
			})
			if gotKeys := sortedKeysOfWalks(got); !equalStrings(gotKeys, wantKeys) {
				return info, fmt.Errorf("%s reported %d walks %v; recursive enumeration of the edge list gives %d: %v", what, len(gotKeys), gotKeys, len(wantKeys), wantKeys)
			}
			if incomplete != wantIncomplete {
				return info, fmt.Errorf("%s returned %d depth-limited walks, enumeration has %d", what, incomplete, wantIncomplete)
			}
			for _, s := range segs {
				if err := roundTripSegment(what, s, skipToSegment); err != nil {
					return info, err
				}
			}
			if c.Stop > 0 {
				calls := 0
				trav(v.ts, c.Start, dir, c.MaxDepth, filter, func(*container.Segment) bool { calls++; return calls < c.Stop })
				if w := min(c.Stop, len(want)); calls != w {
					return info, fmt.Errorf("%s: handler returned false on call %d but was called %d times (of %d)", what, c.Stop, calls, len(want))
				}
			}
		}
	}
	add := func(b bool, s string) {
		if b {
			cls = append(cls, s)
		}
	}
	add(c.Outbound, "dir=outbound")
	add(!c.Outbound, "dir=inbound")
	add(c.MaxDepth == 0, "unbounded-acyclic")
	add(c.MaxDepth > 0, "depth-bounded")
	add(len(c.BlockE)+len(c.BlockN) > 0, "filtered")
	add(c.Stop > 0, "early-stop")
	add(total == 0, "walks=0")
	add(total > 0 && total <= 4, "walks=1-4")
	add(total > 4, "walks>4")
	add(len(c.Projs) == 0, "impl:triplestore+empty-projection")
	add(len(c.Projs) > 0, "impl:projection-chain+union")
	info.Classes = cls
	info.NonTrivial = f.nonTrivial() && total > 0
	return info, nil
}

func TestC14Walk(t *testing.T) {
	evid.Prop(t, "walk", evid.R.N(4000, 15000), genWalkCase, walkOracle)
}

// TestC14ExhaustiveWalk3: every labelled graph on <= 3 nodes x start node x direction x
// maxDepth 1..3, no filter. Thorough tier, first shard only.
func TestC14ExhaustiveWalk3(t *testing.T) {
	if evid.Register(t, "exhaustive3walk", walkOracle) {
		return
	}
	if !evid.R.Thorough() || evid.R.Shard != 0 {
		return
	}
	cases := 0
	ok := enumerateSmallGraphs(func(ops []Op, eids []uint64) bool {
		for _, start := range smallNodes {
			for _, outbound := range []bool{false, true} {
				for depth := 1; depth <= 3; depth++ {
					cases++
					if !evid.Case(t, "exhaustive3walk", WalkCase{Build: Build{Ops: ops}, Start: start, Outbound: outbound, MaxDepth: depth}, walkOracle) {
						return false
					}
				}
			}
		}
		return true
	})
	if ok {
		evid.R.Extra("exhaustive_walks_le3_nodes", true)
		evid.R.Extra("exhaustive_walks_le3_nodes_cases", cases)
	}
}

// ---------------------------------------------------------------------------------------------
// segments with arbitrary ids

type SegCase struct {
	Nodes  []uint64 `json:"nodes"` // root first, at least one
	Edges  []uint64 `json:"edges"` // len(Nodes)-1
	NoExcl bool     `json:"noexcl,omitempty"`
}

func genSegCase(t *rapid.T) SegCase {
	n := rapid.IntRange(1, 7).Draw(t, "n")
	return SegCase{
		Nodes: rapid.SliceOfN(genID(), n, n).Draw(t, "nodes"),
		Edges: rapid.SliceOfN(genID(), n-1, n-1).Draw(t, "edges"),
	}
}

func segOracle(c SegCase) (evid.Info, error) {
	if len(c.Nodes) == 0 || len(c.Edges) != len(c.Nodes)-1 {
		return evid.Info{Skip: "malformed segment case"}, nil
	}
	var seg *container.Segment
	for i, n := range c.Nodes {
		next := &container.Segment{Node: n, Previous: seg}
		if i > 0 {
			next.Edge = c.Edges[i-1]
		}
		seg = next
	}
	skip := len(c.Edges) > 0 && excluded(findingToSegment, "segment", c.NoExcl)
	if err := roundTripSegment("segment", seg, skip); err != nil {
		return evid.Info{}, err
	}
	if seg.Depth() != len(c.Nodes) || seg.Root() != c.Nodes[0] {
		return evid.Info{}, fmt.Errorf("segment %v: Depth()=%d Root()=%d", c, seg.Depth(), seg.Root())
	}
	if len(c.Edges) > 0 && seg.Trunk() != c.Edges[0] {
		return evid.Info{}, fmt.Errorf("segment %v: Trunk()=%d, the edge next to the root is %d", c, seg.Trunk(), c.Edges[0])
	}
	cls := []string{fmt.Sprintf("edges=%d", min(len(c.Edges), 3))}
	for _, v := range append(append([]uint64{}, c.Nodes...), c.Edges...) {
		if v > 1<<32 {
			cls = append(cls, "id>2^32")
			break
		}
	}
	return evid.Info{NonTrivial: len(c.Edges) > 0, Classes: cls}, nil
}

func TestC14Segment(t *testing.T) {
	evid.Prop(t, "segment", evid.R.N(20000, 50000), genSegCase, segOracle)
}

// ---------------------------------------------------------------------------------------------
// WriteZoneBFSTree -> BFSTreeFile.ReadEach

type FileCase struct {
	Build
	Zone     []uint64 `json:"zone"`
	MaxDepth int      `json:"maxdepth"`
	Stop     int      `json:"stop,omitempty"`
	NoExcl   bool     `json:"noexcl,omitempty"`
}

func genFileCase(t *rapid.T) FileCase {
	maxDepth := rapid.IntRange(0, 3).Draw(t, "maxdepth")
	b, pool := genBuild(t, 6, 9, 1, maxDepth == 0)
	c := FileCase{Build: b, MaxDepth: maxDepth}
	targets := map[uint64]struct{}{}
	for _, op := range b.Ops {
		if op.K == "e" {
			targets[op.T] = struct{}{}
		}
	}
	for _, n := range pool {
		// nodes with inbound edges are likelier zone members (the zone is walked inbound)
		_, hasIn := targets[n]
		if k := rapid.IntRange(0, 5).Draw(t, "zone"); k == 0 || (hasIn && k <= 2) {
			c.Zone = append(c.Zone, n)
		}
	}
	if len(c.Zone) == 0 && len(pool) > 0 {
		c.Zone = []uint64{rapid.SampledFrom(pool).Draw(t, "zone1")}
	}
	if rapid.IntRange(0, 3).Draw(t, "stopping") == 0 {
		c.Stop = rapid.IntRange(1, 3).Draw(t, "stop")
	}
	return c
}

func fileOracle(c FileCase) (evid.Info, error) {
	info := evid.Info{}
	base := modelOf(c.Ops)
	tsv, ok := tsVariants(c.Build, base)
	if !ok {
		return evid.Info{Skip: "triplestore has no exported AddNode"}, nil
	}
	v := tsv[0]
	if len(c.Projs) > 0 {
		v = tsv[len(tsv)-1]
	}
	zone := setOf(c.Zone)
	// WriteZoneBFSTree walks inbound from every zone node and does not descend into the zone
	accept := func(e edge) bool { _, in := zone[e.s]; return !in }
	if c.MaxDepth <= 0 && cyclic(v.m, accept) {
		return evid.Info{Skip: "unbounded walk on a cyclic graph does not terminate (outside the callers' domain)"}, nil
	}
	var want []walk
	for _, z := range sortedKeys(zone) {
		ws, _ := enumerate(v.m, z, false, c.MaxDepth, accept)
		want = append(want, ws...)
	}
	wantKeys := sortedKeysOfWalks(want)

	dir, err := os.MkdirTemp("", "verif-c14-")
	if err != nil {
		return evid.Info{Skip: "cannot create a scratch directory"}, nil
	}
	defer os.RemoveAll(dir)
	zoneSet := graph.NewNodeSet()
	for z := range zone {
		zoneSet.Add(graph.NewNode(graph.ID(z), graph.NewProperties()))
	}
	file, err := container.WriteZoneBFSTree(zoneSet, v.ts, dir, c.MaxDepth)
	if err != nil {
		return info, fmt.Errorf("WriteZoneBFSTree(%s): %v", v.name, err)
	}
	what := fmt.Sprintf("WriteZoneBFSTree(zone=%v, %s, maxDepth=%d)", sortedKeys(zone), v.name, c.MaxDepth)
	if file.NumPaths != uint64(len(want)) {
		return info, fmt.Errorf("%s: NumPaths=%d, enumeration of the edge list gives %d walks %v", what, file.NumPaths, len(want), wantKeys)
	}
	f := featuresOf(c.Build)
	cls := f.classes()
	if !excluded(findingReadEach, "bfsfile", c.NoExcl) {
		var got []walk
		if err := file.ReadEach(context.Background(), func(s *container.Segment) (bool, error) {
			got = append(got, walkOfSegment(s))
			return true, nil
		}); err != nil {
			return info, fmt.Errorf("%s: ReadEach: %v", what, err)
		}
		if gotKeys := sortedKeysOfWalks(got); !equalStrings(gotKeys, wantKeys) {
			return info, fmt.Errorf("%s wrote %d paths; ReadEach delivered %d segments %v, written were %v", what, file.NumPaths, len(gotKeys), gotKeys, wantKeys)
		}
		if c.Stop > 0 {
			calls := 0
			if err := file.ReadEach(context.Background(), func(*container.Segment) (bool, error) { calls++; return calls < c.Stop, nil }); err != nil {
				return info, fmt.Errorf("%s: ReadEach: %v", what, err)
			}
			if w := min(c.Stop, len(want)); calls != w {
				return info, fmt.Errorf("%s: ReadEach delegate returned false on call %d but was called %d times (of %d)", what, c.Stop, calls, len(want))
			}
		}
		cls = append(cls, "readeach")
	}
	if err := file.Remove(); err != nil {
		return info, fmt.Errorf("%s: Remove: %v", what, err)
	}
	lf := false
	for _, w := range want {
		for _, id := range append(append([]uint64{}, w.nodes...), w.edges...) {
			for s := 0; s < 64; s += 8 {
				if b := byte(id >> s); b == 0x0a || b == 0x0d {
					lf = true
				}
			}
		}
	}
	add := func(b bool, s string) {
		if b {
			cls = append(cls, s)
		}
	}
	add(lf, "id-bytes-contain-LF/CR")
	add(len(want) == 0, "paths=0")
	add(len(want) > 0 && len(want) <= 3, "paths=1-3")
	add(len(want) > 3, "paths>3")
	add(len(c.Zone) > 1, "zone>1")
	add(c.MaxDepth == 0, "unbounded-acyclic")
	add(len(c.Projs) > 0, "impl:projection")
	add(len(c.Projs) == 0, "impl:triplestore")
	info.Classes = cls
	info.NonTrivial = f.nonTrivial() && len(want) > 0
	return info, nil
}

func TestC14BFSFile(t *testing.T) {
	evid.Prop(t, "bfsfile", evid.R.N(1500, 5000), genFileCase, fileOracle)
}
