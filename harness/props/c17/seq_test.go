package c17

import (
	"context"
	"fmt"
	"sort"
	"strconv"
	"strings"
	"sync"
	"testing"

	"pgregory.net/rapid"

	"github.com/specterops/dawgs/graph"
	"github.com/specterops/dawgs/graphcache"
	"github.com/specterops/dawgs/ops"
	"github.com/specterops/dawgs/query"
	"github.com/specterops/dawgs/traversal"

	"verif/evid"
	"verif/fakedb"
)

// seqCase: a small stored graph (fakedb), a traversal plan and one of the helpers that execute it.
//
// Plan vocabulary (all of it is handed to the helper under test through its own plan fields):
//
//	Root, Inbound      start node and direction
//	KindFilter         BranchQuery / criteria: 0 none, 1 kind R only, 2 kind S only, 3 R or S
//	MaxDepth           descent filter: a segment deeper than MaxDepth is not descended into (0 = no bound);
//	                   only used with the path-shaped helpers (for the acyclic helpers a path-dependent
//	                   filter makes "the node set of the plan" depend on visiting order)
//	Ban                descent filter: segments that end in this node are not descended into (0 = none)
//	OnlyA              node filter (intermediary / nodes / lightweight-skiplimit): only nodes of kind A count
//	Skip, Limit        skip/limit of the plan (0 = off)
type seqCase struct {
	Helper     string    `json:"helper"`
	NodeKinds  []int     `json:"node_kinds"` // node i+1 has kind A (0) or B (1)
	Edges      []seqEdge `json:"edges"`      // edge i has id i+1
	Root       int       `json:"root"`
	Inbound    bool      `json:"inbound"`
	KindFilter int       `json:"kind_filter"`
	MaxDepth   int       `json:"max_depth"`
	Ban        int       `json:"ban"`
	OnlyA      bool      `json:"only_a"`
	Skip       int       `json:"skip"`
	Limit      int       `json:"limit"`
	Workers    int       `json:"workers"` // lightweight helpers
	Procs      int       `json:"procs"`
	Shuffle    uint64    `json:"shuffle"`         // fakedb delivery order of unordered queries (0 = ascending id)
	Steps      []patStep `json:"steps,omitempty"` // helper "pattern": the chained expansions of traversal.NewPattern()
	// IDs: the stored id of node i+1 (absent = i+1). Ids are 64-bit values; two nodes may agree in their low 32 bits.
	IDs []uint64 `json:"ids,omitempty"`
}

// nodeID / nodeOf translate between the case's node numbers (1..n) and the stored ids.
func (c seqCase) nodeID(n int) uint64 {
	if n >= 1 && n <= len(c.IDs) {
		return c.IDs[n-1]
	}
	return uint64(n)
}

func (c seqCase) nodeOf(id graph.ID) int {
	for n := 1; n <= len(c.NodeKinds); n++ {
		if c.nodeID(n) == uint64(id) {
			return n
		}
	}
	return -1
}

// patStep is one expansion of a traversal pattern.
type patStep struct {
	Inbound bool `json:"inbound"`
	Min     int  `json:"min"`
	Max     int  `json:"max"`  // 0 = unbounded
	Kind    int  `json:"kind"` // 0 none, 1 R, 2 S
}

type seqEdge struct {
	S int `json:"s"`
	E int `json:"e"`
	K int `json:"k"` // 0 = R, 1 = S
}

var seqHelpers = []string{"paths", "intermediary", "nodes", "terminals", "lightweight", "lightweight-skiplimit", "lightweight-unique", "pattern"}

var (
	kindNames = []string{"A", "B"}
	relNames  = []string{"R", "S"}
	relKinds  = []graph.Kind{graph.StringKind("R"), graph.StringKind("S")}
)

func genSeq(t *rapid.T) seqCase {
	c := seqCase{
		Helper:     rapid.SampledFrom(seqHelpers).Draw(t, "helper"),
		Inbound:    rapid.Bool().Draw(t, "inbound"),
		KindFilter: rapid.SampledFrom([]int{0, 0, 1, 2, 3}).Draw(t, "kindFilter"),
		OnlyA:      rapid.Bool().Draw(t, "onlyA"),
		Workers:    rapid.IntRange(1, 4).Draw(t, "workers"),
		Procs:      rapid.SampledFrom([]int{1, 2, 4, 16}).Draw(t, "procs"),
		Shuffle:    uint64(rapid.IntRange(0, 3).Draw(t, "shuffle")),
	}
	if c.Helper == "pattern" {
		c.Workers = rapid.SampledFrom([]int{2, 3, 4, 8}).Draw(t, "pworkers")
		c.Procs = rapid.SampledFrom([]int{1, 2, 4, 16}).Draw(t, "pprocs")
		for i, ns := 0, rapid.IntRange(1, 3).Draw(t, "nsteps"); i < ns; i++ {
			st := patStep{Inbound: c.Inbound, Min: rapid.SampledFrom([]int{1, 1, 1, 0, 2}).Draw(t, "pmin"), Max: rapid.SampledFrom([]int{0, 0, 1, 2, 3}).Draw(t, "pmax"), Kind: rapid.SampledFrom([]int{0, 0, 1, 2}).Draw(t, "pkind")}
			if st.Max != 0 && st.Max < st.Min {
				st.Max = st.Min
			}
			c.Steps = append(c.Steps, st)
		}
	}
	if c.Helper == "lightweight-unique" {
		c.Workers = rapid.SampledFrom([]int{1, 2, 4, 8, 16}).Draw(t, "uworkers")
		c.Procs = rapid.SampledFrom([]int{2, 4, 16, 16}).Draw(t, "uprocs")
		if rapid.IntRange(0, 3).Draw(t, "fanin") != 0 {
			// fan-in: root -> k middle nodes -> one junction -> a tail. The k segments that arrive at the junction are
			// expanded at the same time by different workers and all of them consider the junction's outgoing edges.
			k := rapid.IntRange(2, 24).Draw(t, "fan")
			tail := rapid.IntRange(1, 3).Draw(t, "tail")
			n := 1 + k + 1 + tail
			for i := 0; i < n; i++ {
				c.NodeKinds = append(c.NodeKinds, rapid.IntRange(0, 1).Draw(t, "nodeKind"))
			}
			c.Root = 1
			edge := func(from, to int) {
				e := seqEdge{S: from, E: to, K: 0}
				if c.Inbound {
					e.S, e.E = e.E, e.S
				}
				c.Edges = append(c.Edges, e)
			}
			junction := k + 2
			for i := 0; i < k; i++ {
				edge(1, 2+i)
				edge(2+i, junction)
			}
			for i := 0; i < tail; i++ {
				edge(junction+i, junction+i+1)
			}
			c.KindFilter = 0
			return c
		}
	}
	n := rapid.SampledFrom([]int{1, 2, 3, 4, 4, 5, 5, 6, 6, 7, 7}).Draw(t, "nodes")
	for i := 0; i < n; i++ {
		c.NodeKinds = append(c.NodeKinds, rapid.IntRange(0, 1).Draw(t, "nodeKind"))
	}
	// order[0] is the root; "forward" edges follow the order in traversal direction
	order := rapid.Permutation(seqIota(n)).Draw(t, "order")
	c.Root = order[0]
	acyclicGraph := rapid.IntRange(0, 2).Draw(t, "dag") == 0
	seen := map[seqEdge]bool{}
	add := func(from, to, k int) {
		// from -> to in traversal direction
		e := seqEdge{S: order[from], E: order[to], K: k}
		if c.Inbound {
			e.S, e.E = e.E, e.S
		}
		if !seen[e] { // (start, end, kind) is unique in the stored graph
			seen[e] = true
			c.Edges = append(c.Edges, e)
		}
	}
	for i := 1; i < n; i++ {
		// attach most nodes to something nearer to the root, so that the plan has something to traverse
		if rapid.IntRange(0, 4).Draw(t, "attach") != 0 {
			add(rapid.IntRange(0, i-1).Draw(t, "parent"), i, rapid.SampledFrom([]int{0, 0, 1}).Draw(t, "k"))
		}
	}
	extra := rapid.IntRange(0, 8).Draw(t, "extraEdges")
	if c.Helper == "nodes" && rapid.Bool().Draw(t, "treeOnly") {
		// a tree: every node is a candidate exactly once, so that the size of a skip/limit window is determined
		extra = 0
	}
	for i, ne := 0, extra; i < ne; i++ {
		a, b := rapid.IntRange(0, n-1).Draw(t, "a"), rapid.IntRange(0, n-1).Draw(t, "b")
		if acyclicGraph {
			if a == b {
				continue
			}
			if a > b {
				a, b = b, a
			}
		}
		add(a, b, rapid.IntRange(0, 1).Draw(t, "k"))
	}
	if rapid.IntRange(0, 3).Draw(t, "useBan") == 0 {
		c.Ban = rapid.IntRange(1, n).Draw(t, "ban")
	}
	switch c.Helper {
	case "paths", "lightweight", "lightweight-skiplimit":
		c.MaxDepth = rapid.SampledFrom([]int{0, 0, 1, 2, 3}).Draw(t, "maxDepth")
	case "intermediary":
		c.MaxDepth = rapid.SampledFrom([]int{0, 1, 2, 3, 4}).Draw(t, "maxDepth")
		if c.MaxDepth == 0 && !acyclicGraph {
			c.MaxDepth = 3 // the helper has no cycle check of its own: unbounded plans are only defined on DAGs
		}
	}
	if rapid.IntRange(0, 3).Draw(t, "wideIDs") == 0 {
		// some nodes live in the upper half of the id space, under the low 32 bits of another node
		c.IDs = make([]uint64, n)
		for i := range c.IDs {
			c.IDs[i] = uint64(i + 1)
		}
		for i := range c.IDs {
			if rapid.IntRange(0, 2).Draw(t, "high") == 0 {
				twin := rapid.IntRange(1, n).Draw(t, "twin")
				c.IDs[i] = uint64(twin) + uint64(rapid.SampledFrom([]int{1, 1, 2, 1 << 20}).Draw(t, "highPart"))<<32 + uint64(i)<<40
			}
		}
	}
	if c.Helper != "lightweight" && c.Helper != "intermediary" && rapid.Bool().Draw(t, "useSkipLimit") {
		c.Skip = rapid.IntRange(0, 4).Draw(t, "skip")
		c.Limit = rapid.IntRange(0, 4).Draw(t, "limit")
	}
	return c
}

// ---- reference semantics (plain enumeration over the case) ----

type seqRef struct {
	c   seqCase
	adj map[int][]refStep
}

type refStep struct{ edge, next int }

func newSeqRef(c seqCase) *seqRef {
	r := &seqRef{c: c, adj: map[int][]refStep{}}
	for i, e := range c.Edges {
		if c.KindFilter != 0 && c.KindFilter&(1<<e.K) == 0 {
			continue
		}
		from, to := e.S, e.E
		if c.Inbound {
			from, to = e.E, e.S
		}
		r.adj[from] = append(r.adj[from], refStep{edge: i + 1, next: to})
	}
	return r
}

func (r *seqRef) descentOK(next, depth int) bool {
	return next != r.c.Ban && (r.c.MaxDepth == 0 || depth <= r.c.MaxDepth)
}

func (r *seqRef) counts(node int) bool { return !r.c.OnlyA || r.c.NodeKinds[node-1] == 0 }

func pathKey(edges []int) string {
	parts := make([]string, len(edges))
	for i, e := range edges {
		parts[i] = strconv.Itoa(e)
	}
	return "r/" + strings.Join(parts, "/")
}

const seqPathCap = 4000

// walk enumerates paths from the root. simple: never revisit a node of the path. It calls visit for every path of
// length >= 1 (and for the root path when withRoot) with maximal = no allowed extension exists.
func (r *seqRef) walk(simple, withRoot bool, visit func(edges []int, end int, maximal bool)) (ok bool) {
	count := 0
	var rec func(nodes, edges []int) bool
	rec = func(nodes, edges []int) bool {
		count++
		if count > seqPathCap {
			return false
		}
		cur := nodes[len(nodes)-1]
		ext := 0
		for _, st := range r.adj[cur] {
			if !r.descentOK(st.next, len(edges)+1) || (simple && contains(nodes, st.next)) {
				continue
			}
			ext++
			if !rec(append(nodes[:len(nodes):len(nodes)], st.next), append(edges[:len(edges):len(edges)], st.edge)) {
				return false
			}
		}
		if len(edges) > 0 || withRoot {
			visit(edges, cur, ext == 0)
		}
		return true
	}
	return rec([]int{r.c.Root}, nil)
}

// reach: nodes reachable from the root over allowed edges through allowed nodes (path-independent filters only),
// how many allowed edges lead into each of them from the reachable part, and which of them are sinks.
func (r *seqRef) reach() (reached map[int]bool, inDegree map[int]int, sinks map[int]bool) {
	reached, inDegree, sinks = map[int]bool{}, map[int]int{}, map[int]bool{}
	expanded := map[int]bool{r.c.Root: true}
	queue := []int{r.c.Root}
	for i := 0; i < len(queue); i++ {
		for _, st := range r.adj[queue[i]] {
			if st.next == r.c.Ban {
				continue
			}
			inDegree[st.next]++
			reached[st.next] = true
			if !expanded[st.next] {
				expanded[st.next] = true
				queue = append(queue, st.next)
			}
		}
	}
	for v := range reached {
		out := 0
		for _, st := range r.adj[v] {
			if st.next != r.c.Ban {
				out++
			}
		}
		if out == 0 {
			sinks[v] = true
		}
	}
	return
}

// ---- running the helper under test ----

func (c seqCase) spec() fakedb.Spec {
	g := fakedb.GraphSpec{Name: "g"}
	for i, k := range c.NodeKinds {
		g.Nodes = append(g.Nodes, fakedb.NodeSpec{ID: c.nodeID(i + 1), Kinds: []string{kindNames[k]}})
	}
	for i, e := range c.Edges {
		g.Edges = append(g.Edges, fakedb.EdgeSpec{ID: uint64(i + 1), Start: c.nodeID(e.S), End: c.nodeID(e.E), Kind: relNames[e.K]})
	}
	return fakedb.Spec{Graphs: []fakedb.GraphSpec{g}}
}

func (c seqCase) criteria() graph.Criteria {
	var kinds []graph.Kind
	for k := 0; k < 2; k++ {
		if c.KindFilter&(1<<k) != 0 {
			kinds = append(kinds, relKinds[k])
		}
	}
	if len(kinds) == 0 {
		return nil
	}
	return query.KindIn(query.Relationship(), kinds...)
}

func (c seqCase) direction() graph.Direction {
	if c.Inbound {
		return graph.DirectionInbound
	}
	return graph.DirectionOutbound
}

func (c seqCase) segmentOK(seg *graph.PathSegment) bool {
	return c.nodeOf(seg.Node.ID) != c.Ban && (c.MaxDepth == 0 || seg.Depth() <= c.MaxDepth)
}

func (c seqCase) nodeCounts(n *graph.Node) bool {
	return !c.OnlyA || n.Kinds.ContainsOneOf(graph.StringKind("A"))
}

func graphPathKey(p graph.Path) string {
	edges := make([]int, len(p.Edges))
	for i, e := range p.Edges {
		edges[i] = int(e.ID)
	}
	return pathKey(edges)
}

func sortedKeys(m map[string]int) []string {
	out := make([]string, 0, len(m))
	for k := range m {
		out = append(out, k)
	}
	sort.Strings(out)
	return out
}

func sortedInts(m map[int]bool) []int {
	out := make([]int, 0, len(m))
	for k := range m {
		out = append(out, k)
	}
	sort.Ints(out)
	return out
}

func wantCount(total, skip, limit int) int {
	n := max(0, total-skip)
	if limit > 0 {
		n = min(n, limit)
	}
	return n
}

func seqOracle(c seqCase) (evid.Info, error) {
	// ---- domain ----
	okHelper := false
	for _, h := range seqHelpers {
		okHelper = okHelper || h == c.Helper
	}
	n := len(c.NodeKinds)
	if !okHelper || n == 0 || n > 64 || c.Root < 1 || c.Root > n || c.Skip < 0 || c.Limit < 0 || c.MaxDepth < 0 || c.KindFilter < 0 || c.KindFilter > 3 {
		return evid.Info{Skip: "outside domain"}, nil
	}
	if len(c.IDs) != 0 && len(c.IDs) != n {
		return evid.Info{Skip: "outside domain"}, nil
	}
	ids := map[uint64]bool{}
	for i := 1; i <= n; i++ {
		if ids[c.nodeID(i)] {
			return evid.Info{Skip: "duplicate node id"}, nil
		}
		ids[c.nodeID(i)] = true
	}
	dup := map[seqEdge]bool{}
	for _, e := range c.Edges {
		if e.S < 1 || e.S > n || e.E < 1 || e.E > n || e.K < 0 || e.K > 1 || dup[e] {
			return evid.Info{Skip: "bad edge"}, nil
		}
		dup[e] = true
	}
	for _, k := range c.NodeKinds {
		if k < 0 || k > 1 {
			return evid.Info{Skip: "bad node kind"}, nil
		}
	}
	if c.Helper == "nodes" || c.Helper == "terminals" {
		c.MaxDepth = 0
	}
	if c.Helper == "lightweight" || c.Helper == "intermediary" || c.Helper == "lightweight-unique" || c.Helper == "pattern" {
		c.Skip, c.Limit = 0, 0
	}
	if c.Helper == "pattern" && (len(c.Steps) == 0 || len(c.Steps) > 4 || c.Workers < 1 || c.Workers > 16) {
		return evid.Info{Skip: "outside domain"}, nil
	}
	if c.Helper == "lightweight-unique" {
		c.MaxDepth = 0
	}
	lightweight := strings.HasPrefix(c.Helper, "lightweight")
	if lightweight && (c.Workers < 1 || c.Workers > 16) {
		return evid.Info{Skip: "outside domain"}, nil
	}
	ref := newSeqRef(c)

	// ---- reference result ----
	var (
		superset = map[string]int{} // the plan's paths; with skip/limit: what results must be drawn from
		total    int
	)
	switch c.Helper {
	case "paths", "lightweight":
		if !ref.walk(true, c.Helper == "lightweight", func(edges []int, _ int, maximal bool) {
			if maximal {
				superset[pathKey(edges)]++
			}
		}) {
			return evid.Info{Skip: "more than 4000 paths"}, nil
		}
		total = len(superset)
	case "intermediary":
		if reached, _, _ := ref.reach(); c.MaxDepth == 0 && hasReachableCycle(ref, reached) {
			// the helper has no cycle check of its own: without a depth bound the plan is only defined on DAGs
			return evid.Info{Skip: "intermediary paths: unbounded plan on a cyclic graph is not defined"}, nil
		}
		if !ref.walk(false, false, func(edges []int, end int, _ bool) {
			if ref.counts(end) {
				superset[pathKey(edges)]++
			}
		}) {
			return evid.Info{Skip: "more than 4000 paths"}, nil
		}
		total = len(superset)
	case "lightweight-skiplimit":
		if !ref.walk(true, false, func(edges []int, end int, _ bool) {
			if ref.counts(end) {
				superset[pathKey(edges)]++
			}
		}) {
			return evid.Info{Skip: "more than 4000 paths"}, nil
		}
		total = len(superset)
	}
	reached, inDegree, sinks := ref.reach()

	// ---- run ----
	var (
		gotPaths    []string
		gotNodes    = map[int]bool{}
		admitted    = map[int]int{} // lightweight-unique: edge id -> times handed to the filter's delegate
		patternSeq  []string        // pattern: terminals delivered with one worker
		patternPar  []string        // pattern: terminals delivered with c.Workers workers
		runErr      error
		unsupported []string
		mu          sync.Mutex
	)
	body := func() {
		ctx, cancel := context.WithCancel(context.Background())
		defer cancel()
		var opts []fakedb.Option
		if c.Shuffle != 0 {
			opts = append(opts, fakedb.WithShuffle(c.Shuffle))
		}
		db, err := fakedb.FromSpec(c.spec(), opts...)
		if err != nil {
			runErr = fmt.Errorf("harness: seeding fakedb: %w", err)
			return
		}
		defer func() { unsupported = db.Unsupported() }()
		plan := ops.TraversalPlan{
			Root:      graph.NewNode(graph.ID(c.nodeID(c.Root)), nil, graph.StringKind(kindNames[c.NodeKinds[c.Root-1]])),
			Direction: c.direction(),
			Skip:      c.Skip,
			Limit:     c.Limit,
			DescentFilter: func(_ *ops.TraversalContext, seg *graph.PathSegment) bool {
				return c.segmentOK(seg)
			},
		}
		if crit := c.criteria(); crit != nil {
			plan.BranchQuery = func() graph.Criteria { return c.criteria() }
		}
		collect := func(ps graph.PathSet) {
			for _, p := range ps {
				gotPaths = append(gotPaths, graphPathKey(p))
			}
		}
		switch c.Helper {
		case "paths":
			runErr = db.ReadTransaction(ctx, func(tx graph.Transaction) error {
				ps, err := ops.TraversePaths(tx, plan)
				collect(ps)
				return err
			})
		case "intermediary":
			runErr = db.ReadTransaction(ctx, func(tx graph.Transaction) error {
				ps, err := ops.TraverseIntermediaryPaths(tx, plan, c.nodeCounts)
				collect(ps)
				return err
			})
		case "nodes":
			runErr = db.ReadTransaction(ctx, func(tx graph.Transaction) error {
				ns, err := ops.AcyclicTraverseNodes(tx, plan, c.nodeCounts)
				for id := range ns {
					gotNodes[c.nodeOf(id)] = true
				}
				return err
			})
		case "terminals":
			runErr = db.ReadTransaction(ctx, func(tx graph.Transaction) error {
				ns, err := ops.AcyclicTraverseTerminals(tx, plan)
				for id := range ns {
					gotNodes[c.nodeOf(id)] = true
				}
				return err
			})
		case "lightweight":
			driver := traversal.LightweightDriver(c.direction(), graphcache.New(), c.criteria(),
				func(next *graph.PathSegment) bool { return !next.IsCycle() && c.segmentOK(next) },
				func(terminal *graph.PathSegment) {
					key := graphPathKey(terminal.Path())
					mu.Lock()
					gotPaths = append(gotPaths, key)
					mu.Unlock()
				})
			runErr = traversal.New(db, c.Workers).BreadthFirst(ctx, traversal.Plan{Root: plan.Root, Driver: driver})
		case "pattern":
			// The oracle is the property's own: the pattern driver expanded by ONE worker (a sequential expansion from
			// the root) against the same driver expanded by c.Workers workers.
			for i, workers := range []int{1, c.Workers} {
				pat := traversal.NewPattern()
				for _, st := range c.Steps {
					var crit []graph.Criteria
					if st.Kind != 0 {
						crit = append(crit, query.Kind(query.Relationship(), relKinds[st.Kind-1]))
					}
					if st.Inbound {
						pat = pat.InboundWithDepth(st.Min, st.Max, crit...)
					} else {
						pat = pat.OutboundWithDepth(st.Min, st.Max, crit...)
					}
				}
				sink := &patternSeq
				if i == 1 {
					sink = &patternPar
				}
				driver := pat.Do(func(terminal *graph.PathSegment) error {
					key := graphPathKey(terminal.Path())
					mu.Lock()
					*sink = append(*sink, key)
					mu.Unlock()
					return nil
				})
				if runErr = traversal.New(db, workers).BreadthFirst(ctx, traversal.Plan{Root: plan.Root, Driver: driver}); runErr != nil {
					return
				}
			}
		case "lightweight-unique":
			// the library's own stateful filter: every edge is admitted (handed to the delegate) at most once, whatever
			// the number of workers
			// With several workers the same plan is run a number of times (a fresh filter each): whether two workers
			// meet on one edge is a matter of the schedule. The first run is judged in full, a later one replaces it
			// only when it admitted an edge twice.
			reps := 1
			if c.Workers > 1 {
				reps = 10
			}
			for rep := 0; rep < reps && runErr == nil; rep++ {
				round := map[int]int{}
				filter := traversal.UniquePathSegmentFilter(func(next *graph.PathSegment) bool {
					mu.Lock()
					round[int(next.Edge.ID)]++
					mu.Unlock()
					return c.segmentOK(next)
				})
				driver := traversal.LightweightDriver(c.direction(), graphcache.New(), c.criteria(), filter)
				runErr = traversal.New(db, c.Workers).BreadthFirst(ctx, traversal.Plan{Root: plan.Root, Driver: driver})
				twice := false
				for _, n := range round {
					twice = twice || n > 1
				}
				if rep == 0 || twice {
					admitted = round
				}
				if twice {
					break
				}
			}
		case "lightweight-skiplimit":
			filter := traversal.FilteredSkipLimit(
				func(next *graph.PathSegment) (bool, bool) {
					ok := !next.IsCycle() && c.segmentOK(next)
					return ok && c.nodeCounts(next.Node), ok
				},
				func(next *graph.PathSegment) {
					key := graphPathKey(next.Path())
					mu.Lock()
					gotPaths = append(gotPaths, key)
					mu.Unlock()
				}, c.Skip, c.Limit)
			driver := traversal.LightweightDriver(c.direction(), graphcache.New(), c.criteria(), filter)
			runErr = traversal.New(db, c.Workers).BreadthFirst(ctx, traversal.Plan{Root: plan.Root, Driver: driver})
		}
	}
	var bubbleErr error
	procs := c.Procs
	if !lightweight || (procs != 1 && procs != 2 && procs != 4 && procs != 16) {
		procs = 0
	}
	if procs > 0 {
		withProcs(procs, func() { bubbleErr = bubble(body) })
	} else {
		bubbleErr = bubble(body)
	}
	if bubbleErr != nil {
		return evid.Info{}, fmt.Errorf("%s never returns or leaves goroutines behind: %w", c.Helper, bubbleErr)
	}
	if len(unsupported) > 0 {
		return evid.Info{Skip: "fakedb unsupported: " + unsupported[0]}, nil
	}
	if runErr != nil {
		if strings.HasPrefix(runErr.Error(), "harness:") {
			panic(runErr)
		}
		return evid.Info{}, fmt.Errorf("%s failed on a healthy database: %v", c.Helper, runErr)
	}

	// ---- verdict ----
	limited := c.Skip > 0 || c.Limit > 0
	classes := []string{"helper=" + c.Helper, fmt.Sprintf("limited=%v", limited), fmt.Sprintf("inbound=%v", c.Inbound)}
	switch c.Helper {
	case "paths", "intermediary", "lightweight", "lightweight-skiplimit":
		got := multiset(gotPaths)
		for _, k := range sortedKeys(got) {
			if got[k] > 1 {
				return evid.Info{}, fmt.Errorf("path %s returned %d times", k, got[k])
			}
			if superset[k] == 0 {
				return evid.Info{}, fmt.Errorf("path %s is not a path of the plan (plan has %d: %v)", k, total, head(sortedKeys(superset), 8))
			}
		}
		if want := wantCount(total, c.Skip, c.Limit); len(gotPaths) != want {
			if !limited {
				var missing []string
				for _, k := range sortedKeys(superset) {
					if got[k] == 0 {
						missing = append(missing, k)
					}
				}
				return evid.Info{}, fmt.Errorf("%d of the plan's %d paths missing: %v", len(missing), total, head(missing, 8))
			}
			return evid.Info{}, fmt.Errorf("plan has %d paths, skip=%d limit=%d: want %d results, got %d (%v)", total, c.Skip, c.Limit, want, len(gotPaths), head(sortedKeys(got), 8))
		}
		classes = append(classes, "paths="+bucket(total, 0, 1, 2, 5, 20, 100))
	case "pattern":
		seq, par := multiset(patternSeq), multiset(patternPar)
		for _, k := range sortedKeys(seq) {
			if par[k] != seq[k] {
				return evid.Info{}, fmt.Errorf("pattern %+v: terminal %s delivered %d times by one worker and %d times by %d workers", c.Steps, k, seq[k], par[k], c.Workers)
			}
		}
		for _, k := range sortedKeys(par) {
			if seq[k] == 0 {
				return evid.Info{}, fmt.Errorf("pattern %+v: terminal %s delivered %d times by %d workers and never by one worker", c.Steps, k, par[k], c.Workers)
			}
		}
		total = len(seq)
		classes = append(classes, fmt.Sprintf("steps=%d", len(c.Steps)), "terminals="+bucket(len(patternSeq), 0, 1, 2, 5, 20, 100))
	case "lightweight-unique":
		ids := make([]int, 0, len(admitted))
		for id := range admitted {
			ids = append(ids, id)
		}
		sort.Ints(ids)
		for _, id := range ids {
			if admitted[id] > 1 {
				return evid.Info{}, fmt.Errorf("UniquePathSegmentFilter admitted edge %d %d times with %d workers (a sequential expansion admits every edge at most once)", id, admitted[id], c.Workers)
			}
		}
		// Which edges a plan admits: an edge is considered whenever a segment at its start node is expanded and
		// admitted the first time that does not close a cycle. On a DAG that is every edge whose start node is the
		// root or reachable; with cycles it depends on the visiting order and only "at most once, and reachable" holds.
		wantEdges := map[int]bool{}
		for from, steps := range ref.adj {
			if from != c.Root && !reached[from] {
				continue
			}
			// (an edge into the banned node is still considered and admitted; only the descent stops there)
			for _, st := range steps {
				wantEdges[st.edge] = true
			}
		}
		for _, id := range ids {
			if !wantEdges[id] {
				return evid.Info{}, fmt.Errorf("edge %d admitted but its start node is not reachable under the plan", id)
			}
		}
		if !consideredEdgesCloseCycle(ref, c.Root, wantEdges) && len(ids) != len(wantEdges) {
			return evid.Info{}, fmt.Errorf("acyclic plan with %d edges to consider, %d admitted (%v)", len(wantEdges), len(ids), ids)
		}
		total = len(wantEdges)
		classes = append(classes, "edges="+bucket(len(wantEdges), 0, 1, 2, 5, 20, 100), fmt.Sprintf("procs=%d", c.Procs))
	case "nodes":
		want := map[int]bool{}
		for v := range reached {
			if ref.counts(v) {
				want[v] = true
			}
		}
		rootCounts := ref.counts(c.Root)
		if rootCounts {
			want[c.Root] = true
		}
		for _, v := range sortedInts(gotNodes) {
			if !want[v] {
				return evid.Info{}, fmt.Errorf("node %d returned but the plan does not reach it (or the node filter rejects it); plan's set: %v", v, sortedInts(want))
			}
		}
		if !limited {
			if len(gotNodes) != len(want) {
				return evid.Info{}, fmt.Errorf("node set %v, the plan defines %v", sortedInts(gotNodes), sortedInts(want))
			}
		} else {
			// skip/limit of a node-set helper: the set is drawn from the plan's set; besides the root (which is added
			// unconditionally) it holds at most Limit nodes. How revisits count against skip/limit is not specified.
			others := len(gotNodes)
			if gotNodes[c.Root] && rootCounts {
				others--
			}
			if c.Limit > 0 && others > c.Limit {
				return evid.Info{}, fmt.Errorf("limit %d but %d nodes besides the root returned: %v", c.Limit, others, sortedInts(gotNodes))
			}
			// When every reachable node has exactly one way in (and the root is not reached again) each node is a
			// candidate exactly once: then skip/limit count the nodes that pass the node filter, nothing else, and the
			// size of the result is fixed even though its members depend on the visiting order.
			oneWayIn := !reached[c.Root]
			for v := range reached {
				if inDegree[v] > 1 {
					oneWayIn = false
				}
			}
			if oneWayIn {
				eligible := len(want)
				if rootCounts {
					eligible--
				}
				if wantOthers := wantCount(eligible, c.Skip, c.Limit); others != wantOthers {
					return evid.Info{}, fmt.Errorf("every reachable node is reached once and %d of them pass the node filter; skip=%d limit=%d: want %d nodes besides the root, got %d (%v)", eligible, c.Skip, c.Limit, wantOthers, others, sortedInts(gotNodes))
				}
				classes = append(classes, "limited-node-set-size-fixed")
			}
			if c.Skip == 0 && c.Limit == 0 && len(gotNodes) != len(want) {
				return evid.Info{}, fmt.Errorf("node set %v, the plan defines %v", sortedInts(gotNodes), sortedInts(want))
			}
		}
		classes = append(classes, "nodes="+bucket(len(want), 0, 1, 2, 4))
	case "terminals":
		for _, v := range sortedInts(gotNodes) {
			if !reached[v] {
				return evid.Info{}, fmt.Errorf("terminal %d returned but the plan does not reach it; reachable: %v", v, sortedInts(reached))
			}
		}
		treeShaped := true
		for v := range reached {
			if inDegree[v] > 1 {
				treeShaped = false
			}
		}
		if reached[c.Root] {
			treeShaped = false
		}
		if !limited {
			for _, v := range sortedInts(sinks) {
				if !gotNodes[v] {
					return evid.Info{}, fmt.Errorf("node %d is reachable and has no further edge under the plan, but is not among the terminals %v", v, sortedInts(gotNodes))
				}
			}
			if treeShaped && len(gotNodes) != len(sinks) {
				return evid.Info{}, fmt.Errorf("every reachable node has one way in, so terminals are the sinks %v; got %v", sortedInts(sinks), sortedInts(gotNodes))
			}
			if len(gotNodes) != len(sinks) {
				classes = append(classes, "terminals-include-revisited-non-sinks")
			}
		} else if c.Limit > 0 && len(gotNodes) > c.Limit {
			return evid.Info{}, fmt.Errorf("limit %d but %d terminals returned", c.Limit, len(gotNodes))
		}
		classes = append(classes, fmt.Sprintf("tree-shaped=%v", treeShaped), "sinks="+bucket(len(sinks), 0, 1, 2, 4))
	}
	if lightweight {
		classes = append(classes, fmt.Sprintf("workers=%d", c.Workers))
	}
	return evid.Info{
		NonTrivial: len(reached) >= 2 || total >= 2,
		Classes:    classes,
	}, nil
}

// consideredEdgesCloseCycle: does a walk from the root over the considered edges (banned targets included) ever
// return to a node it has on its path? Only then may the unique-edge filter reject a considered edge as a cycle.
func consideredEdgesCloseCycle(r *seqRef, root int, edges map[int]bool) bool {
	const (
		white = iota
		grey
		black
	)
	colour := map[int]int{}
	var visit func(v int) bool
	visit = func(v int) bool {
		colour[v] = grey
		for _, st := range r.adj[v] {
			if !edges[st.edge] {
				continue
			}
			switch colour[st.next] {
			case grey:
				return true
			case white:
				if visit(st.next) {
					return true
				}
			}
		}
		colour[v] = black
		return false
	}
	return visit(root)
}

func seqIota(n int) []int {
	out := make([]int, n)
	for i := range out {
		out[i] = i + 1
	}
	return out
}

func hasReachableCycle(r *seqRef, reached map[int]bool) bool {
	nodes := map[int]bool{r.c.Root: true}
	for v := range reached {
		nodes[v] = true
	}
	state := map[int]int{}
	var dfs func(v int) bool
	dfs = func(v int) bool {
		state[v] = 1
		for _, st := range r.adj[v] {
			if st.next == r.c.Ban {
				continue
			}
			if state[st.next] == 1 || (state[st.next] == 0 && dfs(st.next)) {
				return true
			}
		}
		state[v] = 2
		return false
	}
	return dfs(r.c.Root)
}

func head(s []string, n int) []string {
	if len(s) > n {
		return append(append([]string{}, s[:n]...), "…")
	}
	return s
}

func TestC17Seq(t *testing.T) {
	curT = t
	evid.Prop(t, "seq", evid.R.N(4000, 25000), genSeq, seqOracle)
}
