package c17

import (
	"context"
	"fmt"
	"testing"
	"time"

	"github.com/specterops/dawgs/util/channels"

	"verif/evid"
)

// "never blocks a writer on a slow reader", far beyond the sizes the generated schedules reach: one writer submits a
// long run of values while nobody reads, then the channel is closed and a reader drains it. Run outside a synctest
// bubble (a bubble makes 70 000 channel operations take minutes); the only use of the clock is a limit that is three
// orders of magnitude above what the unchanged code needs, as the guard against a writer that blocks for ever.
type bulkCase struct {
	N int `json:"n"`
}

const bulkLimit = 3 * time.Minute

func bulkOracle(c bulkCase) (evid.Info, error) {
	if c.N < 1 || c.N > 1<<20 {
		return evid.Info{Skip: "outside domain"}, nil
	}
	ctx, cancel := context.WithCancel(context.Background())
	defer cancel()
	writerC, readerC := channels.BufferedPipe[int](ctx)
	written := make(chan int, 1)
	go func() {
		n := 0
		for ; n < c.N; n++ {
			if !channels.Submit(ctx, writerC, n) {
				break
			}
		}
		written <- n
	}()
	select {
	case n := <-written:
		if n != c.N {
			return evid.Info{}, fmt.Errorf("submit %d of %d was refused although the context is live", n, c.N)
		}
	case <-time.After(bulkLimit):
		return evid.Info{}, fmt.Errorf("a writer submitting %d values with no reader is still blocked after %s: the pipe blocks its writer", c.N, bulkLimit)
	}
	close(writerC)
	drained := make(chan error, 1)
	go func() {
		next := 0
		for v := range readerC {
			if v != next {
				drained <- fmt.Errorf("value %d arrived where %d was expected", v, next)
				return
			}
			next++
		}
		if next != c.N {
			drained <- fmt.Errorf("reader drained to closure and got %d of %d values", next, c.N)
			return
		}
		drained <- nil
	}()
	select {
	case err := <-drained:
		if err != nil {
			return evid.Info{}, err
		}
	case <-time.After(bulkLimit):
		return evid.Info{}, fmt.Errorf("draining %d buffered values did not finish within %s", c.N, bulkLimit)
	}
	return evid.Info{NonTrivial: true, Key: fmt.Sprint(c.N), Classes: []string{fmt.Sprintf("n=%d", c.N)}}, nil
}

func TestC17PipeBulk(t *testing.T) {
	if evid.Register(t, "pipe-bulk", bulkOracle) {
		return
	}
	sizes := []int{1000, 65536, 65537, 70000}
	if evid.R.Thorough() {
		sizes = append(sizes, 131073, 300000)
	}
	for _, n := range sizes {
		if !evid.Case(t, "pipe-bulk", bulkCase{N: n}, bulkOracle) {
			return
		}
	}
}
