package c17

import (
	"context"
	"fmt"
	"runtime"
	"sync"
	"sync/atomic"
	"testing"
	"testing/synctest"
	"time"

	"pgregory.net/rapid"

	"github.com/specterops/dawgs/util/channels"

	"verif/evid"
)

// pipeCase is one schedule for channels.BufferedPipe.
//
// Writers submit their values with channels.Submit(ctx, writerC, v) (the way BreadthFirst does) and stop at
// the first refused submit. Value j of writer w is w*1000+j.
type pipeCase struct {
	Procs   int   `json:"procs"`
	Writers []int `json:"writers"` // values per writer
	// Serial: writer i+1 starts when writer i has finished, so submission order is a total order.
	Serial bool `json:"serial"`
	// Reader: absent (nobody reads until the end action happened) | eager (reads as fast as it can) |
	// slow (sleeps 1 ms of bubble time after every value).
	Reader string `json:"reader"`
	// ReadN: how many values the first reader takes before it stops (cancel ends only; capped by the total).
	ReadN int `json:"read_n"`
	// End:
	//  close-drain   writers finish, writer channel is closed, reader drains to closure; ctx is never cancelled
	//  close-cancel  writers finish, writer channel is closed while values are buffered, then ctx is cancelled
	//  cancel-idle   writers finish, ctx is cancelled (no close)
	//  cancel-racing ctx is cancelled by the reader after ReadN values while writers may still be submitting
	End string `json:"end"`
	// Abandon (cancel ends only): after the cancel nobody reads any more; the pipe goroutine has to end all the
	// same (decided at bubble exit), whatever is still buffered.
	Abandon bool  `json:"abandon"`
	Noise   []int `json:"noise"` // Gosched counts, used round robin
}

var (
	pipeReaders = []string{"absent", "eager", "slow"}
	pipeEnds    = []string{"close-drain", "close-cancel", "cancel-idle", "cancel-racing"}
)

func genPipe(t *rapid.T) pipeCase {
	c := pipeCase{
		Procs:  rapid.SampledFrom([]int{1, 2, 4, 16}).Draw(t, "procs"),
		Serial: rapid.Bool().Draw(t, "serial"),
		Reader: rapid.SampledFrom(pipeReaders).Draw(t, "reader"),
		End:    rapid.SampledFrom(pipeEnds).Draw(t, "end"),
	}
	nw := rapid.SampledFrom([]int{1, 1, 2, 3, 4}).Draw(t, "writers")
	budget := 200
	for w := 0; w < nw; w++ {
		hi := budget
		if hi > 120 {
			hi = 120
		}
		n := 0
		switch rapid.IntRange(0, 3).Draw(t, "sizeClass") {
		case 0:
			n = rapid.IntRange(0, 3).Draw(t, "n")
		case 1:
			n = rapid.IntRange(0, 20).Draw(t, "n")
		default:
			n = rapid.IntRange(0, hi).Draw(t, "n")
		}
		if n > budget {
			n = budget
		}
		budget -= n
		c.Writers = append(c.Writers, n)
	}
	total := 0
	for _, n := range c.Writers {
		total += n
	}
	c.ReadN = rapid.IntRange(0, total).Draw(t, "readN")
	c.Abandon = c.End != "close-drain" && rapid.Bool().Draw(t, "abandon")
	c.Noise = rapid.SliceOfN(rapid.IntRange(0, 3), 1, 8).Draw(t, "noise")
	return c
}

type pipeRun struct {
	c     pipeCase
	noise atomic.Int64
}

func (r *pipeRun) gosched() {
	if len(r.c.Noise) == 0 {
		return
	}
	i := int(r.noise.Add(1)) % len(r.c.Noise)
	for k := 0; k < r.c.Noise[i]; k++ {
		runtime.Gosched()
	}
}

func pipeOracle(c pipeCase) (evid.Info, error) {
	if len(c.Writers) == 0 || len(c.Writers) > 16 {
		return evid.Info{Skip: "bad writer count"}, nil
	}
	total := 0
	for _, n := range c.Writers {
		// (value j of writer w is w*1000+j: several writers need j < 1000; a single writer may submit a long run)
		if n < 0 || (n >= 1000 && len(c.Writers) > 1) || n > 300000 {
			return evid.Info{Skip: "bad value count"}, nil
		}
		total += n
	}
	readN := c.ReadN
	if readN > total {
		readN = total
	}
	if readN < 0 {
		readN = 0
	}
	okReader, okEnd := false, false
	for _, s := range pipeReaders {
		okReader = okReader || s == c.Reader
	}
	for _, s := range pipeEnds {
		okEnd = okEnd || s == c.End
	}
	if !okReader || !okEnd {
		return evid.Info{Skip: "unknown mode"}, nil
	}

	var (
		verdict  error
		received []int   // everything any reader got, in receive order
		accepted []int   // per writer: number of submits that returned true
		closedOK bool    // the reader channel was observed closed at the end
		buffered = false // values were sitting in the pipe when the end action happened
	)
	run := &pipeRun{c: c}

	body := func() {
		ctx, cancel := context.WithCancel(context.Background())
		// close-drain never cancels when all is well: the pipe goroutine has to end because of the close alone,
		// and the bubble exit is what verifies that it did.
		defer func() {
			if c.End != "close-drain" || verdict != nil {
				cancel()
			}
		}()
		writerC, readerC := channels.BufferedPipe[int](ctx)

		var (
			acc      = make([]atomic.Int64, len(c.Writers))
			finished atomic.Int64
			writerWG sync.WaitGroup
		)
		writer := func(w int) {
			defer writerWG.Done()
			defer finished.Add(1)
			for j := 0; j < c.Writers[w]; j++ {
				run.gosched()
				if !channels.Submit(ctx, writerC, w*1000+j) {
					return
				}
				acc[w].Add(1)
			}
		}
		startWriters := func() {
			writerWG.Add(len(c.Writers))
			if c.Serial {
				go func() {
					for w := range c.Writers {
						writer(w)
					}
				}()
			} else {
				for w := range c.Writers {
					go writer(w)
				}
			}
		}

		// read takes up to limit values (limit < 0: until the channel is closed).
		read := func(limit int, slow bool) (vals []int, closed bool) {
			for limit < 0 || len(vals) < limit {
				run.gosched()
				v, ok := <-readerC
				if !ok {
					return vals, true
				}
				vals = append(vals, v)
				if slow {
					time.Sleep(time.Millisecond)
				}
			}
			return vals, false
		}
		type readResult struct {
			vals   []int
			closed bool
		}
		firstC := make(chan readResult, 1)
		slow := c.Reader == "slow"

		switch c.End {
		case "close-drain":
			if c.Reader != "absent" {
				go func() { v, cl := read(-1, slow); firstC <- readResult{v, cl} }()
			}
			startWriters()
			// Nobody may be running any more: with the pipe in between, every writer must be finished
			// no matter what the reader does (it is absent, asleep, or waiting for more values).
			synctest.Wait()
			if int(finished.Load()) != len(c.Writers) {
				verdict = fmt.Errorf("writer blocked: %d of %d writers finished with reader %q (accepted so far %v of %v)",
					finished.Load(), len(c.Writers), c.Reader, loadAll(acc), c.Writers)
				cancel()
				return
			}
			buffered = c.Reader != "eager" && total > 0
			close(writerC)
			if c.Reader == "absent" {
				run.gosched()
				go func() { v, cl := read(-1, false); firstC <- readResult{v, cl} }()
			}
			res := <-firstC
			received, closedOK = res.vals, res.closed
			// ctx is NOT cancelled here (the deferred cancel runs after the verdict): the pipe goroutine must
			// end because of the close alone; readerC being closed is its last action.

		case "close-cancel", "cancel-idle":
			if c.Reader != "absent" {
				go func() { v, cl := read(readN, slow); firstC <- readResult{v, cl} }()
			} else {
				firstC <- readResult{}
			}
			startWriters()
			synctest.Wait()
			if int(finished.Load()) != len(c.Writers) {
				verdict = fmt.Errorf("writer blocked: %d of %d writers finished with reader %q taking %d values (accepted so far %v of %v)",
					finished.Load(), len(c.Writers), c.Reader, readN, loadAll(acc), c.Writers)
				cancel()
				return
			}
			res := <-firstC // a slow reader is still sleeping its way through readN values: bubble time advances
			buffered = len(res.vals) < total
			if c.End == "close-cancel" {
				close(writerC)
				synctest.Wait() // pipe goroutine is now in its flush loop (or done)
			}
			cancel()
			if c.Abandon {
				received, closedOK = res.vals, true
				break
			}
			rest, cl := read(-1, false)
			received, closedOK = append(res.vals, rest...), cl || res.closed

		case "cancel-racing":
			if c.Reader != "absent" {
				go func() {
					v, cl := read(readN, slow)
					cancel()
					firstC <- readResult{v, cl}
				}()
			} else {
				go func() {
					run.gosched()
					cancel()
					firstC <- readResult{}
				}()
			}
			startWriters()
			res := <-firstC
			writerWG.Wait() // every writer must come back: Submit returns false once ctx is done
			inPipe := -len(res.vals)
			for _, n := range loadAll(acc) {
				inPipe += n
			}
			buffered = inPipe > 0
			if c.Abandon {
				received, closedOK = res.vals, true
				break
			}
			rest, cl := read(-1, false)
			received, closedOK = append(res.vals, rest...), cl || res.closed
		}
		writerWG.Wait()
		accepted = loadAll(acc)
	}

	var err error
	withProcs(c.Procs, func() { err = bubble(body) })
	if verdict != nil {
		return evid.Info{}, verdict
	}
	if err != nil {
		return evid.Info{}, fmt.Errorf("goroutine stuck or leaked (end=%s reader=%s): %w", c.End, c.Reader, err)
	}
	if !closedOK {
		return evid.Info{}, fmt.Errorf("reader channel was not closed after %s", c.End)
	}

	// ---- exactly once, in submission order ----
	complete := c.End == "close-drain"
	perWriter := make([][]int, len(c.Writers))
	seen := map[int]bool{}
	for _, v := range received {
		w, j := v/1000, v%1000
		if len(c.Writers) == 1 {
			w, j = 0, v // a single writer's values are not folded
		}
		if w < 0 || w >= len(c.Writers) || j >= c.Writers[w] {
			return evid.Info{}, fmt.Errorf("received value %d that was never submitted", v)
		}
		if seen[v] {
			return evid.Info{}, fmt.Errorf("value %d delivered twice (received %v)", v, received)
		}
		seen[v] = true
		perWriter[w] = append(perWriter[w], j)
	}
	for w, js := range perWriter {
		for i, j := range js {
			if j != i {
				return evid.Info{}, fmt.Errorf("writer %d: value #%d received at position %d of that writer's values (lost or reordered): %v", w, j, i, js)
			}
		}
		if len(js) > accepted[w] {
			return evid.Info{}, fmt.Errorf("writer %d: %d values received but only %d submits were accepted", w, len(js), accepted[w])
		}
		if complete && len(js) != c.Writers[w] {
			return evid.Info{}, fmt.Errorf("writer %d: submitted %d values, writer channel closed, reader drained to closure but got only %d", w, c.Writers[w], len(js))
		}
	}
	if c.End != "cancel-racing" {
		for w, n := range accepted {
			if n != c.Writers[w] {
				return evid.Info{}, fmt.Errorf("writer %d: only %d of %d submits accepted although ctx was live", w, n, c.Writers[w])
			}
		}
	}
	if c.Serial || len(c.Writers) == 1 {
		// total submission order is defined (accepted submits only: a refused Submit submitted nothing):
		// the received sequence must be a prefix of it
		var want []int
		for w, n := range accepted {
			for j := 0; j < n; j++ {
				want = append(want, w*1000+j)
			}
		}
		for i, v := range received {
			if i >= len(want) || want[i] != v {
				return evid.Info{}, fmt.Errorf("order: position %d has %d, submission order says %v (received %v)", i, v, at(want, i), received)
			}
		}
	}

	info := evid.Info{
		NonTrivial: total >= 10 || len(c.Writers) >= 2 || buffered,
		Classes: []string{
			"reader=" + c.Reader, "end=" + c.End, fmt.Sprintf("procs=%d", c.Procs), fmt.Sprintf("writers=%d", len(c.Writers)),
			"values=" + bucket(total, 0, 1, 10, 50, 100), "end+reader=" + c.End + "/" + c.Reader,
		},
	}
	if c.Serial || len(c.Writers) == 1 {
		info.Classes = append(info.Classes, "order=total")
	} else {
		info.Classes = append(info.Classes, "order=per-writer")
	}
	if buffered {
		info.Classes = append(info.Classes, "buffered-at-end")
	}
	if c.Abandon && c.End != "close-drain" {
		info.Classes = append(info.Classes, "abandoned-after-cancel")
		if buffered {
			info.Classes = append(info.Classes, "abandoned-with-buffered-values/"+c.End)
		}
	}
	if !complete {
		info.Classes = append(info.Classes, "delivered-after-cancel="+bucket(len(received)-min(readN, len(received)), 0, 1, 5, 20))
	}
	return info, nil
}

func loadAll(a []atomic.Int64) []int {
	out := make([]int, len(a))
	for i := range a {
		out[i] = int(a[i].Load())
	}
	return out
}

func at(s []int, i int) any {
	if i < len(s) {
		return s[i]
	}
	return "nothing"
}

// bucket labels n by the largest lower bound it reaches.
func bucket(n int, bounds ...int) string {
	label := fmt.Sprintf("<%d", bounds[0])
	for i, b := range bounds {
		if n >= b {
			if i+1 < len(bounds) {
				label = fmt.Sprintf("%d..%d", b, bounds[i+1]-1)
			} else {
				label = fmt.Sprintf(">=%d", b)
			}
		}
	}
	return label
}

func TestC17Pipe(t *testing.T) {
	curT = t
	evid.Prop(t, "pipe", evid.R.N(8000, 40000), genPipe, pipeOracle)
}
