// Package c17 decides property C17: "Parallel traversal delivers every result exactly once and
// always terminates".
//
// Sub-checks:
//
//	pipe  channels.BufferedPipe under generated writer/reader/cancel/close schedules   (pipe_test.go)
//	bfs   traversal.Traversal.BreadthFirst over a generated expansion plan + fault plan (bfs_test.go)
//	seq   the sequential helpers of ops/traversal.go and traversal.LightweightDriver    (seq_test.go,
//	      only when the shared fakedb package is present)
//
// Every concurrent case runs inside a testing/synctest bubble: a goroutine that can never make
// progress again (stuck writer, leaked pipe goroutine, BreadthFirst that never returns, worker
// that never joins) is a deterministic "deadlock" panic of the bubble, not a wall-clock timeout.
package c17

import (
	"bytes"
	"context"
	"fmt"
	"runtime"
	"strconv"
	"strings"
	"testing"
	"testing/synctest"

	"github.com/specterops/dawgs/graph"
	"github.com/specterops/dawgs/util/size"

	"verif/evid"
)

func TestMain(m *testing.M) {
	evid.Main(m, "C17", "exploration",
		"pipe: generated schedule of 1-4 writers (concurrent or one after the other) x 0-200 values x reader {absent, eager, slow} x end {close then drain, close then cancel, cancel when idle, cancel racing the writers} x {drain, abandon} after a cancel; "+
			"non-trivial = at least 10 values or at least 2 writers or a close/cancel that happens while values are still buffered. "+
			"bfs: generated expansion plan (tree / DAG / cyclic with depth bound; branching 0-4; 1-300 segments), workers 1-8, GOMAXPROCS in {1,2,4,16}, "+
			"Gosched noise and ctx-blocking driver calls, fault plan {none, driver error, visitor error, context cancellation, memory limit switched on, fixed memory limit} at the k-th driver call; "+
			"non-trivial = at least 2 workers, or at least 10 segments, or branching of at least 2 somewhere, or a fault injected after at least one expansion. "+
			"seq: stored graph of 1-7 nodes / up to 14 edges (DAG or cyclic, two node kinds, two edge kinds) on fakedb x helper {TraversePaths, TraverseIntermediaryPaths, AcyclicTraverseNodes, AcyclicTraverseTerminals, "+
			"LightweightDriver under BreadthFirst with 1-4 workers, LightweightDriver+FilteredSkipLimit} x direction x kind filter x depth bound x banned node x node filter x skip/limit 0-4; "+
			"non-trivial = the plan reaches at least 2 nodes or defines at least 2 paths. "+
			"distinct = distinct case JSON.",
		"goroutine interleavings are sampled (Go offers no scheduler control): varied by GOMAXPROCS, worker count, Gosched noise and the race detector's own perturbation; not enumerated",
		"termination and goroutine leaks are decided by testing/synctest (durably blocked bubble = failure); a livelock (busy loop that never blocks) would only be caught by the test binary's timeout",
		"'promptly' is decided as 'returns, with every worker joined, without needing any further driver progress'; no bound on the number of segments still expanded after the fault is asserted",
		"the graph.Database used for bfs is a local fake whose ReadTransaction invokes the delegate directly; the Driver is a pure harness function that builds segments with PathSegment.Descend like the DAWGS drivers do",
		"seq runs against harness/fakedb (criteria evaluated by the harness, not by PostgreSQL/Neo4j); AcyclicTraverseTerminals is only required to return every reachable sink and nothing unreachable (exactly the sinks when no node can be reached twice); for the node-set helpers skip/limit is only checked as 'drawn from the plan's set, at most limit'",
	)
}

// curT is the *testing.T of the running Test function; synctest.Test needs one.
var curT *testing.T

// bubble runs f inside a synctest bubble and converts the bubble's deadlock panic (every goroutine
// durably blocked, or goroutines remaining when f returned) into an error. f must not use curT.
func bubble(f func()) (err error) {
	defer func() {
		if p := recover(); p != nil {
			err = fmt.Errorf("synctest bubble: %v\n%s", p, blockedStacks())
		}
	}()
	var inner any
	synctest.Test(curT, func(*testing.T) {
		defer func() { inner = recover() }()
		f()
	})
	if inner != nil {
		panic(inner)
	}
	return nil
}

// blockedStacks returns the stacks of the goroutines of the most recent bubble that sit in DAWGS or harness
// code (diagnostics only; bubbles of earlier failing cases, e.g. from shrinking, stay blocked forever).
func blockedStacks() string {
	buf := make([]byte, 4<<20)
	buf = buf[:runtime.Stack(buf, true)]
	var (
		out    []string
		newest = -1
	)
	for _, g := range bytes.Split(buf, []byte("\n\n")) {
		s := string(g)
		head, _, _ := strings.Cut(s, "\n")
		_, after, ok := strings.Cut(head, "synctest bubble ")
		if !ok || !(strings.Contains(s, "specterops/dawgs") || strings.Contains(s, "props/c17")) || strings.Contains(s, "blockedStacks") {
			continue
		}
		id, err := strconv.Atoi(strings.TrimRight(after, "]:"))
		if err != nil || id < newest {
			continue
		}
		if id > newest {
			newest, out = id, nil
		}
		lines := strings.Split(s, "\n")
		if len(lines) > 9 {
			lines = lines[:9]
		}
		if len(out) < 6 {
			out = append(out, strings.Join(lines, "\n"))
		}
	}
	return strings.Join(out, "\n--\n")
}

// bubbleMates returns the stacks of the OTHER goroutines of the calling goroutine's synctest bubble (the runtime
// labels every goroutine of a bubble with the bubble's id).
func bubbleMates() []string {
	buf := make([]byte, 1<<20)
	buf = buf[:runtime.Stack(buf, true)]
	groups := bytes.Split(buf, []byte("\n\n"))
	if len(groups) == 0 {
		return nil
	}
	head, _, _ := strings.Cut(string(groups[0]), "\n") // the calling goroutine comes first
	_, mine, ok := strings.Cut(head, "synctest bubble ")
	if !ok {
		return nil
	}
	mine = strings.TrimRight(mine, "]:")
	var out []string
	for _, g := range groups[1:] {
		s := string(g)
		h, _, _ := strings.Cut(s, "\n")
		// (the bubble's own plumbing - synctest.Run and the testing goroutine that waits for the root - carries the label too)
		if _, id, ok := strings.Cut(h, "synctest bubble "); ok && strings.TrimRight(id, "]:") == mine && strings.Contains(s, "specterops/dawgs") {
			lines := strings.Split(s, "\n")
			if len(lines) > 11 {
				lines = lines[:11]
			}
			out = append(out, strings.Join(lines, "\n"))
		}
	}
	return out
}

// ---- minimal graph.Database: ReadTransaction invokes the delegate ----

type fakeTx struct {
	graph.Transaction // every other method: nil-interface panic = harness error
	limit             func() size.Size
}

func (t *fakeTx) GraphQueryMemoryLimit() size.Size {
	if t.limit == nil {
		return 0
	}
	return t.limit()
}

type fakeDB struct {
	graph.Database
	limit func() size.Size
}

func (d *fakeDB) ReadTransaction(ctx context.Context, delegate graph.TransactionDelegate, _ ...graph.TransactionOption) error {
	return delegate(&fakeTx{limit: d.limit})
}

func withProcs(n int, f func()) {
	old := runtime.GOMAXPROCS(n)
	defer runtime.GOMAXPROCS(old)
	f()
}
