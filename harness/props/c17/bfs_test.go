package c17

import (
	"context"
	"errors"
	"fmt"
	"runtime"
	"sort"
	"strconv"
	"strings"
	"sync"
	"sync/atomic"
	"testing"
	"testing/synctest"

	"pgregory.net/rapid"

	"github.com/specterops/dawgs/graph"
	"github.com/specterops/dawgs/ops"
	"github.com/specterops/dawgs/traversal"
	"github.com/specterops/dawgs/util/size"

	"verif/evid"
)

// bfsCase: an expansion plan, a worker configuration and a fault plan for Traversal.BreadthFirst.
//
// The plan is a directed graph over plan nodes 0..len(Children)-1 (root = 0). The harness driver, asked to
// expand a segment that ends in plan node v at depth d, returns - when d < MaxDepth - one descendant per entry
// of Children[v] (built with PathSegment.Descend like the DAWGS drivers do; with DropCycles descendants that
// revisit a node of their own path are dropped, as traversal.pattern.Driver does). A segment without
// descendants is a terminal: the driver hands it to the visitor (collectors of traversal/collection.go).
type bfsCase struct {
	Procs      int     `json:"procs"`
	Workers    int     `json:"workers"`
	Shape      string  `json:"shape"` // tree | dag | cyclic (informative; Children decide)
	Children   [][]int `json:"children"`
	MaxDepth   int     `json:"max_depth"`
	DropCycles bool    `json:"drop_cycles"`
	RootKind   string  `json:"root_kind"` // node (Plan.Root) | segment (Plan.RootSegment)
	// Fault: none | driver (k-th driver call returns an error) | visitor (k-th terminal visit returns an error) |
	// cancel (caller's context cancelled inside the k-th driver call; k = 0: before BreadthFirst is called) |
	// memswitch (the transaction's memory limit drops to 1 byte at the k-th driver call) |
	// memfixed (memory limit = path tree size the sequential expansion has after K expansions).
	Fault string `json:"fault"`
	K     int    `json:"k"`
	// CancelThenErr: the cancelling driver call returns ctx.Err() instead of its descendants.
	CancelThenErr bool `json:"cancel_then_err"`
	// Block[i%len]: a driver call that starts after the fault fired waits for its context to end and returns ctx.Err()
	// (a database query that honours cancellation).
	Block []bool `json:"block"`
	Noise []int  `json:"noise"` // Gosched counts per driver call (round robin), before and after building descendants
}

var bfsFaults = []string{"none", "driver", "visitor", "cancel", "memswitch", "memfixed"}

const maxSegments = 300

// ---- reference: sequential expansion of the plan (pure, over ints) ----

type refSeg struct {
	node, depth int
	key         string
	path        []int
	terminal    bool
}

// refExpand returns the segments in breadth-first order, or nil when the plan unfolds to more than limit segments.
func refExpand(c bfsCase, limit int) []refSeg {
	queue := []refSeg{{node: 0, key: "r", path: []int{0}}}
	for i := 0; i < len(queue); i++ {
		s := queue[i]
		n := 0
		if s.depth < c.MaxDepth {
			for idx, ch := range c.Children[s.node] {
				if c.DropCycles && contains(s.path, ch) {
					continue
				}
				n++
				p := append(append(make([]int, 0, len(s.path)+1), s.path...), ch)
				queue = append(queue, refSeg{node: ch, depth: s.depth + 1, key: s.key + "/" + strconv.Itoa(edgeID(s.node, idx)), path: p})
				if len(queue) > limit {
					return nil
				}
			}
		}
		queue[i].terminal = n == 0
	}
	return queue
}

func contains(s []int, v int) bool {
	for _, x := range s {
		if x == v {
			return true
		}
	}
	return false
}

func edgeID(node, idx int) int { return node*8 + idx + 1 }

// ---- generator ----

func genBFS(t *rapid.T) bfsCase {
	c := bfsCase{
		Procs:    rapid.SampledFrom([]int{1, 2, 4, 16}).Draw(t, "procs"),
		Workers:  rapid.IntRange(1, 8).Draw(t, "workers"),
		Shape:    rapid.SampledFrom([]string{"tree", "tree", "dag", "cyclic"}).Draw(t, "shape"),
		RootKind: rapid.SampledFrom([]string{"node", "segment"}).Draw(t, "rootKind"),
		Fault:    rapid.SampledFrom([]string{"none", "none", "driver", "visitor", "cancel", "memswitch", "memfixed"}).Draw(t, "fault"),
	}
	branching := rapid.SampledFrom([][]int{
		{0, 1, 2, 3, 4},
		{0, 2, 3, 4, 4},
		{1, 1, 1, 2},
		{0, 0, 1, 4},
		{2, 3, 4},
	}).Draw(t, "branchProfile")
	br := rapid.SampledFrom(branching)
	switch c.Shape {
	case "tree":
		target := 1
		switch rapid.IntRange(0, 5).Draw(t, "sizeClass") {
		case 0:
			target = rapid.IntRange(1, 9).Draw(t, "n")
		case 1, 2:
			target = rapid.IntRange(10, 60).Draw(t, "n")
		default:
			target = rapid.IntRange(10, maxSegments).Draw(t, "n")
		}
		c.Children = [][]int{nil}
		for v := 0; v < len(c.Children) && len(c.Children) < target; v++ {
			b := br.Draw(t, "b")
			if v == 0 && b == 0 {
				b = rapid.IntRange(0, 4).Draw(t, "rootB")
			}
			for k := 0; k < b && len(c.Children) < target; k++ {
				c.Children[v] = append(c.Children[v], len(c.Children))
				c.Children = append(c.Children, nil)
			}
		}
		c.MaxDepth = rapid.SampledFrom([]int{64, 64, 64, 1, 2, 3, 5}).Draw(t, "maxDepth")
	case "dag":
		n := rapid.IntRange(2, 24).Draw(t, "n")
		c.Children = make([][]int, n)
		for v := 0; v < n-1; v++ {
			b := br.Draw(t, "b")
			if v == 0 && b == 0 {
				b = rapid.IntRange(0, 4).Draw(t, "rootB")
			}
			for k := 0; k < b; k++ {
				c.Children[v] = append(c.Children[v], rapid.IntRange(v+1, n-1).Draw(t, "child"))
			}
		}
		c.MaxDepth = rapid.IntRange(1, 12).Draw(t, "maxDepth")
	default: // cyclic
		n := rapid.IntRange(1, 12).Draw(t, "n")
		c.Children = make([][]int, n)
		for v := 0; v < n; v++ {
			b := br.Draw(t, "b")
			if v == 0 && b == 0 {
				b = rapid.IntRange(0, 4).Draw(t, "rootB")
			}
			for k := 0; k < b; k++ {
				c.Children[v] = append(c.Children[v], rapid.IntRange(0, n-1).Draw(t, "child"))
			}
		}
		c.DropCycles = rapid.Bool().Draw(t, "dropCycles")
		c.MaxDepth = rapid.IntRange(1, 10).Draw(t, "maxDepth")
	}
	// keep the unfolding within 1..300 segments by lowering the depth bound
	ref := refExpand(c, maxSegments)
	for ref == nil {
		c.MaxDepth--
		ref = refExpand(c, maxSegments)
	}
	terminals := 0
	for _, s := range ref {
		if s.terminal {
			terminals++
		}
	}
	// fault position: mostly inside the run, sometimes beyond its end (fault never fires)
	hi := len(ref)
	if c.Fault == "visitor" {
		hi = terminals
	}
	lo := 1
	if c.Fault == "cancel" {
		lo = 0
	}
	if c.Fault == "memfixed" {
		lo = -1
	}
	if c.Fault != "none" {
		switch rapid.IntRange(0, 9).Draw(t, "kClass") {
		case 0:
			c.K = hi + rapid.IntRange(1, 3).Draw(t, "kBeyond")
		case 1, 2:
			c.K = rapid.IntRange(lo, min(hi, 3)).Draw(t, "kEarly")
		default:
			c.K = rapid.IntRange(lo, hi).Draw(t, "k")
		}
		c.CancelThenErr = c.Fault == "cancel" && rapid.Bool().Draw(t, "cancelThenErr")
		c.Block = rapid.SliceOfN(rapid.Bool(), 1, 4).Draw(t, "block")
	}
	c.Noise = rapid.SliceOfN(rapid.IntRange(0, 3), 1, 8).Draw(t, "noise")
	return c
}

// ---- the run ----

var (
	errDriver  = errors.New("c17: injected driver error")
	errVisitor = errors.New("c17: injected visitor error")
	edgeKind   = graph.StringKind("E")
	nodeKind   = graph.StringKind("N")
)

type bfsRun struct {
	c          bfsCase
	nodes      []*graph.Node
	rels       [][]*graph.Relationship
	cancel     context.CancelFunc
	calls      atomic.Int64
	visits     atomic.Int64
	fired      atomic.Bool
	limitOn    atomic.Bool
	fixedLimit size.Size

	mu        sync.Mutex
	expanded  []string
	badSeg    error
	root      *graph.PathSegment // the root segment as the driver saw it
	paths     *traversal.PathCollector
	terminals *traversal.NodeCollector
}

func newBFSRun(c bfsCase) *bfsRun {
	r := &bfsRun{c: c, paths: traversal.NewPathCollector(), terminals: traversal.NewNodeCollector()}
	r.nodes = make([]*graph.Node, len(c.Children))
	r.rels = make([][]*graph.Relationship, len(c.Children))
	for v := range c.Children {
		r.nodes[v] = graph.NewNode(graph.ID(v), nil, nodeKind)
	}
	for v, chs := range c.Children {
		for idx, ch := range chs {
			r.rels[v] = append(r.rels[v], graph.NewRelationship(graph.ID(edgeID(v, idx)), graph.ID(v), graph.ID(ch), nil, edgeKind))
		}
	}
	return r
}

func (r *bfsRun) newPlan() (traversal.Plan, *graph.PathSegment) {
	if r.c.RootKind == "segment" {
		root := graph.NewRootPathSegment(r.nodes[0])
		return traversal.Plan{RootSegment: root}, root
	}
	return traversal.Plan{Root: r.nodes[0]}, nil
}

// segKey identifies a segment by the edge ids from the root, read off the real Trunk chain.
func segKey(seg *graph.PathSegment) string {
	var ids []string
	for cur := seg; cur.Trunk != nil; cur = cur.Trunk {
		ids = append(ids, strconv.FormatUint(cur.Edge.ID.Uint64(), 10))
	}
	ids = append(ids, "r")
	for i, j := 0, len(ids)-1; i < j; i, j = i+1, j-1 {
		ids[i], ids[j] = ids[j], ids[i]
	}
	return strings.Join(ids, "/")
}

func (r *bfsRun) gosched(call int64, phase int) {
	if len(r.c.Noise) == 0 {
		return
	}
	n := r.c.Noise[(int(call)*2+phase)%len(r.c.Noise)]
	for i := 0; i < n; i++ {
		runtime.Gosched()
	}
}

// expand is the pure expansion step shared by the parallel driver and the sequential size reference.
func (r *bfsRun) expand(seg *graph.PathSegment) []*graph.PathSegment {
	var out []*graph.PathSegment
	if seg.Depth() < r.c.MaxDepth {
		v := int(seg.Node.ID)
		for idx, ch := range r.c.Children[v] {
			next := seg.Descend(r.nodes[ch], r.rels[v][idx])
			if r.c.DropCycles && next.IsCycle() {
				continue
			}
			out = append(out, next)
		}
	}
	return out
}

func (r *bfsRun) driver(ctx context.Context, tx graph.Transaction, seg *graph.PathSegment) ([]*graph.PathSegment, error) {
	call := r.calls.Add(1)
	key := segKey(seg)
	r.mu.Lock()
	r.expanded = append(r.expanded, key)
	if seg.Trunk == nil {
		r.root = seg
	}
	if seg.Node == nil || int(seg.Node.ID) >= len(r.nodes) || seg.Node != r.nodes[seg.Node.ID] {
		r.badSeg = fmt.Errorf("driver received a segment with a foreign node: %s", key)
	}
	r.mu.Unlock()
	r.gosched(call, 0)

	faultHere := r.c.Fault != "none" && r.c.Fault != "visitor" && r.c.Fault != "memfixed" && int(call) == r.c.K
	if !faultHere && r.fired.Load() && len(r.c.Block) > 0 && r.c.Block[int(call)%len(r.c.Block)] {
		<-ctx.Done()
		return nil, ctx.Err()
	}
	if faultHere {
		switch r.c.Fault {
		case "driver":
			r.fired.Store(true)
			return nil, errDriver
		case "cancel":
			r.cancel()
			r.fired.Store(true)
			if r.c.CancelThenErr {
				return nil, ctx.Err()
			}
		}
	}

	out := r.expand(seg)
	r.gosched(call, 1)
	if len(out) == 0 {
		visit := r.visits.Add(1)
		if r.c.Fault == "visitor" && int(visit) == r.c.K {
			r.fired.Store(true)
			return nil, errVisitor
		}
		r.paths.Add(seg.Path())
		r.terminals.Collect(seg)
	}
	return out, nil
}

func (r *bfsRun) memoryLimit() size.Size {
	switch r.c.Fault {
	case "memswitch":
		// the switch is the very instant the K-th driver call is counted, so that "checked before the switch"
		// and "call number" are one order
		if r.calls.Load() >= int64(r.c.K) {
			r.limitOn.Store(true)
			return 1
		}
	case "memfixed":
		return r.fixedLimit
	}
	return 0
}

// sequentialSizes expands the plan one segment at a time in breadth-first order on a fresh path tree and returns,
// for i = 0..n, the path tree size a memory-limit check sees before the (i+1)-th expansion (sizes[n] = final size).
func sequentialSizes(c bfsCase) []size.Size {
	r := newBFSRun(c)
	plan, _ := r.newPlan()
	var tree graph.Tree
	if plan.Root != nil {
		tree = graph.NewTree(plan.Root)
	} else {
		tree = graph.Tree{Root: plan.RootSegment}
	}
	var sizes []size.Size
	queue := []*graph.PathSegment{tree.Root}
	for i := 0; i < len(queue); i++ {
		sizes = append(sizes, tree.SizeOf())
		queue = append(queue, r.expand(queue[i])...)
	}
	return append(sizes, tree.SizeOf())
}

func multiset(keys []string) map[string]int {
	m := map[string]int{}
	for _, k := range keys {
		m[k]++
	}
	return m
}

func bfsOracle(c bfsCase) (evid.Info, error) {
	// ---- domain ----
	if c.Workers < 1 || c.Workers > 64 || len(c.Children) == 0 || c.MaxDepth < 0 {
		return evid.Info{Skip: "outside domain"}, nil
	}
	okFault := false
	for _, f := range bfsFaults {
		okFault = okFault || f == c.Fault
	}
	if !okFault || (c.RootKind != "node" && c.RootKind != "segment") {
		return evid.Info{Skip: "unknown mode"}, nil
	}
	maxBranch := 0
	for _, chs := range c.Children {
		if len(chs) > 7 {
			return evid.Info{Skip: "branching too large for edge ids"}, nil
		}
		maxBranch = max(maxBranch, len(chs))
		for _, ch := range chs {
			if ch < 0 || ch >= len(c.Children) {
				return evid.Info{Skip: "child out of range"}, nil
			}
		}
	}
	ref := refExpand(c, 20000)
	if ref == nil {
		return evid.Info{Skip: "plan unfolds to more than 20000 segments"}, nil
	}
	var (
		refKeys      []string
		refTerminals []string
	)
	for _, s := range ref {
		refKeys = append(refKeys, s.key)
		if s.terminal {
			refTerminals = append(refTerminals, s.key)
		}
	}
	n := len(ref)
	seqSizes := sequentialSizes(c)
	if len(seqSizes) != n+1 {
		return evid.Info{}, fmt.Errorf("harness: sequential driver expansion has %d segments, plan reference has %d", len(seqSizes)-1, n)
	}

	// ---- run ----
	run := newBFSRun(c)
	if c.Fault == "memfixed" {
		run.fixedLimit = 1 // K < 0: below even the empty tree
		if c.K >= 0 {
			run.fixedLimit = max(seqSizes[min(c.K, n)], 1)
		}
	}
	var (
		retErr   error
		finished bool
	)
	// The caller's context outlives the call: it is only cancelled after the bubble has ended (unless cancelling it is
	// the injected fault). A goroutine of the traversal that waits for the CALLER's context instead of the traversal's
	// own is then still blocked when the bubble's root returns, which the bubble reports.
	leftBehind, leftStacks := 0, ""
	body := func() {
		ctx, cancel := context.WithCancel(context.Background())
		defer cancel()
		// The caller's context outlives the call. Once BreadthFirst has returned and everything it started has come
		// to rest, no goroutine may be left: one that waits for the CALLER's context (instead of the traversal's own)
		// would only end with the defer above. Counted before the caller's context is cancelled.
		defer func() {
			// (every faulted run, and a third of the unfaulted ones: the stack dump is the expensive part of a case)
			if finished && c.Fault != "cancel" && (c.Fault != "none" || len(c.Children)%3 == 0) {
				synctest.Wait()
				if mates := bubbleMates(); len(mates) > 0 {
					leftBehind, leftStacks = len(mates), strings.Join(mates, "\n--\n")
				}
			}
		}()
		run.cancel = cancel
		if c.Fault == "cancel" && c.K == 0 {
			cancel()
			run.fired.Store(true)
		}
		plan, _ := run.newPlan()
		plan.Driver = run.driver
		db := &fakeDB{limit: run.memoryLimit}
		retErr = traversal.New(db, c.Workers).BreadthFirst(ctx, plan)
		finished = true
	}
	var bubbleErr error
	withProcs(c.Procs, func() { bubbleErr = bubble(body) })
	if bubbleErr != nil {
		what := "BreadthFirst returned but goroutines it started never end"
		if !finished {
			what = "BreadthFirst never returns"
		}
		return evid.Info{}, fmt.Errorf("%s (workers=%d fault=%s k=%d, %d segments in plan): %w", what, c.Workers, c.Fault, c.K, n, bubbleErr)
	}
	if leftBehind > 0 {
		return evid.Info{}, fmt.Errorf("BreadthFirst returned (%v) and left %d goroutine(s) behind that only end when the CALLER's context is cancelled (workers=%d fault=%s k=%d)\n%s", retErr, leftBehind, c.Workers, c.Fault, c.K, leftStacks)
	}
	if run.badSeg != nil {
		return evid.Info{}, run.badSeg
	}

	// ---- none lost, none duplicated ----
	got, want := multiset(run.expanded), multiset(refKeys)
	for k, cnt := range got {
		if want[k] == 0 {
			return evid.Info{}, fmt.Errorf("driver was asked to expand %s, which the sequential expansion never yields", k)
		}
		if cnt > want[k] {
			return evid.Info{}, fmt.Errorf("segment %s expanded %d times (sequential expansion: %d)", k, cnt, want[k])
		}
	}
	complete := len(run.expanded) == n
	missing := func() string {
		var miss []string
		for k, cnt := range want {
			if got[k] < cnt {
				miss = append(miss, k)
			}
		}
		sort.Strings(miss)
		if len(miss) > 5 {
			miss = append(miss[:5], "…")
		}
		return fmt.Sprintf("%d of %d segments never expanded, e.g. %v", n-len(run.expanded), n, miss)
	}

	// ---- return value ----
	calls := int(run.calls.Load())
	fired := run.fired.Load()
	outcome := "complete"
	switch c.Fault {
	case "none":
		if retErr != nil {
			return evid.Info{}, fmt.Errorf("no fault injected but BreadthFirst returned %v", retErr)
		}
	case "driver", "visitor":
		injected := errDriver
		if c.Fault == "visitor" {
			injected = errVisitor
		}
		if fired {
			outcome = "error"
			if !errors.Is(retErr, injected) {
				return evid.Info{}, fmt.Errorf("%s error injected at call %d but BreadthFirst returned %v", c.Fault, c.K, retErr)
			}
		} else if retErr != nil {
			return evid.Info{}, fmt.Errorf("fault never fired but BreadthFirst returned %v", retErr)
		}
	case "cancel":
		if retErr != nil && !errors.Is(retErr, context.Canceled) {
			return evid.Info{}, fmt.Errorf("context cancelled at call %d; BreadthFirst returned %v (neither nil nor the context's error)", c.K, retErr)
		}
		if fired {
			outcome = "cancelled"
			if retErr != nil {
				outcome = "cancelled-ctxerr"
			}
		}
	case "memswitch":
		if retErr != nil {
			outcome = "error"
			if !errors.Is(retErr, ops.ErrGraphQueryMemoryLimit) {
				return evid.Info{}, fmt.Errorf("memory limit dropped at call %d but BreadthFirst returned %v", c.K, retErr)
			}
			if calls < c.K {
				return evid.Info{}, fmt.Errorf("memory-limit error although the limit was 0 (unlimited) throughout: %v", retErr)
			}
		} else if n > c.K+c.Workers-1 {
			// at most workers-1 segments can be between their limit check and their driver call when the limit drops
			return evid.Info{}, fmt.Errorf("memory limit of 1 byte in force from driver call %d on, %d segments, %d workers: BreadthFirst returned nil after %d driver calls", c.K, n, c.Workers, calls)
		}
	case "memfixed":
		limit := run.fixedLimit
		if retErr != nil {
			outcome = "error"
			if !errors.Is(retErr, ops.ErrGraphQueryMemoryLimit) {
				return evid.Info{}, fmt.Errorf("memory limit %d set but BreadthFirst returned %v", limit, retErr)
			}
			if seqSizes[n] <= limit {
				return evid.Info{}, fmt.Errorf("memory-limit error with limit %d although the complete path tree measures %d", limit, seqSizes[n])
			}
		}
		// first check (root, nothing expanded) is deterministic for any worker count
		if seqSizes[0] > limit && (retErr == nil || calls != 0) {
			return evid.Info{}, fmt.Errorf("limit %d is below the initial tree size %d: want memory-limit error before any expansion, got err=%v after %d driver calls", limit, seqSizes[0], retErr, calls)
		}
		if c.Workers == 1 {
			// one worker: breadth-first FIFO order, so the failing check is known exactly
			wantCalls := n
			for i := 0; i < n; i++ {
				if seqSizes[i] > limit {
					wantCalls = i
					break
				}
			}
			if calls != wantCalls || (wantCalls < n) != (retErr != nil) {
				return evid.Info{}, fmt.Errorf("1 worker, limit %d: sequential accounting says the check before expansion #%d fails (n=%d); got %d driver calls, err=%v", limit, wantCalls+1, n, calls, retErr)
			}
			for i, k := range run.expanded {
				if k != refKeys[i] {
					return evid.Info{}, fmt.Errorf("1 worker: expansion #%d was %s, breadth-first order says %s", i+1, k, refKeys[i])
				}
			}
		}
	}
	if outcome == "complete" {
		if retErr != nil {
			return evid.Info{}, fmt.Errorf("harness: complete outcome with error %v", retErr)
		}
		if !complete {
			return evid.Info{}, fmt.Errorf("BreadthFirst returned nil but %s", missing())
		}
		// results delivered through the collectors: exactly the terminals of the sequential expansion
		var gotTerm []string
		for _, p := range run.paths.Paths {
			ids := []string{"r"}
			for _, e := range p.Edges {
				ids = append(ids, strconv.FormatUint(e.ID.Uint64(), 10))
			}
			gotTerm = append(gotTerm, strings.Join(ids, "/"))
		}
		// PathSet.AddPath is not used by PathCollector.Add, so the zero-length root path is kept too
		gt, wt := multiset(gotTerm), multiset(refTerminals)
		if len(gotTerm) != len(refTerminals) {
			return evid.Info{}, fmt.Errorf("collector holds %d terminal paths, sequential expansion has %d", len(gotTerm), len(refTerminals))
		}
		for k, cnt := range wt {
			if gt[k] != cnt {
				return evid.Info{}, fmt.Errorf("terminal path %s collected %d times, want %d", k, gt[k], cnt)
			}
		}
		wantNodes := map[int]bool{}
		for _, s := range ref {
			if s.terminal {
				wantNodes[s.node] = true
			}
		}
		if run.terminals.Nodes.Len() != len(wantNodes) {
			return evid.Info{}, fmt.Errorf("node collector holds %d terminal nodes, want %d", run.terminals.Nodes.Len(), len(wantNodes))
		}
		// the shared size estimate: every Descend of every worker must be accounted for
		if run.root != nil {
			if gotSize := (graph.Tree{Root: run.root}).SizeOf(); gotSize != seqSizes[n] {
				return evid.Info{}, fmt.Errorf("path tree size estimate after the traversal is %d, the same expansions done sequentially give %d (update lost between workers)", gotSize, seqSizes[n])
			}
		}
	}

	// ---- classes ----
	faultAfterExpansion := false
	switch c.Fault {
	case "driver", "cancel", "memswitch":
		faultAfterExpansion = c.K >= 2 && c.K <= n && (fired || run.limitOn.Load() || calls >= c.K)
	case "visitor":
		faultAfterExpansion = fired && calls >= 2
	case "memfixed":
		faultAfterExpansion = outcome == "error" && calls >= 1
	}
	info := evid.Info{
		NonTrivial: c.Workers >= 2 || n >= 10 || maxBranch >= 2 || faultAfterExpansion,
		Classes: []string{
			"shape=" + c.Shape, "fault=" + c.Fault, "outcome=" + c.Fault + "/" + outcome,
			fmt.Sprintf("workers=%d", c.Workers), fmt.Sprintf("procs=%d", c.Procs),
			"segments=" + bucket(n, 1, 2, 10, 50, 150), fmt.Sprintf("maxBranch=%d", maxBranch), "root=" + c.RootKind,
		},
	}
	if c.Workers >= 2 && n >= 10 && maxBranch >= 2 {
		info.Classes = append(info.Classes, "parallel-wide")
	}
	if outcome != "complete" {
		info.Classes = append(info.Classes, "expanded-after-fault="+bucket(max(calls-c.K, 0), 0, 1, 4, 16))
		if complete {
			info.Classes = append(info.Classes, "fault-but-all-expanded")
		}
	}
	if c.DropCycles {
		info.Classes = append(info.Classes, "drop-cycles")
	}
	return info, nil
}

func TestC17BFS(t *testing.T) {
	curT = t
	evid.Prop(t, "bfs", evid.R.N(10000, 60000), genBFS, bfsOracle)
}
