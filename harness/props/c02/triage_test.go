package c02

import (
	"encoding/json"
	"fmt"
	"os"
	"path/filepath"
	"sort"
	"strings"
	"testing"

	"pgregory.net/rapid"

	"verif/gmodel"
	"verif/qcase"
	"verif/xlate"
)

// TestC02Triage is a development aid (VERIF_TRIAGE=1|short): run many cases, do not stop at the first
// disagreement, cluster the disagreements and skips.
func TestC02Triage(t *testing.T) {
	if os.Getenv("VERIF_TRIAGE") == "" {
		t.Skip("development aid")
	}
	type ex struct {
		n    int
		text string
		c    qcase.Case
	}
	fails := map[string]*ex{}
	skips := map[string]int{}
	classes := map[string]int{}
	total, ok, nontrivial := 0, 0, 0
	rapid.Check(t, func(rt *rapid.T) {
		c := genCase(rt)
		info, err := oracle(c)
		total++
		if err != nil {
			msg := err.Error()
			first := strings.SplitN(msg, "\n", 3)
			sig := first[0]
			if i := strings.Index(sig, "\""); i > 0 {
				sig = sig[:i]
			}
			if len(first) > 1 {
				sig += " | " + strings.Map(func(r rune) rune {
					if r >= '0' && r <= '9' {
						return '#'
					}
					return r
				}, strings.TrimSpace(first[1]))
			}
			key := sig + " | " + strings.Join(info.Classes, ",")
			if e := fails[key]; e == nil {
				fails[key] = &ex{1, msg, c}
			} else {
				e.n++
				if len(c.Query) < len(e.c.Query) {
					e.text, e.c = msg, c
				}
			}
			return
		}
		if info.Skip != "" {
			skips[info.Skip]++
			return
		}
		ok++
		if info.NonTrivial {
			nontrivial++
		}
		for _, cl := range info.Classes {
			classes[cl]++
		}
	})
	t.Logf("total %d agreed %d nontrivial %d", total, ok, nontrivial)
	var sk []string
	for k, v := range skips {
		sk = append(sk, fmt.Sprintf("%5d %s", v, k))
	}
	sort.Sort(sort.Reverse(sort.StringSlice(sk)))
	for _, s := range sk {
		t.Log("skip ", s)
	}
	var cls []string
	for k, v := range classes {
		cls = append(cls, fmt.Sprintf("%5d %s", v, k))
	}
	sort.Sort(sort.Reverse(sort.StringSlice(cls)))
	for _, s := range cls {
		t.Log("class ", s)
	}
	type kv struct {
		k string
		e *ex
	}
	var fl []kv
	for k, e := range fails {
		fl = append(fl, kv{k, e})
	}
	sort.Slice(fl, func(i, j int) bool {
		if fl[i].e.n != fl[j].e.n {
			return fl[i].e.n > fl[j].e.n
		}
		return fl[i].k < fl[j].k
	})
	outDir := os.Getenv("VERIF_TRIAGE_OUT")
	if outDir != "" {
		_ = os.MkdirAll(outDir, 0o755)
	}
	for i, f := range fl {
		if i >= 80 {
			break
		}
		c := minimiseGraph(f.e.c)
		_, err := oracle(c)
		text := f.e.text
		if err != nil {
			text = err.Error()
		}
		if outDir != "" {
			b, _ := json.MarshalIndent(c, "", " ")
			_ = os.WriteFile(filepath.Join(outDir, fmt.Sprintf("f%03d.json", i)), b, 0o644)
		}
		g, _ := json.Marshal(c.Graph)
		if model, err := xlate.Parse(c.Query); err == nil {
			shape := qcase.Analyse(c, model)
			var hits []string
			for _, fd := range qcase.Findings {
				if fd.Match(shape) {
					hits = append(hits, fd.Slug)
				}
			}
			t.Logf("  #%d matches predicates: %v", i, hits)
		}
		if os.Getenv("VERIF_TRIAGE") == "short" {
			lines := strings.SplitN(text, "\n", 3)
			second := ""
			if len(lines) > 1 {
				second = strings.TrimSpace(lines[1])
			}
			t.Logf("FAIL #%d x%d [%s]\n    %s\n    %s\n    graph: %s", i, f.e.n, f.k, lines[0], second, g)
		} else {
			t.Logf("FAIL #%d x%d [%s]\n    %s\n      graph: %s", i, f.e.n, f.k, text, g)
		}
	}
	t.Logf("%d failure clusters", len(fl))
}

func minimiseGraph(c qcase.Case) qcase.Case {
	failing := func(g gmodel.Graph) bool {
		cc := c
		cc.Graph = g
		_, err := oracle(cc)
		return err != nil
	}
	g := c.Graph
	for changed := true; changed; {
		changed = false
		for i := 0; i < len(g.Edges); i++ {
			ng := g
			ng.Edges = append(append([]gmodel.Edge{}, g.Edges[:i]...), g.Edges[i+1:]...)
			if failing(ng) {
				g, changed = ng, true
				i--
			}
		}
		for i := 0; i < len(g.Nodes); i++ {
			id := g.Nodes[i].ID
			ng := g
			ng.Nodes = append(append([]gmodel.Node{}, g.Nodes[:i]...), g.Nodes[i+1:]...)
			ng.Edges = nil
			for _, e := range g.Edges {
				if e.Start != id && e.End != id {
					ng.Edges = append(ng.Edges, e)
				}
			}
			if failing(ng) {
				g, changed = ng, true
				i--
			}
		}
	}
	c.Graph = g
	return c
}

// TestC02One (development aid): VERIF_CASE=<file.json> prints both SQL texts, both results and the verdict.
func TestC02One(t *testing.T) {
	file := os.Getenv("VERIF_CASE")
	if file == "" {
		t.Skip("development aid")
	}
	raw, err := os.ReadFile(file)
	if err != nil {
		t.Fatal(err)
	}
	var c qcase.Case
	if err := json.Unmarshal(raw, &c); err != nil {
		t.Fatal(err)
	}
	if q := os.Getenv("VERIF_QUERY"); q != "" {
		c.Query = q
	}
	model, err := xlate.Parse(c.Query)
	if err != nil {
		t.Fatalf("parse: %v", err)
	}
	mapper := xlate.FixedMapper(c.AllKinds()...)
	optRes, errOpt := xlate.TranslateWith(model, c.Params, mapper)
	unopt, errUn := translateWithPlan(noOptimisationPlan(model), c.Params, mapper)
	t.Logf("query: %s\noptimised (%v):   %s\nunoptimised (%v): %s", c.Query, errOpt, optRes.SQL, errUn, unopt.sql)
	if errOpt == nil {
		for _, l := range optRes.Raw.Optimization.Lowerings {
			t.Logf("  lowering: %s", l.Name)
		}
		for _, r := range optRes.Raw.Optimization.Rules {
			t.Logf("  rule: %s applied=%v", r.Name, r.Applied)
		}
	}
	info, err := oracle(c)
	t.Logf("verdict: skip=%q classes=%v err=%v", info.Skip, info.Classes, err)
}
