// C02 — query optimisation never changes what a translated query returns.
package c02

import (
	"context"
	"errors"
	"fmt"
	"os"
	"reflect"
	"sort"
	"strings"
	"sync"
	"testing"

	"github.com/specterops/dawgs/cypher/models/cypher"
	"github.com/specterops/dawgs/cypher/models/pgsql"
	"github.com/specterops/dawgs/cypher/models/pgsql/optimize"
	"github.com/specterops/dawgs/cypher/models/pgsql/translate"
	"pgregory.net/rapid"

	"verif/evid"
	"verif/gen/cy"
	"verif/gen/plant"
	"verif/gmodel"
	"verif/pgsim"
	"verif/qcase"
	"verif/refcypher"
	"verif/xlate"
)

func TestMain(m *testing.M) {
	evid.Main(m, "C02", "translation_validation",
		"(graph, query, parameters) triples as in C01, half of them from templates shaped like what the lowerings look for (multi-pattern MATCH with anchors, inbound steps, LIMIT with/without DISTINCT and ORDER, count aggregates, exact ranges, suffix patterns after expansions, collect + IN, quantifiers over relationships(p), path functions). Each query is translated twice by DAWGS - normally, and through the verif hook translate.TranslateWithPlan with a plan that carries only a copy of the query (no rewrite rule, empty lowering plan) - and both SQL texts are executed by pgsim on the same graph; the two results must agree as far as openCypher determines the result (sequence / bag / bag modulo list order / row count; determinacy from refcypher as in C01). Additionally refcypher(optimize.Optimize(q).Query) must agree with refcypher(q) (a pattern part marked PathDirectionReversed binds its path in the original order). Thorough: per-lowering ablation (a plan with exactly one lowering class kept vs none). Shapes of listed, still open defects are counted as excluded. Non-trivial = at least one lowering applied or rewrite rule fired and the two SQL texts differ; distinct by (query, graph).",
		"pgsim and refcypher as in C01; run-time evaluation errors on either side make a case inconclusive (PostgreSQL does not fix evaluation order, a cast error under one plan only is not a verdict); SQL that PostgreSQL rejects statically on one side only is counted (class only-optimised-static-error / only-unoptimised-static-error) and left to C03, which judges static validity",
		"hook H1 translate.TranslateWithPlan mirrors translate.Translate step for step (build tag verif)",
		"the shortest-path lowerings (ShortestPathStrategySelection, ShortestPathFilterMaterialization) are not exercised: pgsim does not execute the plpgsql shortest-path harness")
}

// genCase: as in C01, up to four pairs are drawn and the first one outside every open exclusion is used.
func genCase(t *rapid.T) qcase.Case {
	var c qcase.Case
	for attempt := 0; attempt < 4; attempt++ {
		g := cy.Graph(t)
		o := cy.DefaultOptions()
		o.Bias = "lowerings"
		q := cy.Generate(t, o)
		for _, f := range q.Features {
			if f == "template-5" && rapid.IntRange(0, 2).Draw(t, "ranked-graph") != 0 {
				// a ranking query: a graph on which the counts per source differ pairwise
				g = cy.RankedGraph(t)
			}
		}
		c = qcase.Case{Graph: g, Query: q.Text, Params: q.Params, Features: q.Features}
		model, err := xlate.Parse(c.Query)
		if err == nil && rapid.IntRange(0, 2).Draw(t, "plant") != 0 {
			// two cases in three: the graph is extended so that the query's patterns have a match (gen/plant)
			c.Graph = plant.Plant(t, c.Graph, model, c.Params, cy.EdgeKinds, cy.Props)
			c.Features = append(c.Features, "planted")
		}
		if err != nil {
			break
		}
		if slug, _ := excluded(c, model); slug == "" {
			break
		}
	}
	return c
}

// excluded: the open listed finding that keeps the case from being evaluated ("" if none); referenceBaseline is set
// for the one listed shape that is evaluated against the reference instead of the unoptimised SQL.
func excluded(c qcase.Case, model *cypher.RegularQuery) (slug string, referenceBaseline bool) {
	slug = qcase.ExcludedBy(c, model, findingOpen)
	if slug == rejoinsBoundNode && qcase.ExcludedBy(c, model, func(s string) bool { return s != rejoinsBoundNode && findingOpen(s) }) == "" &&
		qcase.ExcludedBy(c, model, func(s string) bool { return evid.R.OpenElsewhere("C01-" + s) }) == "" {
		return "", true
	}
	return slug, false
}

type translated struct {
	sql    string
	params map[string]any
	raw    translate.Result
}

// translateWithPlan translates under a caller-made plan. The collect-id membership lowering is derived from the query,
// not from the plan: it is switched off here (hook H1b) so that a plan without decisions really is "all optimisation
// disabled"; translateCollectIDsOnly is the translation with that lowering alone.
func translateWithPlan(plan optimize.Plan, params map[string]any, mapper pgsql.KindMapper) (tr translated, err error) {
	return translateWithPlanOptions(plan, params, mapper, translate.VerifTranslateOptions{NoCollectIDMembership: true})
}

func translateCollectIDsOnly(q *cypher.RegularQuery, params map[string]any, mapper pgsql.KindMapper) (translated, error) {
	return translateWithPlanOptions(noOptimisationPlan(q), params, mapper, translate.VerifTranslateOptions{})
}

func translateWithPlanOptions(plan optimize.Plan, params map[string]any, mapper pgsql.KindMapper, options translate.VerifTranslateOptions) (tr translated, err error) {
	defer func() {
		if p := recover(); p != nil {
			err = &xlate.Panic{Value: p}
		}
	}()
	raw, err := translate.TranslateWithPlanOptions(context.Background(), plan, mapper, params, 0, options)
	if err != nil {
		return translated{}, err
	}
	sql, err := translate.Translated(raw)
	if err != nil {
		return translated{}, err
	}
	return translated{sql: sql, params: raw.Parameters, raw: raw}, nil
}

func noOptimisationPlan(q *cypher.RegularQuery) optimize.Plan {
	return optimize.Plan{Query: cypher.Copy(q)}
}

// keepOnly returns a copy of the lowering plan in which only the named slice field is kept.
func keepOnly(lp optimize.LoweringPlan, field string) optimize.LoweringPlan {
	var out optimize.LoweringPlan
	src := reflect.ValueOf(lp)
	dst := reflect.ValueOf(&out).Elem()
	f := src.FieldByName(field)
	if f.IsValid() {
		dst.FieldByName(field).Set(f)
	}
	return out
}

func loweringFields(lp optimize.LoweringPlan) []string {
	var out []string
	v := reflect.ValueOf(lp)
	for i := 0; i < v.NumField(); i++ {
		if v.Field(i).Kind() == reflect.Slice && v.Field(i).Len() > 0 {
			out = append(out, v.Type().Field(i).Name)
		}
	}
	sort.Strings(out)
	return out
}

func run(db *pgsim.DB, tr translated) (gmodel.Result, string) {
	res, out := db.Query(tr.sql, tr.params)
	return res, qcase.SQLOutcome(out)
}

func short(s string) string {
	if len(s) > 60 {
		return s[:60]
	}
	return s
}

const checkName = "gen"

// findingOpen: exclusions are switched on by the open entries of known_findings for C02 (VERIF_TRIAGE_EXCLUDE=all or
// a comma-separated slug list switches them on for the triage aid only).
func findingOpen(slug string) bool {
	if v := os.Getenv("VERIF_TRIAGE_EXCLUDE"); v != "" && os.Getenv("VERIF_TRIAGE") != "" {
		return v == "all" || strings.Contains(","+v+",", ","+slug+",")
	}
	return evid.R.KnownOpen("C02-" + slug)
}

// rejoinsBoundNode: the one listed finding whose shape is still evaluated (against the reference), see oracle.
const rejoinsBoundNode = "unoptimised-step-rejoins-bound-node"

func oracle(c qcase.Case) (evid.Info, error) {
	info := evid.Info{}
	model, err := xlate.Parse(c.Query)
	if err != nil {
		info.Skip = "parse-rejected"
		return info, nil
	}
	// The listed defect C02-unoptimised-step-rejoins-bound-node is in the UNOPTIMISED SQL only (every row repeated
	// once per node of the graph) and its effect is known exactly. The shape is not dropped: the optimised SQL is
	// compared with what the unoptimised translation means (the reference result, which C01 shows it returns outside
	// its own listed shapes), so that an optimisation that changes the rows of such a query is still reported.
	slug, referenceBaseline := excluded(c, model)
	if slug != "" {
		// a listed, still open defect: the shape is not evaluated, it is counted
		info.Skip = "excluded:C02-" + slug
		evid.R.Excluded(checkName)
		return info, nil
	}
	if referenceBaseline {
		info.Classes = append(info.Classes, "baseline=reference(known duplication in the unoptimised SQL)")
	}
	mapper := xlate.FixedMapper(c.AllKinds()...)
	kindIDs := map[string]int16{}
	for k, id := range mapper.KindToID {
		kindIDs[k.String()] = id
	}
	optRes, errOpt := xlate.TranslateWith(model, c.Params, mapper)
	unopt, errUn := translateWithPlan(noOptimisationPlan(model), c.Params, mapper)
	switch {
	case errOpt != nil && errUn != nil:
		info.Skip = "translate-rejected"
		return info, nil
	case errOpt != nil:
		// whether a query is translated at all must not depend on the optimiser either; shapes that C03 lists
		// (whatever the status of its finding) are left to it
		if id := qcase.C03ExcludedBy(model, func(string) bool { return true }); id != "" {
			info.Skip = "only-optimised-rejected(" + id + ")"
			return info, nil
		}
		return info, fmt.Errorf("only the optimised translation of %q is rejected (%v); the translation without optimisation succeeds", c.Query, errOpt)
	case errUn != nil:
		// A query that only translates WITH optimisation (e.g. `-[*1..1 {k: v}]->`: the exact-range lowering turns the
		// step into a fixed one, which supports an inline property map) has no unoptimised SQL to compare with. The
		// property is about results of the two translations; an optimiser that makes more queries translatable changes
		// no result. Counted, not judged (the first version reported it: Appendix B of DESIGN.md).
		info.Skip = "only-unoptimised-rejected"
		return info, nil
	}
	opt := translated{sql: optRes.SQL, params: optRes.Params, raw: optRes.Raw}
	for _, l := range opt.raw.Optimization.Lowerings {
		info.Classes = append(info.Classes, "lowering:"+l.Name)
	}
	defer func() {
		if info.Skip == "" {
			seenMu.Lock()
			for _, cl := range info.Classes {
				seenClasses[cl]++
			}
			seenMu.Unlock()
		}
	}()
	for _, r := range opt.raw.Optimization.Rules {
		if r.Applied {
			info.Classes = append(info.Classes, "rule:"+r.Name)
		}
	}
	sort.Strings(info.Classes)

	// how much of the result does openCypher determine?
	ref, det, err := qcase.Reference(model, c.Graph, c.Params, refcypher.Options{NegatedStringPredicate: refcypher.NegatedStringPredicateCoalesceLookups})
	if err != nil {
		var u *refcypher.Unsupported
		if errors.As(err, &u) {
			info.Skip = "refcypher-unsupported: " + short(u.Reason)
		} else {
			info.Skip = "reference-runtime-error"
		}
		return info, nil
	}
	if det == qcase.Undetermined {
		info.Skip = "undetermined-by-opencypher"
		return info, nil
	}

	// (b) the rewritten Cypher means the same as the original
	if plan, err := optimize.Optimize(model); err == nil && plan.Query != nil {
		ref2, det2, err2 := qcase.Reference(plan.Query, c.Graph, c.Params, refcypher.Options{NegatedStringPredicate: refcypher.NegatedStringPredicateCoalesceLookups})
		if err2 == nil && det2 != qcase.Undetermined {
			d := det
			if det2 < d {
				d = det2
			}
			if msg := qcase.Compare(ref, d, ref2); msg != "" {
				text, _ := xlate.Emit(plan.Query)
				return info, fmt.Errorf("the optimiser's rewrite of %q into %q changes its meaning on this graph (%s)\n%s", c.Query, text, d, msg)
			}
		}
	}

	// (a) optimised SQL vs unoptimised SQL
	db := pgsim.NewDB(c.Graph, kindIDs, 0)
	gotOpt, skipOpt := run(db, opt)
	gotUn, skipUn := run(db, unopt)
	if skipOpt != "" || skipUn != "" {
		staticOpt, staticUn := strings.HasPrefix(skipOpt, "sql-static-error"), strings.HasPrefix(skipUn, "sql-static-error")
		if (staticOpt && lazilyDetected(skipOpt)) || (staticUn && lazilyDetected(skipUn)) {
			// pgsim reports operator / function / cast type errors when the expression is first evaluated, PostgreSQL
			// at parse analysis: whether only one side shows such an error depends on the rows, not on the statement
			info.Skip = "type-error-detected-at-evaluation(C03)"
			return info, nil
		}
		switch {
		case staticOpt && skipUn == "":
			// The unoptimised SQL executes, the optimised SQL is rejected by PostgreSQL's parse analysis: the
			// optimisation changed what the query returns. Static validity as such is C03's subject: shapes that
			// C03 lists (whatever the status of its finding) are left to it.
			if id := qcase.C03ExcludedBy(model, func(string) bool { return true }); id != "" {
				info.Skip = "only-optimised-static-error(" + id + ")"
			} else if stillInvalid, reason := invalidWithoutListedLowerings(model, c.Params, mapper, db); !stillInvalid {
				// attributed to a lowering / rule for which C03 lists a static-validity finding
				info.Skip = "only-optimised-static-error(C03: suffix pushdown / self-loop step after reordering or exact-range lowering)"
			} else {
				skipOpt = reason
				return info, fmt.Errorf("only the optimised SQL for %q is rejected by PostgreSQL (%s); the unoptimised SQL executes\noptimised (lowerings %v):   %s\nunoptimised: %s\nparams: %v",
					c.Query, skipOpt, info.Classes, opt.sql, unopt.sql, opt.params)
			}
		case staticUn && skipOpt == "":
			info.Skip = "only-unoptimised-static-error(C03)"
		case staticOpt && staticUn:
			info.Skip = "both-static-error(C03)"
		default:
			info.Skip = "opt:" + short(skipOpt) + " unopt:" + short(skipUn)
		}
		if os.Getenv("VERIF_TRIAGE") == "full" {
			info.Skip += " | " + skipOpt + " | " + skipUn + " | " + c.Query
		}
		return info, nil
	}
	if referenceBaseline {
		if msg := qcase.Compare(ref, det, gotOpt); msg != "" {
			return info, fmt.Errorf("the optimised SQL for %q does not return what the query means on this graph (%s; the unoptimised SQL of this shape has the listed duplication defect %s, so the reference result stands in for it)\n%s\noptimised (lowerings %v):   %s\nparams: %v",
				c.Query, det, "C02-"+rejoinsBoundNode, msg, info.Classes, opt.sql, opt.params)
		}
		if len(opt.raw.Optimization.Lowerings) > 0 && strings.TrimSpace(opt.sql) != strings.TrimSpace(unopt.sql) {
			info.NonTrivial = true
		}
		return info, nil
	}
	// The determinacy comes from the reference semantics. When the unoptimised SQL does not return what the
	// reference does (a translation defect, C01's subject) its rows are not the rows the determinacy was computed
	// for: a SKIP/LIMIT may then cut through rows the reference does not have, and ORDER BY may meet ties the
	// reference does not have. Such a case is compared as a bag when nothing cuts, and skipped otherwise.
	if qcase.Compare(ref, det, gotUn) != "" {
		info.Classes = append(info.Classes, "unoptimised-differs-from-reference")
		if det == qcase.CountOnly || hasSkipOrLimit(model) {
			info.Skip = "window-over-rows-the-reference-does-not-have(C01)"
			return info, nil
		}
		// (the order inside collected lists was judged on the reference's groups, which are not the SQL's: lists are
		// compared as multisets)
		if det > qcase.BagModuloList {
			det = qcase.BagModuloList
		}
	}
	if msg := qcase.Compare(gotUn, det, gotOpt); msg != "" {
		return info, fmt.Errorf("optimised and unoptimised SQL for %q return different rows on this graph (%s; 'reference' below = unoptimised)\n%s\noptimised (lowerings %v):   %s\nunoptimised: %s\nparams: %v",
			c.Query, det, msg, info.Classes, opt.sql, unopt.sql, opt.params)
	}

	// (c0) the lowering the plan does not carry, alone (both tiers: it is one more translation)
	if tr, err := translateCollectIDsOnly(model, c.Params, mapper); err == nil && strings.TrimSpace(tr.sql) != strings.TrimSpace(unopt.sql) {
		if got, skip := run(db, tr); skip == "" {
			info.Classes = append(info.Classes, "ablation:CollectIDMembership")
			if msg := qcase.Compare(gotUn, det, got); msg != "" {
				return info, fmt.Errorf("with only the collect-id membership lowering enabled the SQL for %q returns different rows than with optimisation disabled (%s)\n%s\nSQL: %s", c.Query, det, msg, tr.sql)
			}
		}
	}

	// (c) per-lowering ablation (thorough)
	if evid.R.Thorough() {
		if plan, err := optimize.Optimize(model); err == nil {
			for _, field := range loweringFields(plan.LoweringPlan) {
				one := plan
				one.LoweringPlan = keepOnly(plan.LoweringPlan, field)
				tr, err := translateWithPlan(one, c.Params, mapper)
				if err != nil {
					continue
				}
				got, skip := run(db, tr)
				if skip != "" {
					continue
				}
				info.Classes = append(info.Classes, "ablation:"+field)
				if msg := qcase.Compare(gotUn, det, got); msg != "" {
					return info, fmt.Errorf("with only the %s lowering (and the rewrite rules) enabled the SQL for %q returns different rows than with optimisation disabled (%s)\n%s\nSQL: %s", field, c.Query, det, msg, tr.sql)
				}
			}
		}
	}

	applied := len(opt.raw.Optimization.Lowerings) > 0
	for _, r := range opt.raw.Optimization.Rules {
		if r.Applied && r.Name != "PredicateAttachment" {
			applied = true
		}
	}
	if applied && strings.TrimSpace(opt.sql) != strings.TrimSpace(unopt.sql) {
		info.NonTrivial = true
	}
	if strings.TrimSpace(opt.sql) != strings.TrimSpace(unopt.sql) {
		info.Classes = append(info.Classes, "sql-differs")
	}
	return info, nil
}

var (
	seenMu      sync.Mutex
	seenClasses = map[string]int{}
)

// allLowerings: the lowering names of optimize/lowering.go; every one of them should be exercised by evaluated cases.
var allLowerings = []string{
	optimize.LoweringProjectionPruning, optimize.LoweringLatePathMaterialization, optimize.LoweringExpandIntoDetection,
	optimize.LoweringTraversalDirection, optimize.LoweringShortestPathStrategy, optimize.LoweringShortestPathFilter,
	optimize.LoweringLimitPushdown, optimize.LoweringExpansionSuffixPushdown, optimize.LoweringPredicatePlacement,
	optimize.LoweringCountStoreFastPath, optimize.LoweringCollectIDMembership, optimize.LoweringAggregateTraversalCount,
	optimize.LoweringExactRangeExpansion, optimize.LoweringPathRelationshipPredicate,
}

// lazilyDetected reports whether a pgsim static error is one of the type errors that pgsim only meets when it
// evaluates the expression (pgsim/doc.go, residual assumptions), as opposed to name resolution errors.
func lazilyDetected(skip string) bool {
	for _, marker := range []string{"operator does not exist", "function ", "argument must be type", "cannot cast", "could not determine", "must be type"} {
		if strings.Contains(skip, marker) {
			return true
		}
	}
	return false
}

// invalidWithoutListedLowerings translates once more with the optimisations switched off for which C03 lists
// static-validity findings (the ExpansionSuffixPushdown and ExactRangeExpansion lowerings, the
// ConservativePatternReordering rule; see props/TRANSLATION_FINDINGS.md) and reports whether PostgreSQL still rejects
// the SQL statically. If it does, one of the remaining lowerings produces invalid SQL where the plain translation is
// valid - no listed finding accounts for that.
func invalidWithoutListedLowerings(model *cypher.RegularQuery, params map[string]any, mapper pgsql.KindMapper, db *pgsim.DB) (bool, string) {
	plan, err := optimize.NewOptimizer(optimize.InboundTraversalReversalRule{}, optimize.PredicateAttachmentRule{}).Optimize(model)
	if err != nil {
		return false, ""
	}
	plan.LoweringPlan.ExpansionSuffixPushdown = nil
	plan.LoweringPlan.ExactRangeExpansion = nil
	tr, err := translateWithPlan(plan, params, mapper)
	if err != nil {
		return false, ""
	}
	_, skip := run(db, tr)
	if strings.HasPrefix(skip, "sql-static-error") {
		return true, skip + " (also with suffix pushdown, exact-range lowering and pattern reordering switched off)"
	}
	return false, ""
}

// hasSkipOrLimit reports whether any WITH or RETURN of the query carries SKIP or LIMIT.
func hasSkipOrLimit(q *cypher.RegularQuery) bool {
	found := false
	qcase.Visit(q, func(n any) bool {
		if p, ok := n.(*cypher.Projection); ok && p != nil && (p.Skip != nil || p.Limit != nil) {
			found = true
		}
		return !found
	})
	return found
}

func TestC02Generated(t *testing.T) {
	evid.Prop(t, checkName, evid.R.N(6000, 50000), genCase, oracle)
	var never []string
	seenMu.Lock()
	for _, l := range allLowerings {
		if seenClasses["lowering:"+l] == 0 {
			never = append(never, l)
		}
	}
	seenMu.Unlock()
	sort.Strings(never)
	evid.R.Extra("lowerings_never_exercised", never)
}
