package c02

import (
	"encoding/json"
	"os"
	"testing"

	"github.com/specterops/dawgs/cypher/models/pgsql/optimize"

	"verif/pgsim"
	"verif/qcase"
	"verif/xlate"
)

// TestC02Ablate (development aid): VERIF_CASE=<file.json>; translates with exactly one lowering class kept and with
// exactly one removed, and prints the SQL outcome of each.
func TestC02Ablate(t *testing.T) {
	file := os.Getenv("VERIF_CASE")
	if file == "" {
		t.Skip("development aid")
	}
	raw, _ := os.ReadFile(file)
	var c qcase.Case
	if err := json.Unmarshal(raw, &c); err != nil {
		t.Fatal(err)
	}
	model, err := xlate.Parse(c.Query)
	if err != nil {
		t.Fatal(err)
	}
	mapper := xlate.FixedMapper(c.AllKinds()...)
	kindIDs := map[string]int16{}
	for k, id := range mapper.KindToID {
		kindIDs[k.String()] = id
	}
	db := pgsim.NewDB(c.Graph, kindIDs, 0)
	plan, err := optimize.Optimize(model)
	if err != nil {
		t.Fatal(err)
	}
	for _, field := range loweringFields(plan.LoweringPlan) {
		one := plan
		one.LoweringPlan = keepOnly(plan.LoweringPlan, field)
		tr, err := translateWithPlan(one, c.Params, mapper)
		if err != nil {
			t.Logf("only %-28s translate error: %v", field, err)
			continue
		}
		_, skip := run(db, tr)
		t.Logf("only %-28s outcome %q", field, skip)
	}
}
