package c08

import (
	"testing"

	"pgregory.net/rapid"

	"verif/evid"
	"verif/gen/corpus"
)

// dangling: what a truncated or half-typed query usually ends with - an operator, a sign, an opening bracket, a
// keyword that wants an operand - right after a token boundary of a valid query. ANTLR's error recovery builds
// parse trees for such inputs that no well-formed query produces (an operator node without operand, a list with a
// trailing separator); the visitors must reject them without panicking.
var dangling = []string{"-", "+", "- -", "+ -", "not", "NOT", "(", "[", "{", "$", ".", "..", "*", "/", "%", "^", "=", "<>", "<", ">=", "=~",
	"in", "IN", "is", "is not", "as", "and", "or", "xor", ":", "|", ",", "starts with", "ends with", "contains", "order by", "skip", "limit",
	"where", "with", "return", "unwind", "match", "optional match", "union", "union all", "distinct", "case", "when", "then", "else",
	"count(", "any(x in", "[x in", "-[", "<-", "->", "-[:", "(:", "{a:", "'", "\"", "`", "/*", "1e", "0x", "1.", ".5",
	// a parameter sign followed by nothing or by a reserved word, numbers no int64 holds, an empty map / list
	"$", "$skip", "$limit", "$order", "$by", "$0x", "skip $skip limit $limit", "order by $order",
	"99999999999999999999", "9223372036854775808", "-9223372036854775809", "limit 99999999999999999999", "skip 9223372036854775808", "limit 1e999", "limit 1.5",
	"{}", "[]", "return {}", "set n += {}", "{a: {}}"}

func genDangling(t *rapid.T) Case {
	corpus.OddTextParsed()
	qs := corpus.Queries()
	q := qs[rapid.IntRange(0, len(qs)-1).Draw(t, "q")]
	if grammar != nil && rapid.IntRange(0, 3).Draw(t, "fromg4") == 0 {
		q = grammar.Query(t).Text
	}
	toks, _ := corpus.Lex(q)
	s := q
	if len(toks) > 0 {
		// cut after a token; half of the time after the last third of the query, where ORDER BY / SKIP / LIMIT live
		lo := 0
		if rapid.Bool().Draw(t, "tailcut") {
			lo = len(toks) * 2 / 3
		}
		cut := rapid.IntRange(lo, len(toks)-1).Draw(t, "cut")
		s = corpus.Join(toks[:cut+1])
	}
	n := rapid.IntRange(1, 2).Draw(t, "ndangling")
	for i := 0; i < n; i++ {
		s += " " + rapid.SampledFrom(dangling).Draw(t, "dangling")
	}
	switch rapid.IntRange(0, 3).Draw(t, "end") {
	case 0:
		s += ";"
	case 1:
		s += " "
	}
	return Case{Kind: "dangling", B: []byte(s), Preview: preview([]byte(s))}
}

func TestC08Dangling(t *testing.T) {
	loadGrammar(t)
	evid.Prop(t, "dangling", evid.R.N(8000, 40000), genDangling, oracle)
}
