// C08 — parsing is total and bounded on arbitrary input.
package c08

import (
	"time"
	"bytes"
	"fmt"
	"sort"
	"strings"
	"testing"
	"unicode/utf8"

	"github.com/specterops/dawgs/cypher/frontend"
	"github.com/specterops/dawgs/cypher/models/cypher"
	"github.com/specterops/dawgs/cypher/models/cypher/format"
	"github.com/specterops/dawgs/cypher/models/walk"
	"pgregory.net/rapid"

	"verif/evid"
	"verif/gen/corpus"
	"verif/gen/g4"
)

func TestMain(m *testing.M) {
	evid.Main(m, "C08", "exploration",
		"byte strings from four generators: (raw) random concatenations of Cypher lexemes, runes and bytes incl. invalid UTF-8; (mut) 1-3 token/byte level mutations (truncate, delete, duplicate, swap, unbalanced delimiter, byte flip, huge number) of the query corpus shipped in the tree; (g4) random derivations of cypher/grammar/Cypher.g4 (all 146 parser rules reachable), optionally mutated; (family) size-parameterised nesting/chain families at n,2n,4n for growth measurement. Each is parsed under NewContext() and DefaultCypherContext(). Non-trivial = the input contains at least one Cypher keyword token (per DAWGS's lexer) and is not verbatim a corpus query; distinct = hash of the bytes.",
		"'bounded' is judged by a deterministic allocation-count growth measurement on size families, never by wall clock",
		"a model returned with a nil error must be printable by the Cypher emitter and walkable without a nil-branch error - the executable reading of 'not partially built'")
}

type Case struct {
	Kind    string `json:"kind"`
	B       []byte `json:"b"`
	Preview string `json:"preview"`
}

var lexemes = []string{"match", "MATCH", "optional", "where", "return", "with", "unwind", "as", "order", "by", "skip", "limit", "distinct",
	"create", "merge", "set", "delete", "detach", "remove", "call", "yield", "union", "all", "and", "or", "xor", "not", "in", "is", "null",
	"starts", "ends", "contains", "true", "false", "count", "any", "none", "single", "exists", "shortestPath", "allShortestPaths", "case", "when", "then", "else", "end",
	"(", ")", "[", "]", "{", "}", "-", "->", "<-", "--", "*", "..", ".", ",", ":", "|", "=", "<>", "<", ">", "<=", ">=", "+", "/", "%", "^", "=~", "$", ";", "`", "'", "\"", "\\",
	"n", "m", "r", "p", "x", "name", "1", "0", "42", "1.5", "1e3", "0x1F", "017", "9223372036854775808", "'s'", "\"d\"", "`q`", " ", " ", " ", "\n", "\t", "/*", "*/", "//",
	" ", " ", "　", "é", "𝔘", "\x00", "\xff", "\xc3", "\xe2\x82"}

func preview(b []byte) string {
	s := strings.ToValidUTF8(string(b), "�")
	if len(s) > 300 {
		s = s[:300] + "…"
	}
	return s
}

func genRaw(t *rapid.T) Case {
	corpus.OddTextParsed()
	n := rapid.IntRange(0, 40).Draw(t, "n")
	var buf bytes.Buffer
	for i := 0; i < n; i++ {
		switch rapid.IntRange(0, 11).Draw(t, "what") {
		case 0:
			buf.WriteRune(rapid.Rune().Draw(t, "rune"))
		case 1:
			buf.WriteByte(rapid.Byte().Draw(t, "byte"))
		default:
			buf.WriteString(rapid.SampledFrom(lexemes).Draw(t, "lex"))
			if rapid.IntRange(0, 2).Draw(t, "sp") == 0 {
				buf.WriteByte(' ')
			}
		}
	}
	return Case{Kind: "raw", B: buf.Bytes(), Preview: preview(buf.Bytes())}
}

var delims = []string{"(", ")", "[", "]", "{", "}", "'", "\"", "`", "/*", "*/", "$", "\\", "-[", "]->", "((((", "))))"}

func mutate(t *rapid.T, s string) string {
	k := rapid.IntRange(1, 3).Draw(t, "nmut")
	for i := 0; i < k; i++ {
		toks, _ := corpus.Lex(s)
		switch m := rapid.IntRange(0, 9).Draw(t, "mut"); {
		case m == 0 && len(s) > 0: // truncate
			s = s[:rapid.IntRange(0, len(s)).Draw(t, "cut")]
		case m == 1 && len(toks) > 0: // delete token
			j := rapid.IntRange(0, len(toks)-1).Draw(t, "j")
			toks = append(toks[:j:j], toks[j+1:]...)
			s = corpus.Join(toks)
		case m == 2 && len(toks) > 0: // duplicate token
			j := rapid.IntRange(0, len(toks)-1).Draw(t, "j")
			toks = append(toks[:j+1:j+1], toks[j:]...)
			s = corpus.Join(toks)
		case m == 3 && len(toks) > 1: // swap two tokens
			a := rapid.IntRange(0, len(toks)-1).Draw(t, "a")
			b := rapid.IntRange(0, len(toks)-1).Draw(t, "b")
			toks[a], toks[b] = toks[b], toks[a]
			s = corpus.Join(toks)
		case m == 4: // insert a delimiter
			pos := rapid.IntRange(0, len(s)).Draw(t, "pos")
			s = s[:pos] + rapid.SampledFrom(delims).Draw(t, "delim") + s[pos:]
		case m == 5 && len(s) > 0: // flip a byte
			pos := rapid.IntRange(0, len(s)-1).Draw(t, "pos")
			b := []byte(s)
			b[pos] ^= 1 << uint(rapid.IntRange(0, 7).Draw(t, "bit"))
			s = string(b)
		case m == 6 && len(toks) > 0: // replace a token by a lexeme
			j := rapid.IntRange(0, len(toks)-1).Draw(t, "j")
			toks[j].Text = rapid.SampledFrom(lexemes).Draw(t, "lex")
			s = corpus.Join(toks)
		case m == 7 && len(toks) > 0 && rapid.Bool().Draw(t, "hugeInPlace"): // a number of the query becomes one that no int64 / float64 holds
			var nums []int
			for j, tk := range toks {
				switch tk.Name {
				case "DecimalInteger", "HexInteger", "OctalInteger", "RegularDecimalReal", "ExponentDecimalReal":
					nums = append(nums, j)
				}
			}
			if len(nums) == 0 {
				continue
			}
			toks[nums[rapid.IntRange(0, len(nums)-1).Draw(t, "num")]].Text = rapid.SampledFrom([]string{"99999999999999999999", "9223372036854775808", "18446744073709551616", "1e999", "0xffffffffffffffffffffff", "07777777777777777777777777", "1.5", "0"}).Draw(t, "hugeval")
			s = corpus.Join(toks)
		case m == 7: // huge numeric literal
			pos := rapid.IntRange(0, len(s)).Draw(t, "pos")
			s = s[:pos] + rapid.SampledFrom([]string{"99999999999999999999999999", "1e999", "0xffffffffffffffffffffff", "-9223372036854775809", "1.7976931348623157e309", "07777777777777777777777777"}).Draw(t, "huge") + s[pos:]
		case m == 8 && len(toks) > 2: // delete a token range
			a := rapid.IntRange(0, len(toks)-1).Draw(t, "a")
			b := rapid.IntRange(a, len(toks)-1).Draw(t, "b")
			toks = append(toks[:a:a], toks[b:]...)
			s = corpus.Join(toks)
		default: // insert a lexeme
			pos := rapid.IntRange(0, len(s)).Draw(t, "pos")
			s = s[:pos] + rapid.SampledFrom(lexemes).Draw(t, "lex") + s[pos:]
		}
	}
	return s
}

func genMut(t *rapid.T) Case {
	corpus.OddTextParsed()
	qs := corpus.Queries()
	q := qs[rapid.IntRange(0, len(qs)-1).Draw(t, "q")]
	s := mutate(t, q)
	return Case{Kind: "mut", B: []byte(s), Preview: preview([]byte(s))}
}

var grammar *g4.Grammar

func loadGrammar(t *testing.T) *g4.Grammar {
	if grammar == nil {
		g, err := g4.Load()
		if err != nil {
			t.Fatalf("cannot read grammar: %v", err)
		}
		g.UseDefaultWeights(0.15)
		grammar = g
	}
	return grammar
}

func genG4(g *g4.Grammar) func(t *rapid.T) Case {
	return func(t *rapid.T) Case {
		corpus.OddTextParsed()
		d := g.Query(t)
		s := d.Text
		if rapid.IntRange(0, 3).Draw(t, "mutate") == 0 {
			s = mutate(t, s)
		}
		return Case{Kind: "g4", B: []byte(s), Preview: preview([]byte(s))}
	}
}

type outcome struct {
	accepted bool
}

// parseLimit: "bounded" has a second meaning besides growth: the call returns at all. A parse of a few KB of text
// takes milliseconds; after parseLimit the call is given up for lost (its goroutine cannot be stopped and keeps
// running, which is why the first such verdict ends the sub-check).
const parseLimit = 30 * time.Second

type hung struct{ after time.Duration }

func parseOnce(ctxName string, input string) (q *cypher.RegularQuery, err error, panicked any) {
	type result struct {
		q        *cypher.RegularQuery
		err      error
		panicked any
	}
	done := make(chan result, 1)
	go func() {
		var r result
		r.q, r.err, r.panicked = parseOnceInline(ctxName, input)
		done <- r
	}()
	select {
	case r := <-done:
		return r.q, r.err, r.panicked
	case <-time.After(parseLimit):
		return nil, nil, hung{parseLimit}
	}
}

func parseOnceInline(ctxName string, input string) (q *cypher.RegularQuery, err error, panicked any) {
	defer func() {
		if p := recover(); p != nil {
			panicked = p
		}
	}()
	var ctx *frontend.Context
	if ctxName == "default" {
		ctx = frontend.DefaultCypherContext()
	} else {
		ctx = frontend.NewContext()
	}
	q, err = frontend.ParseCypher(ctx, input)
	return
}

// sound checks that an error-free model is a complete one.
func sound(q *cypher.RegularQuery) (msg string) {
	defer func() {
		if p := recover(); p != nil {
			msg = fmt.Sprintf("emitting / walking the returned model panicked: %v", p)
		}
	}()
	text, err := format.RegularQuery(q, false)
	if err != nil {
		return fmt.Sprintf("the model cannot be emitted: %v", err)
	}
	if strings.TrimSpace(text) == "" {
		return "the model emits as empty text"
	}
	if err := walk.Cypher(q, walk.NewSimpleVisitor(func(node cypher.SyntaxNode, h walk.VisitorHandler) {})); err != nil {
		return fmt.Sprintf("the model cannot be walked: %v", err)
	}
	return ""
}

func oracle(c Case) (evid.Info, error) {
	input := string(c.B)
	info := evid.Info{Classes: []string{"kind=" + c.Kind}}
	blank := strings.TrimSpace(input) == ""
	for _, ctxName := range []string{"plain", "default"} {
		q, err, p := parseOnce(ctxName, input)
		if h, isHung := p.(hung); isHung {
			return info, fmt.Errorf("ParseCypher(%s context) did not return within %s on %q", ctxName, h.after, c.Preview)
		}
		if p != nil {
			return info, fmt.Errorf("ParseCypher(%s context) panicked on %q: %v", ctxName, c.Preview, p)
		}
		switch {
		case err == nil && q == nil:
			return info, fmt.Errorf("ParseCypher(%s context) returned (nil, nil) for %q", ctxName, c.Preview)
		case err == nil && blank:
			return info, fmt.Errorf("ParseCypher(%s context) accepted blank input %q", ctxName, c.Preview)
		case err == nil:
			if msg := sound(q); msg != "" {
				return info, fmt.Errorf("ParseCypher(%s context) returned a nil error for %q but %s", ctxName, c.Preview, msg)
			}
			info.Classes = append(info.Classes, "accepted:"+ctxName)
		default:
			info.Classes = append(info.Classes, "rejected:"+ctxName)
		}
	}
	if !utf8.Valid(c.B) {
		info.Classes = append(info.Classes, "invalid-utf8")
	}
	toks, lexErrs := corpus.Lex(input)
	if lexErrs > 0 {
		info.Classes = append(info.Classes, "lexer-error")
	}
	hasKw := false
	for _, tk := range toks {
		if isKeyword(tk.Name) {
			hasKw = true
			break
		}
	}
	if hasKw && !inCorpus(input) {
		info.NonTrivial = true
		info.Key = input
	}
	sort.Strings(info.Classes)
	return info, nil
}

var corpusSet map[string]struct{}

func inCorpus(s string) bool {
	if corpusSet == nil {
		corpusSet = map[string]struct{}{}
		for _, q := range corpus.Queries() {
			corpusSet[q] = struct{}{}
		}
	}
	_, ok := corpusSet[strings.TrimSpace(s)]
	return ok
}

var kwNames map[string]bool

func isKeyword(tokenName string) bool {
	if kwNames == nil {
		kwNames = map[string]bool{}
		g, err := g4.Load()
		if err == nil {
			for name := range g.Keywords() {
				kwNames[name] = true
			}
		}
	}
	return kwNames[tokenName]
}

func TestC08Raw(t *testing.T) {
	evid.Prop(t, "raw", evid.R.N(3000, 12000), genRaw, oracle)
}

func TestC08Mutated(t *testing.T) {
	evid.Prop(t, "mut", evid.R.N(4000, 15000), genMut, oracle)
}

func TestC08Grammar(t *testing.T) {
	evid.Prop(t, "g4", evid.R.N(4000, 15000), genG4(loadGrammar(t)), oracle)
}

// every corpus query and every prefix of it (enumerated, not sampled)
func TestC08CorpusPrefixes(t *testing.T) {
	if evid.Register(t, "prefix", oracle) {
		return
	}
	qs := corpus.Queries()
	step := 8 // thorough: the shards split the corpus between them (8 shards cover all of it)
	if !evid.R.Thorough() {
		step = 7 // quick: every 7th query, all of its prefixes
	}
	n := 0
	for i := evid.R.Shard % step; i < len(qs); i += step {
		q := qs[i]
		if len(q) > 400 && !evid.R.Thorough() {
			continue
		}
		for cut := 0; cut <= len(q); cut++ {
			b := []byte(q[:cut])
			if !evid.Case(t, "prefix", Case{Kind: "prefix", B: b, Preview: preview(b)}, oracle) {
				return
			}
			n++
		}
	}
	evid.R.Extra("corpus_prefixes_enumerated", n)
}
