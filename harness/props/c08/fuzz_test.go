package c08

import (
	"testing"

	"verif/evid"
	"verif/gen/corpus"
)

// TestC08FuzzReplay registers the fuzz check's oracle for --replay of cases recorded from fuzz crashers
// (saved crashers under testdata/fuzz/FuzzC08 are re-run by `go test` as part of FuzzC08 itself).
func TestC08FuzzReplay(t *testing.T) { evid.Register(t, "fuzz", oracle) }

// FuzzC08 is the coverage-guided supplement of the thorough tier (the driver runs it with a
// fresh cache directory before the rapid shards). The oracle is the same as for generated cases.
func FuzzC08(f *testing.F) {
	for i, q := range corpus.Queries() {
		if i%9 == 0 {
			f.Add([]byte(q))
		}
	}
	for _, s := range []string{"", " ", "CALL n()", "USING  COMMIT 5000", "return 1 /* c */ * 2", "match (n) where not not n.a return n",
		"RETURN shortestPath(())", "match ()-[*..]-() return 1", "return 9223372036854775808", "return 1e999", "return '\\u00e9'", "match (`a``b`) return 1",
		"\xff\xfe", "((((((((((", "match (n) set n.a.b = 1 with n return n", "create (n) with n return n"} {
		f.Add([]byte(s))
	}
	f.Fuzz(func(t *testing.T, b []byte) {
		if len(b) > 4096 {
			return
		}
		c := Case{Kind: "fuzz", B: b, Preview: preview(b)}
		if _, err := oracle(c); err != nil {
			evid.FuzzFail(t, "fuzz", c, err)
		}
	})
}
