package c08

import (
	"bufio"
	"os"
	"path/filepath"
	"strconv"
	"strings"
	"testing"

	"verif/evid"
	"verif/gen/corpus"
)

// FuzzC08 is the coverage-guided supplement of the thorough tier (the driver runs it with a
// fresh cache directory before the rapid shards). The oracle is the same as for generated cases.
func FuzzC08(f *testing.F) {
	for i, q := range corpus.Queries() {
		if i%9 == 0 {
			f.Add([]byte(q))
		}
	}
	for _, s := range []string{"", " ", "CALL n()", "USING  COMMIT 5000", "return 1 /* c */ * 2", "match (n) where not not n.a return n",
		"RETURN shortestPath(())", "match ()-[*..]-() return 1", "return 9223372036854775808", "return 1e999", "return '\\u00e9'", "match (`a``b`) return 1",
		"\xff\xfe", "((((((((((", "match (n) set n.a.b = 1 with n return n", "create (n) with n return n"} {
		f.Add([]byte(s))
	}
	f.Fuzz(func(t *testing.T, b []byte) {
		if len(b) > 4096 {
			return
		}
		if _, err := oracle(Case{Kind: "fuzz", B: b, Preview: preview(b)}); err != nil {
			t.Fatal(err)
		}
	})
}

// TestC08FuzzCrashers turns the crashers a fuzz campaign left under testdata/fuzz into recorded
// violations with replay files (the campaign itself runs in worker processes).
func TestC08FuzzCrashers(t *testing.T) {
	if evid.Register(t, "fuzz", oracle) {
		return
	}
	files, _ := filepath.Glob(filepath.Join("testdata", "fuzz", "FuzzC08", "*"))
	for _, f := range files {
		b, ok := readGoFuzzBytes(f)
		if !ok {
			continue
		}
		if !evid.Case(t, "fuzz", Case{Kind: "fuzz", B: b, Preview: preview(b)}, oracle) {
			return
		}
	}
	evid.R.Extra("fuzz_crashers_replayed", len(files))
}

// readGoFuzzBytes parses the "go test fuzz v1" corpus file format for a single []byte argument.
func readGoFuzzBytes(path string) ([]byte, bool) {
	fh, err := os.Open(path)
	if err != nil {
		return nil, false
	}
	defer fh.Close()
	sc := bufio.NewScanner(fh)
	sc.Buffer(make([]byte, 1<<20), 1<<24)
	if !sc.Scan() || !strings.HasPrefix(sc.Text(), "go test fuzz v1") {
		return nil, false
	}
	if !sc.Scan() {
		return nil, false
	}
	line := strings.TrimSpace(sc.Text())
	if !strings.HasPrefix(line, "[]byte(") || !strings.HasSuffix(line, ")") {
		return nil, false
	}
	s, err := strconv.Unquote(line[len("[]byte(") : len(line)-1])
	if err != nil {
		return nil, false
	}
	return []byte(s), true
}
