package c08

import (
	"fmt"
	"math"
	"runtime"
	"strings"
	"testing"

	"github.com/specterops/dawgs/cypher/frontend"

	"verif/evid"
)

// Size-parameterised families: the same shape at n, 2n and 4n. "Polynomial" is judged from the
// number of heap allocations (deterministic for a single goroutine), never from the clock.
type famCase struct {
	Family string `json:"family"`
	N      int    `json:"n"`
}

var families = map[string]func(n int) string{
	"nested-parens": func(n int) string { return "return " + strings.Repeat("(", n) + "1" + strings.Repeat(")", n) },
	"nested-lists":  func(n int) string { return "return " + strings.Repeat("[", n) + "1" + strings.Repeat("]", n) },
	"nested-maps":   func(n int) string { return "return " + strings.Repeat("{a:", n) + "1" + strings.Repeat("}", n) },
	"not-chain":     func(n int) string { return "match (n) where " + strings.Repeat("not ", n) + "n.a return n" },
	"and-chain":     func(n int) string { return "match (n) where n.a = 1" + strings.Repeat(" and n.a = 1", n) + " return n" },
	"or-xor-chain": func(n int) string {
		return "match (n) where n.a = 1" + strings.Repeat(" or n.b = 2 xor n.c = 3", n) + " return n"
	},
	"plus-chain":       func(n int) string { return "return 1" + strings.Repeat(" + 1", n) },
	"pattern-chain":    func(n int) string { return "match (a)" + strings.Repeat("-[:R]->()", n) + " return a" },
	"match-chain":      func(n int) string { return strings.Repeat("match (a)-[:R]->(b) ", n) + "return a" },
	"with-chain":       func(n int) string { return "match (a) " + strings.Repeat("with a ", n) + "return a" },
	"long-string":      func(n int) string { return "return '" + strings.Repeat("ab", n) + "'" },
	"long-name":        func(n int) string { return "match (" + strings.Repeat("ab", n) + ") return 1" },
	"long-number":      func(n int) string { return "return " + strings.Repeat("9", n) },
	"projection-list":  func(n int) string { return "match (a) return a" + strings.Repeat(", a.x", n) },
	"unbalanced-open":  func(n int) string { return "return " + strings.Repeat("(", n) },
	"unbalanced-close": func(n int) string { return "return 1" + strings.Repeat(")", n) },
	"func-nest":        func(n int) string { return "return " + strings.Repeat("toLower(", n) + "'a'" + strings.Repeat(")", n) },
	"garbage-tokens":   func(n int) string { return strings.Repeat("match return where ", n) },
	"label-chain":      func(n int) string { return "match (n" + strings.Repeat(":A", n) + ") return n" },
	"in-list":          func(n int) string { return "match (n) where n.a in [1" + strings.Repeat(", 2", n) + "] return n" },
}

func mallocsFor(input string) (mallocs uint64, panicked any) {
	defer func() {
		if p := recover(); p != nil {
			panicked = p
		}
	}()
	var before, after runtime.MemStats
	runtime.GC()
	runtime.ReadMemStats(&before)
	_, _ = frontend.ParseCypher(frontend.NewContext(), input)
	runtime.ReadMemStats(&after)
	return after.Mallocs - before.Mallocs, nil
}

func growthOracle(c famCase) (evid.Info, error) {
	gen, ok := families[c.Family]
	if !ok {
		return evid.Info{Skip: "unknown-family"}, nil
	}
	info := evid.Info{Classes: []string{"family=" + c.Family}, NonTrivial: true, Key: fmt.Sprintf("%s/%d", c.Family, c.N)}
	var m [3]uint64
	for i, k := range []int{1, 2, 4} {
		// warm the ANTLR DFA cache on the same shape first so that the measured run is the steady state
		_, _ = mallocsFor(gen(c.N * k))
		got, p := mallocsFor(gen(c.N * k))
		if p != nil {
			return info, fmt.Errorf("family %s at size %d panicked: %v", c.Family, c.N*k, p)
		}
		m[i] = got
	}
	// growth exponent between n and 4n; ANTLR's adaptive LL(*) is worst-case O(n^4), the visitors are linear.
	// polynomial of degree <= 3 is what every family shows on the pinned tree with a wide margin (measured ~1.0).
	exp := math.Log(float64(m[2])/float64(m[0])) / math.Log(4)
	info.Classes = append(info.Classes, fmt.Sprintf("exponent~%.1f", exp))
	if exp > 3.0 {
		return info, fmt.Errorf("family %s: allocations grow with exponent %.2f between n=%d and n=%d (%d -> %d -> %d): not polynomially bounded as required", c.Family, exp, c.N, 4*c.N, m[0], m[1], m[2])
	}
	return info, nil
}

func TestC08Growth(t *testing.T) {
	if evid.Register(t, "growth", growthOracle) {
		return
	}
	sizes := []int{20, 60}
	if evid.R.Thorough() {
		sizes = []int{25, 100, 400}
	}
	names := make([]string, 0, len(families))
	for k := range families {
		names = append(names, k)
	}
	sortStrings(names)
	for i, name := range names {
		if evid.R.Thorough() && i%8 != evid.R.Shard%8 {
			continue // spread the families over the shards
		}
		for _, n := range sizes {
			if !evid.Case(t, "growth", famCase{Family: name, N: n}, growthOracle) {
				return
			}
		}
	}
}

func sortStrings(s []string) {
	for i := 1; i < len(s); i++ {
		for j := i; j > 0 && s[j] < s[j-1]; j-- {
			s[j], s[j-1] = s[j-1], s[j]
		}
	}
}
