package c06

// A small typed generator of multi-clause read queries (text). Baseline names are benign (v1, v2 …,
// parameters p1 …) so that the renaming alone introduces the hostile spellings.

import (
	"fmt"
	"strings"
	"testing"

	"pgregory.net/rapid"

	"verif/evid"
	"verif/xlate"
)

type gvar struct {
	name string
	typ  string // node rel path scalar list nodelist
}

type qgen struct {
	t       *rapid.T
	n, np   int
	scope   []gvar
	vals    map[string]string
	noQuant bool     // quantifiers over a re-projected node do not translate: keep them in MATCH ... WHERE
	params  []string // parameter names with their types, for reuse: "name:type"
}

func (g *qgen) fresh() string {
	g.n++
	return fmt.Sprintf("v%d", g.n)
}

func (g *qgen) pick(label string, opts ...string) string {
	return rapid.SampledFrom(opts).Draw(g.t, label)
}

func (g *qgen) chance(label string, pct int) bool {
	return rapid.IntRange(0, 99).Draw(g.t, label) < pct
}

func (g *qgen) of(typ ...string) []gvar {
	var out []gvar
	for _, v := range g.scope {
		for _, t := range typ {
			if v.typ == t {
				out = append(out, v)
			}
		}
	}
	return out
}

func (g *qgen) add(name, typ string) { g.scope = append(g.scope, gvar{name, typ}) }

// param returns `$name` of the given type, reusing an existing parameter of that type sometimes.
func (g *qgen) param(typ string) string {
	if g.chance("reuseParam", 30) {
		for _, p := range g.params {
			if strings.HasSuffix(p, ":"+typ) {
				return "$" + strings.TrimSuffix(p, ":"+typ)
			}
		}
	}
	g.np++
	name := fmt.Sprintf("p%d", g.np)
	switch typ {
	case "string":
		g.vals[name] = "s:" + g.pick("sval", "alice", "bob", "x y")
	case "int":
		g.vals[name] = fmt.Sprintf("i:%d", rapid.IntRange(0, 50).Draw(g.t, "ival"))
	case "strings":
		g.vals[name] = "l:" + g.pick("lval", "a,b", "a", "x,y,z")
	case "ints":
		g.vals[name] = "n:" + g.pick("nval", "1,2,3", "7", "4,5")
	}
	g.params = append(g.params, name+":"+typ)
	return "$" + name
}

var nodeKinds = []string{"NodeKind1", "NodeKind2"}
var edgeKinds = []string{"EdgeKind1", "EdgeKind2"}

func (g *qgen) nodePat(allowReuse bool) string {
	if nodes := g.of("node"); allowReuse && len(nodes) > 0 && g.chance("reuseNode", 45) {
		return "(" + nodes[rapid.IntRange(0, len(nodes)-1).Draw(g.t, "node")].name + ")"
	}
	if g.chance("anonNode", 15) {
		if g.chance("anonKind", 50) {
			return "(:" + g.pick("nk", nodeKinds...) + ")"
		}
		return "()"
	}
	name := g.fresh()
	g.add(name, "node")
	kind := ""
	if g.chance("nodeKind", 50) {
		kind = ":" + g.pick("nk", nodeKinds...)
	}
	props := ""
	if g.chance("nodeProps", 10) {
		props = " {name: " + g.param("string") + "}"
	}
	return "(" + name + kind + props + ")"
}

func (g *qgen) relPat(expansion bool) string {
	name := ""
	if g.chance("relVar", 40) {
		name = g.fresh()
		if expansion {
			g.add(name, "rellist")
		} else {
			g.add(name, "rel")
		}
	}
	kind := ""
	if g.chance("relKind", 70) {
		kind = ":" + g.pick("ek", "EdgeKind1", "EdgeKind2", "EdgeKind1|EdgeKind2")
	}
	rng := ""
	if expansion {
		rng = g.pick("range", "*1..", "*1..3", "*..2", "*")
	}
	body := "[" + name + kind + rng + "]"
	if g.chance("dirLeft", 30) {
		return "<-" + body + "-"
	}
	return "-" + body + "->"
}

func (g *qgen) pattern() string {
	shape := g.pick("pattern", "node", "hop", "hop", "twohop", "expansion", "expansion", "shortest")
	pathVar := ""
	withPath := func(p string) string {
		if pathVar != "" {
			return pathVar + " = " + p
		}
		return p
	}
	if shape != "node" && g.chance("pathVar", 40) {
		pathVar = g.fresh()
	}
	var out string
	switch shape {
	case "node":
		out = g.nodePat(false)
	case "hop":
		out = withPath(g.nodePat(true) + g.relPat(false) + g.nodePat(true))
	case "twohop":
		out = withPath(g.nodePat(true) + g.relPat(false) + g.nodePat(true) + g.relPat(false) + g.nodePat(false))
	case "expansion":
		out = withPath(g.nodePat(true) + g.relPat(true) + g.nodePat(true))
	case "shortest":
		if pathVar == "" {
			pathVar = g.fresh()
		}
		fn := g.pick("sp", "shortestPath", "allShortestPaths")
		a, b := g.nodePat(true), g.nodePat(false)
		out = pathVar + " = " + fn + "(" + a + "-[:" + g.pick("ek", edgeKinds...) + "*1..]->" + b + ")"
	}
	if pathVar != "" {
		g.add(pathVar, "path")
	}
	return out
}

func (g *qgen) atomPred() string {
	nodes := g.of("node")
	scalars := g.of("scalar")
	lists := g.of("list")
	var opts []string
	if len(nodes) > 0 {
		opts = append(opts, "prop-lit", "prop-param", "prop-param", "id-param", "kind", "patpred", "in-param", "starts")
		if !g.noQuant {
			opts = append(opts, "quant", "quant")
		}
		if len(lists) > 0 {
			opts = append(opts, "in-list")
		}
	}
	if len(scalars) > 0 {
		opts = append(opts, "scalar-lit", "scalar-param")
	}
	if len(lists) > 0 {
		opts = append(opts, "size")
	}
	if len(opts) == 0 {
		return "1 = 1"
	}
	pickNode := func() string { return nodes[rapid.IntRange(0, len(nodes)-1).Draw(g.t, "pn")].name }
	switch g.pick("pred", opts...) {
	case "prop-lit":
		return pickNode() + "." + g.pick("prop", "name = 'a'", "age > 3", "enabled = true", "name <> 'b'")
	case "prop-param":
		if g.chance("intProp", 40) {
			return pickNode() + ".age " + g.pick("cmp", "=", ">", "<=") + " " + g.param("int")
		}
		return pickNode() + ".name = " + g.param("string")
	case "starts":
		return pickNode() + ".name " + g.pick("sop", "starts with", "ends with", "contains") + " " + g.param("string")
	case "id-param":
		return "id(" + pickNode() + ") = " + g.param("int")
	case "in-param":
		if g.chance("idIn", 40) {
			return "id(" + pickNode() + ") in " + g.param("ints")
		}
		return pickNode() + ".name in " + g.param("strings")
	case "in-list":
		return pickNode() + ".name in " + lists[rapid.IntRange(0, len(lists)-1).Draw(g.t, "pl")].name
	case "kind":
		return pickNode() + ":" + g.pick("nk", nodeKinds...)
	case "quant":
		x := g.fresh()
		q := g.pick("quantifier", "any", "all", "none", "single")
		inner := x + " = 'a'"
		if g.chance("quantParam", 50) {
			inner = x + " = " + g.param("string")
		}
		return q + "(" + x + " in " + pickNode() + ".tags where " + inner + ")"
	case "patpred":
		a := pickNode()
		other := "()"
		if g.chance("ppKind", 40) {
			other = "(:" + g.pick("nk", nodeKinds...) + ")"
		} else if len(nodes) > 1 && g.chance("ppBound", 40) {
			other = "(" + pickNode() + ")"
		}
		neg := ""
		if g.chance("ppNeg", 40) {
			neg = "not "
		}
		return neg + "(" + a + ")-[:" + g.pick("ek", edgeKinds...) + "]->" + other
	case "scalar-lit":
		return scalars[rapid.IntRange(0, len(scalars)-1).Draw(g.t, "ps")].name + " " + g.pick("cmp", "=", ">", "<>") + " 1"
	case "scalar-param":
		return scalars[rapid.IntRange(0, len(scalars)-1).Draw(g.t, "ps")].name + " = " + g.param("int")
	case "size":
		return "size(" + lists[rapid.IntRange(0, len(lists)-1).Draw(g.t, "pl")].name + ") > 1"
	}
	return "1 = 1"
}

func (g *qgen) pred() string {
	p := g.atomPred()
	for i := 0; i < 2 && g.chance("morePred", 35); i++ {
		p += " " + g.pick("bool", "and", "and", "or") + " " + g.atomPred()
	}
	return p
}

func (g *qgen) reading(first bool) string {
	kind := g.pick("reading", "match", "match", "match", "unwind", "optional")
	if first && kind == "optional" {
		kind = "match"
	}
	switch kind {
	case "unwind":
		var src string
		lists := g.of("list")
		nodes := g.of("node")
		switch {
		case len(lists) > 0 && g.chance("unwindList", 50):
			src = lists[rapid.IntRange(0, len(lists)-1).Draw(g.t, "ul")].name
		case len(nodes) > 0 && g.chance("unwindLabels", 40):
			src = "labels(" + nodes[rapid.IntRange(0, len(nodes)-1).Draw(g.t, "un")].name + ")"
		case g.chance("unwindParam", 50):
			src = g.param("strings")
		default:
			src = g.pick("ulit", "[1, 2, 3]", "['a', 'b']")
		}
		x := g.fresh()
		g.add(x, "scalar")
		return "unwind " + src + " as " + x
	default:
		s := "match " + g.pattern()
		if kind == "optional" {
			s = "optional " + s
		}
		if g.chance("where", 65) {
			s += " where " + g.pred()
		}
		return s
	}
}

type pitem struct {
	text string
	v    gvar // what it exports (name "" = nothing)
}

func (g *qgen) projItems(isReturn bool) []pitem {
	var items []pitem
	nodes := g.of("node")
	seen := map[string]bool{}
	n := rapid.IntRange(1, 3).Draw(g.t, "nitems")
	agg := false
	for i := 0; i < n; i++ {
		var opts []string
		if len(g.scope) > 0 {
			opts = append(opts, "var", "var", "var-as")
		}
		if len(nodes) > 0 {
			opts = append(opts, "prop-as", "prop-as", "count", "collect-prop")
			if isReturn {
				opts = append(opts, "prop", "id-as")
			} else {
				opts = append(opts, "collect-node")
			}
		}
		if len(opts) == 0 {
			opts = []string{"lit-as"}
		}
		kind := g.pick("item", opts...)
		pickNode := func() gvar { return nodes[rapid.IntRange(0, len(nodes)-1).Draw(g.t, "in")] }
		switch kind {
		case "var":
			v := g.scope[rapid.IntRange(0, len(g.scope)-1).Draw(g.t, "iv")]
			if seen[v.name] {
				continue
			}
			seen[v.name] = true
			items = append(items, pitem{v.name, v})
		case "var-as":
			v := g.scope[rapid.IntRange(0, len(g.scope)-1).Draw(g.t, "iv")]
			a := g.fresh()
			items = append(items, pitem{v.name + " as " + a, gvar{a, v.typ}})
		case "prop":
			items = append(items, pitem{pickNode().name + "." + g.pick("prop", "name", "age"), gvar{}})
		case "prop-as":
			a := g.fresh()
			items = append(items, pitem{pickNode().name + "." + g.pick("prop", "name", "age") + " as " + a, gvar{a, "scalar"}})
		case "id-as":
			a := g.fresh()
			items = append(items, pitem{"id(" + pickNode().name + ") as " + a, gvar{a, "scalar"}})
		case "count":
			a := g.fresh()
			agg = true
			items = append(items, pitem{"count(" + pickNode().name + ") as " + a, gvar{a, "scalar"}})
		case "collect-prop":
			a := g.fresh()
			agg = true
			items = append(items, pitem{"collect(" + pickNode().name + ".name) as " + a, gvar{a, "list"}})
		case "collect-node":
			a := g.fresh()
			agg = true
			items = append(items, pitem{"collect(" + pickNode().name + ") as " + a, gvar{a, "nodelist"}})
		case "lit-as":
			a := g.fresh()
			items = append(items, pitem{g.pick("lit", "1", "'a'") + " as " + a, gvar{a, "scalar"}})
		}
	}
	if len(items) == 0 {
		a := g.fresh()
		items = append(items, pitem{"1 as " + a, gvar{a, "scalar"}})
	}
	_ = agg
	return items
}

func (g *qgen) projection(isReturn bool) string {
	items := g.projItems(isReturn)
	var texts []string
	var newScope []gvar
	for _, it := range items {
		texts = append(texts, it.text)
		if it.v.name != "" {
			newScope = append(newScope, it.v)
		}
	}
	kw := "with "
	if isReturn {
		kw = "return "
	}
	if g.chance("distinct", 15) {
		kw += "distinct "
	}
	s := kw + strings.Join(texts, ", ")
	old := g.scope
	g.scope = newScope
	where := ""
	if !isReturn && g.chance("withWhere", 35) && len(g.of("scalar", "list", "node")) > 0 {
		g.noQuant = true
		where = " where " + g.pred()
		g.noQuant = false
	}
	if len(newScope) > 0 && g.chance("orderBy", map[bool]int{true: 45, false: 15}[isReturn]) {
		var keys []string
		k := rapid.IntRange(1, 2).Draw(g.t, "nkeys")
		for i := 0; i < k; i++ {
			v := newScope[rapid.IntRange(0, len(newScope)-1).Draw(g.t, "ok")]
			key := v.name
			if v.typ == "node" && g.chance("orderProp", 60) {
				key += ".name"
			}
			if g.chance("desc", 40) {
				key += " desc"
			}
			keys = append(keys, key)
		}
		s += " order by " + strings.Join(keys, ", ")
		if g.chance("skip", 20) {
			s += fmt.Sprintf(" skip %d", rapid.IntRange(1, 5).Draw(g.t, "skipn"))
		}
		if g.chance("limit", 50) {
			s += fmt.Sprintf(" limit %d", rapid.IntRange(1, 100).Draw(g.t, "limitn"))
		}
	} else if g.chance("limitOnly", 15) {
		s += fmt.Sprintf(" limit %d", rapid.IntRange(1, 100).Draw(g.t, "limitn"))
	}
	// WITH ... [ORDER BY] [SKIP] [LIMIT] [WHERE]
	s += where
	_ = old
	return s
}

func genQueryText(t *rapid.T) (string, map[string]string) {
	g := &qgen{t: t, vals: map[string]string{}}
	var clauses []string
	parts := rapid.IntRange(0, 2).Draw(t, "parts")
	for p := 0; p <= parts; p++ {
		nr := rapid.IntRange(1, 2).Draw(t, "readings")
		if p > 0 && len(g.scope) > 0 && g.chance("noReading", 15) {
			nr = 0
		}
		for r := 0; r < nr; r++ {
			clauses = append(clauses, g.reading(p == 0 && r == 0))
		}
		clauses = append(clauses, g.projection(p == parts))
	}
	return strings.Join(clauses, " "), g.vals
}

func genTyped(t *rapid.T) Case {
	text, vals := genQueryText(t)
	c := Case{Src: "gen", Query: text, Vals: vals}
	q, err := xlate.Parse(text)
	if err != nil || q == nil {
		return c
	}
	an, err := analyse(q)
	if err != nil {
		return c
	}
	c.Names = sparse(an, genNames(t, an, text))
	return c
}

func TestC06Gen(t *testing.T) {
	evid.Prop(t, "gen", evid.R.N(5000, 40000), genTyped, oracle)
}
