package c06

// Name pools for renamings: translator-internal identifiers (harvested from the golden SQL files and
// from the prefixes in translate/tracking.go of the tree under test), SQL keywords, benign names.
// Only names that DAWGS's parser accepts as a plain (unescaped) variable, alias AND parameter name
// are kept: names that need backticks are C04's business.

import (
	"os"
	"path/filepath"
	"regexp"
	"sort"
	"strings"
	"sync"

	"github.com/specterops/dawgs/cypher/models/cypher"

	"verif/gen/corpus"
	"verif/sqltok"
	"verif/xlate"
)

// PostgreSQL reserved key words (appendix C of the manual, "reserved" and "reserved (can be function or
// type)" columns). A Word token spelled like one of these is not an identifier outside `AS <label>`.
var pgReserved = map[string]bool{}

func init() {
	for _, w := range strings.Fields(`all analyse analyze and any array as asc asymmetric authorization binary both case cast
	check collate collation column concurrently constraint create cross current_catalog current_date current_role
	current_schema current_time current_timestamp current_user default deferrable desc distinct do else end except false
	fetch for foreign freeze from full grant group having ilike in initially inner intersect into is isnull join lateral
	leading left like limit localtime localtimestamp natural not notnull null offset on only or order outer overlaps
	placing primary references returning right select session_user similar some symmetric system_user table tablesample
	then to trailing true union unique user using variadic verbose when where window with`) {
		pgReserved[w] = true
	}
}

// other SQL words worth trying (non-reserved keywords, functions and types the translator emits)
var sqlExtra = strings.Fields(`select from group having array any some table join lateral offset window user using union
	unnest coalesce count row rows values value key set update delete insert returning exists between
	materialized recursive with_ordinality ordinality nulls first last over partition filter within int8 int4 text
	jsonb json bool boolean float8 numeric timestamp date time interval cast`)

var benignNames = []string{"vq1", "vq2", "vq3", "vq4", "vq5", "vq6", "vq7", "vq8", "vq9", "zed", "alpha", "Beta", "gamma_1", "_u", "x_y_z", "longer_name_for_a_variable"}

type pools struct {
	internal []string // translator identifiers: n0 e0 s0 … path depth root_id … nodecomposite …
	keywords []string // SQL keywords (reserved or not)
	benign   []string
	isIntern map[string]bool
	isKw     map[string]bool
}

var (
	poolOnce sync.Once
	pool     pools
)

var identRe = regexp.MustCompile(`^[A-Za-z_][A-Za-z0-9_]*$`)

// legalName: the parser takes `name` as a node variable, a parameter and an alias, unescaped, and gives it back verbatim.
func legalName(name string) bool {
	if !identRe.MatchString(name) {
		return false
	}
	q, err := xlate.Parse("match (" + name + ") where " + name + ".p = $" + name + " and any(" + name + "x in " + name + ".l where " + name + "x = 1) return " + name + ".p as " + name)
	if err != nil || q == nil {
		return false
	}
	an, err := analyse(q)
	if err != nil {
		return false
	}
	seenV, seenP, seenA := false, false, false
	for _, c := range an.classes {
		switch {
		case c.Kind == kNode && c.Orig == name:
			seenV = true
		case c.Kind == kParam && c.Orig == name:
			seenP = true
		case c.Kind == kRAlias && c.Orig == name:
			seenA = true
		}
	}
	if !(seenV && seenP && seenA) {
		return false
	}
	// and it survives the emitter
	txt, err := formatQuery(q)
	if err != nil {
		return false
	}
	q2, err := xlate.Parse(txt)
	if err != nil {
		return false
	}
	an2, err := analyse(q2)
	if err != nil || sameStructure(an, an2) != nil {
		return false
	}
	for i := range an.classes {
		if an.classes[i].Orig != an2.classes[i].Orig {
			return false
		}
	}
	return true
}

func getPools() *pools {
	poolOnce.Do(func() {
		root := corpus.RepoRoot()
		words := map[string]bool{}
		files, _ := filepath.Glob(filepath.Join(root, "cypher/models/pgsql/test/translation_cases/*.sql"))
		for _, f := range files {
			raw, err := os.ReadFile(f)
			if err != nil {
				continue
			}
			for _, line := range strings.Split(string(raw), "\n") {
				if strings.HasPrefix(line, "--") {
					continue
				}
				for _, t := range sqltok.Lex(line) {
					if t.Kind == sqltok.Word {
						words[t.Text] = true
					}
				}
			}
		}
		// generated-identifier prefixes
		if raw, err := os.ReadFile(filepath.Join(root, "cypher/models/pgsql/translate/tracking.go")); err == nil {
			for _, m := range regexp.MustCompile(`prefixStr = "([a-z]+)"`).FindAllStringSubmatch(string(raw), -1) {
				for _, n := range []string{"0", "1", "2", "3", "10"} {
					words[m[1]+n] = true
				}
			}
		}
		// column names the expansion / harness code uses (always present even if the golden files change)
		for _, w := range strings.Fields(`path depth root_id next_id satisfied is_cycle _path _edge _kind _kind_idx node edge kind properties id kind_ids kind_id start_id end_id graph_id nodes edges`) {
			words[w] = true
		}
		kw := map[string]bool{}
		for w := range pgReserved {
			kw[w] = true
		}
		for _, w := range sqlExtra {
			kw[w] = true
		}
		pool.isIntern, pool.isKw = map[string]bool{}, map[string]bool{}
		for w := range words {
			if len(w) > 40 {
				continue
			}
			if kw[strings.ToLower(w)] {
				continue // goes to the keyword pool
			}
			if legalName(w) {
				pool.internal = append(pool.internal, w)
				pool.isIntern[w] = true
			}
		}
		for w := range kw {
			if legalName(w) {
				pool.keywords = append(pool.keywords, w)
				pool.isKw[w] = true
			}
		}
		for _, w := range benignNames {
			if legalName(w) {
				pool.benign = append(pool.benign, w)
			}
		}
		sort.Strings(pool.internal)
		sort.Strings(pool.keywords)
		// generated identifiers first: rapid favours low indices
		rank := func(s string) int {
			if regexp.MustCompile(`^(n|e|s|i|pi|ep|ex|pc)[0-9]+$`).MatchString(s) {
				return 0
			}
			switch s {
			case "path", "depth", "root_id", "next_id", "satisfied", "is_cycle", "id", "properties", "kind_ids", "node", "edge", "start_id", "end_id", "nodes", "edges", "kind_id", "graph_id":
				return 1
			}
			return 2
		}
		sort.SliceStable(pool.internal, func(i, j int) bool { return rank(pool.internal[i]) < rank(pool.internal[j]) })
	})
	return &pool
}

func formatQuery(q *cypher.RegularQuery) (string, error) {
	return cypherFormat(q)
}
