package c06

import (
	"encoding/json"
	"fmt"
	"os"
	"strings"
	"testing"

	"pgregory.net/rapid"

	"verif/xlate"
)

// development helpers (run only when the env variables are set)

func TestProbe(t *testing.T) {
	if os.Getenv("PROBE") == "" {
		t.Skip()
	}
	qs := strings.Split(os.Getenv("PROBE"), "|||")
	for _, q := range qs {
		if q == "" {
			continue
		}
		m, err := xlate.Parse(q)
		if err != nil {
			fmt.Printf("Q: %s\n  PARSE ERR: %v\n", q, err)
			continue
		}
		res, err := xlate.Translate(m, map[string]any{})
		if err != nil {
			fmt.Printf("Q: %s\n  ERR: %.300v\n", q, err)
			continue
		}
		fmt.Printf("Q: %s\n  SQL: %s\n  PARAMS: %v\n", q, res.SQL, res.Params)
	}
}

// TestMinimise greedily blanks the names of a stored failing case.
func TestMinimise(t *testing.T) {
	f := os.Getenv("MINIMISE")
	if f == "" {
		t.Skip()
	}
	raw, err := os.ReadFile(f)
	if err != nil {
		t.Fatal(err)
	}
	var rc struct {
		Case Case `json:"case"`
	}
	if err := json.Unmarshal(raw, &rc); err != nil {
		t.Fatal(err)
	}
	c := rc.Case
	_, err = oracle(c)
	if err == nil {
		fmt.Println("case passes")
		return
	}
	for i := range c.Names {
		if c.Names[i] == "" {
			continue
		}
		old := c.Names[i]
		c.Names[i] = ""
		if _, e := oracle(c); e == nil {
			c.Names[i] = old
		}
	}
	_, err = oracle(c)
	out, _ := json.Marshal(c)
	msg := err.Error()
	if len(msg) > 3000 {
		msg = msg[:3000]
	}
	fmt.Printf("MINIMAL NAMES: %s\n%s\n", out, msg)
}

// TestGenStats tallies why generated queries are rejected.
func TestGenStats(t *testing.T) {
	if os.Getenv("GENSTATS") == "" {
		t.Skip()
	}
	tally := map[string]int{}
	example := map[string]string{}
	n := 0
	rapid.Check(t, func(rt *rapid.T) {
		text, _ := genQueryText(rt)
		n++
		q, err := xlate.Parse(text)
		key := "ok"
		if err != nil {
			key = "parse: " + err.Error()
		} else if _, err := xlate.Translate(q, nil); err != nil {
			key = "translate: " + err.Error()
		}
		if len(key) > 90 {
			key = key[:90]
		}
		tally[key]++
		if len(example[key]) == 0 || len(text) < len(example[key]) {
			example[key] = text
		}
	})
	for k, v := range tally {
		fmt.Printf("%5d %s\n      e.g. %s\n", v, k, example[k])
	}
}
