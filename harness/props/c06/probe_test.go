package c06

import (
	"fmt"
	"os"
	"testing"
	"strings"

	"verif/xlate"
)

func TestProbe(t *testing.T) {
	qs := strings.Split(os.Getenv("PROBE"), "|||")
	for _, q := range qs {
		if q == "" { continue }
		m, err := xlate.Parse(q)
		if err != nil {
			fmt.Printf("Q: %s\n  PARSE ERR: %v\n", q, err)
			continue
		}
		res, err := xlate.Translate(m, map[string]any{})
		if err != nil {
			fmt.Printf("Q: %s\n  ERR: %.300v\n", q, err)
			continue
		}
		fmt.Printf("Q: %s\n  SQL: %s\n  PARAMS: %v\n", q, res.SQL, res.Params)
	}
}
