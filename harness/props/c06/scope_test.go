package c06

// Scope analysis of a parsed Cypher model and the renamer that is built on it.
//
// The analysis is written from the openCypher scoping rules, not from DAWGS's translator:
//   - a query is a sequence of parts separated by WITH; the reading clauses of a part see the names
//     exported by the previous WITH plus whatever they bind themselves (pattern node / relationship /
//     path variables, UNWIND variables);
//   - a WITH / RETURN projection evaluates its item expressions in the old scope and exports the
//     aliases (and the unaliased bare variables, and everything for `*`) as the new scope;
//     WITH ... WHERE sees the new scope; ORDER BY sees the new scope laid over the old one;
//   - a quantifier `any(x IN list WHERE p)` evaluates list outside and binds x for p only;
//   - a pattern predicate may mention new variables, which are local to it;
//   - parameters live in their own, query-global namespace.
//
// Every *cypher.Variable / *cypher.Parameter occurrence is assigned to a binding class. A renaming
// is a map class -> name. It is admissible when every "region" (a set of classes that are visible
// together) keeps pairwise distinct names: that is "injective within each scope".

import (
	"fmt"
	"reflect"
	"sort"
	"strings"

	"github.com/specterops/dawgs/cypher/models/cypher"
)

type classKind string

const (
	kNode   classKind = "node"
	kRel    classKind = "rel"
	kPath   classKind = "path"
	kUnwind classKind = "unwind"
	kAlias  classKind = "alias"  // WITH alias
	kRAlias classKind = "ralias" // RETURN alias
	kQuant  classKind = "quant"
	kLocal  classKind = "plocal" // variable first seen inside a pattern predicate
	kFree   classKind = "free"   // referenced but never bound (the query is not valid Cypher)
	kParam  classKind = "param"
)

type class struct {
	ID   int
	Kind classKind
	Orig string
	Part int
}

type occurrence struct {
	v     *cypher.Variable
	p     *cypher.Parameter
	class int
}

type env struct {
	names []string
	m     map[string]int
}

func newEnv() *env { return &env{m: map[string]int{}} }

func (e *env) copy() *env {
	n := &env{names: append([]string(nil), e.names...), m: make(map[string]int, len(e.m))}
	for k, v := range e.m {
		n.m[k] = v
	}
	return n
}

func (e *env) set(name string, c int) {
	if _, ok := e.m[name]; !ok {
		e.names = append(e.names, name)
	}
	e.m[name] = c
}

func (e *env) classes() []int {
	out := make([]int, 0, len(e.names))
	for _, n := range e.names {
		out = append(out, e.m[n])
	}
	return out
}

type analysis struct {
	classes []*class
	occs    []occurrence
	// regions: classes that are visible together and therefore need pairwise distinct names
	regions [][]int
	// strict: additionally keeps every projection's aliases apart from the scope they are computed
	// in (so `WITH m AS r` may not reuse a name that is still visible before the WITH)
	strict [][]int
	// pairs of classes that must differ (alias of a bare variable vs that variable: `WITH n AS n`
	// is the same as `WITH n`, so making the two names equal would change the binding structure)
	apart [][2]int
	// returnEnv: name -> class of the final RETURN's output columns (aliases and bare variables)
	returnEnv *env
	params    map[string]int
	free      map[string]int
	part      int
	feats     map[string]bool
	updating  bool
	seq       []int  // class id per occurrence, in walk order (binding structure fingerprint)
	occPart   []int  // query part of each occurrence
	occDecl   []bool // the occurrence is a variable position of a MATCH pattern
	inDecl    bool
}

// flags select optional extra separation rules (used while the corresponding finding is open)
type sepFlags struct {
	strict      bool // aliases differ from everything visible where they are computed
	symbolLevel bool // the renaming is a bijection on symbols: two (non-parameter) classes get the same name iff they were spelled the same
}

func analyse(q *cypher.RegularQuery) (a *analysis, err error) {
	defer func() {
		if p := recover(); p != nil {
			a, err = nil, fmt.Errorf("scope analysis panicked: %v", p)
		}
	}()
	a = &analysis{params: map[string]int{}, free: map[string]int{}, feats: map[string]bool{}}
	if q == nil || q.SingleQuery == nil {
		return nil, fmt.Errorf("empty query")
	}
	e := newEnv()
	sq := q.SingleQuery
	switch {
	case sq.MultiPartQuery != nil:
		a.feats["multipart"] = true
		for _, p := range sq.MultiPartQuery.Parts {
			if p == nil {
				continue
			}
			var upd []any
			for _, u := range p.UpdatingClauses {
				upd = append(upd, u)
			}
			e = a.queryPart(e, p.ReadingClauses, upd)
			if p.With != nil {
				e = a.projection(e, p.With.Projection, p.With.Where, false)
			}
			a.part++
		}
		if sq.MultiPartQuery.SinglePartQuery != nil {
			a.single(e, sq.MultiPartQuery.SinglePartQuery)
		}
	case sq.SinglePartQuery != nil:
		a.single(e, sq.SinglePartQuery)
	default:
		return nil, fmt.Errorf("empty single query")
	}
	return a, nil
}

func (a *analysis) single(e *env, s *cypher.SinglePartQuery) {
	var upd []any
	for _, u := range s.UpdatingClauses {
		upd = append(upd, u)
	}
	e = a.queryPart(e, s.ReadingClauses, upd)
	if s.Return != nil && s.Return.Projection != nil {
		a.returnEnv = a.projection(e, s.Return.Projection, nil, true)
	}
}

func (a *analysis) newClass(kind classKind, orig string) int {
	c := &class{ID: len(a.classes), Kind: kind, Orig: orig, Part: a.part}
	a.classes = append(a.classes, c)
	return c.ID
}

func (a *analysis) occV(v *cypher.Variable, c int) {
	a.occs = append(a.occs, occurrence{v: v, class: c})
	a.seq = append(a.seq, c)
	a.occPart = append(a.occPart, a.part)
	a.occDecl = append(a.occDecl, a.inDecl)
}

func (a *analysis) define(e *env, v *cypher.Variable, kind classKind) int {
	c := a.newClass(kind, v.Symbol)
	e.set(v.Symbol, c)
	a.occV(v, c)
	return c
}

func (a *analysis) defineOrRef(e *env, v *cypher.Variable, kind classKind) {
	if v == nil || v.Symbol == "" {
		return
	}
	if c, ok := e.m[v.Symbol]; ok {
		a.occV(v, c)
		return
	}
	a.define(e, v, kind)
}

func (a *analysis) ref(e *env, v *cypher.Variable) int {
	if c, ok := e.m[v.Symbol]; ok {
		a.occV(v, c)
		return c
	}
	// unbound: one class per symbol for the whole query so that the renaming stays consistent
	c, ok := a.free[v.Symbol]
	if !ok {
		c = a.newClass(kFree, v.Symbol)
		a.free[v.Symbol] = c
	}
	a.feats["free-variable"] = true
	a.occV(v, c)
	return c
}

func (a *analysis) queryPart(in *env, reading []*cypher.ReadingClause, updating []any) *env {
	e := in.copy()
	for _, rc := range reading {
		if rc == nil {
			continue
		}
		if m := rc.Match; m != nil {
			if m.Optional {
				a.feats["optional-match"] = true
			}
			a.pattern(e, m.Pattern, false)
			if m.Where != nil {
				a.feats["where"] = true
				a.expr(e, m.Where)
			}
		}
		if u := rc.Unwind; u != nil {
			a.feats["unwind"] = true
			a.expr(e, u.Expression)
			if u.Variable != nil && u.Variable.Symbol != "" {
				a.define(e, u.Variable, kUnwind)
			}
		}
	}
	for _, u := range updating {
		a.updating = true
		a.feats["updating"] = true
		clause := u
		if uc, ok := u.(*cypher.UpdatingClause); ok && uc != nil {
			clause = uc.Clause
		}
		switch t := clause.(type) {
		case *cypher.Create:
			a.pattern(e, t.Pattern, false)
		case *cypher.Merge:
			if t.PatternPart != nil {
				a.pattern(e, []*cypher.PatternPart{t.PatternPart}, false)
			}
			for _, ma := range t.MergeActions {
				a.expr(e, ma)
			}
		default:
			a.expr(e, clause)
		}
	}
	a.regions = append(a.regions, e.classes())
	return e
}

func (a *analysis) pattern(e *env, parts []*cypher.PatternPart, local bool) {
	for _, pp := range parts {
		if pp == nil {
			continue
		}
		if pp.Variable != nil && pp.Variable.Symbol != "" {
			a.feats["path-variable"] = true
			a.inDecl = !local
			a.defineOrRef(e, pp.Variable, kPath)
			a.inDecl = false
		}
		if pp.ShortestPathPattern || pp.AllShortestPathsPattern {
			a.feats["shortest-path"] = true
		}
		a.patternElements(e, pp.PatternElements, local)
	}
}

func (a *analysis) patternElements(e *env, elems []*cypher.PatternElement, local bool) {
	nk, rk := kNode, kRel
	if local {
		nk, rk = kLocal, kLocal
	}
	a.inDecl = !local
	for _, el := range elems {
		if el == nil {
			continue
		}
		switch t := el.Element.(type) {
		case *cypher.NodePattern:
			a.defineOrRef(e, t.Variable, nk)
		case *cypher.RelationshipPattern:
			a.defineOrRef(e, t.Variable, rk)
			if t.Range != nil {
				a.feats["expansion"] = true
			}
		}
	}
	a.inDecl = false
	for _, el := range elems {
		if el == nil {
			continue
		}
		switch t := el.Element.(type) {
		case *cypher.NodePattern:
			if t.Properties != nil {
				a.expr(e, t.Properties)
			}
		case *cypher.RelationshipPattern:
			if t.Properties != nil {
				a.expr(e, t.Properties)
			}
		}
	}
}

func isGreedy(pi *cypher.ProjectionItem) bool {
	v, ok := pi.Expression.(*cypher.Variable)
	return ok && v != nil && v.Symbol == cypher.TokenLiteralAsterisk && pi.Alias == nil
}

func (a *analysis) projection(e *env, proj *cypher.Projection, where *cypher.Where, isReturn bool) *env {
	out := newEnv()
	if proj == nil {
		return out
	}
	if proj.Distinct {
		a.feats["distinct"] = true
	}
	if proj.All {
		for _, n := range e.names {
			out.set(n, e.m[n])
		}
	}
	for _, it := range proj.Items {
		pi, ok := it.(*cypher.ProjectionItem)
		if !ok || pi == nil {
			a.expr(e, it)
			continue
		}
		if isGreedy(pi) {
			for _, n := range e.names {
				out.set(n, e.m[n])
			}
			continue
		}
		a.expr(e, pi.Expression)
		bare, isBare := pi.Expression.(*cypher.Variable)
		switch {
		case pi.Alias != nil && pi.Alias.Symbol != "":
			if isBare && bare.Symbol == pi.Alias.Symbol {
				// `n AS n` is `n`
				if c, bound := e.m[bare.Symbol]; bound {
					a.occV(pi.Alias, c)
					out.set(bare.Symbol, c)
					break
				}
			}
			kind := kAlias
			if isReturn {
				kind = kRAlias
				a.feats["return-alias"] = true
			} else {
				a.feats["with-alias"] = true
			}
			c := a.newClass(kind, pi.Alias.Symbol)
			a.occV(pi.Alias, c)
			out.set(pi.Alias.Symbol, c)
			if isBare {
				if bc, bound := e.m[bare.Symbol]; bound {
					a.apart = append(a.apart, [2]int{c, bc})
				}
			}
		case isBare:
			if c, bound := e.m[bare.Symbol]; bound {
				out.set(bare.Symbol, c)
			} else if c, isFree := a.free[bare.Symbol]; isFree {
				out.set(bare.Symbol, c)
			}
		}
	}
	a.regions = append(a.regions, out.classes())
	a.strict = append(a.strict, append(out.classes(), e.classes()...))
	if where != nil {
		a.feats["with-where"] = true
		a.expr(out, where)
	}
	if proj.Order != nil && len(proj.Order.Items) > 0 {
		a.feats["order-by"] = true
		over := e.copy()
		for _, n := range out.names {
			over.set(n, out.m[n])
		}
		for _, si := range proj.Order.Items {
			if si != nil {
				a.expr(over, si.Expression)
			}
		}
		// ORDER BY can see both scopes: keep them apart
		a.regions = append(a.regions, append(out.classes(), e.classes()...))
	}
	if proj.Skip != nil {
		a.feats["skip"] = true
		a.expr(e, proj.Skip.Value)
	}
	if proj.Limit != nil {
		a.feats["limit"] = true
		a.expr(e, proj.Limit.Value)
	}
	return out
}

func (a *analysis) filter(e *env, f *cypher.FilterExpression) {
	if f == nil {
		return
	}
	child := e.copy()
	if f.Specifier != nil {
		a.expr(e, f.Specifier.Expression)
		if v := f.Specifier.Variable; v != nil && v.Symbol != "" {
			a.define(child, v, kQuant)
		}
	}
	a.regions = append(a.regions, child.classes())
	if f.Where != nil {
		a.expr(child, f.Where)
	}
}

type getAller interface {
	GetAll() []cypher.Expression
}

func (a *analysis) expr(e *env, x any) {
	switch t := x.(type) {
	case nil:
		return
	case *cypher.Variable:
		if t == nil || t.Symbol == "" || t.Symbol == cypher.TokenLiteralAsterisk {
			return
		}
		a.ref(e, t)
		return
	case *cypher.Parameter:
		if t == nil {
			return
		}
		a.feats["parameter"] = true
		c, ok := a.params[t.Symbol]
		if !ok {
			c = a.newClass(kParam, t.Symbol)
			a.params[t.Symbol] = c
		}
		a.occs = append(a.occs, occurrence{p: t, class: c})
		a.seq = append(a.seq, c)
		a.occPart = append(a.occPart, a.part)
		a.occDecl = append(a.occDecl, false)
		return
	case *cypher.Quantifier:
		if t != nil {
			a.feats["quantifier"] = true
			a.filter(e, t.Filter)
		}
		return
	case *cypher.FilterExpression:
		a.feats["filter-expression"] = true
		a.filter(e, t)
		return
	case *cypher.PatternPredicate:
		if t != nil {
			a.feats["pattern-predicate"] = true
			child := e.copy()
			a.patternElements(child, t.PatternElements, true)
			a.regions = append(a.regions, child.classes())
		}
		return
	case *cypher.PatternPart:
		if t != nil {
			child := e.copy()
			a.pattern(child, []*cypher.PatternPart{t}, true)
			a.regions = append(a.regions, child.classes())
		}
		return
	case cypher.MapLiteral:
		keys := make([]string, 0, len(t))
		for k := range t {
			keys = append(keys, k)
		}
		sort.Strings(keys)
		for _, k := range keys {
			a.expr(e, t[k])
		}
		return
	}
	if g, ok := x.(getAller); ok {
		v := reflect.ValueOf(x)
		if v.Kind() != reflect.Ptr || !v.IsNil() {
			for _, sub := range g.GetAll() {
				a.expr(e, sub)
			}
		}
	}
	a.walk(e, reflect.ValueOf(x), true)
}

// walk visits the children of a value generically. top=true means "x itself was already
// dispatched by expr": descend into it instead of dispatching again.
func (a *analysis) walk(e *env, v reflect.Value, top bool) {
	switch v.Kind() {
	case reflect.Ptr:
		if v.IsNil() {
			return
		}
		if !top && v.CanInterface() {
			a.expr(e, v.Interface())
			return
		}
		a.walk(e, v.Elem(), false)
	case reflect.Interface:
		if v.IsNil() {
			return
		}
		if v.CanInterface() {
			a.expr(e, v.Interface())
		}
	case reflect.Struct:
		t := v.Type()
		if !strings.HasSuffix(t.PkgPath(), "cypher/models/cypher") {
			return
		}
		for i := 0; i < v.NumField(); i++ {
			if t.Field(i).PkgPath != "" { // unexported (errorContext, expressionList: handled through GetAll)
				continue
			}
			a.walk(e, v.Field(i), false)
		}
	case reflect.Slice, reflect.Array:
		if v.Kind() == reflect.Slice && v.IsNil() {
			return
		}
		for i := 0; i < v.Len(); i++ {
			a.walk(e, v.Index(i), false)
		}
	case reflect.Map:
		if v.IsNil() || !v.CanInterface() {
			return
		}
		if ml, ok := v.Interface().(cypher.MapLiteral); ok {
			a.expr(e, ml)
		}
	}
}

// ---- renaming ----

// conflicts returns, for every class, the set of classes whose name it must differ from.
func (a *analysis) conflicts(f sepFlags) []map[int]bool {
	out := make([]map[int]bool, len(a.classes))
	for i := range out {
		out[i] = map[int]bool{}
	}
	add := func(set []int) {
		for _, x := range set {
			for _, y := range set {
				if x != y {
					out[x][y] = true
				}
			}
		}
	}
	for _, r := range a.regions {
		add(r)
	}
	if f.strict {
		for _, r := range a.strict {
			add(r)
		}
	}
	if f.symbolLevel {
		for _, c := range a.classes {
			for _, d := range a.classes {
				if c.ID != d.ID && c.Kind != kParam && d.Kind != kParam && c.Orig != d.Orig {
					out[c.ID][d.ID] = true
				}
			}
		}
	}
	for _, p := range a.apart {
		add(p[:])
	}
	// parameters among themselves
	var ps []int
	for _, c := range a.classes {
		if c.Kind == kParam {
			ps = append(ps, c.ID)
		}
	}
	add(ps)
	// free variables are global: keep them apart from everything that is a variable
	for _, c := range a.classes {
		if c.Kind == kFree {
			for _, d := range a.classes {
				if d.ID != c.ID && d.Kind != kParam {
					out[c.ID][d.ID] = true
					out[d.ID][c.ID] = true
				}
			}
		}
	}
	return out
}

// admissible reports whether names (one per class) keep every region injective.
func (a *analysis) admissible(names []string, f sepFlags) bool {
	conf := a.conflicts(f)
	for i, set := range conf {
		for j := range set {
			if names[i] == names[j] {
				return false
			}
		}
	}
	if f.symbolLevel {
		for _, c := range a.classes {
			for _, d := range a.classes {
				if c.Kind != kParam && d.Kind != kParam && c.Orig == d.Orig && names[c.ID] != names[d.ID] {
					return false
				}
			}
		}
	}
	return true
}

// apply writes the names into the model (in place).
func (a *analysis) apply(names []string) {
	for _, o := range a.occs {
		if o.v != nil {
			o.v.Symbol = names[o.class]
		} else if o.p != nil {
			o.p.Symbol = names[o.class]
		}
	}
}

func (a *analysis) origNames() []string {
	out := make([]string, len(a.classes))
	for i, c := range a.classes {
		out[i] = c.Orig
	}
	return out
}

// sameStructure compares the binding structure of two analyses (class per occurrence, class kinds).
func sameStructure(x, y *analysis) error {
	if len(x.seq) != len(y.seq) {
		return fmt.Errorf("%d vs %d variable/parameter occurrences", len(x.seq), len(y.seq))
	}
	for i := range x.seq {
		if x.seq[i] != y.seq[i] {
			return fmt.Errorf("occurrence %d belongs to class %d (%s %q) vs class %d (%s %q)", i,
				x.seq[i], x.classes[x.seq[i]].Kind, x.classes[x.seq[i]].Orig, y.seq[i], y.classes[y.seq[i]].Kind, y.classes[y.seq[i]].Orig)
		}
	}
	if len(x.classes) != len(y.classes) {
		return fmt.Errorf("%d vs %d classes", len(x.classes), len(y.classes))
	}
	for i := range x.classes {
		if x.classes[i].Kind != y.classes[i].Kind {
			return fmt.Errorf("class %d is %s vs %s", i, x.classes[i].Kind, y.classes[i].Kind)
		}
	}
	return nil
}
