// C06 — translation is hygienic: user-chosen names never capture translator names.
package c06

import (
	"fmt"
	"reflect"
	"regexp"
	"sort"
	"strconv"
	"strings"
	"testing"

	"github.com/specterops/dawgs/cypher/models/cypher"
	"github.com/specterops/dawgs/cypher/models/cypher/format"
	"pgregory.net/rapid"

	"verif/evid"
	"verif/gen/corpus"
	"verif/sqltok"
	"verif/xlate"
)

func TestMain(m *testing.M) {
	evid.Main(m, "C06", "exploration",
		"a translatable query Q (corpus/sweep: every query text shipped with the tree that translates; gen: typed multi-clause read queries - MATCH/OPTIONAL MATCH patterns with path variables, expansions and shortest paths, WHERE with parameters, quantifiers and pattern predicates, UNWIND, WITH aliases/aggregates/WHERE, ORDER BY on aliases, SKIP/LIMIT) x a renaming rho of its binding classes (pattern/UNWIND/quantifier variables, WITH and RETURN aliases, parameters; classes come from an openCypher scope analysis of the parsed model; rho keeps every scope injective; while the two open findings are listed rho is additionally a bijection on symbols and aliases stay apart from visible variables) into benign names, translator identifiers (harvested from the golden SQL and tracking.go: n0 e0 s0 i0 pi0 ep0 path depth root_id ...), SQL keywords, case variants and cross-namespace collisions; sweep = five systematic hostile renamings of every shipped query. rho is applied to the MODEL; as a cross-check the renamed model is emitted, re-parsed, re-analysed (same binding structure) and must translate identically. Oracle: lex SQL(Q) and SQL(rho Q) as PostgreSQL; tokens equal except the output-column labels of the outermost SELECT (AS <label>) and bare ORDER BY references to such a label, which map by rho; a bare ORDER BY reference must not be a PostgreSQL reserved word nor ambiguous under case folding; emitted parameter maps (keys pi<i>, generated, never user names) DeepEqual with the input values keyed by rho(name); both translate or both fail with the same error up to names; no panic. Non-trivial = both translate and rho newly sends a class to a translator identifier or SQL keyword, or newly makes a parameter name equal to a variable/alias name, or an alias equal to a variable of another scope, or two names equal up to case; distinct by (query shape = part count + feature set + binding-kind counts, set of renaming classes).",
		"the scope analysis (props/c06/scope_test.go) implements openCypher scoping; its output is cross-checked per case by re-parsing the emitted renamed query and comparing binding structures",
		"new names are restricted to [A-Za-z_][A-Za-z0-9_]* that DAWGS's parser accepts unescaped as variable, alias and parameter (names that need backticks belong to C04)",
		"SQL is judged by an independent PostgreSQL lexer (verif/sqltok); which positions carry user names was derived from translate/projection.go (buildExternalProjection: tail projection aliases; rewriteOrderByProjectionAlias: ORDER BY references to a projection alias)",
		"a translation whose output differs between two runs on the same input is skipped (C05 decides determinism)")
}

// Case is the replay format.
type Case struct {
	Src   string            `json:"src"`
	Query string            `json:"query"`
	Names []string          `json:"names,omitempty"` // new name per binding class in analysis order ("" = keep)
	Vals  map[string]string `json:"vals,omitempty"`  // parameter values by ORIGINAL parameter name: i:<int> s:<str> l:<a,b> n:<ints> b:<bool> f:<float>
	Note  string            `json:"note,omitempty"`
}

func decodeVal(s string) any {
	if len(s) < 2 || s[1] != ':' {
		return s
	}
	body := s[2:]
	switch s[0] {
	case 'i':
		n, _ := strconv.ParseInt(body, 10, 64)
		return n
	case 'f':
		f, _ := strconv.ParseFloat(body, 64)
		return f
	case 'b':
		return body == "true"
	case 'l':
		if body == "" {
			return []string{}
		}
		return strings.Split(body, ",")
	case 'n':
		out := []int64{}
		if body != "" {
			for _, p := range strings.Split(body, ",") {
				n, _ := strconv.ParseInt(p, 10, 64)
				out = append(out, n)
			}
		}
		return out
	}
	return body
}

func cypherFormat(q *cypher.RegularQuery) (s string, err error) {
	defer func() {
		if p := recover(); p != nil {
			err = fmt.Errorf("emitter panicked: %v", p)
		}
	}()
	return format.RegularQuery(q, false)
}

var generatedRe = regexp.MustCompile(`^(n|e|s|i|pi|ep|ex|pc)[0-9]+$`)

// ---- SQL comparison ----

type userPos struct {
	alias map[int]bool // `AS <label>` of the outermost SELECT list
	order map[int]bool // bare identifier items of the outermost ORDER BY
}

func isWord(t sqltok.Token, w string) bool { return t.Kind == sqltok.Word && t.Value == w }

func isNameTok(t sqltok.Token) bool { return t.Kind == sqltok.Word || t.Kind == sqltok.QuotedIdent }

// positions finds the places of the outermost query that carry result-column names.
func positions(toks []sqltok.Token) userPos {
	up := userPos{alias: map[int]bool{}, order: map[int]bool{}}
	depth := 0
	depthAt := make([]int, len(toks))
	sel := -1
	for i, t := range toks {
		if t.Kind == sqltok.Punct && (t.Text == "(" || t.Text == "[") {
			depthAt[i] = depth
			depth++
			continue
		}
		if t.Kind == sqltok.Punct && (t.Text == ")" || t.Text == "]") {
			depth--
			depthAt[i] = depth
			continue
		}
		depthAt[i] = depth
		// a label right after AS is never a keyword, whatever it is spelled like
		if sel < 0 && depth == 0 && isWord(t, "select") && !(i > 0 && isWord(toks[i-1], "as")) {
			sel = i // the outermost SELECT: CTE bodies are parenthesised
		}
	}
	if sel < 0 {
		return up
	}
	i := sel + 1
	// select list
	for ; i < len(toks); i++ {
		t := toks[i]
		if depthAt[i] != 0 {
			continue
		}
		if isWord(t, "as") && i+1 < len(toks) && isNameTok(toks[i+1]) && depthAt[i+1] == 0 {
			up.alias[i+1] = true
			i++
			continue
		}
		if t.Kind == sqltok.Word {
			switch t.Value {
			case "from", "where", "group", "having", "order", "limit", "offset", "union", "window", "fetch", "for":
				goto afterList
			}
		}
		if t.Kind == sqltok.Punct && t.Text == ";" {
			goto afterList
		}
	}
afterList:
	for ; i < len(toks); i++ {
		if depthAt[i] == 0 && isWord(toks[i], "order") && i+1 < len(toks) && isWord(toks[i+1], "by") {
			j := i + 2
			for j < len(toks) {
				// one sort item starts at j
				if depthAt[j] == 0 && isNameTok(toks[j]) {
					end := j+1 >= len(toks)
					if !end {
						n := toks[j+1]
						end = depthAt[j+1] == 0 && ((n.Kind == sqltok.Punct && (n.Text == "," || n.Text == ";")) ||
							isWord(n, "asc") || isWord(n, "desc") || isWord(n, "nulls") || isWord(n, "limit") || isWord(n, "offset"))
					}
					if end {
						up.order[j] = true
					}
				}
				// skip to the next depth-0 comma or the end of the clause
				for j < len(toks) {
					t := toks[j]
					if depthAt[j] == 0 {
						if t.Kind == sqltok.Punct && t.Text == "," {
							j++
							break
						}
						if (t.Kind == sqltok.Punct && t.Text == ";") || ((isWord(t, "limit") || isWord(t, "offset")) && !up.order[j]) {
							j = len(toks)
							break
						}
					}
					j++
				}
			}
			break
		}
	}
	return up
}

func sameSet(a, b map[int]bool) bool {
	if len(a) != len(b) {
		return false
	}
	for k := range a {
		if !b[k] {
			return false
		}
	}
	return true
}

func tokCtx(toks []sqltok.Token, i int) string {
	lo, hi := i-4, i+4
	if lo < 0 {
		lo = 0
	}
	if hi > len(toks) {
		hi = len(toks)
	}
	var parts []string
	for j := lo; j < hi; j++ {
		if j == i {
			parts = append(parts, "»"+toks[j].Text+"«")
		} else {
			parts = append(parts, toks[j].Text)
		}
	}
	return strings.Join(parts, " ")
}

// compareSQL decides the token rule. ret maps a result-column name of Q to its binding class;
// names[class] is the new name.
func compareSQL(sql0, sql1 string, ret map[string]int, names []string) error {
	t0 := sqltok.Significant(sqltok.Lex(sql0))
	t1 := sqltok.Significant(sqltok.Lex(sql1))
	for _, t := range t1 {
		if t.Kind == sqltok.Bad {
			return fmt.Errorf("SQL of the renamed query does not lex: %s at %d", t.Value, t.Pos)
		}
	}
	if len(t0) != len(t1) {
		i := 0
		for i < len(t0) && i < len(t1) && t0[i].Kind == t1[i].Kind && t0[i].Text == t1[i].Text {
			i++
		}
		ctx0, ctx1 := "(end)", "(end)"
		if i < len(t0) {
			ctx0 = tokCtx(t0, i)
		}
		if i < len(t1) {
			ctx1 = tokCtx(t1, i)
		}
		return fmt.Errorf("SQL(Q) has %d tokens, SQL(rho Q) has %d; first difference at token %d:\n  SQL(Q):     … %s …\n  SQL(rho Q): … %s …", len(t0), len(t1), i, ctx0, ctx1)
	}
	p0, p1 := positions(t0), positions(t1)
	for i := range t0 {
		a, b := t0[i], t1[i]
		if p0.alias[i] || p0.order[i] {
			where := "result-column label"
			if p0.order[i] {
				where = "ORDER BY reference"
			}
			if a.Kind != b.Kind {
				return fmt.Errorf("%s %q became a %s token %q (… %s …)", where, a.Text, b.Kind, b.Text, tokCtx(t1, i))
			}
			if cls, isUser := ret[a.Text]; isUser {
				if b.Text != names[cls] {
					return fmt.Errorf("%s %q (user name, renamed to %q) is %q in SQL(rho Q) (… %s …)", where, a.Text, names[cls], b.Text, tokCtx(t1, i))
				}
			} else if a.Text != b.Text {
				return fmt.Errorf("%s %q is not a result column of Q but changed to %q (… %s …)", where, a.Text, b.Text, tokCtx(t1, i))
			}
			continue
		}
		if a.Kind != b.Kind || a.Text != b.Text {
			return fmt.Errorf("token %d differs outside the result-column positions: %s %q vs %s %q\n  SQL(Q):     … %s …\n  SQL(rho Q): … %s …", i, a.Kind, a.Text, b.Kind, b.Text, tokCtx(t0, i), tokCtx(t1, i))
		}
	}
	if !sameSet(p0.alias, p1.alias) || !sameSet(p0.order, p1.order) {
		return fmt.Errorf("the renamed statement has its result-column positions elsewhere (a user name is read as a keyword?)")
	}
	return nil
}

// orderByHazards: a bare ORDER BY reference is an identifier, not a label: it must not be a reserved word and
// must denote one output column after PostgreSQL's case folding.
func orderByHazards(sql string) error {
	toks := sqltok.Significant(sqltok.Lex(sql))
	p := positions(toks)
	var idx []int
	for i := range p.order {
		idx = append(idx, i)
	}
	sort.Ints(idx)
	for _, i := range idx {
		t := toks[i]
		if t.Kind != sqltok.Word {
			continue
		}
		if pgReserved[t.Value] {
			return fmt.Errorf("ORDER BY references the result column %q unquoted: a PostgreSQL reserved word (… %s …)", t.Text, tokCtx(toks, i))
		}
		n := 0
		exact := 0
		for j := range p.alias {
			if toks[j].Kind == sqltok.Word && toks[j].Value == t.Value {
				n++
				if toks[j].Text == t.Text {
					exact++
				}
			}
		}
		if n > 1 && exact < n {
			return fmt.Errorf("ORDER BY reference %q is ambiguous after case folding: %d result columns fold to %q", t.Text, n, t.Value)
		}
	}
	return nil
}

// ---- the oracle ----

func resolveNames(an *analysis, given []string) []string {
	names := an.origNames()
	for i := range names {
		if i < len(given) && given[i] != "" {
			names[i] = given[i]
		}
	}
	return names
}

func maskNames(msg string, names map[string]bool) string {
	return regexp.MustCompile(`[A-Za-z_][A-Za-z0-9_]*`).ReplaceAllStringFunc(msg, func(w string) string {
		if names[w] {
			return "_"
		}
		return w
	})
}

type renLabels struct {
	labels     []string
	nonTrivial bool
}

// classify describes what the renaming does that the original naming did not.
func classify(an *analysis, names []string) renLabels {
	var rl renLabels
	set := map[string]bool{}
	p := getPools()
	changed := false
	for i, c := range an.classes {
		if names[i] == c.Orig {
			continue
		}
		changed = true
		switch {
		case generatedRe.MatchString(names[i]):
			set["ren=generated-id"] = true
			set["to-generated-id:"+string(c.Kind)] = true
			rl.nonTrivial = true
		case p.isIntern[names[i]]:
			set["ren=internal-name"] = true
			set["to-internal-name:"+string(c.Kind)] = true
			rl.nonTrivial = true
		case p.isKw[strings.ToLower(names[i])]:
			set["ren=sql-keyword"] = true
			set["to-sql-keyword:"+string(c.Kind)] = true
			rl.nonTrivial = true
		default:
			set["ren=benign"] = true
		}
	}
	if !changed {
		set["ren=identity"] = true
	}
	// collisions that the renaming creates
	type pair struct{ a, b int }
	collide := func(nm []string) map[string]bool {
		out := map[string]bool{}
		for i, c := range an.classes {
			for j, d := range an.classes {
				if j <= i {
					continue
				}
				same := nm[i] == nm[j]
				fold := !same && strings.EqualFold(nm[i], nm[j])
				if !same && !fold {
					continue
				}
				ck, dk := c.Kind, d.Kind
				isAlias := func(k classKind) bool { return k == kAlias || k == kRAlias }
				switch {
				case fold:
					out["ren=case-variant"] = true
				case (ck == kParam) != (dk == kParam):
					other := ck
					if ck == kParam {
						other = dk
					}
					if isAlias(other) {
						out["ren=param=alias"] = true
					} else {
						out["ren=param=variable"] = true
					}
				case ck == kParam && dk == kParam:
				case isAlias(ck) != isAlias(dk):
					out["ren=alias=other-scope-variable"] = true
				case ck == kQuant || dk == kQuant:
					out["ren=quantifier-var=other-scope-name"] = true
				default:
					out["ren=same-name-in-two-scopes"] = true
				}
			}
		}
		return out
	}
	before, after := collide(an.origNames()), collide(names)
	for k := range after {
		if !before[k] {
			set[k] = true
			rl.nonTrivial = true
		}
	}
	// the inverse direction: the original had a collision that the renaming removes
	for k := range before {
		if !after[k] {
			set["un"+k] = true
		}
	}
	if !an.admissible(names, sepFlags{strict: true}) && an.admissible(an.origNames(), sepFlags{strict: true}) {
		set["ren=alias-shadows-visible-variable"] = true
		rl.nonTrivial = true
	}
	for k := range set {
		rl.labels = append(rl.labels, k)
	}
	sort.Strings(rl.labels)
	return rl
}

func shapeOf(an *analysis, q *cypher.RegularQuery) string {
	var fs []string
	for f := range an.feats {
		fs = append(fs, f)
	}
	sort.Strings(fs)
	kinds := map[classKind]int{}
	for _, c := range an.classes {
		kinds[c.Kind]++
	}
	var ks []string
	for k, n := range kinds {
		if n > 3 {
			n = 3
		}
		ks = append(ks, fmt.Sprintf("%s%d", k, n))
	}
	sort.Strings(ks)
	parts := 1
	if q.SingleQuery != nil && q.SingleQuery.MultiPartQuery != nil {
		parts += len(q.SingleQuery.MultiPartQuery.Parts)
	}
	return fmt.Sprintf("p%d|%s|%s", parts, strings.Join(fs, ","), strings.Join(ks, ","))
}

func translateNamed(q *cypher.RegularQuery, vals map[string]any) (xlate.Result, error) {
	return xlate.TranslateWith(q, vals, xlate.NewAutoMapper())
}

func oracle(c Case) (evid.Info, error) {
	info := evid.Info{Classes: []string{"src=" + c.Src}}
	q0, err := xlate.Parse(c.Query)
	if err != nil || q0 == nil {
		info.Skip = "parse-error"
		return info, nil
	}
	an0, err := analyse(q0)
	if err != nil {
		info.Skip = "analysis-failed"
		return info, nil
	}
	names := resolveNames(an0, c.Names)
	if !an0.admissible(names, sepFlags{}) {
		info.Skip = "inadmissible-renaming"
		return info, nil
	}
	for i, n := range names {
		if n != an0.classes[i].Orig && !identRe.MatchString(n) {
			info.Skip = "illegal-name"
			return info, nil
		}
	}
	// parameter values, by original and by new name
	vals0, vals1 := map[string]any{}, map[string]any{}
	for _, cl := range an0.classes {
		if cl.Kind == kParam {
			if enc, ok := c.Vals[cl.Orig]; ok {
				vals0[cl.Orig] = decodeVal(enc)
				vals1[names[cl.ID]] = decodeVal(enc)
			}
		}
	}
	r0, err0 := translateNamed(q0, vals0)

	// rho Q, on a fresh model
	q1, _ := xlate.Parse(c.Query)
	an1, err := analyse(q1)
	if err != nil || sameStructure(an0, an1) != nil {
		return info, fmt.Errorf("HARNESS: parsing the same text twice gave different binding structures")
	}
	an1.apply(names)
	// cross-check of the renamer (1): the renamed model has the same binding structure
	an1r, err := analyse(q1)
	if err != nil {
		return info, fmt.Errorf("HARNESS: renamed model cannot be analysed: %v", err)
	}
	if err := sameStructure(an0, an1r); err != nil {
		return info, fmt.Errorf("HARNESS: the renaming changed the binding structure: %v", err)
	}
	r1, err1 := translateNamed(q1, vals1)

	if p, isPanic := err0.(*xlate.Panic); isPanic {
		return info, fmt.Errorf("translation of %q panicked: %v\n%s", c.Query, p.Value, firstFrames(p.Stack))
	}
	text1, ferr := cypherFormat(q1)
	if p, isPanic := err1.(*xlate.Panic); isPanic {
		return info, fmt.Errorf("translation of the renamed query %q (from %q) panicked: %v\n%s", text1, c.Query, p.Value, firstFrames(p.Stack))
	}
	rl := classify(an0, names)
	info.Classes = append(info.Classes, rl.labels...)
	switch {
	case err0 != nil && err1 != nil:
		all := map[string]bool{}
		for i, cl := range an0.classes {
			all[cl.Orig] = true
			all[names[i]] = true
		}
		if m0, m1 := maskNames(err0.Error(), all), maskNames(err1.Error(), all); m0 != m1 {
			return info, fmt.Errorf("both fail, with different errors:\n  Q     %q: %v\n  rho Q %q: %v", c.Query, err0, text1, err1)
		}
		info.Skip = "untranslatable"
		return info, nil
	case err0 == nil && err1 != nil:
		return info, fmt.Errorf("renaming turned a translatable query into an error:\n  Q     %q translates\n  rho Q %q: %v", c.Query, text1, err1)
	case err0 != nil && err1 == nil:
		return info, fmt.Errorf("the query fails only because of how its names are spelled:\n  Q     %q: %v\n  rho Q %q translates", c.Query, err0, text1)
	}

	// cross-check of the renamer (2): emit, re-parse, same structure, same translation
	if ferr != nil {
		info.Skip = "renamed-model-does-not-format"
		return info, nil
	}
	text0, _ := cypherFormat(q0)
	faithful := false
	if q0b, err := xlate.Parse(text0); err == nil {
		if r0b, err := translateNamed(q0b, vals0); err == nil && r0b.SQL == r0.SQL {
			faithful = true
		}
	}
	if faithful {
		q2, err := xlate.Parse(text1)
		if err != nil {
			info.Skip = "renamed-text-does-not-reparse"
			return info, nil
		}
		an2, err := analyse(q2)
		if err != nil {
			info.Skip = "renamed-text-does-not-reparse"
			return info, nil
		}
		if err := sameStructure(an0, an2); err != nil {
			return info, fmt.Errorf("HARNESS: the emitted renamed query %q re-parses to a different binding structure than %q: %v", text1, c.Query, err)
		}
		r2, err := translateNamed(q2, vals1)
		if err != nil {
			return info, fmt.Errorf("the renamed model translates but its own text %q does not: %v", text1, err)
		}
		if r2.SQL != r1.SQL || !reflect.DeepEqual(r2.Params, r1.Params) {
			return info, fmt.Errorf("the renamed model and its re-parsed text %q translate differently:\n  model: %s\n  text:  %s", text1, r1.SQL, r2.SQL)
		}
		info.Classes = append(info.Classes, "crosscheck=reparsed")
	} else {
		info.Classes = append(info.Classes, "crosscheck=skipped(emitter-not-faithful-for-Q)")
	}

	ret := map[string]int{}
	if an0.returnEnv != nil {
		for n, cl := range an0.returnEnv.m {
			ret[n] = cl
		}
	}
	if err := compareSQL(r0.SQL, r1.SQL, ret, names); err != nil {
		// a translation that is not a function of its input is C05's business, not a naming effect
		if qa, e := xlate.Parse(c.Query); e == nil {
			if ra, e := translateNamed(qa, vals0); e == nil && ra.SQL != r0.SQL {
				info.Skip = "nondeterministic-translation"
				return info, nil
			}
		}
		return info, fmt.Errorf("%v\n  Q:          %s\n  rho Q:      %s\n  SQL(Q):     %s\n  SQL(rho Q): %s", err, c.Query, text1, r0.SQL, r1.SQL)
	}
	if !reflect.DeepEqual(r0.Params, r1.Params) {
		return info, fmt.Errorf("emitted parameters differ:\n  Q:     %s -> %v\n  rho Q: %s -> %v", c.Query, r0.Params, text1, r1.Params)
	}
	if err := orderByHazards(r1.SQL); err != nil {
		return info, fmt.Errorf("%v\n  rho Q:      %s\n  SQL(rho Q): %s", err, text1, r1.SQL)
	}
	info.Classes = append(info.Classes, "translated")
	var feats []string
	for f := range an0.feats {
		feats = append(feats, "feat="+f)
	}
	sort.Strings(feats)
	info.Classes = append(info.Classes, feats...)
	if len(r0.Params) > 0 {
		info.Classes = append(info.Classes, "sql-has-parameters")
	}
	info.NonTrivial = rl.nonTrivial
	var adv []string
	for _, l := range rl.labels {
		if strings.HasPrefix(l, "ren=") && l != "ren=benign" && l != "ren=identity" {
			adv = append(adv, l)
		}
	}
	info.Key = shapeOf(an0, q0) + "#" + strings.Join(adv, ",")
	return info, nil
}

func firstFrames(stack string) string {
	lines := strings.Split(stack, "\n")
	var keep []string
	for _, l := range lines {
		if strings.Contains(l, "dawgs/cypher") {
			keep = append(keep, strings.TrimSpace(l))
			if len(keep) >= 6 {
				break
			}
		}
	}
	return "    " + strings.Join(keep, "\n    ")
}

const findingOrderBy = "C06-order-by-alias-unquoted"
const findingShadow = "C06-alias-shadows-visible-variable"

// shadowExcluded: while the finding is open, generators keep every alias apart from the names that
// are visible where the alias is computed (and drop shipped queries that are spelled that way).
func shadowExcluded() bool { return evid.R.KnownOpen(findingShadow) }

const findingLiveness = "C06-symbol-keyed-analyses-ignore-scopes"

// openFlags: the separation rules that the open findings switch on.
func openFlags() sepFlags {
	return sepFlags{strict: shadowExcluded(), symbolLevel: evid.R.KnownOpen(findingLiveness)}
}

const findingAggregate = "C06-aggregate-count-alias-column"

var aggregateAliasCache = map[string]string{}

// aggregateCountAlias returns the count alias of a query to which the aggregate-traversal-count lowering
// applies ("" otherwise), as reported by the translation itself.
func aggregateCountAlias(text string) string {
	if a, ok := aggregateAliasCache[text]; ok {
		return a
	}
	alias := ""
	low := strings.ToLower(text)
	if strings.Contains(low, "count(") && strings.Contains(low, "order by") && strings.Contains(low, "limit") {
		if q, err := xlate.Parse(text); err == nil {
			if res, err := translateNamed(q, nil); err == nil {
				applied := false
				for _, l := range res.Raw.Optimization.Lowerings {
					if l.Name == "AggregateTraversalCount" {
						applied = true
					}
				}
				if plan := res.Raw.Optimization.LoweringPlan; applied && plan != nil && len(plan.AggregateTraversalCount) > 0 {
					alias = plan.AggregateTraversalCount[0].CountAlias
				}
			}
		}
	}
	if len(aggregateAliasCache) < 50000 {
		aggregateAliasCache[text] = alias
	}
	return alias
}

// pinAggregateCountAlias: while the finding is listed as open, the count alias of a query that takes the
// aggregate-traversal-count lowering keeps its spelling (that alias is emitted as a CTE column name, so any
// renaming of it changes tokens outside the result-column positions). Nothing else of the query is excluded.
func pinAggregateCountAlias(text string, an *analysis, names []string) (changed bool) {
	if !evid.R.KnownOpen(findingAggregate) {
		return false
	}
	alias := aggregateCountAlias(text)
	if alias == "" {
		return false
	}
	for i, c := range an.classes {
		if (c.Kind == kAlias || c.Kind == kRAlias) && c.Orig == alias && names[i] != c.Orig {
			names[i] = c.Orig
			changed = true
		}
	}
	if changed {
		// another class may have taken the spelling meanwhile: it gets a fresh name (the pinned class has
		// the lower priority in repair only if it comes later, so move clashing classes explicitly)
		conf := an.conflicts(openFlags())
		for i, c := range an.classes {
			if (c.Kind == kAlias || c.Kind == kRAlias) && c.Orig == alias {
				for j := range conf[i] {
					if names[j] == names[i] {
						names[j] = fmt.Sprintf("r%d_%s", j, an.classes[j].Orig)
					}
				}
			}
		}
	}
	return changed
}

// avoidOrderByHazard: while the ORDER BY finding is listed as open, result columns of a query whose final
// projection is ordered get neither reserved words nor names that differ only by case.
func avoidOrderByHazard(an *analysis, names []string) (changed bool) {
	if !evid.R.KnownOpen(findingOrderBy) || an.returnEnv == nil || !an.feats["order-by"] {
		return false
	}
	seen := map[string]bool{}
	for _, c := range an.returnEnv.classes() {
		low := strings.ToLower(names[c])
		if pgReserved[low] || seen[low] {
			names[c] = fmt.Sprintf("r%d_%s", c, an.classes[c].Orig)
			changed = true
		}
		seen[strings.ToLower(names[c])] = true
	}
	return changed
}

// ---- generators ----

var (
	translatable     []string
	translatableOnce bool
)

// translatableCorpus: the shipped query texts that translate as they are.
func translatableCorpus() []string {
	if !translatableOnce {
		translatableOnce = true
		for _, text := range corpus.Queries() {
			q, err := xlate.Parse(text)
			if err != nil || q == nil {
				continue
			}
			if _, err := translateNamed(q, nil); err != nil {
				continue
			}
			an, err := analyse(q)
			if err != nil || len(an.classes) == 0 {
				continue
			}
			if f := openFlags(); !an.admissible(an.origNames(), f) {
				evid.R.Excluded("corpus")
				continue
			}
			translatable = append(translatable, text)
		}
		evid.R.Extra("corpus_translatable", len(translatable))
	}
	return translatable
}

func flipCase(s string) string {
	for i, r := range s {
		if r >= 'a' && r <= 'z' {
			return s[:i] + strings.ToUpper(string(r)) + s[i+1:]
		}
		if r >= 'A' && r <= 'Z' {
			return s[:i] + strings.ToLower(string(r)) + s[i+1:]
		}
	}
	return s + "X"
}

// repair makes names admissible by giving fresh names to classes (or, for symbol-level renamings, to groups of
// classes that are spelled the same) that clash.
func repair(an *analysis, names []string, f sepFlags) {
	group := make([]int, len(names))
	first := map[string]int{}
	for i, c := range an.classes {
		group[i] = i
		if f.symbolLevel && c.Kind != kParam {
			if j, seen := first[c.Orig]; seen {
				group[i] = j
			} else {
				first[c.Orig] = i
			}
		}
	}
	for i := range names {
		names[i] = names[group[i]]
	}
	conf := an.conflicts(f)
	for pass := 0; pass < 4; pass++ {
		clash := false
		for i := range names {
			for j := range conf[i] {
				if j < i && names[i] == names[j] && group[i] != group[j] {
					g := group[i]
					fresh := fmt.Sprintf("r%d_%s", g, an.classes[g].Orig)
					for k := range names {
						if group[k] == g {
							names[k] = fresh
						}
					}
					clash = true
					break
				}
			}
		}
		if !clash {
			break
		}
	}
}

var howTable = []string{"keep", "generated", "internal", "keyword", "collide", "keep", "generated", "internal", "case", "benign", "collide", "keyword"}

func genNames(t *rapid.T, an *analysis, text string) []string {
	p := getPools()
	names := an.origNames()
	f := openFlags()
	if rapid.IntRange(0, 3).Draw(t, "allowShadow") != 0 {
		f.strict = true
	}
	var gens []string
	for _, n := range p.internal {
		if generatedRe.MatchString(n) {
			gens = append(gens, n)
		}
	}
	for i, c := range an.classes {
		how := rapid.SampledFrom(howTable).Draw(t, "how")
		switch how {
		case "generated":
			names[i] = rapid.SampledFrom(gens).Draw(t, "gen")
		case "internal":
			names[i] = rapid.SampledFrom(p.internal).Draw(t, "int")
		case "keyword":
			names[i] = rapid.SampledFrom(p.keywords).Draw(t, "kw")
		case "benign":
			names[i] = rapid.SampledFrom(p.benign).Draw(t, "ben")
		case "case":
			j := rapid.IntRange(0, len(an.classes)-1).Draw(t, "of")
			if v := flipCase(names[j]); identRe.MatchString(v) {
				names[i] = v
			}
		case "collide":
			// the name of a class from another namespace / scope
			j := rapid.IntRange(0, len(an.classes)-1).Draw(t, "with")
			if j != i && (an.classes[j].Kind == kParam) != (c.Kind == kParam) || j != i && rapid.Bool().Draw(t, "anyScope") {
				if identRe.MatchString(names[j]) {
					names[i] = names[j]
				}
			}
		}
	}
	repair(an, names, f)
	if !an.admissible(names, f) {
		repair(an, names, f)
	}
	if avoidOrderByHazard(an, names) {
		evid.R.Excluded("renaming:order-by-hazard")
	}
	if pinAggregateCountAlias(text, an, names) {
		evid.R.Excluded("renaming:aggregate-count-alias")
	}
	return names
}

func sparse(an *analysis, names []string) []string {
	out := make([]string, len(names))
	for i := range names {
		if names[i] != an.classes[i].Orig {
			out[i] = names[i]
		}
	}
	return out
}

func genCorpus(t *rapid.T) Case {
	qs := translatableCorpus()
	text := qs[rapid.IntRange(0, len(qs)-1).Draw(t, "query")]
	q, _ := xlate.Parse(text)
	an, _ := analyse(q)
	return Case{Src: "corpus", Query: text, Names: sparse(an, genNames(t, an, text))}
}

func TestC06Corpus(t *testing.T) {
	evid.Prop(t, "corpus", evid.R.N(3000, 30000), genCorpus, oracle)
}

// sweep: systematic hostile renamings of every translatable shipped query.
func sweepNames(an *analysis, mode int, text string) []string {
	p := getPools()
	names := an.origNames()
	n := len(an.classes)
	cnt := map[string]int{}
	next := func(prefix string) string {
		// descending, so that the user's n0 is never the translator's n0 for the same binding
		k := cnt[prefix]
		cnt[prefix]++
		return fmt.Sprintf("%s%d", prefix, (n-1-k+n)%(n+1))
	}
	for i, c := range an.classes {
		switch mode {
		case 0: // generated identifiers of the own kind
			switch c.Kind {
			case kNode, kLocal:
				names[i] = next("n")
			case kRel:
				names[i] = next("e")
			case kPath:
				names[i] = next("ep")
			case kParam:
				names[i] = next("pi")
			case kAlias, kRAlias, kUnwind, kQuant:
				names[i] = next("i")
			default:
				names[i] = next("s")
			}
		case 1: // generated identifiers of a foreign kind (frames for nodes, nodes for aliases …)
			switch c.Kind {
			case kNode, kLocal:
				names[i] = next("s")
			case kRel:
				names[i] = next("n")
			case kPath:
				names[i] = next("e")
			case kParam:
				names[i] = next("n")
			default:
				names[i] = next("s")
			}
		case 2: // SQL keywords
			names[i] = p.keywords[(i*7+3)%len(p.keywords)]
		case 3: // expansion / table column names
			cols := []string{"path", "depth", "root_id", "next_id", "satisfied", "is_cycle", "id", "kind_ids", "properties", "start_id", "end_id", "kind_id", "nodes", "edges", "node", "edge", "graph_id"}
			var legal []string
			for _, w := range cols {
				if p.isIntern[w] {
					legal = append(legal, w)
				}
			}
			names[i] = legal[(i*5+1)%len(legal)]
		case 4: // parameters named like variables, aliases named like parameters, case variants
			if c.Kind == kParam {
				for _, d := range an.classes {
					if d.Kind != kParam {
						names[i] = names[d.ID]
						break
					}
				}
			} else if i%2 == 1 {
				if v := flipCase(names[i-1]); identRe.MatchString(v) {
					names[i] = v
				}
			}
		}
	}
	f := openFlags()
	f.strict = true
	repair(an, names, f)
	if !an.admissible(names, f) {
		repair(an, names, f)
	}
	if avoidOrderByHazard(an, names) {
		evid.R.Excluded("sweep:order-by-hazard")
	}
	if pinAggregateCountAlias(text, an, names) {
		evid.R.Excluded("sweep:aggregate-count-alias")
	}
	return names
}

func TestC06Sweep(t *testing.T) {
	if evid.Register(t, "sweep", oracle) {
		return
	}
	evid.R.Extra("exhaustive_sweep_of_shipped_queries", true)
	for _, text := range translatableCorpus() {
		q, _ := xlate.Parse(text)
		an, _ := analyse(q)
		for mode := 0; mode < 5; mode++ {
			c := Case{Src: "sweep", Query: text, Names: sparse(an, sweepNames(an, mode, text)), Note: fmt.Sprintf("mode %d", mode)}
			if !evid.Case(t, "sweep", c, oracle) {
				return
			}
		}
	}
}
