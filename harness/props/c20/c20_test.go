// C20 — corrupt, tampered or hostile dump input is rejected before it can do harm.
//
// Artefacts are small valid dumps (every codec), their plain-tar archives, their HPKE-encrypted
// archives and key files, all produced by DAWGS's own writers. Every case applies one mutation and
// drives the real entry points inside a sandbox directory tree:
//
//	Load(InputDir)                                  dump directory
//	UnpackTar (+ Load of what it extracted)         plain tar        (low-level building block)
//	UnpackEncryptedCollectionArchive                encrypted archive (low-level building block)
//	Unpack / UnpackEncryptedCollectionArchiveFile   encrypted archive (own a destination: staging + promote)
//	Load(ArchiveReader)                             encrypted archive (owns a temp directory)
//
// Which entry point is judged for what (from the code and its documentation): Unpack creates a
// ".<out>.unpack-*.tmp" staging directory next to the destination and promotes it only after
// validation, Load(ArchiveReader) unpacks into a temp directory it removes itself — these two own
// their destination, so "no partial output on failure" is asserted for them. UnpackTar and
// UnpackEncryptedCollectionArchive extract straight into the directory they are handed (Unpack
// points them at its staging directory); they are judged for path safety, for only ever creating
// regular files and directories, and for reporting an error on corruption.
package c20

import (
	"bytes"
	"context"
	"crypto/hpke"
	"crypto/sha256"
	"encoding/hex"
	"encoding/json"
	"fmt"
	"io/fs"
	"log/slog"
	"math/big"
	"os"
	"path/filepath"
	"reflect"
	"sort"
	"strconv"
	"strings"
	"sync"
	"testing"
	"time"

	"github.com/specterops/dawgs/retriever"

	"verif/evid"
	"verif/fakedb"
)

const driverName = "fakedb"

func errorf(format string, args ...any) error { return fmt.Errorf(format, args...) }

func TestMain(m *testing.M) {
	slog.SetDefault(slog.New(slog.DiscardHandler))
	for _, a := range os.Args[1:] {
		// a hand-started native fuzzing session (see FuzzC20) must not overwrite the evidence file
		if strings.HasPrefix(a, "-test.fuzz=") || strings.HasPrefix(a, "-test.fuzzworker") {
			if os.Getenv("VERIF_OUT") == "" {
				_ = os.Setenv("VERIF_OUT", filepath.Join(os.TempDir(), fmt.Sprintf("verif-c20-fuzz-evidence-%d.json", os.Getpid())))
			}
		}
	}
	evid.Main(m, "C20", "fault_enumeration",
		"artefacts: 4 small fakedb graphs (1-2 named graphs, 2-5 nodes, 1-4 relationships, shard size chosen so that phases roll over into 2 fragments) x codec {none,gzip,zstd}, each dumped with retriever.Dump (manifest timestamp pinned through retriever.WriteManifest), packed with WriteCollectionTar and WriteEncryptedCollectionArchive, plus ML-KEM-1024 key files written by WriteArchivePrivateKey/PublicKey. One mutation per case: byte substitution (xor mask != 0) at an offset, truncation to a length, appended garbage, fragment swap/duplication/removal/planted file, tar entry swap/duplication/removal/reorder, encrypted frame reorder/duplication/drop/retype/length edit, one structured manifest edit (counts +-1, digest edits, path -> absolute/parent/volume/backslash, codec and phase swaps, duplicated/dropped/reordered file entries, ...), generated tar streams with hostile entries (absolute, parent, volume, backslash names, symlinks, hard links, devices, FIFOs, directories, duplicates, size lies, PAX/GNU overrides) delivered plain and encrypted, mutated/wrong/malformed keys. Enumerated sweeps: quick = every offset of every file of the smallest dump directory, of its private key file and a strided pass over its tar and encrypted archive (stride phase derived from the seed) + rapid-sampled (artefact, offset) pairs; thorough = every offset of every artefact of every fixture with two masks per offset (one single-bit flip chosen by shard, one seed-derived mask) and every truncation length. Non-trivial = the mutation lands in bytes the reader actually consumes and interprets (dump directory: any manifest or fragment byte; tar: header blocks, payload bytes, the two end-of-archive blocks — not padding after a payload or bytes behind the end marker; encrypted archive: magic, header, frame headers, ciphertext, first appended byte; key file: the JSON envelope up to its closing brace; structured edits, frame edits, hostile streams and key substitutions always). Distinct = (fixture, artefact, mutation kind, offset or field) — the mask value is not part of the key.",
		"fakedb stands in for a DAWGS driver with the PostgreSQL schema's relationship identity (graph,start,end,kind); its mutation log records every node/relationship write",
		"Load is run with VerifyMetrics=false: -verify-metrics is documented as a check performed after the load and is not part of the pre-write rejection the property describes",
		"the manifest, tar framing and key envelopes are not covered by a digest or signature: for them a mutation that DAWGS accepts is tolerated only when the result (loaded graph / unpacked tree / parsed key) is identical to the original; fragment files (SHA-256 + byte count in the manifest) and every byte of an encrypted archive (AEAD, header hash in the AAD, final-frame marker, EOF check) must be rejected on any change",
		"coordinated multi-field forgeries of the unsigned manifest (e.g. dropping a fragment entry and fixing every count and the metrics fingerprint) are outside the domain: nothing in the format can distinguish them from a different, valid dump",
		"entry names are judged with a portable model: a name that escapes the output directory under POSIX or under Windows path rules (backslash separators, drive/volume prefixes, rooted paths) must be rejected; the file system effects are observed on Linux only",
		"encrypted archives are re-created per process (HPKE encapsulation is randomised); their layout (header length, frame boundaries) is deterministic, so a stored (offset, mask) case replays structurally")
}

// ---- scratch space -----------------------------------------------------------------------------

var scratchBase = sync.OnceValue(func() string {
	if d := os.Getenv("VERIF_TMP"); d != "" {
		return d
	}
	if st, err := os.Stat("/dev/shm"); err == nil && st.IsDir() {
		if probe, err := os.MkdirTemp("/dev/shm", "verif-c20-probe-"); err == nil {
			_ = os.Remove(probe)
			return "/dev/shm"
		}
	}
	return os.TempDir()
})

// ---- canonical graphs (copied from props/c18) ---------------------------------------------------

func ratOf(v any) (*big.Rat, bool) {
	switch t := v.(type) {
	case int:
		return new(big.Rat).SetInt64(int64(t)), true
	case int32:
		return new(big.Rat).SetInt64(int64(t)), true
	case int64:
		return new(big.Rat).SetInt64(t), true
	case uint:
		return new(big.Rat).SetUint64(uint64(t)), true
	case uint32:
		return new(big.Rat).SetUint64(uint64(t)), true
	case uint64:
		return new(big.Rat).SetUint64(t), true
	case float32:
		return new(big.Rat).SetString(strconv.FormatFloat(float64(t), 'e', -1, 32))
	case float64:
		return new(big.Rat).SetString(strconv.FormatFloat(t, 'e', -1, 64))
	case json.Number:
		return new(big.Rat).SetString(string(t))
	}
	return nil, false
}

func writeCanon(sb *strings.Builder, v any) {
	if v == nil {
		sb.WriteString("null")
		return
	}
	if r, ok := ratOf(v); ok {
		sb.WriteString("#" + r.RatString())
		return
	}
	switch t := v.(type) {
	case bool:
		sb.WriteString(strconv.FormatBool(t))
		return
	case string:
		sb.WriteString(strconv.Quote(t))
		return
	case map[string]any:
		keys := make([]string, 0, len(t))
		for k := range t {
			keys = append(keys, k)
		}
		sort.Strings(keys)
		sb.WriteString("{")
		for i, k := range keys {
			if i > 0 {
				sb.WriteString(",")
			}
			sb.WriteString(strconv.Quote(k) + ":")
			writeCanon(sb, t[k])
		}
		sb.WriteString("}")
		return
	}
	rv := reflect.ValueOf(v)
	if rv.Kind() == reflect.Slice || rv.Kind() == reflect.Array {
		sb.WriteString("[")
		for i := 0; i < rv.Len(); i++ {
			if i > 0 {
				sb.WriteString(",")
			}
			writeCanon(sb, rv.Index(i).Interface())
		}
		sb.WriteString("]")
		return
	}
	fmt.Fprintf(sb, "?%T(%v)", v, v)
}

func propsCanon(p map[string]any) string {
	if p == nil {
		p = map[string]any{}
	}
	var sb strings.Builder
	writeCanon(&sb, p)
	return sb.String()
}

func sortedCopy(s []string) []string {
	out := append([]string{}, s...)
	sort.Strings(out)
	return out
}

// canonGraph is an isomorphism-invariant rendering of one graph: every node as (kinds, properties),
// every relationship as (kind, properties, start node rendering, end node rendering), sorted. The
// fixtures give every entity a unique uid property, so equal renderings mean isomorphic graphs.
func canonGraph(s fakedb.GraphSnap) []string {
	line := map[uint64]string{}
	var out []string
	for _, n := range s.Nodes {
		l := "N kinds=" + strconv.Quote(strings.Join(sortedCopy(n.Kinds), "\x00")) + " props=" + propsCanon(n.Props)
		line[n.ID] = l
		out = append(out, l)
	}
	for _, e := range s.Edges {
		out = append(out, "E kind="+strconv.Quote(e.Kind)+" props="+propsCanon(e.Props)+" start: "+line[e.Start]+" end: "+line[e.End])
	}
	sort.Strings(out)
	return out
}

// ---- fixtures ----------------------------------------------------------------------------------

type shape struct {
	name  string
	spec  fakedb.Spec
	shard int
}

func nd(id uint64, uid string, kinds []string, extra map[string]any) fakedb.NodeSpec {
	p := map[string]any{"uid": uid}
	for k, v := range extra {
		p[k] = v
	}
	return fakedb.NodeSpec{ID: id, Kinds: kinds, Props: p}
}

func ed(id, s, e uint64, kind, uid string, extra map[string]any) fakedb.EdgeSpec {
	p := map[string]any{"uid": uid}
	for k, v := range extra {
		p[k] = v
	}
	return fakedb.EdgeSpec{ID: id, Start: s, End: e, Kind: kind, Props: p}
}

var shapes = []shape{
	{name: "tiny", shard: 100, spec: fakedb.Spec{Graphs: []fakedb.GraphSpec{{Name: "default",
		Nodes: []fakedb.NodeSpec{nd(1, "n1", []string{"A"}, map[string]any{"name": "alice"}), nd(2, "n2", []string{"A", "B"}, map[string]any{"value": int64(42)})},
		Edges: []fakedb.EdgeSpec{ed(1, 1, 2, "R", "e1", nil)}}}}},
	{name: "sharded", shard: 2, spec: fakedb.Spec{Graphs: []fakedb.GraphSpec{{Name: "default",
		Nodes: []fakedb.NodeSpec{
			nd(5, "n5", []string{"A"}, map[string]any{"name": "héllo ✓", "flag": true}),
			nd(6, "n6", nil, map[string]any{"score": 0.5}),
			nd(9, "n9", []string{"B", "C"}, map[string]any{"tags": []any{"x", "y"}}),
			nd(1<<33, "nbig", []string{"A"}, map[string]any{"value": int64(1<<53 + 1)})},
		Edges: []fakedb.EdgeSpec{
			ed(3, 5, 6, "R", "e3", map[string]any{"w": int64(1)}),
			ed(4, 6, 5, "R", "e4", nil),
			ed(7, 9, 9, "S", "e7", map[string]any{"note": "self loop"})}}}}},
	{name: "twograph", shard: 2, spec: fakedb.Spec{Graphs: []fakedb.GraphSpec{
		{Name: "g1",
			Nodes: []fakedb.NodeSpec{nd(1, "a1", []string{"A"}, nil), nd(2, "a2", []string{"B"}, map[string]any{"k": "v"}), nd(3, "a3", []string{"A"}, nil)},
			Edges: []fakedb.EdgeSpec{ed(1, 1, 2, "R", "ae1", nil), ed(2, 2, 3, "T", "ae2", nil)}},
		{Name: "Graph Two",
			Nodes: []fakedb.NodeSpec{nd(10, "b10", []string{"C"}, map[string]any{"name": "solo"})}}}}},
	{name: "edgeheavy", shard: 3, spec: fakedb.Spec{Graphs: []fakedb.GraphSpec{{Name: "ünï",
		Nodes: []fakedb.NodeSpec{nd(1, "u1", []string{"A"}, nil), nd(2, "u2", []string{"A"}, nil)},
		Edges: []fakedb.EdgeSpec{
			ed(1, 1, 2, "R", "ue1", nil), ed(2, 2, 1, "R", "ue2", nil),
			ed(3, 1, 2, "S", "ue3", map[string]any{"p": "q"}), ed(4, 1, 1, "T", "ue4", nil)}}}}},
	// two graphs of the same outline (same counts per phase): an entry or a fragment of one graph fits the other
	// graph's bookkeeping, only the node ids it mentions belong elsewhere
	{name: "twins", shard: 100, spec: fakedb.Spec{Graphs: []fakedb.GraphSpec{
		{Name: "left",
			Nodes: []fakedb.NodeSpec{nd(1, "l1", []string{"A"}, nil), nd(2, "l2", []string{"B"}, nil)},
			Edges: []fakedb.EdgeSpec{ed(1, 1, 2, "R", "le1", nil)}},
		{Name: "right",
			Nodes: []fakedb.NodeSpec{nd(11, "r11", []string{"A"}, nil), nd(12, "r12", []string{"B"}, nil)},
			Edges: []fakedb.EdgeSpec{ed(5, 11, 12, "R", "re5", nil)}}}}},
}

var codecs = []string{"none", "gzip", "zstd"}

// nFixtures: fixture index = shape*len(codecs) + codec. Fixture 0 (tiny/none) is the smallest.
var nFixtures = len(shapes) * len(codecs)

type span struct{ lo, hi int } // [lo,hi)

type tarEntrySpan struct {
	name              string
	header, data, pad span
}

type frameSpan struct {
	typ  byte
	head span // 5 bytes
	body span
}

type fixture struct {
	idx    int
	name   string
	codec  string
	graphs []string            // graph names in dump order
	canon  map[string][]string // graph name -> canonical rendering
	files  map[string][]byte   // relative slash path -> bytes ("manifest.json" + fragments)
	order  []string            // manifest.json first, then fragments in manifest order
	man    retriever.Manifest
	tar    []byte
	tarEnt []tarEntrySpan
	tarEnd span // the two end-of-archive blocks
	enc    []byte
	encHdr span // magic + length + header JSON
	frames []frameSpan
}

type keyring struct {
	priv      hpke.PrivateKey
	pub       hpke.PublicKey
	privFile  []byte
	pubFile   []byte
	wrong     []hpke.PrivateKey
	privBytes []byte
}

var keys = sync.OnceValue(func() *keyring {
	kem := retriever.DefaultArchiveKEM()
	mk := func(tag byte) hpke.PrivateKey {
		seed := sha256.Sum256([]byte{'c', '2', '0', tag})
		seed2 := sha256.Sum256(seed[:])
		k, err := kem.NewPrivateKey(append(seed[:], seed2[:]...))
		if err != nil {
			panic(fmt.Sprintf("c20: cannot derive ML-KEM key: %v", err))
		}
		return k
	}
	kr := &keyring{priv: mk(0)}
	kr.pub = kr.priv.PublicKey()
	kr.wrong = []hpke.PrivateKey{mk(1), mk(2), mk(3)}
	var b bytes.Buffer
	if err := retriever.WriteArchivePrivateKey(&b, kr.priv); err != nil {
		panic(err)
	}
	kr.privFile = append([]byte(nil), b.Bytes()...)
	b.Reset()
	if err := retriever.WriteArchivePublicKey(&b, kr.pub); err != nil {
		panic(err)
	}
	kr.pubFile = append([]byte(nil), b.Bytes()...)
	kr.privBytes, _ = kr.priv.Bytes()
	return kr
})

var (
	fixMu    sync.Mutex
	fixCache = map[int]*fixture{}
)

func getFixture(i int) *fixture {
	fixMu.Lock()
	defer fixMu.Unlock()
	if f := fixCache[i]; f != nil {
		return f
	}
	f, err := buildFixture(i)
	if err != nil {
		panic("c20 harness: cannot build fixture: " + err.Error())
	}
	fixCache[i] = f
	return f
}

var pinnedTime = time.Date(2026, 9, 25, 12, 0, 0, 0, time.UTC)

func buildFixture(i int) (*fixture, error) {
	sh, codec := shapes[i/len(codecs)], codecs[i%len(codecs)]
	fx := &fixture{idx: i, name: sh.name + "/" + codec, codec: codec, canon: map[string][]string{}, files: map[string][]byte{}}
	ctx := context.Background()
	src, err := fakedb.FromSpec(sh.spec)
	if err != nil {
		return nil, err
	}
	root, err := os.MkdirTemp(scratchBase(), "verif-c20-fix-")
	if err != nil {
		return nil, err
	}
	defer os.RemoveAll(root)
	dir := filepath.Join(root, "dump")
	var targets []retriever.GraphTarget
	for _, g := range sh.spec.Graphs {
		targets = append(targets, retriever.GraphTarget{Name: g.Name})
		fx.graphs = append(fx.graphs, g.Name)
		fx.canon[g.Name] = canonGraph(src.Snapshot(g.Name))
	}
	res, err := retriever.Dump(ctx, src, driverName, targets, retriever.DumpOptions{
		OutputDir: dir, Scrub: retriever.ScrubNone, Compression: retriever.CompressionCodec(codec),
		ZstdLevel: retriever.DefaultZstdLevel, ShardSize: sh.shard, BatchSize: 2,
	})
	if err != nil {
		return nil, fmt.Errorf("dump: %w", err)
	}
	// pin the only non-deterministic manifest field, through DAWGS's own manifest writer
	man := res.Manifest
	man.GeneratedAt = pinnedTime
	if err := retriever.WriteManifest(dir, man); err != nil {
		return nil, fmt.Errorf("rewrite manifest: %w", err)
	}
	if fx.man, err = retriever.ReadManifest(dir); err != nil {
		return nil, err
	}
	fx.order = []string{retriever.ManifestFileName}
	for _, g := range fx.man.Graphs {
		for _, f := range g.Files {
			fx.order = append(fx.order, f.Path)
		}
	}
	for _, rel := range fx.order {
		b, err := os.ReadFile(filepath.Join(dir, filepath.FromSlash(rel)))
		if err != nil {
			return nil, err
		}
		fx.files[rel] = b
	}
	if u := src.Unsupported(); len(u) > 0 {
		return nil, fmt.Errorf("fakedb unsupported during dump: %s", u[0])
	}
	var tb bytes.Buffer
	if err := retriever.WriteCollectionTar(&tb, dir); err != nil {
		return nil, fmt.Errorf("tar: %w", err)
	}
	fx.tar = append([]byte(nil), tb.Bytes()...)
	if err := fx.indexTar(); err != nil {
		return nil, err
	}
	var eb bytes.Buffer
	if err := retriever.WriteEncryptedCollectionArchive(&eb, dir, keys().pub); err != nil {
		return nil, fmt.Errorf("encrypt: %w", err)
	}
	fx.enc = append([]byte(nil), eb.Bytes()...)
	if err := fx.indexEnc(); err != nil {
		return nil, err
	}
	return fx, nil
}

// indexTar records header / payload / padding spans of the (USTAR, regular files only) archive.
func (fx *fixture) indexTar() error {
	off := 0
	for off+512 <= len(fx.tar) {
		blk := fx.tar[off : off+512]
		if bytes.Equal(blk, make([]byte, 512)) {
			break
		}
		name := strings.TrimRight(string(blk[0:100]), "\x00")
		if p := strings.TrimRight(string(blk[345:500]), "\x00"); p != "" {
			name = p + "/" + name
		}
		size, err := strconv.ParseInt(strings.Trim(string(blk[124:136]), " \x00"), 8, 64)
		if err != nil {
			return fmt.Errorf("index tar: size field of %q: %w", name, err)
		}
		padded := (int(size) + 511) / 512 * 512
		fx.tarEnt = append(fx.tarEnt, tarEntrySpan{name: name, header: span{off, off + 512}, data: span{off + 512, off + 512 + int(size)}, pad: span{off + 512 + int(size), off + 512 + padded}})
		off += 512 + padded
	}
	fx.tarEnd = span{off, len(fx.tar)}
	if fx.tarEnd.hi-fx.tarEnd.lo != 1024 || len(fx.tarEnt) != len(fx.order) {
		return fmt.Errorf("index tar: unexpected layout (%d entries, %d trailing bytes)", len(fx.tarEnt), fx.tarEnd.hi-fx.tarEnd.lo)
	}
	return nil
}

const encMagic = "RTRV-PQ-ARCHIVE-v1"

func (fx *fixture) indexEnc() error {
	b := fx.enc
	if !bytes.HasPrefix(b, []byte(encMagic)) {
		return fmt.Errorf("index enc: magic")
	}
	p := len(encMagic)
	hl := int(b[p])<<24 | int(b[p+1])<<16 | int(b[p+2])<<8 | int(b[p+3])
	p += 4 + hl
	fx.encHdr = span{0, p}
	for p < len(b) {
		if p+5 > len(b) {
			return fmt.Errorf("index enc: short frame header")
		}
		n := int(b[p+1])<<24 | int(b[p+2])<<16 | int(b[p+3])<<8 | int(b[p+4])
		if p+5+n > len(b) {
			return fmt.Errorf("index enc: short frame")
		}
		fx.frames = append(fx.frames, frameSpan{typ: b[p], head: span{p, p + 5}, body: span{p + 5, p + 5 + n}})
		p += 5 + n
	}
	if len(fx.frames) < 2 || fx.frames[len(fx.frames)-1].typ != 1 {
		return fmt.Errorf("index enc: no final frame")
	}
	return nil
}

// ---- sandbox -----------------------------------------------------------------------------------

// sandbox is the directory tree around one requested output directory:
//
//	root/outside.txt            sentinel two levels above the output directory
//	root/tmp/                   TMPDIR during the case (Load's archive temp directory lives here)
//	root/box/sentinel.txt       sentinel next to the output directory
//	root/box/sibling/...        pre-existing sibling directory with files
//	root/box/out                the requested output directory (absent unless populated)
type sandbox struct {
	root, box, out, tmp string
	before              map[string]string
	oldTmp              string
	hadTmp              bool
}

func newSandbox() (*sandbox, error) {
	root, err := os.MkdirTemp(scratchBase(), "verif-c20-")
	if err != nil {
		return nil, err
	}
	sb := &sandbox{root: root, box: filepath.Join(root, "box"), tmp: filepath.Join(root, "tmp")}
	sb.out = filepath.Join(sb.box, "out")
	for _, d := range []string{sb.box, sb.tmp, filepath.Join(sb.box, "sibling", "sub")} {
		if err := os.MkdirAll(d, 0o755); err != nil {
			return nil, err
		}
	}
	for p, c := range map[string]string{
		filepath.Join(root, "outside.txt"):                  "outside sentinel",
		filepath.Join(sb.box, "sentinel.txt"):               "box sentinel",
		filepath.Join(sb.box, "sibling", "keep.txt"):        "sibling file",
		filepath.Join(sb.box, "sibling", "sub", "deep.txt"): "deep sibling file",
		filepath.Join(sb.box, "sibling", "manifest.json"):   "{\"not\":\"a manifest\"}",
	} {
		if err := os.WriteFile(p, []byte(c), 0o644); err != nil {
			return nil, err
		}
	}
	sb.oldTmp, sb.hadTmp = os.LookupEnv("TMPDIR")
	_ = os.Setenv("TMPDIR", sb.tmp)
	return sb, nil
}

// seal records the state of everything but the output directory; called once the case's inputs
// (dump directory, archive file) have been written into the sandbox.
func (sb *sandbox) seal() { sb.before = snapTree(sb.root, sb.out, sb.tmp) }

func (sb *sandbox) close() {
	if sb.hadTmp {
		_ = os.Setenv("TMPDIR", sb.oldTmp)
	} else {
		_ = os.Unsetenv("TMPDIR")
	}
	_ = os.RemoveAll(sb.root)
}

// snapTree renders every entry below root (not following links) except the subtrees in skip.
func snapTree(root string, skip ...string) map[string]string {
	out := map[string]string{}
	_ = filepath.WalkDir(root, func(p string, d fs.DirEntry, err error) error {
		if err != nil {
			out[p] = "error: " + err.Error()
			return nil
		}
		for _, s := range skip {
			if p == s {
				if d.IsDir() {
					return filepath.SkipDir
				}
				return nil
			}
		}
		rel, _ := filepath.Rel(root, p)
		info, err := d.Info()
		if err != nil {
			out[rel] = "error: " + err.Error()
			return nil
		}
		switch {
		case info.Mode().IsDir():
			out[rel] = "dir"
		case info.Mode().IsRegular():
			b, err := os.ReadFile(p)
			if err != nil {
				out[rel] = "unreadable file: " + err.Error()
				return nil
			}
			sum := sha256.Sum256(b)
			out[rel] = fmt.Sprintf("file %d %s", len(b), hex.EncodeToString(sum[:8]))
		case info.Mode()&os.ModeSymlink != 0:
			t, _ := os.Readlink(p)
			out[rel] = "symlink -> " + t
		default:
			out[rel] = "special " + info.Mode().Type().String()
		}
		return nil
	})
	return out
}

func diffTrees(before, after map[string]string) string {
	var msgs []string
	for p, v := range before {
		if w, ok := after[p]; !ok {
			msgs = append(msgs, "removed "+p+" ("+v+")")
		} else if w != v {
			msgs = append(msgs, "changed "+p+": "+v+" => "+w)
		}
	}
	for p, w := range after {
		if _, ok := before[p]; !ok {
			msgs = append(msgs, "created "+p+" ("+w+")")
		}
	}
	sort.Strings(msgs)
	if len(msgs) > 6 {
		msgs = append(msgs[:6], fmt.Sprintf("… %d more", len(msgs)-6))
	}
	return strings.Join(msgs, "; ")
}

// outside checks that nothing but the output directory (and the transient TMPDIR) changed, and
// that TMPDIR is empty again.
func (sb *sandbox) outside(what string) error {
	if d := diffTrees(sb.before, snapTree(sb.root, sb.out, sb.tmp)); d != "" {
		return fmt.Errorf("%s changed the file system outside the requested output directory: %s", what, d)
	}
	ents, err := os.ReadDir(sb.tmp)
	if err != nil {
		return fmt.Errorf("%s: temp directory root vanished: %v", what, err)
	}
	if len(ents) > 0 {
		return fmt.Errorf("%s left %q behind in the temp directory", what, ents[0].Name())
	}
	return nil
}

// readOut renders the output directory: relative slash path -> content for regular files; any
// other kind of entry (symlink, device, FIFO, socket) is reported as an error.
func (sb *sandbox) readOut() (map[string][]byte, bool, error) {
	if _, err := os.Lstat(sb.out); os.IsNotExist(err) {
		return nil, false, nil
	}
	files := map[string][]byte{}
	var bad error
	var dirs []string
	err := filepath.WalkDir(sb.out, func(p string, d fs.DirEntry, err error) error {
		if err != nil {
			return err
		}
		info, err := d.Info()
		if err != nil {
			return err
		}
		rel, _ := filepath.Rel(sb.out, p)
		rel = filepath.ToSlash(rel)
		switch {
		case info.Mode().IsDir():
			if rel != "." {
				dirs = append(dirs, rel)
			}
		case info.Mode().IsRegular():
			b, err := os.ReadFile(p)
			if err != nil {
				return err
			}
			files[rel] = b
		default:
			if bad == nil {
				bad = fmt.Errorf("output directory contains %q of type %s — only regular files and directories may ever be created", rel, info.Mode().Type())
			}
		}
		return nil
	})
	if err != nil {
		return nil, true, err
	}
	// a directory that is not the parent of any file is content of its own (an archive extended with
	// directory entries leaves such directories behind): it is reported as an entry "<dir>/"
	for _, d := range dirs {
		implied := false
		for f := range files {
			if strings.HasPrefix(f, d+"/") {
				implied = true
				break
			}
		}
		if !implied {
			files[d+"/"] = []byte("<directory>")
		}
	}
	return files, true, bad
}

var oldContent = map[string][]byte{"old.txt": []byte("keep me"), "olddir/nested.txt": []byte("old nested"), "manifest.json": []byte("{\"old\":true}")}

// prepareOut puts the output directory into the named state: absent | empty | old.
func (sb *sandbox) prepareOut(state string) error {
	if err := os.RemoveAll(sb.out); err != nil {
		return err
	}
	switch state {
	case "absent":
		return nil
	case "empty":
		return os.Mkdir(sb.out, 0o755)
	case "old":
		return writeTree(sb.out, oldContent)
	}
	return fmt.Errorf("c20: bad destination state %q", state)
}

func writeTree(dir string, files map[string][]byte) error {
	if err := os.MkdirAll(dir, 0o755); err != nil {
		return err
	}
	for rel, b := range files {
		p := filepath.Join(dir, filepath.FromSlash(rel))
		if err := os.MkdirAll(filepath.Dir(p), 0o755); err != nil {
			return err
		}
		if err := os.WriteFile(p, b, 0o600); err != nil {
			return err
		}
	}
	return nil
}

func sameFiles(a, b map[string][]byte) string {
	var names []string
	for k := range a {
		names = append(names, k)
	}
	for k := range b {
		if _, ok := a[k]; !ok {
			names = append(names, k)
		}
	}
	sort.Strings(names)
	for _, k := range names {
		x, okx := a[k]
		y, oky := b[k]
		switch {
		case !okx:
			return "unexpected file " + k
		case !oky:
			return "missing file " + k
		case !bytes.Equal(x, y):
			return fmt.Sprintf("file %s differs (%d vs %d bytes)", k, len(x), len(y))
		}
	}
	return ""
}

// ---- Load judgement ----------------------------------------------------------------------------

type expectation int

const (
	lenient    expectation = iota // success tolerated only with an identical result
	mustReject                    // any success is a violation
	mustAccept                    // unmodified input: failure is a harness error / violation
	// selfConsistent: a whole manifest entry was exchanged for another genuine one (path, hash, sizes and count move
	// together). A plain directory's manifest is not authenticated, so such a dump cannot be told from a genuine one
	// and a success says nothing; what the property still demands is that a failure comes before the first write.
	selfConsistent
)

// judgeLoad runs Load into an empty fakedb and applies the Load half of the oracle.
// Returns "rejected" or "accepted".
func judgeLoad(fx *fixture, what string, opts retriever.LoadOptions, exp expectation, why string) (string, string, error) {
	db := fakedb.New()
	opts.BatchSize = 2
	_, err := retriever.Load(context.Background(), db, driverName, opts)
	if u := db.Unsupported(); len(u) > 0 {
		return "", "fakedb unsupported: " + u[0], nil
	}
	if err != nil {
		if n := db.WriteCount(); n != 0 || len(db.Mutations()) != 0 {
			return "", "", fmt.Errorf("%s: Load failed (%v) after %d node/relationship writes reached the database (first: %+v)", what, err, len(db.Mutations()), db.Mutations()[0])
		}
		if exp == mustAccept {
			return "", "", fmt.Errorf("%s: Load rejects unmodified input: %v", what, err)
		}
		return "rejected", "", nil
	}
	if exp == mustReject {
		return "", "", fmt.Errorf("%s: Load succeeded (%d writes) although %s", what, db.WriteCount(), why)
	}
	if exp == selfConsistent {
		return "accepted", "", nil
	}
	want := map[string]bool{}
	for _, g := range fx.graphs {
		want[g] = true
		if got := canonGraph(db.Snapshot(g)); !reflect.DeepEqual(got, fx.canon[g]) {
			return "", "", fmt.Errorf("%s: Load succeeded but graph %q is not the dumped graph:\n  dumped: %s\n  loaded: %s", what, g, strings.Join(fx.canon[g], " | "), strings.Join(got, " | "))
		}
	}
	for _, g := range db.GraphNames() {
		if n, e := db.Counts(g); !want[g] && (n > 0 || e > 0) {
			return "", "", fmt.Errorf("%s: Load succeeded and wrote %d nodes / %d relationships into graph %q which is not in the dump", what, n, e, g)
		}
	}
	return "accepted", "", nil
}
