package c20

import (
	"bytes"
	"encoding/json"
	"fmt"
	"path/filepath"
	"sort"
	"strings"
	"testing"

	"pgregory.net/rapid"

	"github.com/specterops/dawgs/retriever"

	"verif/evid"
)

// ManifestCase: one structured edit of manifest.json (a single value changed, or one entry
// duplicated / dropped / moved — never a coordinated multi-section forgery), delivered as a dump
// directory, as a plain tar and as an encrypted archive.
type ManifestCase struct {
	Fix  int    `json:"fix"`
	Kind string `json:"kind"`
	G    int    `json:"g"`            // graph index
	F    int    `json:"f"`            // file index within the graph
	F2   int    `json:"f2,omitempty"` // second file index
	N    int    `json:"n,omitempty"`  // delta / position
	S    string `json:"s,omitempty"`  // replacement string
	Dest string `json:"dest"`
}

var manifestKinds = []string{
	"graph.node_count", "graph.edge_count", "file.count", "file.count+graph", "file.compressed_bytes", "file.uncompressed_bytes", "source.graph_count",
	"sha.flip", "sha.upper", "sha.truncate", "sha.empty", "sha.of-other", "sha.swap",
	"path.set", "path.of-other",
	"compression", "file.phase",
	"file.dup", "file.drop", "file.swap", "file.from-other-graph", "file.from-other-graph", "graph.dup", "graph.drop", "graph.rename",
	"format", "id_strategy", "scrub.mode", "metrics.drop", "metrics.fingerprint", "metrics.node_count", "schema.drop-graph", "schema.add-kind",
	"reencode.compact", "reencode.keycase", "json.trailing", "json.truncate-brace",
}

// pathEdits: {P} = the original path, {ROOT} = sandbox root. box/in always holds a pristine copy
// of the dump, so "../in/{P}" and "{ROOT}/box/in/{P}" name an existing, valid fragment outside
// the directory being read.
var pathEdits = []string{
	"{ROOT}/box/in/{P}", "/{P}", "{ROOT}/nowhere/{P}",
	"../in/{P}", "../nowhere/{P}", "../{P}", "graphs/../{P}", "x/../../in/{P}",
	"C:{P}", "C:/{P}", "c:\\{P}",
	"{BS}", "..\\in\\{BS}", "\\{BS}",
	"./{P}", "{P}/", "{P} ", " {P}", "", "manifest.json", "graphs", "{P}.missing",
}

func pathClass(tpl string) string {
	switch {
	case strings.HasPrefix(tpl, "{ROOT}"), strings.HasPrefix(tpl, "/"):
		return "absolute"
	case strings.HasPrefix(tpl, "C:"), strings.HasPrefix(tpl, "c:"):
		return "volume"
	case strings.Contains(tpl, "\\"), tpl == "{BS}":
		return "backslash"
	case strings.Contains(tpl, ".."):
		return "parent"
	}
	return "other"
}

type jmap = map[string]any

func num(v any) int64 {
	n, _ := v.(json.Number).Int64()
	return n
}

func otherHex(c byte, n int) byte {
	const hexd = "0123456789abcdef"
	i := strings.IndexByte(hexd, c)
	return hexd[(i+1+n%15)%16]
}

// applyManifestEdit returns the edited manifest bytes.
func applyManifestEdit(c ManifestCase, fx *fixture, root string) ([]byte, string, error) {
	orig := fx.files[retriever.ManifestFileName]
	dec := json.NewDecoder(bytes.NewReader(orig))
	dec.UseNumber()
	var m jmap
	if err := dec.Decode(&m); err != nil {
		return nil, "", fmt.Errorf("harness: %w", err)
	}
	graphs := m["graphs"].([]any)
	if c.G < 0 || c.G >= len(graphs) {
		return nil, "", fmt.Errorf("c20: fixture %s has no graph %d", fx.name, c.G)
	}
	g := graphs[c.G].(jmap)
	files, _ := g["files"].([]any)
	file := func(i int) (jmap, error) {
		if i < 0 || i >= len(files) {
			return nil, fmt.Errorf("c20: graph %d of fixture %s has no file %d", c.G, fx.name, i)
		}
		return files[i].(jmap), nil
	}
	bump := func(o jmap, key string, d int) { o[key] = json.Number(fmt.Sprint(num(o[key]) + int64(d))) }
	label := c.Kind
	raw := []byte(nil)
	switch c.Kind {
	case "graph.node_count", "graph.edge_count":
		bump(g, strings.TrimPrefix(c.Kind, "graph."), c.N)
	case "file.count", "file.compressed_bytes", "file.uncompressed_bytes":
		f, err := file(c.F)
		if err != nil {
			return nil, "", err
		}
		bump(f, strings.TrimPrefix(c.Kind, "file."), c.N)
	case "file.count+graph":
		f, err := file(c.F)
		if err != nil {
			return nil, "", err
		}
		bump(f, "count", c.N)
		if f["phase"] == "nodes" {
			bump(g, "node_count", c.N)
		} else {
			bump(g, "edge_count", c.N)
		}
	case "source.graph_count":
		bump(m["source"].(jmap), "graph_count", c.N)
	case "sha.flip", "sha.upper", "sha.truncate", "sha.empty", "sha.of-other", "sha.swap":
		f, err := file(c.F)
		if err != nil {
			return nil, "", err
		}
		sha := f["sha256"].(string)
		switch c.Kind {
		case "sha.flip":
			p := ((c.N % len(sha)) + len(sha)) % len(sha)
			b := []byte(sha)
			b[p] = otherHex(b[p], c.F2)
			f["sha256"] = string(b)
		case "sha.upper":
			f["sha256"] = strings.ToUpper(sha)
			if f["sha256"] == sha {
				f["sha256"] = sha + " "
			}
		case "sha.truncate":
			f["sha256"] = sha[:len(sha)-1]
		case "sha.empty":
			f["sha256"] = ""
		default:
			f2, err := file(c.F2)
			if err != nil {
				return nil, "", err
			}
			if c.Kind == "sha.swap" {
				f["sha256"], f2["sha256"] = f2["sha256"], sha
			} else {
				f["sha256"] = f2["sha256"]
			}
		}
	case "path.set":
		f, err := file(c.F)
		if err != nil {
			return nil, "", err
		}
		p := f["path"].(string)
		s := strings.ReplaceAll(c.S, "{BS}", strings.ReplaceAll(p, "/", "\\"))
		s = strings.ReplaceAll(s, "{P}", p)
		f["path"] = expandRoot(s, root)
		label = "path." + pathClass(c.S)
	case "path.of-other":
		f, err := file(c.F)
		if err != nil {
			return nil, "", err
		}
		f2, err := file(c.F2)
		if err != nil {
			return nil, "", err
		}
		f["path"] = f2["path"]
	case "compression":
		m["compression"] = c.S
	case "file.phase":
		f, err := file(c.F)
		if err != nil {
			return nil, "", err
		}
		switch c.S {
		case "swap":
			if f["phase"] == "nodes" {
				f["phase"] = "edges"
			} else {
				f["phase"] = "nodes"
			}
		default:
			f["phase"] = c.S
		}
	case "file.dup":
		f, err := file(c.F)
		if err != nil {
			return nil, "", err
		}
		files = append(files[:c.F+1:c.F+1], append([]any{f}, files[c.F+1:]...)...)
		g["files"] = files
	case "file.from-other-graph":
		// the whole entry (path, hash, sizes, count, phase) of a fragment of the NEXT graph takes the place of this one
		if _, err := file(c.F); err != nil {
			return nil, "", err
		}
		if len(graphs) < 2 {
			return orig, label, nil // (the oracle skips an unchanged manifest)
		}
		ofiles, _ := graphs[(c.G+1)%len(graphs)].(jmap)["files"].([]any)
		if len(ofiles) == 0 {
			return orig, label, nil
		}
		pick := ofiles[((c.F2%len(ofiles))+len(ofiles))%len(ofiles)]
		// prefer the entry of the same phase
		for _, of := range ofiles {
			if of.(jmap)["phase"] == files[c.F].(jmap)["phase"] {
				pick = of
			}
		}
		files[c.F] = pick
	case "file.drop":
		if _, err := file(c.F); err != nil {
			return nil, "", err
		}
		g["files"] = append(files[:c.F:c.F], files[c.F+1:]...)
	case "file.swap":
		if _, err := file(c.F); err != nil {
			return nil, "", err
		}
		if _, err := file(c.F2); err != nil {
			return nil, "", err
		}
		files[c.F], files[c.F2] = files[c.F2], files[c.F]
	case "graph.dup":
		m["graphs"] = append(graphs, g)
	case "graph.drop":
		m["graphs"] = append(graphs[:c.G:c.G], graphs[c.G+1:]...)
	case "graph.rename":
		g["name"] = g["name"].(string) + "-renamed"
	case "format":
		m["format"] = "retriever-jsonl-collection-v2"
	case "id_strategy":
		m["id_strategy"] = "position"
	case "scrub.mode":
		m["scrub"].(jmap)["mode"] = c.S
	case "metrics.drop":
		delete(m, "metrics")
	case "metrics.fingerprint", "metrics.node_count":
		met, ok := m["metrics"].(jmap)
		if !ok {
			return nil, "", fmt.Errorf("harness: fixture manifest has no metrics")
		}
		mg := met["graphs"].([]any)[c.G].(jmap)
		if c.Kind == "metrics.node_count" {
			bump(mg, "node_count", c.N)
		} else {
			fp := []byte(mg["fingerprint"].(string))
			fp[len(fp)-1] = otherHex(fp[len(fp)-1], 0)
			mg["fingerprint"] = string(fp)
		}
	case "schema.drop-graph":
		sc := m["schema"].(jmap)
		sg := sc["graphs"].([]any)
		sc["graphs"] = append(sg[:c.G:c.G], sg[c.G+1:]...)
	case "schema.add-kind":
		sg := m["schema"].(jmap)["graphs"].([]any)[c.G].(jmap)
		nk, _ := sg["node_kinds"].([]any)
		sg["node_kinds"] = append(nk, "Planted")
	case "reencode.compact":
	case "reencode.keycase":
		up := jmap{}
		for k, v := range m {
			up[strings.ToUpper(k)] = v
		}
		m = up
	case "json.trailing":
		raw = append(append([]byte(nil), orig...), []byte("{}\n")...)
	case "json.truncate-brace":
		raw = bytes.TrimRight(orig, "}\n ")
	default:
		return nil, "", fmt.Errorf("c20: unknown manifest edit %q", c.Kind)
	}
	if raw != nil {
		return raw, label, nil
	}
	var out []byte
	var err error
	if c.Kind == "reencode.compact" {
		out, err = json.Marshal(m)
	} else {
		out, err = json.MarshalIndent(m, "", "  ")
	}
	if err != nil {
		return nil, "", fmt.Errorf("harness: %w", err)
	}
	return append(out, '\n'), label, nil
}

func manifestOracle(c ManifestCase) (evid.Info, error) {
	info := evid.Info{Key: fmt.Sprintf("%d/%s/%d/%d/%d/%d/%s", c.Fix, c.Kind, c.G, c.F, c.F2, c.N, c.S)}
	if c.Fix < 0 || c.Fix >= nFixtures {
		return info, fmt.Errorf("c20: no fixture %d", c.Fix)
	}
	fx := getFixture(c.Fix)
	sb, err := newSandbox()
	if err != nil {
		return info, fmt.Errorf("harness: %w", err)
	}
	defer sb.close()
	edited, label, err := applyManifestEdit(c, fx, sb.root)
	if err != nil {
		return info, err
	}
	if bytes.Equal(edited, fx.files[retriever.ManifestFileName]) {
		info.Skip = "edit leaves the manifest unchanged"
		return info, nil
	}
	files := map[string][]byte{}
	for k, b := range fx.files {
		files[k] = b
	}
	files[retriever.ManifestFileName] = edited

	pristine := filepath.Join(sb.box, "in") // a valid copy next to every directory that gets read
	victim := filepath.Join(sb.box, "dump") // the directory with the edited manifest
	if err := writeTree(pristine, fx.files); err != nil {
		return info, fmt.Errorf("harness: %w", err)
	}
	if err := writeTree(victim, files); err != nil {
		return info, fmt.Errorf("harness: %w", err)
	}
	// archives: the edited manifest plus the fragments under their original names, sorted
	names := append([]string(nil), fx.order...)
	sort.Strings(names)
	var entries []TarEntry
	for _, n := range names {
		entries = append(entries, TarEntry{Name: n, Type: "reg", Data: files[n]})
	}
	stream := buildTar(entries, fx, sb.root, 2)
	var enc bytes.Buffer
	w, err := retriever.NewEncryptedArchiveWriter(&enc, keys().pub)
	if err != nil {
		return info, fmt.Errorf("harness: %w", err)
	}
	if _, err := w.Write(stream); err != nil {
		return info, fmt.Errorf("harness: %w", err)
	}
	if err := w.Close(); err != nil {
		return info, fmt.Errorf("harness: %w", err)
	}
	archivePath := filepath.Join(sb.root, "archive.tar.pq")
	if err := writeTree(sb.root, map[string][]byte{"archive.tar.pq": enc.Bytes()}); err != nil {
		return info, fmt.Errorf("harness: %w", err)
	}
	sb.seal()

	var v verdicts
	wrap := func(err error) error {
		return fmt.Errorf("fixture %s, manifest edit %s (graph %d file %d/%d n=%d s=%q): %w", fx.name, label, c.G, c.F, c.F2, c.N, c.S, err)
	}
	exp := lenient
	if c.Kind == "file.from-other-graph" {
		exp = selfConsistent
	}
	if err := runDir(fx, sb, victim, exp, "", &v); err != nil {
		return info, wrap(err)
	}
	if err := runTar(fx, sb, stream, c.Dest, tarExpect{files: files, original: true, load: exp}, &v); err != nil {
		return info, wrap(err)
	}
	if err := runEnc(fx, sb, archivePath, enc.Bytes(), keys().priv, c.Dest, exp, "", files, &v); err != nil {
		return info, wrap(err)
	}
	if v.skip != "" {
		info.Skip = v.skip
		return info, nil
	}
	info.NonTrivial = true
	info.Classes = append([]string{"codec=" + fx.codec, "edit=" + label, "dest=" + c.Dest}, v.list()...)
	for _, cl := range v.list() {
		if strings.HasPrefix(cl, "Load") || strings.HasPrefix(cl, "staged") {
			info.Classes = append(info.Classes, "edit="+label+"/"+cl)
		}
	}
	return info, nil
}

func genManifestCase(t *rapid.T) ManifestCase {
	c := ManifestCase{Fix: rapid.IntRange(0, nFixtures-1).Draw(t, "fix"), Kind: rapid.SampledFrom(manifestKinds).Draw(t, "kind")}
	if rapid.IntRange(0, 2).Draw(t, "more_paths") == 0 {
		c.Kind = "path.set" // 22 path spellings behind one kind
	}
	fx := getFixture(c.Fix)
	c.G = rapid.IntRange(0, len(fx.man.Graphs)-1).Draw(t, "g")
	nf := len(fx.man.Graphs[c.G].Files)
	if nf == 0 { // a graph without fragments: use the first graph for file edits
		c.G = 0
		nf = len(fx.man.Graphs[0].Files)
	}
	c.F = rapid.IntRange(0, nf-1).Draw(t, "f")
	c.F2 = rapid.IntRange(0, nf-1).Draw(t, "f2")
	c.N = rapid.SampledFrom([]int{1, -1}).Draw(t, "n")
	switch c.Kind {
	case "sha.flip":
		c.N = rapid.IntRange(0, 63).Draw(t, "pos")
	case "path.set":
		c.S = rapid.SampledFrom(pathEdits).Draw(t, "path")
	case "compression":
		c.S = rapid.SampledFrom([]string{"none", "gzip", "zstd", "", "bogus", "GZIP"}).Draw(t, "codec")
	case "file.phase":
		c.S = rapid.SampledFrom([]string{"swap", "swap", "bogus", ""}).Draw(t, "phase")
	case "scrub.mode":
		c.S = rapid.SampledFrom([]string{"full", "bogus", ""}).Draw(t, "scrub")
	}
	c.Dest = rapid.SampledFrom(destStates).Draw(t, "dest")
	return c
}

func TestC20Manifest(t *testing.T) {
	evid.Prop(t, "manifest_edit", evid.R.N(2000, 6000), genManifestCase, manifestOracle)
}
